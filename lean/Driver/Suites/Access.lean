import Driver.Util
import SaModel.Read.Access
/- suite `access` (C13): histories over the real `Deserializer`, mirrored step by step -/
namespace Driver.Suites.Access
open Lean Driver SaModel SaModel.Access

/-- a request of the harness: one model operation, or a PROVIDED `Iterator` method, which std defines through `next`
(`nth(n)` = `n + 1` calls of `next`, the last one's result; `count()` = calls of `next` until `None`, the number of
items; the harness calls `count` / `last` BY VALUE and refills the slot with an exhausted iterator) and which is therefore replayed on the model as that many `iterNext` steps — the iterator is fused, so
calls after the end change nothing -/
inductive Req where
  | one (op : Op)
  | nth (k n : Nat)
  | count (k : Nat)
  | last (k : Nat)          -- provided `Iterator::last`: calls of `next` until `None`, the last item seen
  | collectRev              -- a fresh iterator collected, the items deserialized afterwards in reverse order
  | top (how : String)      -- the `Deserializer` itself through one `serde::Deserializer` method

/-- the methods of `impl serde::Deserializer for Deserializer` that present the records as a sequence (deserializer.rs:
`deserialize_seq`, `_tuple`, `_tuple_struct`, `_any`, `_newtype_struct`); `ignored` consumes them; all others refuse -/
def topIsSeq (how : String) : Bool := ["seq", "tuple", "tuple_struct", "any", "newtype"].contains how

def parseOp (j : Json) : Except String Op := do
  let k ← getStr j "op"
  match k with
  | "len" => pure .len
  | "is_empty" => pure .isEmpty
  | "get" => pure (.get (← getNat j "i"))
  | "iter_new" => pure .iterNew
  | "iter_next" => pure (.iterNext (← getNat j "k"))
  | "iter_hint" => pure (.iterHint (← getNat j "k"))
  | "bulk" => pure .bulk
  | _ => throw s!"unknown op {k}"

def parseReq (j : Json) : Except String Req := do
  match (← getStr j "op") with
  | "iter_nth" => pure (.nth (← getNat j "k") (← getNat j "n"))
  | "iter_count" => pure (.count (← getNat j "k"))
  | "iter_last" => pure (.last (← getNat j "k"))
  | "collect_rev" => pure .collectRev
  | "top" => pure (.top (← getStr j "how"))
  | _ => pure (.one (← parseOp j))

def Req.name : Req → String
  | .one op => match op with
    | .len => "len" | .isEmpty => "is_empty" | .get _ => "get" | .iterNew => "iter_new"
    | .iterNext _ => "iter_next" | .iterHint _ => "iter_hint" | .bulk => "bulk"
  | .nth _ _ => "iter_nth"
  | .count _ => "iter_count"
  | .last _ => "iter_last"
  | .collectRev => "collect_rev"
  | .top how => s!"top:{if topIsSeq how then how else if how == "ignored" then how else "refused"}"

/-- the model operations a request stands for (`len` bounds the `count` replay: `len + 1` calls reach the end) -/
def Req.expand (len : Nat) : Req → List Op
  | .one op => [op]
  | .nth k n => List.replicate (n + 1) (.iterNext k)
  | .count k | .last k => List.replicate (len + 1) (.iterNext k)
  | .collectRev => [.bulk]            -- reading every item of a fresh iterator = the bulk read, here in reverse
  | .top how => if topIsSeq how then [.bulk] else []

/-- fold the outputs of the expansion back into the one output the request has -/
def Req.collapse : Req → List Out → Out
  | .one _, outs => outs.headD .unit
  | .nth _ _, outs => outs.getLastD .unit
  | .count _, outs =>
    if outs.any (fun o => match o with | .noSuchIter => true | _ => false) then .noSuchIter
    else .n (outs.filter (fun o => match o with | .item (some _) => true | _ => false)).length
  | .last _, outs =>
    if outs.any (fun o => match o with | .noSuchIter => true | _ => false) then .noSuchIter
    else ((outs.filter (fun o => match o with | .item (some _) => true | _ => false)).getLast?).getD (.item none)
  | .collectRev, outs => match outs.headD .unit with
    | .items l => .items l.reverse
    | o => o
  | .top how, outs =>
    if topIsSeq how then outs.headD .unit
    else if how == "ignored" then .unit
    else .b true                      -- "was refused with an error"

def collapseAll (len : Nat) : List Req → List Out → List Out
  | [], _ => []
  | r :: rs, outs =>
    let k := (r.expand len).length
    r.collapse (outs.take k) :: collapseAll len rs (outs.drop k)

def opName : Op → String
  | .len => "len" | .isEmpty => "is_empty" | .get _ => "get" | .iterNew => "iter_new"
  | .iterNext _ => "iter_next" | .iterHint _ => "iter_hint" | .bulk => "bulk"

/-- render a model/spec output the way the harness renders the implementation's -/
def outJson (rows : Array Json) : Out → Json
  | .n x => Json.mkObj [("n", x)]
  | .b x => Json.mkObj [("b", x)]
  | .item none => Json.mkObj [("item", Json.null)]
  | .item (some i) => Json.mkObj [("item", rows.getD i (Json.str "<no such row>"))]
  | .hint lo hi => Json.mkObj [("hint", Json.arr #[lo, match hi with | some h => (h : Json) | none => Json.null])]
  | .items l => Json.mkObj [("items", Json.arr (l.map fun i => rows.getD i (Json.str "<no such row>")).toArray)]
  | .unit => Json.mkObj [("unit", true)]
  | .noSuchIter => Json.mkObj [("no_such_iter", true)]

def firstDiff (ops : List Req) (a b : List Json) : Option (Nat × Req) :=
  let rec go : Nat → List Req → List Json → List Json → Option (Nat × Req)
    | _, [], _, _ => none
    | i, op :: ops, x :: xs, y :: ys => if x == y then go (i + 1) ops xs ys else some (i, op)
    | i, op :: _, _, _ => some (i, op)
  go 0 ops a b

def handle (j : Json) : Except String Verdict := do
  let nfields ← getNat j "nfields"
  let lens ← (← getArr j "view_lens").toList.mapM fun x => x.getNat?
  let ctor ← getObj j "ctor"
  let rows ← getArr j "rows"
  let model := Access.new true nfields lens
  let cls := implCls ctor
  -- specification of the constructor (theorem ctor_checks): ok iff counts agree and one length
  let specOk := lens.length == nfields && lens.all (· == lens.headD 0)
  let specCtor := if specOk then cls == "ok" else cls == "err"
  if model.cls != cls then
    return { agree := false, spec := [("C13", if specCtor then "pass" else "fail"), ("C16", if cls == "panic" then "fail" else "pass")],
             sig := s!"C13/ctor/model={model.cls}/impl={cls}/count_eq={lens.length == nfields}",
             why := s!"constructor: model {model.cls}, implementation {cls}" }
  match model with
  | .error _ => return { agree := true, spec := [("C13", if specCtor then "pass" else "fail"), ("C16", "pass")], tags := ["ctor-err"] }
  | .ok len =>
    let implLen ← getNat ctor "ok"
    let ops ← (← getArr j "ops").toList.mapM parseReq
    let impl := (← getArr j "impl").toList
    let flat := ops.flatMap (Req.expand len)
    let modelOuts := (collapseAll len ops (Access.run { len, iters := [] } flat)).map (outJson rows)
    let specOuts := (collapseAll len ops (Access.specRun len [] flat)).map (outJson rows)
    let tags := (ops.map Req.name).eraseDups
    if implLen != len || rows.size != len then
      return { agree := false, spec := [("C13", "fail")], sig := "C13/len", why := s!"len: model {len}, impl {implLen}, rows {rows.size}" }
    let c16 := if impl.any (fun o => (o.getObjVal? "panic").isOk) then "fail" else "pass"
    let dModel := firstDiff ops modelOuts impl
    let dSpec := firstDiff ops specOuts impl
    let specV := match dSpec with | none => "pass" | some _ => "fail"
    match dModel with
    | none => return { agree := impl.length == ops.length, spec := [("C13", specV), ("C16", c16)], tags := tags,
                       sig := if impl.length == ops.length then "" else "C13/op-count" }
    | some (i, op) =>
      return { agree := false, spec := [("C13", specV), ("C16", c16)], tags := tags,
               sig := s!"C13/{op.name}",
               why := s!"op #{i} {op.name}: model {modelOuts.getD i Json.null}, impl {impl.getD i Json.null}" }

end Driver.Suites.Access
