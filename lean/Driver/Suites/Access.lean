import Driver.Util
import SaModel.Read.Access
/- suite `access` (C13): histories over the real `Deserializer`, mirrored step by step -/
namespace Driver.Suites.Access
open Lean Driver SaModel SaModel.Access

def parseOp (j : Json) : Except String Op := do
  let k ← getStr j "op"
  match k with
  | "len" => pure .len
  | "is_empty" => pure .isEmpty
  | "get" => pure (.get (← getNat j "i"))
  | "iter_new" => pure .iterNew
  | "iter_next" => pure (.iterNext (← getNat j "k"))
  | "iter_hint" => pure (.iterHint (← getNat j "k"))
  | "bulk" => pure .bulk
  | _ => throw s!"unknown op {k}"

def opName : Op → String
  | .len => "len" | .isEmpty => "is_empty" | .get _ => "get" | .iterNew => "iter_new"
  | .iterNext _ => "iter_next" | .iterHint _ => "iter_hint" | .bulk => "bulk"

/-- render a model/spec output the way the harness renders the implementation's -/
def outJson (rows : Array Json) : Out → Json
  | .n x => Json.mkObj [("n", x)]
  | .b x => Json.mkObj [("b", x)]
  | .item none => Json.mkObj [("item", Json.null)]
  | .item (some i) => Json.mkObj [("item", rows.getD i (Json.str "<no such row>"))]
  | .hint lo hi => Json.mkObj [("hint", Json.arr #[lo, match hi with | some h => (h : Json) | none => Json.null])]
  | .items l => Json.mkObj [("items", Json.arr (l.map fun i => rows.getD i (Json.str "<no such row>")).toArray)]
  | .unit => Json.mkObj [("unit", true)]
  | .noSuchIter => Json.mkObj [("no_such_iter", true)]

def firstDiff (ops : List Op) (a b : List Json) : Option (Nat × Op) :=
  let rec go : Nat → List Op → List Json → List Json → Option (Nat × Op)
    | _, [], _, _ => none
    | i, op :: ops, x :: xs, y :: ys => if x == y then go (i + 1) ops xs ys else some (i, op)
    | i, op :: _, _, _ => some (i, op)
  go 0 ops a b

def handle (j : Json) : Except String Verdict := do
  let nfields ← getNat j "nfields"
  let lens ← (← getArr j "view_lens").toList.mapM fun x => x.getNat?
  let ctor ← getObj j "ctor"
  let rows ← getArr j "rows"
  let model := Access.new true nfields lens
  let cls := implCls ctor
  -- specification of the constructor (theorem ctor_checks): ok iff counts agree and one length
  let specOk := lens.length == nfields && lens.all (· == lens.headD 0)
  let specCtor := if specOk then cls == "ok" else cls == "err"
  if model.cls != cls then
    return { agree := false, spec := [("C13", if specCtor then "pass" else "fail"), ("C16", if cls == "panic" then "fail" else "pass")],
             sig := s!"C13/ctor/model={model.cls}/impl={cls}/count_eq={lens.length == nfields}",
             why := s!"constructor: model {model.cls}, implementation {cls}" }
  match model with
  | .error _ => return { agree := true, spec := [("C13", if specCtor then "pass" else "fail"), ("C16", "pass")], tags := ["ctor-err"] }
  | .ok len =>
    let implLen ← getNat ctor "ok"
    let ops ← (← getArr j "ops").toList.mapM parseOp
    let impl := (← getArr j "impl").toList
    let modelOuts := (Access.run { len, iters := [] } ops).map (outJson rows)
    let specOuts := (Access.specRun len [] ops).map (outJson rows)
    let tags := (ops.map opName).eraseDups
    if implLen != len || rows.size != len then
      return { agree := false, spec := [("C13", "fail")], sig := "C13/len", why := s!"len: model {len}, impl {implLen}, rows {rows.size}" }
    let dModel := firstDiff ops modelOuts impl
    let dSpec := firstDiff ops specOuts impl
    let specV := match dSpec with | none => "pass" | some _ => "fail"
    match dModel with
    | none => return { agree := impl.length == ops.length, spec := [("C13", specV), ("C16", "pass")], tags := tags,
                       sig := if impl.length == ops.length then "" else "C13/op-count" }
    | some (i, op) =>
      return { agree := false, spec := [("C13", specV), ("C16", "pass")], tags := tags,
               sig := s!"C13/{opName op}",
               why := s!"op #{i} {opName op}: model {modelOuts.getD i Json.null}, impl {impl.getD i Json.null}" }

end Driver.Suites.Access
