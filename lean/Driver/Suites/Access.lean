import Driver.ReadCheck
import SaModel.Read.Cast
import SaModel.Read.AccessVal
import SaModel.Backend.Adapters
/- suite `access` (C13): histories over the real `Deserializer`, mirrored step by step on `SaModel/Read/AccessVal.lean`.

agree    : the model (`AccessVal.Deser.new` behind the constructor used — `Backend.Deserializer.fromArrow` … with the
           identity conversions on the wire form — and `AccessVal.step`) reproduces the constructor outcome and every output.
spec C13 : (1) the constructor succeeds iff counts agree, all views have one length and the root reader can be built
           (`ctor_order`), and reports that length; (2) every output equals the abstract sequence's (`AccessVal.specStep`:
           call counters only) evaluated with `Roundtrip.readRecord t fields arrs i` (`item_value`); (3) the generator's
           rows: `Spec.decodeAt` of every dumped view equals the rows the generator laid out, and wherever `cast` of
           the row into the operation's target defines a value, the yielded item is that value.
spec C16 : no operation unwinds. -/
namespace Driver.Suites.Access
open Lean Driver SaModel SaModel.Read SaModel.AccessVal

/-- a request of the harness: an operation of the model, or the `Deserializer` itself through one `serde::Deserializer`
method -/
inductive Req where
  | op (o : AccessVal.Op)
  | top (how : String)

/-- the methods of `impl serde::Deserializer for Deserializer` that present the records as a sequence (deserializer.rs:
`deserialize_seq`, `_tuple`, `_tuple_struct`, `_any`, `_newtype_struct`); `ignored` consumes them; all others refuse -/
def topIsSeq (how : String) : Bool := ["seq", "tuple", "tuple_struct", "any", "newtype"].contains how

def parseReq (j : Json) : Except String Req := do
  let ty : Except String Target := do targetOfJson (← getObj j "ty")
  match (← getStr j "op") with
  | "len" => pure (.op .len)
  | "is_empty" => pure (.op .isEmpty)
  | "get" => pure (.op (.get (← getNat j "i") (← ty)))
  | "iter_new" => pure (.op .iterNew)
  | "iter_next" => pure (.op (.iterNext (← getNat j "k") (← ty)))
  | "iter_nth" => pure (.op (.iterNth (← getNat j "k") (← getNat j "n") (← ty)))
  | "iter_count" => pure (.op (.iterCount (← getNat j "k")))
  | "iter_last" => pure (.op (.iterLast (← getNat j "k") (← ty)))
  | "iter_hint" => pure (.op (.iterHint (← getNat j "k")))
  | "bulk" => pure (.op (.bulk (← ty)))
  | "collect_rev" => pure (.op (.collectRev (← ty)))
  | "top" => pure (.top (← getStr j "how"))
  | k => throw s!"unknown op {k}"

def Req.name : Req → String
  | .op o => match o with
    | .len => "len" | .isEmpty => "is_empty" | .get _ _ => "get" | .iterNew => "iter_new"
    | .iterNext _ _ => "iter_next" | .iterNth _ _ _ => "iter_nth" | .iterCount _ => "iter_count"
    | .iterLast _ _ => "iter_last" | .iterHint _ => "iter_hint" | .bulk _ => "bulk" | .collectRev _ => "collect_rev"
  | .top how => s!"top:{if topIsSeq how then how else if how == "ignored" then how else "refused"}"

def Req.target : Req → Option Target
  | .op (.get _ t) | .op (.iterNext _ t) | .op (.iterNth _ _ t) | .op (.iterLast _ t) | .op (.bulk t)
  | .op (.collectRev t) => some t
  | _ => none

/-- the model operation a request is replayed as (`top`: the sequence methods are the bulk read of `deserialize_any`
records, `ignored` the bulk read of ignored ones; the refusing methods touch nothing) -/
def Req.modelOp : Req → Option AccessVal.Op
  | .op o => some o
  | .top how => if topIsSeq how then some (.bulk .any) else if how == "ignored" then some (.bulk .ignored) else none

/-- what one side (model or specification) says an output must be -/
inductive Want where
  | out (o : AccessVal.Out)
  | ignoredOk (r : R (List DVal))      -- `IgnoredAny::deserialize(deserializer)`: unit when every record can be skipped
  | refused                            -- must be an error

inductive Cmp where
  | agree
  | na
  | differ (why : String)

def Cmp.and : Cmp → Cmp → Cmp
  | .differ w, _ => .differ w
  | _, .differ w => .differ w
  | .na, _ => .na
  | _, .na => .na
  | _, _ => .agree

def cmpOutcome (r : R DVal) (impl : Json) : Cmp :=
  if outcomeAgrees r impl then .agree
  else .differ s!"expected {(outcomeJson r).compress.take 300}, implementation {impl.compress.take 300}"

def seqOutcome (r : R (List DVal)) : R DVal := r.map fun xs => .seq (DVals.ofList xs)

def cmpWant (w : Want) (impl : Json) : Cmp :=
  let key (k : String) : Option Json := match impl.getObjVal? k with | .ok v => some v | _ => none
  let plain (j : Json) : Cmp := if impl == j then .agree else .differ s!"expected {j.compress}, implementation {impl.compress.take 300}"
  match w with
  | .out (.n x) => plain (Json.mkObj [("n", x)])
  | .out (.b x) => plain (Json.mkObj [("b", x)])
  | .out .unit => plain (Json.mkObj [("unit", true)])
  | .out .noSuchIter => plain (Json.mkObj [("no_such_iter", true)])
  | .out (.hint lo hi) => plain (Json.mkObj [("hint", Json.arr #[lo, match hi with | some h => (h : Json) | none => Json.null])])
  | .out (.item none) => plain (Json.mkObj [("item", Json.null)])
  | .out (.item (some r)) =>
    match key "item" with
    | some .null => .differ "expected an item, implementation has none"
    | some o => cmpOutcome r o
    | none => .differ s!"expected an item, implementation {impl.compress.take 300}"
  | .out (.items r) =>
    match key "items" with
    | some o => cmpOutcome (seqOutcome r) o
    | none => .differ s!"expected a sequence outcome, implementation {impl.compress.take 300}"
  | .out (.each l) =>
    match key "each" with
    | some (.arr a) =>
      if a.size != l.length then .differ s!"expected {l.length} items, implementation {a.size}"
      else (l.zip a.toList).foldl (fun acc (r, o) => acc.and (cmpOutcome r o)) .agree
    | _ => .differ s!"expected a list of items, implementation {impl.compress.take 300}"
  | .ignoredOk r =>
    match key "items" with
    | some o =>
      (match r with
       | .ok _ => if o == Json.mkObj [("ok", "unit")] then .agree else .differ s!"expected unit, implementation {o.compress.take 300}"
       | .error (.panic _) => if implCls o == "panic" then .agree else .differ "expected a panic"
       | .error _ => if implCls o == "err" then .agree else .differ s!"expected an error, implementation {o.compress.take 300}")
    | none => .differ s!"expected an outcome, implementation {impl.compress.take 300}"
  | .refused =>
    match key "items" with
    | some o => if implCls o == "err" then .agree else .differ s!"the method must refuse, implementation {o.compress.take 300}"
    | none => .differ s!"expected an outcome, implementation {impl.compress.take 300}"

/-- what the generator's rows say about one record read into `t`: `cast` of the decoded slot -/
def rowClaim (root : Arr) (t : Target) (i : Nat) : Claim :=
  match Spec.decodeAt root i with
  | .ok lv => if utf8Ok lv then cast t root lv else na
  | .error _ => na

/-- compare a claim with an outcome of the implementation: only DEFINED values are demanded here (that a value without
an exact representation must fail is C05's content and has known findings there) -/
def cmpClaim (c : Claim) (o : Json) : Cmp :=
  match c with
  | .ok (some d) =>
    match o.getObjVal? "ok" with
      | .ok j => if dvalMatches d j then .agree
                 else .differ s!"rows say {(dvalToJson d).compress.take 300}, implementation {j.compress.take 300}"
      | _ => .differ s!"rows say {(dvalToJson d).compress.take 300}, implementation {o.compress.take 300}"
  | _ => .na

def cmpRows (root : Arr) (sym : SymOut) (impl : Json) : Cmp :=
  let key (k : String) : Option Json := match impl.getObjVal? k with | .ok v => some v | _ => none
  match sym with
  | .item (some (t, i)) =>
    (match key "item" with
     | some .null => .differ "rows have this record, implementation has no item"
     | some o => cmpClaim (rowClaim root t i) o
     | none => .na)
  | .items t l =>
    (match key "items" with
     | some o =>
       let c : Claim := match claimList (l.map (rowClaim root t)) with
         | .ok (some ds) => must (.seq (DVals.ofList ds))
         | .ok none => na
         | .error e => .error e
       cmpClaim c o
     | none => .na)
  | .each t l =>
    (match key "each" with
     | some (.arr a) => (l.zip a.toList).foldl (fun acc (i, o) => acc.and (cmpClaim (rowClaim root t i) o)) .agree
     | _ => .na)
  | _ => .na

def core : Backend.Core Unit Unit Deser Unit :=
  { newOuter := fun _ => .ok (), serialize := fun _ _ => .ok (), takeArrays := fun _ => .ok ([], ()),
    deserializerNew := Deser.new, deserialize := fun _ => .ok () }

/-- the constructor the case went through (marrow's conversions are the identity on the wire form) -/
def construct (via : String) (fields : List Field) (arrs : List Arr) : R Deser :=
  match via with
  | "arrow" => Backend.Deserializer.fromArrow core Backend.Conv.id fields arrs
  | "record_batch" => Backend.Deserializer.fromRecordBatch core Backend.Conv.id { fields, schemaMetadata := [], columns := arrs }
  | "arrow2" => Backend.Deserializer.fromArrow2 core Backend.Conv.id fields arrs
  | _ => Backend.Deserializer.fromMarrow core fields arrs

structure Acc where
  agree : Bool := true
  c13 : String := "pass"
  c16 : String := "pass"
  sig : String := ""
  why : String := ""
  tags : List String := []

def Acc.note (a : Acc) (sig why : String) : Acc :=
  if a.sig == "" then { a with sig := sig, why := why } else a

def handle (j : Json) : Except String Verdict := do
  if let some s := getOpt j "skip" then
    return { agree := true, spec := [("C13", "na")], tags := ["trivial", "skip"], why := s.compress }
  let via ← getStr j "via"
  let nfields ← getNat j "nfields"
  let cols := (← getArr j "cols").toList
  let arrs ← (← getArr j "views").toList.mapM arrOfJson
  let colFms ← cols.mapM fun c => do fmetaOfJson (← getObj c "field")
  let fms := (colFms ++ (List.range (nfields - colFms.length)).map fun k =>
    ({ name := s!"x{colFms.length + k}", nullable := false, metadata := [] } : FieldMeta)).take nfields
  let fields : List Field := fms.map fun fm => Field.mk fm.name .null fm.nullable fm.metadata
  let ctor ← getObj j "ctor"
  let cls := implCls ctor
  let kinds := (arrs.map arrKind).eraseDups
  let mut acc : Acc := { tags := [s!"via:{via}", s!"cols:{arrs.length}"] ++ kinds.map (s!"kind:{·}") ++
    (if cols.any (fun c => (getOpt c "slice").isSome) then ["sliced"] else []) }
  -- the generator's rows, column by column: `Spec.decodeAt` of the dumped view = what the generator laid out
  for (c, a) in cols.zip arrs do
    let rows := (← getArr c "rows").toList
    let rows := match getOpt c "slice" with
      | some (.arr #[o, l]) => (rows.drop (o.getNat?.toOption.getD 0)).take (l.getNat?.toOption.getD 0)
      | _ => rows
    if vlen a != rows.length then
      return { agree := false, spec := [("C13", "na")], sig := s!"C13/oracle/len/{arrKind a}",
               why := s!"view length {vlen a}, generator rows {rows.length}" }
    let mut i := 0
    for row in rows do
      let dec := match Spec.decodeAt a i with
        | .ok lv => lvalToJson lv
        | .error _ => Json.str "<decode error>"
      if dec != row then
        return { agree := false, spec := [("C13", "na")], sig := s!"C13/oracle/spec-vs-generator/{arrKind a}",
                 why := s!"row {i}: Spec.decode {dec.compress.take 300}, generator {row.compress.take 300}" }
      i := i + 1
  -- constructor: model, and specification (theorem ctor_order)
  let model := construct via fields arrs
  let len0 := firstLen arrs
  let specOk := arrs.length == fields.length && arrs.all (vlen · == len0) &&
    (Read.new Fixes.all (Roundtrip.rootArr fields arrs len0)).isOk
  let lensShape := if arrs.length != fields.length then "count" else if !arrs.all (vlen · == len0) then
      (if len0 == 0 then "lengths-zero-first" else "lengths") else "readers"
  let specCtor := if specOk then cls == "ok" && (ctor.getObjValAs? Nat "ok").toOption == some len0 else cls == "err"
  let c16 := if cls == "panic" then "fail" else "pass"
  if model.cls != cls || !specCtor then
    return { agree := model.cls == cls, spec := [("C13", if specCtor then "pass" else "fail"), ("C16", c16)],
             sig := s!"C13/ctor/{via}/{lensShape}/model={model.cls}/impl={cls}", tags := acc.tags,
             why := s!"constructor {via} on {arrs.length} arrays of lengths {arrs.map vlen}, {fields.length} fields: model {model.cls}, specification {if specOk then "ok" else "err"}, implementation {ctor.compress.take 200}" }
  match model with
  | .error _ => return { agree := true, spec := [("C13", "pass"), ("C16", "pass")], tags := acc.tags ++ ["ctor-err", s!"ctor-err:{lensShape}"] }
  | .ok d =>
    let reqs ← (← getArr j "ops").toList.mapM parseReq
    let impls := (← getArr j "impl").toList
    let root := d.root
    let read : Target → Nat → R DVal := fun t i => Roundtrip.readRecord t fields arrs i
    let mut st : AccessVal.St := []
    let mut calls : Access.SpecSt := []
    let mut k := 0
    let mut readsOf : List (Nat × String) := []      -- (index, target kind) of the items read so far
    for (req, impl) in reqs.zip impls do
      if (impl.getObjVal? "panic").isOk then
        acc := ({ acc with c16 := "fail", c13 := "fail", agree := false }).note s!"C13/panic/{req.name}" s!"op #{k} {req.name}: {impl.compress.take 300}"
        break
      let mut mWant : Want := .refused
      let mut sWant : Want := .refused
      let mut sym : SymOut := .unit
      if let some o := req.modelOp then
        let (st', mo) := AccessVal.step d st o
        let (calls', so) := AccessVal.specStep d.len calls o
        let wrap (x : AccessVal.Out) : Want := match req, x with
          | .top "ignored", .items r => .ignoredOk r
          | _, x => .out x
        mWant := wrap mo
        sWant := wrap (so.eval read)
        sym := so
        st := st'
        calls := calls'
      acc := { acc with tags := req.name :: acc.tags }
      if let some t := req.target then acc := { acc with tags := s!"target:{targetKind t}" :: acc.tags }
      -- repeated reads of one index with another target / through another path
      if let .item (some (t, i)) := sym then
        if readsOf.any (fun (i', tk) => i' == i && tk != targetKind t) then
          acc := { acc with tags := "reread-other-target" :: acc.tags }
        else if readsOf.any (fun (i', _) => i' == i) then
          acc := { acc with tags := "reread" :: acc.tags }
        readsOf := (i, targetKind t) :: readsOf
      match cmpWant mWant impl with
      | .agree => pure ()
      | .na => pure ()     -- (`cmpWant` never answers `.na`: the constructor serves `cmpRows` / `cmpClaim` only)
      | .differ why => acc := ({ acc with agree := false }).note s!"C13/{req.name}" s!"op #{k} {req.name} (model): {why}"
      match cmpWant sWant impl with
      | .agree => pure ()
      | .na => pure ()
      | .differ why => acc := ({ acc with c13 := "fail" }).note s!"C13/{req.name}" s!"op #{k} {req.name} (specification): {why}"
      match (match req with | .top "ignored" => Cmp.na | _ => cmpRows root sym impl) with
      | .agree => acc := { acc with tags := "rows-checked" :: acc.tags }
      | .na => pure ()
      | .differ why => acc := ({ acc with c13 := "fail" }).note s!"C13/rows/{req.name}" s!"op #{k} {req.name} (generator rows): {why}"
      k := k + 1
    if impls.length != reqs.length && acc.sig == "" then
      acc := ({ acc with agree := false }).note "C13/op-count" s!"{reqs.length} operations, {impls.length} outputs"
    return { agree := acc.agree, spec := [("C13", acc.c13), ("C16", acc.c16)], sig := acc.sig, why := acc.why,
             tags := acc.tags.eraseDups }

end Driver.Suites.Access
