import Driver.Util
import Driver.SchemaJson
import Driver.SValJson
import Driver.ArrJson
import Driver.Suites.Build
import Driver.Suites.Hist
import SaModel.Build.Guarded
import SaModel.Backend.Adapters
import SaModel.Backend.BuildCore
import SaModel.Backend.History
import SaModel.Build.Finish
import SaModel.Spec.Decode
import SaModel.Spec.Interp
/-
suite `backend` (C19): one schema, one list of records, every entry point of the three back ends.

  spec C19 (the property, decided on what the implementation returned; no operational model involved):
    (a) every path has the outcome class of `to_marrow` — except where the schema holds a data type the back
        end does not offer (documented gap table below, tagged `gap:<type>`);
    (b) `Spec.decodeAll` of every path's arrays equals that of the marrow arrays, column by column;
    (c) every reader entry point returns the same `Dump` for every back end's arrays — ten keys of `de`: `marrow`,
        `d_marrow`, `arrow`, `d_arrow`, `arrow_refs`, `batch`, `d_batch`, `batch_parts`, `arrow2`, `d_arrow2` (those present
        in the case; tag `read:<class>:<number present>`);
    (c') a reader given a different number of fields and arrays refuses, in every family (`de_mismatch`);
    (d) a record batch carries exactly the given fields (name, type, nullability, metadata — compared as
        `SaModel.Field` values), no schema metadata, one column per field, the pushed number of rows.
    The paths of (a), (b), (d): the four one-shot functions, four straight `ArrayBuilder` paths (`b_*`), the crossed ones
    (`x:<from>><to>`) and the REUSED builders (`reuse:<from>><first>><to>`: rows, a first build, the same rows again, the
    build that is compared) of `cross_out`.
    top       (`top`, `top_out`) the same rows as another top-level `items` value (29 forms, harness `TOP_FORMS`) through the
              one-shot functions and the `Serializer` wrapper (borrowed / owned builder): same accept / refuse and same
              logical content as `to_marrow` on that value (outside the gap table) — C19; where a form is accepted the arrays
              are physically those of the plain sequence, a value that is no collection of records is refused — C10
              (`ArrayBuilder::extend` included).
    fail_hist one builder per finisher: the rows pushed one by one with a refused record in the middle (`bad`, `bad_at`), a
              build, another push, another build, every outcome recorded.  C19: the four finishers agree operation by
              operation; C10: no build succeeds on a builder in which a push failed; C16: no panic after a failed push;
              C03: every build that returns arrays returns one array per field, each of exactly the number of rows pushed
              successfully since the previous successful build (columns of a field holding a `FixedSizeBinary(0)` skipped:
              known finding C03-fixed-size-binary-0, decided by the build suite) and, through `to_marrow` on a schema
              without `FixedSizeBinary(0)`, `Spec.WF` of its field.  This clause is ALL the suite decides for C03: arrow-rs
              `validate_full` and `data_type()` of the arrow / arrow2 outputs are read by the build suite
              (`Driver.Suites.Build.backendC03`), not here.
    C10 / C03 are `pass` only for a case in which one of these clauses was judged: C10 = `na` (tag `c10-na`) without a `top`
    form the clause applies to and without a build after a failed push; C03 = `na` (tag `c03-na`) without a build of
    `fail_hist` that returned arrays.
  agree (correspondence of `SaModel/Backend/Adapters.lean`, `SaModel/Backend/History.lean` with the code):
    the adapter model instantiated with the builder model as core and "conversion = identity on the wire form,
    failing on gap types" predicts class, decoded content and batch schema of `to_arrow`, `to_arrow2`,
    `to_record_batch`; `from_*` instantiated with an oracle core (the recorded `from_marrow` results) predicts
    the readers, count mismatches included (`Core.counted` for the marrow family); `Backend.runHistory` predicts the second
    build of every reused builder, `Backend.runHistoryG` (the builder with its poisoned flag) every outcome of `fail_hist`;
    `Build.serializeWith` / `Build.extend` predict class, arrays and error annotations per top-level form; the adapter
    equations evaluated on the real crate (`via`) hold physically; marrow's field conversions round trip (hypothesis `hFRT`).
  C16: no panic anywhere, third-party conversions included.
This suite IS the validation of the hypotheses `hA`, `hB`, `hFRT` of Props/C19.lean (sampling, not proof).
-/
namespace Driver.Suites.Backend
open Lean Driver SaModel SaModel.Build SaModel.Spec SaModel.Backend Driver.Suites.Build

/-! ### documented type gaps (marrow 0.2.3 conversions) -/

def dtGap (backend : String) : DataType → Option String
  | .utf8View => if backend == "arrow2" then some "Utf8View" else none
  | .binaryView => if backend == "arrow2" then some "BinaryView" else none
  | .decimal128 _ s => if backend == "arrow2" && s < 0 then some "Decimal128(negative-scale)" else none
  | .fixedSizeBinary n => if backend == "arrow2" && n ≤ 0 then some "FixedSizeBinary(0)" else none
  | .runEndEncoded _ _ => if backend == "arrow2" then some "RunEndEncoded" else none
  | .interval _ => if backend == "arrow2" then some "Interval" else none
  | _ => none

/-- data types in the field (pre-order) the back end does not offer -/
partial def fieldGaps (backend : String) (f : Field) : List String :=
  let own := (dtGap backend f.dataType).toList
  own ++ match f.dataType with
  | .struct fs => fs.toList.flatMap (fieldGaps backend)
  | .list c | .largeList c | .fixedSizeList c _ => fieldGaps backend c
  | .map e _ => fieldGaps backend e
  | .union fs _ => fs.toList.flatMap fun x => fieldGaps backend x.2
  | .dictionary k v => (dtGap backend k).toList ++ (dtGap backend v).toList
  | _ => []

/-- positions that are known to break third-party code (recorded findings; part of failure signatures) -/
partial def fieldSuspects (backend : String) (f : Field) : List String :=
  let own := match f.dataType with
    | .fixedSizeBinary n => if n ≤ 0 then ["FixedSizeBinary(0)"] else []
    | .fixedSizeList _ n => if n ≤ 0 && backend != "arrow2" then ["FixedSizeList(0)"] else []
    | .struct .nil => if backend != "arrow" then ["Struct()"] else []
    | _ => []
  own ++ match f.dataType with
  | .struct fs => fs.toList.flatMap (fieldSuspects backend)
  | .list c | .largeList c | .fixedSizeList c _ => fieldSuspects backend c
  | .map e _ => fieldSuspects backend e
  | .union fs _ => fs.toList.flatMap fun x => fieldSuspects backend x.2
  | _ => []

/-- the same gap table on arrays (for paths whose fields never went through the back end) -/
partial def arrGaps (backend : String) : Arr → List String
  | .bytesView ty _ _ _ => if backend == "arrow2" then [if ty == .utf8View then "Utf8View" else "BinaryView"] else []
  | .decimal128 _ s _ _ => if backend == "arrow2" && s < 0 then ["Decimal128(negative-scale)"] else []
  | .fixedSizeBinary n _ _ => if backend == "arrow2" && n ≤ 0 then ["FixedSizeBinary(0)"] else []
  | .struct _ _ fs => fs.toList.flatMap fun x => arrGaps backend x.2
  | .list _ _ _ _ el | .fixedSizeList _ _ _ _ el => arrGaps backend el
  | .map _ _ _ k v => arrGaps backend k ++ arrGaps backend v
  | .dictionary k v => arrGaps backend k ++ arrGaps backend v
  | .union _ _ fs => fs.toList.flatMap fun x => arrGaps backend x.2.2
  | _ => []

/-- "conversion = identity on the wire form", failing where the back end has a gap -/
def wireConv (backend : String) : Conv Field Arr where
  fieldToMarrow := fun f => match fieldGaps backend f with
    | [] => pure f
    | g :: _ => fail s!"gap:{g}"
  fieldOfMarrow := fun f => match fieldGaps backend f with
    | [] => pure f
    | g :: _ => fail s!"gap:{g}"
  arrayOfMarrow := fun a => match arrGaps backend a with
    | [] => pure a
    | g :: _ => fail s!"gap:{g}"
  viewOf := pure

/-- the builder model as the back-end independent core; readers answer from the recorded `from_marrow` results -/
def coreOf (ext : Ext) (oracle : List (List Arr × Json)) : Core B (List SVal) (List Arr) Json :=
  buildCore ext (fun _ views => .ok views) fun views =>
    match oracle.find? (fun e => e.1 == views) with
    | some (_, out) => .ok out
    | none => fail "no recorded from_marrow result for these views"

/-! ### reading the case -/

/-- outcome class of a path: ok | err | panic | field_err | view_err -/
def pathCls (o : Json) : String :=
  if (o.getObjVal? "ok").isOk then "ok"
  else if (o.getObjVal? "err").isOk then "err"
  else if (o.getObjVal? "panic").isOk then "panic"
  else if (o.getObjVal? "field_err").isOk then "field_err"
  else if (o.getObjVal? "view_err").isOk then "view_err"
  else if (o.getObjVal? "conv").isOk then "conv"
  else "?"

def hasPanic (o : Json) : Bool :=
  let s := o.compress
  -- "panic" / "conv_panic" keys anywhere in an outcome object
  (s.splitOn "\"panic\":").length > 1 || (s.splitOn "\"conv_panic\":").length > 1

def arraysOf (o : Json) : Except String (List Arr) := do
  (← getArr o "ok").toList.mapM arrOfJson

def decodeEq (a b : List (R LVal)) : Bool :=
  a.length == b.length && (a.zip b).all fun (x, y) =>
    match x, y with
    | .ok u, .ok v => u == v
    | .error _, .error _ => true
    | _, _ => false

def contentEq (a b : List Arr) : Option Nat :=
  if a.length != b.length then some (min a.length b.length)
  else (List.range a.length).find? fun i =>
    match a[i]?, b[i]? with
    | some x, some y => !decodeEq (decodeAll x) (decodeAll y)
    | _, _ => true

structure Path where
  name : String
  src : String      -- the family whose fields created the builder
  dst : String      -- the family the arrays were finished into (batch ↦ arrow)
  out : Json
  batch : Option Json := none

/-- `schema*`: the builder came from `ArrayBuilder::new(SerdeArrowSchema)`, the schema from that family's field list -/
def family (s : String) : String :=
  if s == "batch" || s == "schema" || s == "schema_refs" then "arrow" else if s == "schema2" then "arrow2" else s

/-- first difference between the batch's fields and the given ones -/
def fieldDiff (given got : List Field) : Option String :=
  if given.length != got.length then some "count"
  else (given.zip got).findSome? fun (a, b) =>
    if a.name != b.name then some "name"
    else if a.nullable != b.nullable then some "nullable"
    else if a.metadata != b.metadata then some "metadata"
    else if a.dataType != b.dataType then some s!"type/{a.dataType.ctor}"
    else none

/-- the top-level value is collection-shaped for the strict `Serializer` (newtype struct / newtype variant layers peeled)
or for `ArrayBuilder::extend` (newtype struct / `Some` layers peeled): a "single record" that is itself a tuple / sequence /
tuple struct is indistinguishable from a collection of records and is legitimately accepted as one (thorough tier of C10,
vp run #6, case backend-003795: a FALSE ALARM of the name-based rule) -/
partial def topIsCollection (ext : Bool) : SVal → Bool
  | .seq _ | .tuple _ | .tupleStruct _ _ => true
  | .tupleVariant _ _ _ _ => !ext
  | .newtypeStruct _ v => topIsCollection ext v
  | .newtypeVariant _ _ _ v => !ext && topIsCollection ext v
  | .some v => ext && topIsCollection ext v
  | _ => false

def handle (j : Json) : Except String Verdict := do
  let fields ← (← getArr j "schema").toList.mapM fieldOfJson
  let rows ← (← getArr j "rows").toList.mapM svalOfJson
  let ext := extOfAux ((getObj j "aux").toOption.getD Json.null)
  let ser ← getObj j "ser"
  let de ← getObj j "de"
  let via ← getObj j "via"
  let get (o : Json) (k : String) : Json := (o.getObjVal? k).toOption.getD Json.null
  let batchInfo := getOpt j "batch"
  let mut paths : List Path := []
  for (n, s, d) in [("marrow", "marrow", "marrow"), ("arrow", "arrow", "arrow"), ("batch", "arrow", "batch"), ("arrow2", "arrow2", "arrow2"),
                    ("b_marrow", "marrow", "marrow"), ("b_arrow", "arrow", "arrow"), ("b_batch", "arrow", "batch"), ("b_arrow2", "arrow2", "arrow2")] do
    paths := paths ++ [{ name := n, src := s, dst := d, out := get ser n, batch := if n == "batch" then batchInfo else none }]
  for x in (← getArr j "cross_out").toList do
    let s ← getStr x "from"
    let d ← getStr x "to"
    let first := (getStr x "first").toOption
    let nm := match first with | some f => s!"reuse:{s}>{f}>{d}" | none => s!"x:{s}>{d}"
    paths := paths ++ [{ name := nm, src := s, dst := d, out := get x "out", batch := getOpt x "batch" }]
  let marrowOut := get ser "marrow"
  let mcls := pathCls marrowOut
  let marrs ← if mcls == "ok" then arraysOf marrowOut else pure []
  -- blame position of a failure in a back end: the first suspect type of the first column whose conversion from
  -- the marrow array fails (recorded per column by the harness), else of the whole schema
  let convCols := get j "conv_cols"
  let culpritOf (backend : String) : String :=
    let cols : List String := match (get convCols backend) with
      | .arr a => a.toList.map fun x => x.getStr?.toOption.getD "?"
      | _ => []
    let bad := cols.findIdx? (· != "ok")
    let scope : List Field := match bad.bind (fun i => fields[i]?) with
      | some f => [f]
      | none => fields
    if fields.isEmpty then "no-fields" else
    ((scope.flatMap (fieldSuspects backend)).headD ((fields.flatMap (fieldSuspects backend)).headD "-"))
  let mut tags : List String := (fields.flatMap schemaTags).eraseDups ++
    [s!"marrow:{mcls}", s!"rows:{if rows.length == 0 then "0" else if rows.length < 8 then "<8" else "≥8"}"]
  if rows.isEmpty then tags := "trivial" :: tags
  if fields.any (fun f => !f.metadata.isEmpty) then tags := "top-metadata" :: tags
  let c16 := if hasPanic ser || hasPanic de || hasPanic via || hasPanic (get j "cross_out") || hasPanic (get j "fields_rt") then "fail" else "pass"
  -- records that are not the call stream of any `Serialize` implementation (a map value without its key, …) are
  -- outside the quantifier of the CONTENT clauses of C01/C02, but inside this property: a Map builder refuses the
  -- streams that do not alternate (repo fix eafdf15) and whatever `to_marrow` accepts is well formed
  -- (`Props.C01.C03_wf'` has no hypothesis on raw call streams), so the back ends must agree on them like on any other
  -- record (on the unrepaired crate `to_marrow` returned a Map array with keys and values of different lengths, `to_arrow`
  -- failed and `to_arrow2` panicked: finding C16-map-key-value-alternation)
  if (rows.map (interpRow ext fields)).any isMalformed || rows.any containsMalformed then
    tags := "malformed-stream" :: tags
  -- the first failure of each kind
  let mut specSig := ""
  let mut specWhy := ""
  let mut agreeSig := ""
  let mut agreeWhy := ""
  let mut checkedArrays := 0
  -- (a) outcomes, (b) content, (d) batches
  for p in paths do
    let cls := pathCls p.out
    let srcGaps := (fields.flatMap (fieldGaps (family p.src))).eraseDups
    let dstGaps := (fields.flatMap (fieldGaps (family p.dst))).eraseDups
    if cls == "field_err" then
      match srcGaps with
      | g :: _ => tags := s!"gap:{g}" :: tags
      | [] =>
        if specSig == "" then
          specSig := s!"C19/gap-undocumented/{family p.src}/{culpritOf (family p.src)}"
          specWhy := s!"{p.name}: the fields were refused by marrow's {p.src} conversion although the schema holds no type listed as a gap: {p.out.compress}"
    else if cls == mcls then
      if cls == "ok" then
        let arrs ← arraysOf p.out
        checkedArrays := checkedArrays + arrs.length
        tags := (if arrs == marrs then s!"phys-eq:{family p.dst}" else s!"phys-diff:{family p.dst}") :: tags
        match contentEq marrs arrs with
        | none => pure ()
        | some col =>
          if specSig == "" then
            specSig := s!"C19/content/{family p.dst}/{(fields[col]?.map (·.dataType.ctor)).getD "count"}"
            specWhy := s!"{p.name}: column {col} does not decode to the logical content of the marrow array"
      else if cls == "err" then
        -- the same error (theorem backends_fail_together); text differences are a correspondence matter
        if get p.out "err" != get marrowOut "err" && agreeSig == "" then
          agreeSig := s!"C19/error-text/{family p.dst}"
          agreeWhy := s!"{p.name}: {(get p.out "err").compress} vs marrow {(get marrowOut "err").compress}"
    else if mcls == "ok" && (cls == "err" || cls == "view_err") && !dstGaps.isEmpty then
      tags := s!"gap:{dstGaps.headD ""}" :: tags
    else
      if specSig == "" then
        specSig := s!"C19/outcome/{p.dst}={cls}/marrow={mcls}/{culpritOf (family p.dst)}"
        specWhy := s!"{p.name}: {cls} where to_marrow gives {mcls}: {(p.out.compress.take 300).toString}"
    -- (d)
    match p.batch with
    | none => pure ()
    | some b =>
      let got := (← getArr b "fields").toList.mapM fieldOfJson
      let aspect : Option String := match got with
        | .error _ => some "unreadable"
        | .ok got =>
          match fieldDiff fields got with
          | some a => some a
          | none =>
            if (get b "meta") != Json.arr #[] then some "schema-metadata"
            else if (get b "cols").getNat?.toOption != some fields.length then some "columns"
            else if (get b "rows").getNat?.toOption != some rows.length then some "rows"
            else none
      match aspect with
      | none => tags := "batch-fields-ok" :: tags
      | some a =>
        if specSig == "" || specSig.startsWith "C19/content" then
          specSig := s!"C19/batch-fields/{a}"
          specWhy := s!"{p.name}: the batch's schema differs from the given fields ({a}): {(get b "fields").compress.take 300}"
  -- (c) readers
  let deKeys := ["marrow", "d_marrow", "arrow", "d_arrow", "arrow_refs", "batch", "d_batch", "batch_parts", "arrow2", "d_arrow2"]
  let present := deKeys.filterMap fun k => (getOpt de k).map (k, ·)
  match present with
  | [] => pure ()
  | (k0, r0) :: rest =>
    for (k, r) in rest do
      if r != r0 && specSig == "" then
        specSig := s!"C19/read/{k}-vs-{k0}/{pathCls r}-{pathCls r0}"
        specWhy := s!"readers disagree: {k} gives {(r.compress.take 200)}, {k0} gives {(r0.compress.take 200)}"
    tags := s!"read:{pathCls r0}:{present.length}" :: tags
  -- (c') a field / array count mismatch is refused by every reader entry point of every family
  match getOpt j "de_mismatch" with
  | some (.obj kvs) =>
    for (k, v) in kvs.toList do
      if v != Json.str "err" && specSig == "" then
        specSig := s!"C19/read-count-mismatch/{k}/{v.getStr?.toOption.getD "?"}"
        specWhy := s!"{k}: a reader given a different number of fields and arrays must refuse (as from_marrow does), got {v.compress}"
    if !kvs.toList.isEmpty then tags := "read-count-mismatch" :: tags
  | _ => pure ()
  -- ---- correspondence: the adapter equations on the real crate
  for b in ["arrow", "arrow2"] do
    match getOpt via s!"ser_{b}" with
    | none => pure ()
    | some v =>
      let o := get ser b
      let same :=
        if pathCls v == "ok" then v == o
        else if pathCls v == "conv" then
          -- a failing conversion of one of marrow's arrays: the entry point reports it (error or the same panic)
          (pathCls o == "err" && (get v "conv" |>.getObjVal? "conv_err").isOk) || (pathCls o == "panic" && (get v "conv" |>.getObjVal? "conv_panic").isOk)
        else pathCls v == pathCls o
      if !same && agreeSig == "" then
        agreeSig := s!"C19/compose/ser/{b}"
        agreeWhy := s!"to_{b} differs from to_marrow followed by marrow's array conversion: {(o.compress.take 200)} vs {(v.compress.take 200)}"
  for b in ["arrow", "batch", "arrow2"] do
    match getOpt via s!"de_{b}", getOpt de b with
    | some v, some o =>
      if v != o && agreeSig == "" then
        agreeSig := s!"C19/compose/de/{b}"
        agreeWhy := s!"from_{b} differs from viewing the arrays and from_marrow: {(o.compress.take 200)} vs {(v.compress.take 200)}"
    | _, _ => pure ()
  -- hypothesis hFRT: marrow → back end → marrow is the identity on fields
  for b in ["arrow", "arrow2"] do
    let rt := get (get j "fields_rt") b
    match rt with
    | .arr a =>
      match a.toList.mapM fieldOfJson with
      | .ok got =>
        if got != fields && agreeSig == "" then
          agreeSig := s!"C19/hyp/field-roundtrip/{b}/{(fieldDiff fields got).getD "?"}"
          agreeWhy := s!"marrow → {b} → marrow changes the fields"
      | .error e => if agreeSig == "" then agreeSig := s!"C19/hyp/field-roundtrip/{b}/unreadable"; agreeWhy := e
    | _ => pure ()
  -- ---- correspondence: the adapter model (Backend/Adapters.lean), instantiated
  let marrowViews := marrs
  let viewsOf (k : String) : List Arr := (arraysOf (get ser k)).toOption.getD []
  let oracle : List (List Arr × Json) :=
    (match getOpt de "marrow" with | some o => [(marrowViews, o)] | none => []) ++
    (["arrow", "batch", "arrow2"].filterMap fun b => (getOpt via s!"de_{b}").map fun o => (viewsOf b, o))
  let core := coreOf ext oracle
  let modelM := Backend.toMarrow core fields rows
  if modelM.cls != (if mcls == "ok" then "ok" else if mcls == "err" then "err" else mcls) then
    -- the builder model and to_marrow differ: a matter of the build suite (C01/C05), not of the adapters
    if agreeSig == "" then
      agreeSig := s!"build/class/model={modelM.cls}/impl={mcls}"
      agreeWhy := "builder model and to_marrow differ (not an adapter matter)"
  else
    for (b, name) in [("arrow", "arrow"), ("arrow2", "arrow2")] do
      let cv := wireConv b
      let model := if b == "arrow" then Backend.toArrow core cv fields rows else Backend.toArrow2 core cv fields rows
      let o := get ser name
      let icls := pathCls o
      let icls' := if icls == "field_err" || icls == "view_err" then "err" else icls
      if model.cls != icls' then
        if agreeSig == "" then
          agreeSig := s!"C19/model/{name}/model={model.cls}/impl={icls}/{culpritOf name}"
          agreeWhy := s!"adapter model predicts {model.cls} for to_{name}, implementation: {icls}"
      else
        match model with
        | .ok marr =>
          let iarr ← arraysOf o
          if (contentEq marr iarr).isSome && agreeSig == "" then
            agreeSig := s!"C19/model/{name}/content"
            agreeWhy := s!"adapter model and to_{name} hold different logical content"
        | .error _ => pure ()
    -- record batch: fields and metadata as predicted
    let modelB := Backend.toRecordBatch core (wireConv "arrow") (fun _ _ => .ok ()) fields rows
    let ob := get ser "batch"
    let bcls := pathCls ob
    let bcls' := if bcls == "field_err" || bcls == "view_err" then "err" else bcls
    if modelB.cls != bcls' then
      if agreeSig == "" then
        agreeSig := s!"C19/model/batch/model={modelB.cls}/impl={bcls}/{culpritOf "arrow"}"
        agreeWhy := s!"adapter model predicts {modelB.cls} for to_record_batch, implementation: {bcls}"
    else
      match modelB, batchInfo with
      | .ok mb, some bi =>
        let got := ((← getArr bi "fields").toList.mapM fieldOfJson).toOption
        let cols ← arraysOf ob
        if (got != some mb.fields || (get bi "meta") != metaToJson mb.schemaMetadata || (contentEq mb.columns cols).isSome) && agreeSig == "" then
          agreeSig := "C19/model/batch/schema-or-content"
          agreeWhy := "adapter model and to_record_batch differ in the batch's fields, metadata or columns"
      | _, _ => pure ()
    -- readers: count check, fields, views, then the core
    for (b, k) in [("arrow", "arrow"), ("arrow", "batch"), ("arrow2", "arrow2")] do
      match getOpt de k with
      | none => pure ()
      | some o =>
        let views := viewsOf k
        let cv := wireConv b
        let model : R Json :=
          if k == "batch" then Backend.fromRecordBatch core cv { fields := fields, schemaMetadata := [], columns := views }
          else if k == "arrow2" then Backend.fromArrow2 core cv fields views
          else Backend.fromArrow core cv fields views
        match model with
        | .ok predicted =>
          if predicted != o && agreeSig == "" then
            agreeSig := s!"C19/model/read/{k}"
            agreeWhy := s!"adapter model predicts {(predicted.compress.take 160)} for from_{k}, implementation: {(o.compress.take 160)}"
        | .error e =>
          if agreeSig == "" then
            agreeSig := s!"C19/model/read/{k}/model-err"
            agreeWhy := s!"adapter model fails for from_{k}: {repr e}"
    -- reused builders: the HISTORY model (Backend/History.lean — `builder_reuse_agrees`, `record_batch_schema_stable` are
    -- about `runHistory`): rows, `to_<first>()?`, the same rows again, `to_<to>()` on one builder
    for x in (← getArr j "cross_out").toList do
      match (getStr x "first").toOption with
      | none => pure ()
      | some first =>
        let s ← getStr x "from"
        let d ← getStr x "to"
        let fin (n : String) : Backend.Finisher :=
          if n == "marrow" then .marrow else if n == "arrow" then .arrow else if n == "batch" then .recordBatch else .arrow2
        let mk : R (Backend.ArrayBuilder B) :=
          if s == "marrow" then Backend.ArrayBuilder.fromMarrow core fields
          else if s == "arrow" then Backend.ArrayBuilder.fromArrow core (wireConv "arrow") fields
          else Backend.ArrayBuilder.fromArrow2 core (wireConv "arrow2") fields
        let model : R (Backend.Built Field Arr Arr) := do
          let b ← mk
          let (outs, _) ← Backend.runHistory core (wireConv "arrow") (wireConv "arrow2") (fun _ _ => .ok ()) b
            [.add rows, .finish (fin first), .add rows, .finish (fin d)]
          match outs with
          | [r1, r2] => do let _ ← r1; r2
          | _ => fail "history model: two builds expected"
        let o := get x "out"
        let icls := pathCls o
        let icls' := if icls == "field_err" || icls == "view_err" then "err" else icls
        tags := "reuse-model" :: tags
        if model.cls != icls' then
          if agreeSig == "" then
            agreeSig := s!"C19/model/reuse/{s}>{first}>{d}/model={model.cls}/impl={icls}/{culpritOf (family d)}"
            agreeWhy := s!"history model predicts {model.cls} for the second build of a reused builder, implementation: {icls}"
        else
          match model with
          | .ok built =>
            let (marr, mfields) : List Arr × Option (List Field × Metadata) := match built with
              | .marrow a => (a, none)
              | .arrow a => (a, none)
              | .arrow2 a => (a, none)
              | .recordBatch b => (b.columns, some (b.fields, b.schemaMetadata))
            let iarr ← arraysOf o
            let schemaOk : Bool := match mfields, getOpt x "batch" with
              | some (mf, mm), some bi =>
                (match getArr bi "fields" with
                 | .ok a => (a.toList.mapM fieldOfJson).toOption == some mf
                 | .error _ => false) && (get bi "meta") == metaToJson mm
              | some _, none => false
              | none, _ => true
            if ((contentEq marr iarr).isSome || !schemaOk) && agreeSig == "" then
              agreeSig := s!"C19/model/reuse/{s}>{first}>{d}/{if schemaOk then "content" else "batch-schema"}"
              agreeWhy := "history model and the second build of a reused builder differ in content or in the batch's schema"
          | .error _ => pure ()
    -- count mismatches: the reader constructors of the model (`reader_count_mismatch_refused`); the marrow family
    -- through the count check `Deserializer::new` starts with (`Core.counted`)
    match getOpt j "de_mismatch" with
    | some (.obj kvs) =>
      for (k, v) in kvs.toList do
        let fam := (k.splitOn "/").headD ""
        let fewerFields := (k.splitOn "/").getLastD "" == "fewer_fields"
        let b := if fam.endsWith "arrow2" then "arrow2" else if fam.endsWith "arrow" then "arrow" else "marrow"
        let views := if b == "marrow" then marrowViews else viewsOf b
        let fs := if fewerFields then fields.dropLast else fields
        let vs := if fewerFields then views else views.dropLast
        let model : R Json :=
          if b == "marrow" then Backend.fromMarrow core.counted fs vs
          else if b == "arrow2" then Backend.fromArrow2 core (wireConv b) fs vs
          else Backend.fromArrow core (wireConv b) fs vs
        if v != Json.str model.cls && agreeSig == "" then
          agreeSig := s!"C19/model/read-count-mismatch/{k}/model={model.cls}"
          agreeWhy := s!"{k}: the reader model gives {model.cls}, the implementation {v.compress}"
    | _ => pure ()
  -- ---- the TOP-LEVEL `items` value in another form (`top`): the same rows as a sequence without / with a lying length
  -- hint, tuple, tuple struct, newtype struct / variant, tuple variant, Some(seq), unit, map, struct, scalar … given to
  -- every one-shot entry point, to the Serializer wrapper (borrowed / owned builder) and to `ArrayBuilder::extend`.
  --   C19: the one-shot functions and the Serializer wrapper agree with each other across the back ends — same
  --        accept / refuse (outside the documented type gaps), the same logical content;
  --   C10: where a form is accepted, the arrays are PHYSICALLY those of the plain sequence of the same rows (wrapper,
  --        extend and one-shot functions produce identical arrays for the same rows); a value that is no collection of
  --        records is refused;
  --   agree: `Build.serializeWith` (the strict `Serializer` of serializer.rs) and `Build.extend` (`OuterSequenceBuilder`
  --        as a serializer) predict class, arrays and error position per form.
  -- C10 and C03 are `pass` only where one of their clauses was judged (`c10Judged` / `c03Judged`): a case without a
  -- `top` part and without a `fail_hist` part (or with nothing in them the clauses apply to) gives `na`
  let mut c10 := "pass"
  let mut c10Judged := false
  let mut c10Sig := ""
  let mut c10Why := ""
  let mut c03 := "pass"
  let mut c03Judged := false
  let mut c03Sig := ""
  let mut c03Why := ""
  let mut c16Sig := ""
  let mut c16Why := ""
  let topOut := get j "top_out"
  match (getStr j "top").toOption with
  | none => pure ()
  | some form =>
    let v := Driver.Suites.Hist.wrapRows form rows
    tags := s!"top:{form}" :: tags
    let serForms := ["seq_nohint", "seq_lying", "tuple", "tuple_lying", "tuple_struct", "newtype_struct", "newtype_variant",
      "tuple_variant", "nested", "newtype_variant_tuple_variant"]
    let extForms := ["seq_nohint", "seq_lying", "tuple", "tuple_lying", "tuple_struct", "newtype_struct", "some", "some_tuple", "some_some"]
    let tm := get topOut "marrow"
    let tmcls := pathCls tm
    let tmarrs ← if tmcls == "ok" then arraysOf tm else pure []
    for (n, dst) in [("marrow", "marrow"), ("arrow", "arrow"), ("batch", "arrow"), ("arrow2", "arrow2"), ("ser", "marrow"), ("ser_owned", "marrow"), ("extend", "marrow")] do
      let o := get topOut n
      let cls := pathCls o
      let gaps := (fields.flatMap (fieldGaps dst)).eraseDups
      let accepted := if n == "extend" then extForms.contains form else serForms.contains form
      -- C19: agreement with to_marrow on the same value (`extend` is another front end: compared with the plain sequence below)
      if n != "extend" && n != "marrow" then
        if cls == "field_err" then pure ()       -- reported by the main paths
        else if cls == tmcls then
          if cls == "ok" then
            let arrs ← arraysOf o
            checkedArrays := checkedArrays + arrs.length
            match contentEq tmarrs arrs with
            | none => pure ()
            | some col =>
              if specSig == "" then
                specSig := s!"C19/top/{form}/content/{n}/{(fields[col]?.map (·.dataType.ctor)).getD "count"}"
                specWhy := s!"top-level {form} through {n}: column {col} does not decode to the logical content of the to_marrow array"
        else if tmcls == "ok" && (cls == "err" || cls == "view_err") && !gaps.isEmpty then
          tags := s!"gap:{gaps.headD ""}" :: tags
        else if specSig == "" then
          specSig := s!"C19/top/{form}/outcome/{n}={cls}/marrow={tmcls}"
          specWhy := s!"top-level {form}: {n} gives {cls} where to_marrow gives {tmcls}: {(o.compress.take 300)}"
      -- C10: an accepted form gives the arrays of the plain sequence; a value that is no collection is refused
      if cls == "panic" then pure ()             -- C16
      else if cls == "field_err" || (dst != "marrow" && !gaps.isEmpty) then pure ()
      else if accepted then
        c10Judged := true
        let plain := get ser (if n == "ser" || n == "ser_owned" || n == "extend" then "marrow" else n)
        let pcls := pathCls plain
        if cls != pcls then
          if c10Sig == "" then
            c10 := "fail"
            c10Sig := s!"C10/top/{form}/{n}={cls}/plain-seq={pcls}"
            c10Why := s!"top-level {form} through {n}: {cls}, the same rows as a plain sequence: {pcls}"
        else if cls == "ok" then
          let a ← arraysOf o
          let b ← arraysOf plain
          if a != b && c10Sig == "" then
            c10 := "fail"
            c10Sig := s!"C10/top/{form}/{n}/arrays-differ-from-plain-seq"
            c10Why := s!"top-level {form} through {n}: the arrays are not those of the same rows given as a plain sequence"
      else if topIsCollection (n == "extend") v then
        tags := "top-record-is-collection-shaped" :: tags
      else if cls != "err" && cls != "view_err" then
        c10Judged := true
        if c10Sig == "" then
          c10 := "fail"
          c10Sig := s!"C10/top/{form}/{n}={cls}/not-a-collection-accepted"
          c10Why := s!"top-level {form} (not a collection of records for this front end) through {n}: {cls}"
      else c10Judged := true     -- a value that is no collection of records was refused, as it must be
    -- the model
    match newRoot fields with
    | .error _ => pure ()
    | .ok root0 =>
      for (n, isExt) in [("marrow", false), ("ser", false), ("ser_owned", false), ("extend", true)] do
        let o := get topOut n
        let cls := pathCls o
        let model : R (List Arr) := do
          let r ← (if isExt then extend ext root0 v else serializeWith ext root0 v)
          let (arrs, _) ← buildArrays ext r
          pure arrs
        if model.cls != cls then
          if agreeSig == "" then
            agreeSig := s!"C19/top-model/{form}/{n}/model={model.cls}/impl={cls}"
            agreeWhy := s!"top-level {form} through {n}: model {model.cls} {repr model.ann}, implementation {(o.compress.take 200)}"
        else
          match model with
          | .ok marr =>
            let iarr ← arraysOf o
            if marr != iarr && (contentEq marr iarr).isSome && agreeSig == "" then
              agreeSig := s!"C19/top-model/{form}/{n}/content"
              agreeWhy := s!"top-level {form} through {n}: model and implementation hold different logical content"
          | .error _ =>
            let ia := annOfImpl (get o "err")
            if !model.ann.isEmpty && ia != model.ann && agreeSig == "" then
              agreeSig := s!"C19/top-model/{form}/{n}/ann"
              agreeWhy := s!"top-level {form} through {n}: annotations: model {repr model.ann}, implementation {repr ia}"
  -- ---- USE AFTER A FAILED OPERATION: one builder per finisher, the rows pushed one by one with a record the builder
  -- refuses in the middle, a build, another push, another build; every outcome recorded (`fail_hist`).
  --   C16: nothing panics after a failed push;  C03: every build that returns arrays returns well-formed ones of ONE
  --   length, the number of rows pushed successfully since the previous successful build;  C10: no build succeeds on a
  --   builder in which a push failed;  C19: the four finishers agree operation by operation;
  --   agree: `Backend.runHistoryG` (the builder with its poisoned flag) predicts every outcome.
  match getOpt j "fail_hist" with
  | some (.arr fhs) =>
    let bad := getOpt j "bad"
    let badAt := ((get j "bad_at").getNat?).toOption.getD 0
    let badRow : Option SVal := match bad with
      | some b => if b.isNull then none else (svalOfJson b).toOption
      | none => none
    let adds : List SVal := match badRow with
      | some b => rows.take badAt ++ [b] ++ rows.drop badAt
      | none => rows
    if badRow.isSome then tags := "fail-hist:bad-row" :: tags
    let mut marrowOuts : List Json := []
    for fh in fhs.toList do
      let to ← getStr fh "to"
      let fin : Backend.Finisher :=
        if to == "marrow" then .marrow else if to == "arrow" then .arrow else if to == "batch" then .recordBatch else .arrow2
      let dst := family to
      let gaps := (fields.flatMap (fieldGaps dst)).eraseDups
      match get fh "outs" with
      | .arr outs =>
        let outs := outs.toList
        if to == "marrow" then marrowOuts := outs
        if hasPanic (Json.arr outs.toArray) then
          -- a panic AFTER a failed push is the finding of this check; one in a history without a failure is the
          -- finisher's own (third-party code on a degenerate type: the signature of the recorded findings)
          let firstBad := outs.findIdx? (fun o => pathCls o != "ok")
          let firstPanic := outs.findIdx? hasPanic
          let afterFailure : Bool := match firstBad, firstPanic with | some b, some p => decide (b < p) | _, _ => false
          if afterFailure then
            if c16Sig == "" then
              c16Sig := s!"C16/panic-after-failed-push/{to}"
              c16Why := s!"history through to_{to}: {((Json.arr outs.toArray).compress.take 400)}"
          else if specSig == "" then
            specSig := s!"C19/outcome/{to}=panic/marrow=ok/{culpritOf dst}"
            specWhy := s!"history through to_{to}: {((Json.arr outs.toArray).compress.take 400)}"
        let hops : List (Backend.HOp (List SVal)) :=
          adds.map (fun r => .add [r]) ++ [.finish fin] ++ (rows.head?.map fun r => Backend.HOp.add [r]).toList ++ [.finish fin]
        -- spec side, on the implementation's outcomes alone
        let mut okRows := 0
        let mut dirty := false
        let mut k := 0
        for o in outs do
          let cls := pathCls o
          let isFinish := match hops[k]? with | some (.finish _) => true | _ => false
          if isFinish then
            -- (C10's clause "no build succeeds on a builder in which a push failed" is judged on every build that follows a
            -- failed push, whatever its outcome; C03's on every build that returns arrays)
            if dirty then c10Judged := true
            if cls == "ok" then
              c03Judged := true
              let arrs ← arraysOf o
              if dirty && c10Sig == "" then
                c10 := "fail"
                c10Sig := s!"C10/build-after-failed-push/{to}"
                c10Why := s!"to_{to} succeeds on a builder in which an earlier push failed (op #{k})"
              let lens := arrs.map fun a => (decodeAll a).length
              let wf := arrs.length == fields.length && ((fields.zip lens).all fun (f, l) => hasFsb0 f || l == okRows) &&   -- a FixedSizeBinary(0) column has lost its row count: known finding C03-fixed-size-binary-0, decided by the build suite
                (to != "marrow" || fields.any hasFsb0 || (fields.zip arrs).all fun (f, a) => SaModel.Spec.WF f a)
              if !wf && c03Sig == "" then
                c03 := "fail"
                c03Sig := s!"C03/after-failed-push/{to}/{if arrs.length != fields.length then "count" else if !((fields.zip lens).all fun (f, l) => hasFsb0 f || l == okRows) then "lengths" else "not-wf"}"
                c03Why := s!"to_{to} (op #{k}) after {okRows} successful pushes returns arrays of lengths {repr lens}"
              okRows := 0
            else if cls == "err" && !gaps.isEmpty then
              okRows := 0          -- a conversion refused a gap type: the builder has been reset
            else if cls == "err" || cls == "view_err" then
              -- (a finisher may fail after build_arrays: then the builder is empty again; or inside it: then it is unusable)
              okRows := 0
          else
            if cls == "ok" then okRows := okRows + 1 else dirty := true
          k := k + 1
        -- C19: operation by operation as through to_marrow
        if to != "marrow" && marrowOuts.length == outs.length then
          let mut k2 := 0
          for (o, m) in outs.zip marrowOuts do
            let cls := pathCls o
            let mc := pathCls m
            if cls == mc then
              if cls == "ok" && (hops[k2]?.bind Backend.HOp.finisher?).isSome then
                let a ← arraysOf o
                let b ← arraysOf m
                checkedArrays := checkedArrays + a.length
                if (contentEq b a).isSome && specSig == "" then
                  specSig := s!"C19/after-failed-push/content/{to}"
                  specWhy := s!"history through to_{to}, op #{k2}: content differs from the same history through to_marrow"
            else if mc == "ok" && (cls == "err" || cls == "view_err") && !gaps.isEmpty then pure ()
            else if specSig == "" then
              specSig := s!"C19/after-failed-push/outcome/{to}={cls}/marrow={mc}"
              specWhy := s!"history through to_{to}, op #{k2}: {cls} where the same history through to_marrow gives {mc}: {(o.compress.take 300)}"
            k2 := k2 + 1
        -- the model
        let mk : R (Backend.ArrayBuilder B) :=
          if to == "marrow" then Backend.ArrayBuilder.fromMarrow core fields
          else if to == "arrow2" then Backend.ArrayBuilder.fromArrow2 core (wireConv "arrow2") fields
          else Backend.ArrayBuilder.fromArrow core (wireConv "arrow") fields
        match mk with
        | .error _ =>
          -- (a type the back end does not offer: the gap table refuses the field where marrow refuses only the array)
          if !gaps.isEmpty then tags := s!"gap:{gaps.headD ""}" :: tags
          else if agreeSig == "" then
            agreeSig := s!"C19/model/fail-hist/{to}/builder"
            agreeWhy := "the model refuses to make the builder the implementation made"
        | .ok b =>
          let (mouts, _) := Backend.runHistoryG core (fun _ => .ok ()) (wireConv "arrow") (wireConv "arrow2") (fun _ _ => .ok ())
            (Backend.GBuilder.clean b) hops
          tags := "fail-hist-model" :: tags
          let mut k3 := 0
          for (o, m) in outs.zip mouts do
            let icls := pathCls o
            let icls' := if icls == "field_err" || icls == "view_err" then "err" else icls
            if m.cls != icls' then
              if agreeSig == "" then
                agreeSig := s!"C19/model/fail-hist/{to}/op-model={m.cls}/impl={icls}"
                agreeWhy := s!"history through to_{to}, op #{k3}: the history model gives {m.cls} {repr m.ann}, the implementation {(o.compress.take 200)}"
            else
              match m with
              | .ok (some built) =>
                let marr : List Arr := match built with
                  | .marrow a => a | .arrow a => a | .arrow2 a => a | .recordBatch rb => rb.columns
                let iarr ← arraysOf o
                if (contentEq marr iarr).isSome && agreeSig == "" then
                  agreeSig := s!"C19/model/fail-hist/{to}/content"
                  agreeWhy := s!"history through to_{to}, op #{k3}: model and implementation hold different content"
              | _ => pure ()
            k3 := k3 + 1
          if mouts.any (fun m => !m.isOk) then tags := "fail-hist:failure" :: tags
      | _ => pure ()
  | _ => pure ()
  tags := s!"arrays:{if checkedArrays == 0 then "0" else "+"}" :: tags
  let c16 := if c16Sig != "" then "fail" else c16
  let c19 := if specSig != "" then "fail" else "pass"
  if !(c10 == "fail" || c10Judged) then c10 := "na"
  if !(c03 == "fail" || c03Judged) then c03 := "na"
  if c10 == "na" then tags := "c10-na" :: tags
  if c03 == "na" then tags := "c03-na" :: tags
  let sig := if c16Sig != "" then c16Sig else if specSig != "" then specSig else if c10Sig != "" then c10Sig else if c03Sig != "" then c03Sig else agreeSig
  let why := if c16Sig != "" then c16Why else if specSig != "" then specWhy else if c10Sig != "" then c10Why else if c03Sig != "" then c03Why else agreeWhy
  return { agree := agreeSig == "", spec := [("C19", c19), ("C16", c16), ("C10", c10), ("C03", c03)],
           sig := sig, tags := tags.eraseDups, why := why }

end Driver.Suites.Backend
