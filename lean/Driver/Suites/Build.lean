import Driver.Util
import Driver.SchemaJson
import Driver.SValJson
import Driver.ArrJson
import SaModel.Build.Finish
import SaModel.Build.Dec
import SaModel.Build.Obs
import SaModel.Spec.Interp
import SaModel.Spec.WF
import SaModel.Spec.Blame
import SaModel.Codec.Decimal
import SaModel.Codec.Span
import SaModel.Codec.Time
import SaModel.Codec.Calendar
/-
suite `build`: `to_marrow(fields, rows)`.
  agree : the operational builder model (SaModel/Build) reproduces the implementation's outcome class, on
          success the same decoded content column by column (and physically equal arrays are tagged), on
          error the same annotations;
  spec  : C01 decode(impl arrays) = interp(rows)      (SaModel/Spec/{Decode,Interp})
          C03 WF field array (= structurally valid, `WFS`, AND `Spec.typeOf array = field.dataType`), one length, one array
              per field (SaModel/Spec/WF); the same through `to_arrow` / `to_record_batch` / `to_arrow2` (`backendC03`:
              arrow-rs `validate_full`, `data_type()` of every array = the field's, the batch is built) and on the marrow
              arrays themselves handed to arrow-rs (`marrowArrowC03`, key "arrow": `validate_full` ok, the batch's length;
              not judged at positions of the suspects table) — for EVERY accepted input, rows
              with malformed key/value call streams (`containsMalformed`) included: since repo fix eafdf15 a Map builder
              refuses the streams that do not alternate and `C03_wfS` carries no hypothesis about them, so a malformed
              stream into a schema is never accepted with arrays that are not well formed
          C05 success ⇒ every row was representable; a malformed call stream accepted with arrays that are not well
              formed fails it (and C16: a failure that was not reported as an error)
          C16 no panic
          C18 an error is annotated with the field the model blames
  also  : the observable rows `Build.decH` of the model's final state (hidden-rows refinement, Props/C01Obs.lean): every
          row of every root column is determined and equals the row `dec` reads; tag `hidden-undetermined` when a slot
          below a null ancestor is undetermined (placeholder key of an empty non-nullable-key dictionary)
-/
namespace Driver.Suites.Build
open Lean Driver SaModel SaModel.Build SaModel.Spec

def codecUnit : SaModel.TimeUnit → SaModel.Codec.TimeUnit
  | .second => .second | .millisecond => .millisecond | .microsecond => .microsecond | .nanosecond => .nanosecond

/-- The external functions of the builder model: float display strings and the float product of the decimal
float path come from the case (`aux`), decimal and temporal string conversions are the codec models of
C15 / C14 (SaModel/Codec) — the same definitions their theorems are about. -/
def extOfAux (aux : Json) : Ext :=
  let tbl (k : String) (bits : Nat) : String :=
    match aux.getObjVal? k with
    | .ok t => (t.getObjValAs? String (toString bits)).toOption.getD ""
    | .error _ => ""
  let decCast (p : Nat) (s : Int) (is64 : Bool) (bits : Nat) : R Int :=
    let key := s!"{if is64 then "f64" else "f32"}:{bits}:{s}"
    match (aux.getObjVal? "dec_cast").toOption.bind (fun t => (t.getObjVal? key).toOption) with
    | some e =>
      match (e.getObjValAs? Bool "finite").toOption, (e.getObjVal? "cast").toOption.bind (fun c => (jsonInt? c).toOption) with
      | some fin, some c => SaModel.Decimal.serializeFloat p s fin c
      | _, _ => fail "aux: bad dec_cast entry"
    | none => fail "aux: missing dec_cast entry"
  { f32Str := tbl "f32_str", f64Str := tbl "f64_str",
    parseDecimal := fun p s txt => SaModel.Decimal.serializeStr p s txt.toUTF8.toList,
    floatToDecimal := decCast,
    parseDate := fun is64 s => SaModel.Codec.dateOfString (if is64 then .date64 else .date32) s.toList,
    parseTime := fun u s => SaModel.Codec.timeOfString (match u with | .second | .millisecond => .time32 | _ => .time64) (codecUnit u) s.toList,
    parseTimestamp := fun u utc s => SaModel.Codec.timestampOfString (codecUnit u) utc s.toList,
    parseDuration := fun u s => SaModel.Codec.durationOfString s.toList (codecUnit u) }

def isMalformed {α} : R α → Bool
  | .error (.err "malformed-stream") => true
  | _ => false

/-- field `j` of the struct value of row `i` -/
def projField (row : LVal) (j : Nat) : Option LVal :=
  match row with
  | .struct fs => (fs.toList[j]?).map (·.2)
  | _ => none

def dtTag : DataType → String := DataType.ctor

partial def schemaTags (f : Field) : List String :=
  let own := dtTag f.dataType ++ (if f.nullable then "?" else "")
  match f.dataType with
  | .struct fs => own :: fs.toList.flatMap schemaTags
  | .list c | .largeList c | .fixedSizeList c _ => own :: schemaTags c
  | .map e _ => own :: schemaTags e
  | .union fs _ => own :: fs.toList.flatMap (fun x => schemaTags x.2)
  | _ => [own]

def dtParam : DataType → String
  | .fixedSizeBinary n => s!"FixedSizeBinary({n})"
  | .fixedSizeList _ n => s!"FixedSizeList({n})"
  | dt => dt.ctor

/-- the deepest sub-array that is not well formed (names the data type with its size parameter) -/
partial def culprit (f : Field) (a : Arr) : String :=
  let own := dtParam f.dataType
  match f.dataType, a with
  | .struct fs, .struct _ _ cols =>
    match (fs.toList.zip cols.toList).find? (fun (cf, (_, ca)) => !WF cf ca) with
    | some (cf, (_, ca)) => culprit cf ca
    | none => own
  | .list c, .list _ _ _ _ el | .largeList c, .list _ _ _ _ el | .fixedSizeList c _, .fixedSizeList _ _ _ _ el =>
    if !WF c el then culprit c el else own
  | .map (.mk _ (.struct (.cons kf (.cons vf _))) _ _) _, .map _ _ _ ks vs =>
    if !WF kf ks then culprit kf ks else if !WF vf vs then culprit vf vs else own
  | .union fs _, .union _ _ cols =>
    match (fs.toList.zip cols.toList).find? (fun ((_, cf), (_, _, ca)) => !WF cf ca) with
    | some ((_, cf), (_, _, ca)) => culprit cf ca
    | none => own
  | _, _ => own

partial def hasFsb0 (f : Field) : Bool :=
  match f.dataType with
  | .fixedSizeBinary n => n == 0
  | .struct fs => fs.toList.any hasFsb0
  | .list c | .largeList c | .fixedSizeList c _ => hasFsb0 c
  | .map e _ => hasFsb0 e
  | .union fs _ => fs.toList.any (fun x => hasFsb0 x.2)
  | _ => false

/-- the deepest sub-array that is not `WF` for its field, with that field -/
partial def culpritNode (f : Field) (a : Arr) : Field × Arr :=
  match f.dataType, a with
  | .struct fs, .struct _ _ cols =>
    match (fs.toList.zip cols.toList).find? (fun (cf, (_, ca)) => !WF cf ca) with
    | some (cf, (_, ca)) => culpritNode cf ca
    | none => (f, a)
  | .list c, .list _ _ _ _ el | .largeList c, .list _ _ _ _ el | .fixedSizeList c _, .fixedSizeList _ _ _ _ el =>
    if !WF c el then culpritNode c el else (f, a)
  | .map (.mk _ (.struct (.cons kf (.cons vf _))) _ _) _, .map _ _ _ ks vs =>
    if !WF kf ks then culpritNode kf ks else if !WF vf vs then culpritNode vf vs else (f, a)
  | .union fs _, .union _ _ cols =>
    match (fs.toList.zip cols.toList).find? (fun ((_, cf), (_, _, ca)) => !WF cf ca) with
    | some ((_, cf), (_, _, ca)) => culpritNode cf ca
    | none => (f, a)
  | _, _ => (f, a)

/-! ### C03: type equality and the arrow / arrow2 oracle -/

mutual
/-- first aspect in which the array's data type (`Spec.typeOf`) differs from the declared one -/
partial def typeDiff (want got : DataType) : Option String :=
  match want, got with
  | .list f, .list g => fieldDiffT "List" f g
  | .largeList f, .largeList g => fieldDiffT "LargeList" f g
  | .fixedSizeList f n, .fixedSizeList g m => if n != m then some "FixedSizeList/size" else fieldDiffT "FixedSizeList" f g
  | .struct fs, .struct gs =>
    if fs.toList.length != gs.toList.length then some "Struct/children"
    else (fs.toList.zip gs.toList).findSome? fun (f, g) => fieldDiffT "Struct" f g
  | .map e s, .map e' s' =>
    if s != s' then some "Map/sorted"
    else if e.name != e'.name then some "Map/entries-name"
    else if e.nullable != e'.nullable then some "Map/entries-nullable"
    else if e.metadata != e'.metadata then some "Map/entries-metadata"
    else typeDiff e.dataType e'.dataType
  | .dictionary k v, .dictionary k' v' =>
    match typeDiff k k' with
    | some d => some d
    | none => typeDiff v v'
  | .union fs m, .union gs n =>
    if m != n then some "Union/mode"
    else if fs.toList.length != gs.toList.length then some "Union/children"
    else (fs.toList.zip gs.toList).findSome? fun ((i, f), (k, g)) =>
      if i != k then some "Union/type-id" else fieldDiffT "Union" f g
  | a, b => if a == b then none else if a.ctor == b.ctor then some s!"{a.ctor}/parameter" else some s!"{a.ctor}/kind"
partial def fieldDiffT (parent : String) (f g : Field) : Option String :=
  if f.name != g.name then some s!"{parent}/child-name"
  else if f.nullable != g.nullable then some s!"{parent}/child-nullable"
  else if f.metadata != g.metadata then some s!"{parent}/child-metadata"
  else typeDiff f.dataType g.dataType
end

/-- signature of a column that is not `WF`: the deepest failing node; when that node is structurally valid (`WFS`) and
only its data type differs from the declared one, the ASPECT of the difference (`type/Map/entries-metadata`, …); else the
node's data type with its size parameter, and whether it sits above a zero-width binary column (whose array cannot carry
its length: known finding) -/
def culpritSig (f : Field) (a : Arr) (anyFsb0 : Bool := false) : String :=
  let (c, ca) := culpritNode f a
  if WFS c ca && typeOf ca != c.dataType then
    -- (a schema that ALSO holds a zero-width binary column keeps that marker: the case fails C01 / C03 for that known
    -- reason as well, whichever column is looked at first)
    s!"type/{(typeDiff c.dataType (typeOf ca)).getD "-"}{if anyFsb0 then "~FixedSizeBinary(0)" else ""}"
  else
    let own := dtParam c.dataType
    if own != "FixedSizeBinary(0)" && hasFsb0 c then own ++ "~FixedSizeBinary(0)" else own

/-- data types a back end does not offer (marrow 0.2.3 conversions) — the SAME fixed table as `Backend.dtGap` (C19) -/
def gapOf (backend : String) : DataType → Option String
  | .utf8View => if backend == "arrow2" then some "Utf8View" else none
  | .binaryView => if backend == "arrow2" then some "BinaryView" else none
  | .decimal128 _ s => if backend == "arrow2" && s < 0 then some "Decimal128(negative-scale)" else none
  | .fixedSizeBinary n => if backend == "arrow2" && n ≤ 0 then some "FixedSizeBinary(0)" else none
  | .runEndEncoded _ _ => if backend == "arrow2" then some "RunEndEncoded" else none
  | .interval _ => if backend == "arrow2" then some "Interval" else none
  | _ => none

partial def gapsOfField (backend : String) (f : Field) : List String :=
  (gapOf backend f.dataType).toList ++ match f.dataType with
  | .struct fs => fs.toList.flatMap (gapsOfField backend)
  | .list c | .largeList c | .fixedSizeList c _ => gapsOfField backend c
  | .map e _ => gapsOfField backend e
  | .union fs _ => fs.toList.flatMap fun x => gapsOfField backend x.2
  | .dictionary k v => (gapOf backend k).toList ++ (gapOf backend v).toList
  | _ => []

/-- positions known to break third-party code (recorded findings of C19; same table as `Backend.fieldSuspects`) -/
partial def suspectsOfField (backend : String) (f : Field) : List String :=
  let own := match f.dataType with
    | .fixedSizeBinary n => if n ≤ 0 then ["FixedSizeBinary(0)"] else []
    | .fixedSizeList _ n => if n ≤ 0 && backend != "arrow2" then ["FixedSizeList(0)"] else []
    | .struct .nil => if backend != "arrow" then ["Struct()"] else []
    | _ => []
  own ++ match f.dataType with
  | .struct fs => fs.toList.flatMap (suspectsOfField backend)
  | .list c | .largeList c | .fixedSizeList c _ => suspectsOfField backend c
  | .map e _ => suspectsOfField backend e
  | .union fs _ => fs.toList.flatMap fun x => suspectsOfField backend x.2
  | _ => []

/-- C03 on the arrow / arrow2 outputs (`harness/src/suites/build.rs`, key "backends"): (i) arrow-rs `validate_full`
succeeds on every array `to_arrow` returns, (ii) every array's `data_type()` equals the data type of the back end's own
field (arrow and arrow2) and has the batch's length, (iii) `to_record_batch` succeeds whenever `to_arrow` does on a
non-empty schema.  Restricted per back end by the fixed gap table; the outcome class of `to_arrow` / `to_arrow2` itself
is C19's matter.  Returns the signature of the first failure and coverage tags. -/
def backendC03 (fields : List Field) (nrows : Nat) (back : Json) : Option String × List String := Id.run do
  let get (o : Json) (k : String) : Json := (o.getObjVal? k).toOption.getD Json.null
  let mut tags : List String := []
  let mut sig : Option String := none
  for b in ["arrow", "arrow2"] do
    let o := get back b
    if o.isNull then continue
    let gaps := (fields.flatMap (gapsOfField b)).eraseDups
    let sus := (fields.flatMap (suspectsOfField b)).eraseDups
    if (o.getObjVal? "field_err").isOk then
      match gaps ++ sus with
      | g :: _ => tags := s!"{b}-gap:{g}" :: tags
      | [] => if sig.isNone then sig := some s!"build/C03/{b}/field-conversion"
      continue
    let run := (get o "run").getStr?.toOption.getD "?"
    if run != "ok" then
      tags := s!"{b}:{run}" :: tags
      continue
    tags := s!"{b}-checked" :: tags
    let arrays := match get o "arrays" with | .arr a => a.toList | _ => []
    if arrays.length != fields.length && sig.isNone then sig := some s!"build/C03/{b}/array-count"
    for (f, x) in fields.zip arrays do
      if sig.isSome then break
      let susF := (suspectsOfField b f).headD ""
      let tail := if susF == "" then f.dataType.ctor else s!"{f.dataType.ctor}~{susF}"
      if b == "arrow" && get x "valid" != Json.str "ok" then
        sig := some s!"build/C03/arrow/validate_full={(get x "valid").getStr?.toOption.getD "?"}/{tail}"
      else if get x "type_eq" != Json.bool true then sig := some s!"build/C03/{b}/type/{tail}"
      else if (get x "len").getNat?.toOption != some nrows then sig := some s!"build/C03/{b}/length/{tail}"
    if b == "arrow" && !fields.isEmpty then
      let bo := get back "batch"
      let brun := (get bo "run").getStr?.toOption.getD "?"
      if brun == "ok" then
        tags := "batch-checked" :: tags
        if (get bo "rows").getNat?.toOption != some nrows && sig.isNone then sig := some "build/C03/batch/rows"
      else if sig.isNone then
        sig := some s!"build/C03/batch={brun}/{(sus.headD "-")}"
  return (sig, tags)

/-- C03 through the SECOND independent oracle (`harness/src/suites/build.rs`, key "arrow"): every marrow array `to_marrow`
returned is handed to arrow-rs (`ArrayRef::try_from`, marrow's conversion — not `serde_arrow::to_arrow`) and must pass
`validate_full` with the batch's length.  Per array the harness records `{"ok": len}`, `{"err": …}` (`validate_full`
refuses), `{"conv_err": …}` (the conversion refuses) or `{"panic": true}` (conversion or validation unwinds).  Classes
only, no message text.  A conversion that refuses or unwinds, or a length that differs, at a position of the suspects
table (`suspectsOfField "arrow"`: degenerate types on which third-party code breaks, recorded findings of C19 / C03) is not
judged (tag); everywhere else anything but `ok` with the right length fails C03.  An absent key judges nothing.
Returns the signature of the first failure and coverage tags. -/
def marrowArrowC03 (fields : List Field) (nrows : Nat) (arrow : Json) : Option String × List String := Id.run do
  let entries := match arrow with | .arr a => a.toList | _ => []
  let mut tags : List String := []
  let mut sig : Option String := none
  for (f, e) in fields.zip entries do
    let susF := (suspectsOfField "arrow" f).headD ""
    let tail := if susF == "" then f.dataType.ctor else s!"{f.dataType.ctor}~{susF}"
    let cls :=
      if (e.getObjVal? "ok").isOk then "ok" else if (e.getObjVal? "err").isOk then "err"
      else if (e.getObjVal? "conv_err").isOk then "conv_err" else if (e.getObjVal? "panic").isOk then "panic" else "?"
    if cls == "ok" then
      if (e.getObjVal? "ok").toOption.bind (·.getNat?.toOption) == some nrows then tags := "marrow-arrow-checked" :: tags
      else if susF != "" then tags := s!"marrow-arrow:length~{susF}" :: tags
      else if sig.isNone then sig := some s!"build/C03/marrow-arrow/length/{tail}"
    else if cls == "err" then
      if sig.isNone then sig := some s!"build/C03/marrow-arrow/validate_full/{tail}"
    else if susF != "" then tags := s!"marrow-arrow:{cls}~{susF}" :: tags
    else if sig.isNone then sig := some s!"build/C03/marrow-arrow/{cls}/{tail}"
  return (sig, tags.eraseDups)

def annOfImpl (err : Json) : List (String × String) :=
  match err.getObjVal? "ann" with
  | .ok (.arr a) => a.toList.filterMap fun kv =>
      match kv with
      | .arr #[.str k, .str v] => some (k, v)
      | _ => none
  | _ => []

def handle (j : Json) : Except String Verdict := do
  let fields ← (← getArr j "schema").toList.mapM fieldOfJson
  let rows ← (← getArr j "rows").toList.mapM svalOfJson
  let ext := extOfAux ((getObj j "aux").toOption.getD Json.null)
  let impl ← getObj j "impl"
  let cls := implCls impl
  let model := toMarrow ext fields rows
  let interps := rows.map (interpRow ext fields)
  let anyMalformed := interps.any isMalformed || rows.any containsMalformed
  let firstBad := interps.findIdx? (fun r => !r.isOk)
  let tags := (fields.flatMap schemaTags).eraseDups ++ (rows.map (fun r => "row:" ++ r.kind)).eraseDups ++
    [s!"impl:{cls}", s!"rows:{if rows.length == 0 then "0" else if rows.length < 8 then "<8" else "≥8"}"]
  let tags := if rows.isEmpty then "trivial" :: tags else tags
  let tags := if anyMalformed then "malformed-stream" :: tags else tags
  let c16 := if cls == "panic" || cls == "hang" then "fail" else "pass"
  -- outcome class first
  if model.cls != cls then
    let c05 := if cls == "ok" && firstBad.isSome && !anyMalformed then "fail" else "na"
    -- the implementation returned arrays where the model did not: they must still be well formed (C03 speaks
    -- about every array a successful serialization returns, whatever the model says about the input)
    let c03 ← (if cls == "ok" then do
        let iarrs ← (← getArr impl "ok").toList.mapM arrOfJson
        let wfAll := iarrs.length == fields.length &&
          (fields.zip iarrs).all (fun (f, a) => WF f a && (decodeAll a).length == rows.length)
        let (backSig, _) := backendC03 fields rows.length ((getOpt j "backends").getD Json.null)
        let (maSig, _) := marrowArrowC03 fields rows.length ((getOpt j "arrow").getD Json.null)
        pure (if wfAll && backSig.isNone && maSig.isNone then "na" else "fail")
      else pure "na" : Except String String)
    -- structural validity alone (Spec.WFS, without the type-equality clause): what the C16 / C05 clause below is about
    let wfsBad ← (if cls == "ok" then do
        let iarrs ← (← getArr impl "ok").toList.mapM arrOfJson
        pure (!(iarrs.length == fields.length &&
          (fields.zip iarrs).all (fun (f, a) => SaModel.Spec.WFS f a && (decodeAll a).length == rows.length)))
      else pure false : Except String Bool)
    -- a malformed call stream that is ACCEPTED with arrays that are not well formed is a failure that was not reported
    -- as an error (C16) and an accepted unrepresentable input (C05): finding C16-map-key-value-alternation
    let c16 := if anyMalformed && wfsBad then "fail" else c16
    let c05 := if anyMalformed && wfsBad then "fail" else c05
    return { agree := false, spec := [("C16", c16), ("C05", c05), ("C01", "na"), ("C03", c03), ("C18", "na")], tags := tags,
             sig := if c03 == "fail" then s!"build/C03/accepted-by-impl-only/model={model.cls}" else s!"build/class/model={model.cls}/impl={cls}",
             why := s!"outcome class: model {model.cls} ({repr model.ann}), implementation {cls}: {(impl.getObjVal? cls).toOption.getD Json.null}" }
  match model with
  | .error _ =>
    if cls == "err" then
      let ia := annOfImpl ((impl.getObjVal? "err").toOption.getD Json.null)
      let ma := model.ann
      let annEq := ia == ma
      -- C18 (serializer half): the error names a field (and a data type), and the field is one of the positions
      -- at which the documented mapping is undefined for the first unrepresentable row (Spec/Blame.lean)
      let blamed := match firstBad.bind (fun i => rows[i]?) with
        | some row => blameRow ext fields row
        | none => []
      -- an error of `build_builder` (the schema is refused before any value is serialized) is outside C18, which speaks
      -- about errors raised while serializing a value
      let schemaRefused := !(newRoot fields).isOk
      let c18 :=
        if schemaRefused then "na"
        else if ia.lookup "field" == none || ia.lookup "data_type" == none then "fail"
        else if anyMalformed || blamed.isEmpty then "na"
        else if blamed.contains ((ia.lookup "field").getD "") then "pass"
        -- an `UnknownVariant` placeholder refuses EVERY call by design (also the defaults a `None` above it issues); where
        -- such a placeholder sits outside a union the documented mapping still gives the row a value, so `Spec.blameRow`
        -- (positions where the mapping is undefined) has no claim about this refusal — and the error does name the innermost
        -- field being processed (thorough tier of C18, vp run #6, case build-023899: FALSE ALARM of the predicate)
        else if ia.lookup "data_type" == some "<unknown variant>" then "na"
        else "fail"
      return { agree := annEq, spec := [("C16", c16), ("C05", "pass"), ("C01", "na"), ("C03", "na"), ("C18", c18)], tags := "err" :: (if schemaRefused then "schema-refused" :: tags else tags),
               sig := if !annEq then s!"build/ann/{(ma.lookup "data_type").getD "-"}" else if c18 == "fail" then s!"build/C18/{(ia.lookup "data_type").getD "-"}" else "",
               why := if !annEq then s!"annotations: model {repr ma}, implementation {repr ia}" else if c18 == "fail" then s!"blamed field {repr (ia.lookup "field")} not among {repr blamed}" else "" }
    else
      return { agree := true, spec := [("C16", c16), ("C05", "na"), ("C01", "na"), ("C03", "na"), ("C18", "na")], tags := tags }
  | .ok marrs =>
    let iarrs ← (← getArr impl "ok").toList.mapM arrOfJson
    -- C03
    let wfAll := iarrs.length == fields.length &&
      (fields.zip iarrs).all (fun (f, a) => WF f a && (decodeAll a).length == rows.length)
    let firstNotWf := (fields.zip iarrs).findIdx? (fun (f, a) => !(WF f a && (decodeAll a).length == rows.length))
    -- C01 / C05
    let c05 := if anyMalformed then "na" else if firstBad.isSome then "fail" else "pass"
    let decoded := iarrs.map decodeAll
    let c01 :=
      if anyMalformed || firstBad.isSome then "na"
      else
        let ok := (List.range fields.length).all fun col =>
          match decoded[col]? with
          | none => false
          | some slots =>
            slots.length == rows.length &&
            (List.range rows.length).all fun i =>
              match interps[i]?, slots[i]? with
              | some (.ok row), some (.ok lv) => projField row col == some lv
              | _, _ => false
        if ok then "pass" else "fail"
    -- correspondence: same decoded content as the model's arrays
    let mdecoded := marrs.map decodeAll
    let same := decoded.length == mdecoded.length && (decoded.zip mdecoded).all fun (a, b) =>
      a.length == b.length && (a.zip b).all fun (x, y) =>
        match x, y with
        | .ok u, .ok v => u == v
        | .error _, .error _ => true
        | _, _ => false
    let phys := iarrs == marrs
    -- the abstraction function of the refinement proofs, evaluated on the model's final state:
    -- `decodeAll (finish b) = (dec b).map ok` (runtime instance of the theorem, before/while it is proved)
    let mroot := runRows ext fields rows
    let decOk := match mroot with
      | .ok root => (decRoot root).map (fun c => c.map (fun v => (Except.ok v : R LVal))) == mdecoded
      | .error _ => false
    -- the OBSERVABLE rows (`Build.decH`, the abstraction of the hidden-rows refinement `Props.C01.push_refines` /
    -- `C01_build_decode'`): every row of every root column is determined and is the row `dec` reads (runtime instance of
    -- `runRows_rows'` + `det_root_cols`); `undet`: some slot hidden below a null ancestor IS undetermined in the final
    -- state (a placeholder key of a still empty dictionary) — the situation `Safe` used to exclude
    let detOk := match mroot with
      | .ok (.struct _ _ _ fs _ _ _) =>
        (decHCols fs).map (·.2) == (decCols fs).map (fun c => c.2.map some)
      | _ => false
    let undet := match mroot with
      | .ok root => anyUndet root
      | .error _ => false
    -- no exemption for malformed call streams: whatever is accepted must be well formed (`C03_wfS` has no `rawOK`)
    -- … and the same on the arrow / arrow2 outputs (validate_full, data_type() = the field's, record batch)
    let (backSig, backTags) := backendC03 fields rows.length ((getOpt j "backends").getD Json.null)
    -- … and on the marrow arrays themselves, taken over by arrow-rs (key "arrow": the second independent oracle)
    let (maSig, maTags) := marrowArrowC03 fields rows.length ((getOpt j "arrow").getD Json.null)
    let backSig := if backSig.isSome then backSig else maSig
    let c03 := if wfAll && backSig.isNone then "pass" else "fail"
    let tags := maTags ++ backTags ++ tags
    -- … and a malformed stream accepted with such arrays is also a C16 / C05 failure (see above)
    -- (structural validity, Spec.WFS: a column of another data type than declared — the type clause of Spec.WF — is C03's
    -- matter alone; thorough tier of C05, vp run #6: the known finding C03-map-entries-metadata met a malformed stream)
    let wfsAll := iarrs.length == fields.length &&
      (fields.zip iarrs).all (fun (f, a) => SaModel.Spec.WFS f a && (decodeAll a).length == rows.length)
    let c16 := if anyMalformed && !wfsAll && !fields.any hasFsb0 then "fail" else c16
    let c05 := if anyMalformed && !wfsAll && !fields.any hasFsb0 then "fail" else c05
    let badCol := firstNotWf.getD 0
    -- a column that is structurally valid and of the right length but of ANOTHER data type: name the aspect
    let cul := match fields[badCol]?, iarrs[badCol]? with
      | some f, some a => if firstNotWf.isSome then culpritSig f a (fields.any hasFsb0) else "-"
      | _, _ => "-"
    let sig :=
      if !wfAll then s!"build/C03/{cul}"
      else if c03 == "fail" then backSig.getD "build/C03/?"
      else if c01 == "fail" then s!"build/C01/{cul}"
      else if c05 == "fail" then s!"build/C05/accepted-unrepresentable"
      else if !same then "build/decoded-differs"
      else if !decOk && !fields.any hasFsb0 then "build/dec-vs-decode"
      else if !detOk then "build/root-row-undetermined" else ""
    return { agree := same && (decOk || fields.any hasFsb0) && detOk, spec := [("C16", c16), ("C05", c05), ("C01", c01), ("C03", c03), ("C18", "na")],
             tags := (if phys then "phys-eq" else "phys-diff") :: (if decOk then "dec=decode" else "dec≠decode") ::
               (if undet then "hidden-undetermined" :: tags else tags), sig := sig,
             why := if sig == "" then "" else s!"{sig}: first row not representable = {repr firstBad}; column not wf = {repr firstNotWf}" }

end Driver.Suites.Build
