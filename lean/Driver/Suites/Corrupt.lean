import Driver.ReadCheck
import Driver.TouchRange
/- suite `corrupt` (C17): single-point corruptions of valid views, read through every access path.

agree : the reader model (SaModel/Read/Reader.lean, `Fixes.all`) reproduces constructor and read outcomes.
spec C17 (independent of the reader model): no panic, and an `Ok` result is either what the Arrow reading
rules (`Spec.decode`) assign to that slot of the view *as it stands* (then nothing foreign can have been
returned: `deserialize_any` results are compared with `toD` of the decoded value), or it equals what the
uncorrupted view gives for the same read (the corruption was not touched).  The second escape is classified with the
footprint relation of `SaModel.Props.C17.untouched_ok`: tag `untouched-justified` when `touchEq ty base view idx` holds
(the corrupted view agrees with the base view on everything the read looks at, so by the theorem the result HAS to be
the base result), `untouched-coincidence` when the results are equal although the footprint differs (possible
legitimately: e.g. a corrupted offset pair that designates equal bytes) — both pass.
Correspondence also covers the theorem itself: where `touchEq` holds, the implementation's outcome on the corrupted
view must be its outcome on the base view (same class, same value), for every read, Ok or not. -/
namespace Driver.Suites.Corrupt
open Lean Driver SaModel SaModel.Read

def handle (j : Json) : Except String Verdict := do
  let fm ← fmetaOfJson (← getObj j "fm")
  let col ← arrOfJson (← getObj j "view")
  let cclass ← getStr j "corruption"
  let fam := corruptionFamily cclass
  let reads ← (← getArr j "reads").toList.mapM parseRead
  let ctor ← getObj j "ctor"
  let impls := (← getArr j "impl").toList
  let baseImpls := (← getArr j "base_impl").toList
  let rec_ := record fm col
  let baseRec ← (do
    match getOpt j "base" with
    | some b => pure (some (record fm (← arrOfJson b)))
    | none => pure none : Except String (Option Arr))
  let mctor := new Fixes.all rec_
  let ccls := implCls ctor
  let kind := arrKind col
  if ccls == "panic" then
    return { agree := mctor.cls == "panic", spec := [("C17", "fail"), ("C16", "fail")],
             sig := s!"C17/panic/ctor/{attributeCtor rec_ ccls}/{fam}", tags := ["ctor-panic"],
             why := s!"constructor panics: {ctor.compress.take 200}" }
  if mctor.cls != ccls then
    return { agree := false, spec := [("C17", "pass"), ("C16", "pass")],
             sig := s!"C17/disagree/ctor/model={mctor.cls}/impl={ccls}/{fam}",
             why := s!"constructor: model {mctor.cls}, implementation {ccls} ({cclass} on {kind})" }
  if ccls != "ok" then
    return { agree := true, spec := [("C17", "pass"), ("C16", "pass")], tags := ["ctor-err", s!"corrupt:{fam}", s!"kind:{kind}"] }
  if impls.length != reads.length then
    return { agree := false, spec := [("C17", "na")], sig := "C17/read-count", why := "number of results differs from number of reads" }
  let mut tags : List String := [s!"corrupt:{fam}", s!"kind:{kind}"]
  let mut nOk := 0
  let mut nErr := 0
  let mut nUntouched := 0
  let mut k := 0
  for (r, impl) in reads.zip impls do
    let m := modelRead Fixes.all fm col r
    let icls := if isNoneItem impl then "none" else implCls impl
    -- the footprint of this read is the same in the base view and in the corrupted view (`untouched_ok`)
    let fpEq := match baseRec with
      | none => false
      | some b =>
        if r.bulk then
          (match b with
           | .struct blen _ _ => blen == vlen col && blen ≤ 4096 && (List.range blen).all fun i => touchEq r.ty b rec_ i
           | _ => false)
        else touchEq r.ty b rec_ r.idx
    if fpEq then
      tags := "footprint-equal" :: tags
      match baseImpls[k]? with
      | none => pure ()
      | some bimpl =>
        let bcls := if isNoneItem bimpl then "none" else implCls bimpl
        if bcls != icls || (icls == "ok" && bimpl != impl) then
          return { agree := false, spec := [("C17", "pass"), ("C16", "pass")],
                   sig := s!"C17/disagree/footprint-equal-result-differs/{fam}/{targetKind r.ty}", tags := tags,
                   why := s!"read #{k} (idx {r.idx}, {targetKind r.ty}): the corrupted view agrees with the base view on everything this read looks at (touchEq, theorem untouched_ok: the model's results are equal) but the implementation's outcomes differ: base {bimpl.compress.take 160}, corrupted {impl.compress.take 160}" }
    -- specification predicate
    if icls == "panic" then
      return { agree := (match compareRead m impl with | .agree => true | _ => false),
               spec := [("C17", "fail"), ("C16", "fail")],
               sig := s!"C17/panic/{attributeRead fm col r impl}/{fam}/{targetKind r.ty}",
               tags := tags, why := s!"read #{k} (idx {r.idx}) panics: {impl.compress.take 240}" }
    else if icls == "ok" then
      nOk := nOk + 1
      let implVal := (impl.getObjVal? "ok").toOption.getD Json.null
      let sd := Spec.decodeAt rec_ r.idx
      let consistent := match sd with
        | .ok lv =>
          match r.ty with
          | .any => dvalMatches (toD rec_ lv) implVal
          | _ => true
        | .error _ => false
      let untouched := baseImpls.getD k Json.null == impl
      if untouched then nUntouched := nUntouched + 1
      -- the escape "equals the read on the uncorrupted view" is used: justified by the theorem, or a coincidence
      if !consistent && untouched then
        tags := (if fpEq then "untouched-justified" else "untouched-coincidence") :: tags
      -- an `Ok` that had to visit a slot beyond the length of the array it belongs to (independent of what the
      -- uncorrupted view would have given there: the elements come from outside the ranges the view designates)
      if !consistent && !r.bulk && !(touchOK r.ty rec_ r.idx) then
        return { agree := (match compareRead m impl with | .agree => true | _ => false),
                 spec := [("C17", "fail"), ("C16", "pass")],
                 sig := s!"C17/out-of-range/{attributeRead fm col r impl}/{fam}/{targetKind r.ty}",
                 tags := tags,
                 why := s!"read #{k} (idx {r.idx}, {targetKind r.ty}) returns Ok although it has to visit a slot beyond the length of the array it belongs to ({cclass}): {impl.compress.take 240}" }
      if !consistent && !untouched then
        -- known finding #23: typed reads of struct / list / map into non-Option targets never consult validity
        let typedIgnoresValidity := (match r.ty with | .any => false | _ => true) &&
          (Spec.decodeAt (stripContainerValidity rec_) r.idx).isOk
        if typedIgnoresValidity then
          return { agree := (match compareRead m impl with | .agree => true | _ => false),
                   spec := [("C17", "fail"), ("C16", "pass")],
                   sig := s!"C17/validity-not-consulted/{fam}/{targetKind r.ty}", tags := tags,
                   why := s!"read #{k} (idx {r.idx}, {targetKind r.ty}): a container's validity bitmap is inconsistent ({cclass}) but the typed read into a non-Option target never looks at it: {impl.compress.take 200}" }
        -- an element with start == end beyond the child's length is read as empty: the child is never touched
        let emptyBeyond := (match sd with | .error (.err "offsets out of range") => true | _ => false) &&
          (match compareRead m impl with | .agree => true | _ => false)
        if emptyBeyond then
          return { agree := true, spec := [("C17", "fail"), ("C16", "pass")],
                   sig := s!"C17/empty-range-beyond-child/{fam}/{targetKind r.ty}", tags := tags,
                   why := s!"read #{k} (idx {r.idx}, {targetKind r.ty}): an element whose offsets lie beyond its child ({cclass}) and that the readers find empty (start == end) is returned as empty without an error: {impl.compress.take 200}" }
        return { agree := (match compareRead m impl with | .agree => true | _ => false),
                 spec := [("C17", "fail"), ("C16", "pass")],
                 sig := s!"C17/foreign/{attributeRead fm col r impl}/{fam}/{targetKind r.ty}",
                 tags := tags,
                 why := s!"read #{k} (idx {r.idx}, {targetKind r.ty}) returns Ok although the slot is inconsistent ({cclass}) and differs from the uncorrupted read: {impl.compress.take 240}" }
    else
      nErr := nErr + 1
    -- correspondence
    match compareRead m impl with
    | .agree => pure ()
    | .differ why =>
      return { agree := false, spec := [("C17", "pass"), ("C16", "pass")],
               sig := s!"C17/disagree/{attributeRead fm col r impl}/{fam}/{targetKind r.ty}",
               tags := tags, why := s!"read #{k} (idx {r.idx}, {targetKind r.ty}) on {kind} with {cclass}: {why}" }
    k := k + 1
  if nOk > 0 then tags := "some-ok" :: tags
  if nErr > 0 then tags := "some-err" :: tags
  if nUntouched > 0 then tags := "untouched" :: tags
  return { agree := true, spec := [("C17", "pass"), ("C16", "pass")], tags := tags.eraseDups }

end Driver.Suites.Corrupt
