import Driver.ReadCheck
import Driver.TouchRange
/- suite `corrupt` (C17): single-point corruptions of valid views, read through every access path.

agree : the reader model (SaModel/Read/Reader.lean, `Fixes.all`) reproduces constructor and read outcomes.
spec C17 (independent of the reader model): no panic, and an `Ok` result is either what the Arrow reading
rules (`Spec.decode`) assign to that slot of the view *as it stands* (then nothing foreign can have been
returned: `deserialize_any` results are compared with `toD` of the decoded value), or it equals what the
uncorrupted view gives for the same read AND the corruption was not touched: `touchEq ty base view idx` holds (the
corrupted view agrees with the base view on everything the read looks at; by `SaModel.Props.C17.untouched_ok` the
result HAS to be the base result) — tag `untouched-justified`.

An `Ok` whose slot `Spec.decodeAt` rejects (or reads differently) and that has to visit something outside the ranges
the view designates — `touchOK` is false: a row / element / key / union slot beyond the length of its array, or, at
a leaf, an offset pair outside the data buffer, a view descriptor that names a buffer the view does not have or a
range outside that buffer, a FixedSizeBinary row outside the data — is a violation whatever the uncorrupted view
gives there (`C17/out-of-range/…`; `readRecord_touch_in_range`: no successful read of the model does that).

`untouched-coincidence` (an `Ok` equal to the base read although the FOOTPRINT differs and `Spec.decodeAt` rejects
the slot or reads it differently) is not an escape.  It would need a reader that LOOKS at the corrupted datum
(`touchEq` is the exact footprint of a successful read), accepts it although the Arrow reading rejects it, and still
produces the base value.  The readers accept more than `Spec.decodeAt` in exactly two places, both recorded known
findings: (a) typed reads of struct / list / map columns into non-Option targets never consult the container's
validity (#23) — not part of the footprint of such a read, so a corruption there is `untouched-justified`, never a
coincidence; (b) an empty element range of a list / map column beyond its child — the offset pair IS in the
footprint, but a single corruption of one offset of an empty pair makes it non-empty or decreasing (another value
or an error), both offsets of one pair are never corrupted together (the pair generator never takes two sites on
one path), and a corruption of the CHILD that leaves the pair alone has an equal footprint (justified).  With two
corruptions (thorough tier) one of them can be of kind (a) / (b) and the other one looked at but without
influence on the value (a byte of a field that is skipped through `IgnoredAny`, an offset pair moved over equal
bytes): such a case is classified by what makes `Spec.decodeAt` reject the slot, i.e. it is reported as the known
finding `C17/validity-not-consulted` / `C17/empty-range-beyond-child`, exactly as when the result differs from the
base read.  Everything else is `C17/foreign/…` (tag `untouched-coincidence` kept for the evidence).
Two corruptions of which the read looks at only ONE (a tuple target that reads the leading fields, the other corruption in
a field it does not read; `Spec.decodeAt` decodes the whole slot and rejects it): the case carries the two views with one
corruption each (`alts`); the result is explained when the view agrees with one of them on the footprint of the read
(`touchEq`) and the Arrow reading of that one explains the result (tag `explained-by-single-corruption`; this is
where the coincidences of the thorough tier go: e.g. seed 3 has 5 reads equal to the base read with a differing
footprint, all of them explained this way).  The compound of the two known findings (a typed read that does not
look at a container's broken validity and finds an empty element beyond the child) is reported as
`C17/empty-range-beyond-child`.  Quick and
thorough tier, seeds 1–3, on the repository as it stands: the tag `untouched-coincidence` never occurs.
Correspondence also covers the theorem itself: where `touchEq` holds, the implementation's outcome on the corrupted
view must be its outcome on the base view (same class, same value), for every read, Ok or not. -/
namespace Driver.Suites.Corrupt
open Lean Driver SaModel SaModel.Read

def handle (j : Json) : Except String Verdict := do
  let fm ← fmetaOfJson (← getObj j "fm")
  let col ← arrOfJson (← getObj j "view")
  let cclass ← getStr j "corruption"
  let fam := corruptionFamily cclass
  let reads ← (← getArr j "reads").toList.mapM parseRead
  let ctor ← getObj j "ctor"
  let impls := (← getArr j "impl").toList
  let baseImpls := (← getArr j "base_impl").toList
  let rec_ := record fm col
  let baseRec ← (do
    match getOpt j "base" with
    | some b => pure (some (record fm (← arrOfJson b)))
    | none => pure none : Except String (Option Arr))
  -- pairs: the two views with one of the two corruptions each
  let alts ← (do
    match getOpt j "alts" with
    | some (.arr xs) => xs.toList.mapM fun x => do pure (record fm (← arrOfJson x))
    | _ => pure [] : Except String (List Arr))
  let mctor := new Fixes.all rec_
  let ccls := implCls ctor
  let kind := arrKind col
  if ccls == "panic" then
    return { agree := mctor.cls == "panic", spec := [("C17", "fail"), ("C16", "fail")],
             sig := s!"C17/panic/ctor/{attributeCtor rec_ ccls}/{fam}", tags := ["ctor-panic"],
             why := s!"constructor panics: {ctor.compress.take 200}" }
  if mctor.cls != ccls then
    return { agree := false, spec := [("C17", "pass"), ("C16", "pass")],
             sig := s!"C17/disagree/ctor/model={mctor.cls}/impl={ccls}/{fam}",
             why := s!"constructor: model {mctor.cls}, implementation {ccls} ({cclass} on {kind})" }
  if ccls != "ok" then
    return { agree := true, spec := [("C17", "pass"), ("C16", "pass")], tags := ["ctor-err", s!"corrupt:{fam}", s!"kind:{kind}"] }
  if impls.length != reads.length then
    return { agree := false, spec := [("C17", "na")], sig := "C17/read-count", why := "number of results differs from number of reads" }
  let mut tags : List String := [s!"corrupt:{fam}", s!"kind:{kind}"]
  let mut nOk := 0
  let mut nErr := 0
  let mut nUntouched := 0
  let mut k := 0
  for (r, impl) in reads.zip impls do
    let m := modelRead Fixes.all fm col r
    let icls := if isNoneItem impl then "none" else implCls impl
    -- the footprint of this read is the same in the base view and in the corrupted view (`untouched_ok`)
    let fpEq := match baseRec with
      | none => false
      | some b =>
        if r.bulk then
          (match b with
           | .struct blen _ _ => blen == vlen col && blen ≤ 4096 && (List.range blen).all fun i => touchEq r.ty b rec_ i
           | _ => false)
        else touchEq r.ty b rec_ r.idx
    if fpEq then
      tags := "footprint-equal" :: tags
      match baseImpls[k]? with
      | none => pure ()
      | some bimpl =>
        let bcls := if isNoneItem bimpl then "none" else implCls bimpl
        if bcls != icls || (icls == "ok" && bimpl != impl) then
          return { agree := false, spec := [("C17", "pass"), ("C16", "pass")],
                   sig := s!"C17/disagree/footprint-equal-result-differs/{fam}/{targetKind r.ty}", tags := tags,
                   why := s!"read #{k} (idx {r.idx}, {targetKind r.ty}): the corrupted view agrees with the base view on everything this read looks at (touchEq, theorem untouched_ok: the model's results are equal) but the implementation's outcomes differ: base {bimpl.compress.take 160}, corrupted {impl.compress.take 160}" }
    -- specification predicate
    if icls == "panic" then
      return { agree := (match compareRead m impl with | .agree => true | _ => false),
               spec := [("C17", "fail"), ("C16", "fail")],
               sig := s!"C17/panic/{attributeRead fm col r impl}/{fam}/{targetKind r.ty}",
               tags := tags, why := s!"read #{k} (idx {r.idx}) panics: {impl.compress.take 240}" }
    else if icls == "ok" then
      nOk := nOk + 1
      let implVal := (impl.getObjVal? "ok").toOption.getD Json.null
      let sd := Spec.decodeAt rec_ r.idx
      -- the Arrow reading of slot `idx` of `w` explains the result (typed: the slot is decodable)
      let explainedBy (w : Arr) : Bool := match Spec.decodeAt w r.idx with
        | .ok lv =>
          match r.ty with
          | .any => dvalMatches (toD w lv) implVal
          | _ => true
        | .error _ => false
      let consistent := explainedBy rec_
      let untouched := baseImpls.getD k Json.null == impl
      if untouched then nUntouched := nUntouched + 1
      -- the escape "equals the read on the uncorrupted view": only where the theorem justifies it (equal footprint)
      let justified := untouched && fpEq
      -- two corruptions, the read looks at only one of them: the view agrees on the footprint of the read (`touchEq`,
      -- `untouched_ok`: same result) with the view that has only that corruption, and the Arrow reading of THAT view
      -- explains the result
      let viaSingle := !consistent && !justified && !r.bulk &&
        alts.any fun w => touchEq r.ty w rec_ r.idx && explainedBy w
      if !consistent then
        if justified then tags := "untouched-justified" :: tags
        else if viaSingle then tags := "explained-by-single-corruption" :: tags
        else if untouched then tags := "untouched-coincidence" :: tags
      -- an `Ok` that had to visit a slot beyond the length of the array it belongs to, or bytes outside the buffer
      -- its offsets / descriptor designate (independent of what the uncorrupted view would have given there: the
      -- elements / bytes come from outside the ranges the view designates)
      if !consistent && !r.bulk && !(touchOK r.ty rec_ r.idx) then
        return { agree := (match compareRead m impl with | .agree => true | _ => false),
                 spec := [("C17", "fail"), ("C16", "pass")],
                 sig := s!"C17/out-of-range/{attributeRead fm col r impl}/{fam}/{targetKind r.ty}",
                 tags := tags,
                 why := s!"read #{k} (idx {r.idx}, {targetKind r.ty}) returns Ok although it has to visit a slot beyond the length of the array it belongs to, or bytes outside the buffer that its offsets / view descriptor designate ({cclass}): {impl.compress.take 240}" }
      if !consistent && !justified && !viaSingle then
        -- known finding #23: typed reads of struct / list / map into non-Option targets never consult validity
        let typedIgnoresValidity := (match r.ty with | .any => false | _ => true) &&
          (Spec.decodeAt (stripContainerValidity rec_) r.idx).isOk
        if typedIgnoresValidity then
          return { agree := (match compareRead m impl with | .agree => true | _ => false),
                   spec := [("C17", "fail"), ("C16", "pass")],
                   sig := s!"C17/validity-not-consulted/{fam}/{targetKind r.ty}", tags := tags,
                   why := s!"read #{k} (idx {r.idx}, {targetKind r.ty}): a container's validity bitmap is inconsistent ({cclass}) but the typed read into a non-Option target never looks at it: {impl.compress.take 200}" }
        -- an element with start == end beyond the child's length is read as empty: the child is never touched
        -- (with two corruptions also together with the previous finding: a typed read that does not look at a
        -- container's broken validity AND finds an empty element beyond the child)
        let isTyped := (match r.ty with | .any => false | _ => true)
        let outOfRange (x : R LVal) : Bool := match x with | .error (.err "offsets out of range") => true | _ => false
        let emptyBeyond := (outOfRange sd || (isTyped && outOfRange (Spec.decodeAt (stripContainerValidity rec_) r.idx))) &&
          (match compareRead m impl with | .agree => true | _ => false)
        if emptyBeyond then
          return { agree := true, spec := [("C17", "fail"), ("C16", "pass")],
                   sig := s!"C17/empty-range-beyond-child/{fam}/{targetKind r.ty}", tags := tags,
                   why := s!"read #{k} (idx {r.idx}, {targetKind r.ty}): an element whose offsets lie beyond its child ({cclass}) and that the readers find empty (start == end) is returned as empty without an error: {impl.compress.take 200}" }
        return { agree := (match compareRead m impl with | .agree => true | _ => false),
                 spec := [("C17", "fail"), ("C16", "pass")],
                 sig := s!"C17/foreign/{attributeRead fm col r impl}/{fam}/{targetKind r.ty}",
                 tags := tags,
                 why := s!"read #{k} (idx {r.idx}, {targetKind r.ty}) returns Ok although the slot is inconsistent ({cclass}) and " ++
                   (if untouched then "equals the uncorrupted read only by coincidence (the read looks at the corrupted data: touchEq is false)"
                    else "differs from the uncorrupted read") ++ s!": {impl.compress.take 240}" }
    else
      nErr := nErr + 1
    -- correspondence
    match compareRead m impl with
    | .agree => pure ()
    | .differ why =>
      return { agree := false, spec := [("C17", "pass"), ("C16", "pass")],
               sig := s!"C17/disagree/{attributeRead fm col r impl}/{fam}/{targetKind r.ty}",
               tags := tags, why := s!"read #{k} (idx {r.idx}, {targetKind r.ty}) on {kind} with {cclass}: {why}" }
    k := k + 1
  if nOk > 0 then tags := "some-ok" :: tags
  if nErr > 0 then tags := "some-err" :: tags
  if nUntouched > 0 then tags := "untouched" :: tags
  return { agree := true, spec := [("C17", "pass"), ("C16", "pass")], tags := tags.eraseDups }

end Driver.Suites.Corrupt
