import Driver.Util
import SaModel.Codec.Decimal
import SaModel.Spec.Decimal
/-
Suite `decimal` (C15).  One case = one `Decimal128(p, s)` column and a list of items; each item was
executed on the real crate on its own.  For every item the handler
  * runs the model (`SaModel.Decimal.serializeStr / serializeFloat / formatDecimal / builderNew`, the
    definitions the theorems in `SaModel/Props/C15.lean` are about) and compares outcome class and
    stored i128 / produced text with the implementation (`agree`);
  * evaluates the specification predicate (`SaModel.Spec.Decimal`: grammar, exact value, truncation toward
    zero, precision limit) on the implementation's output (`spec`), cross-checked with the BigDecimal
    oracle the harness put into the case (a disagreement between the two specifications is reported as
    `C15/spec-vs-oracle`, never silently resolved).
A panic is both a C15 and a C16 failure.
-/
namespace Driver.Suites.Decimal
open Lean Driver SaModel
open SaModel.Spec.Decimal (Dec expected scaledFloor isNeg DenotesScaled decompose applySign)

structure ItemV where
  agree : Bool := true
  c15 : String := "pass"
  panicked : Bool := false
  sig : String := ""
  tag : String := ""
  why : String := ""

def pCls (p : Nat) : String :=
  if p == 0 then "0" else if p ≤ 38 then "1..38" else if p ≤ 64 then "39..64" else ">64"

def sClsWrite (p : Nat) (s : Int) : String :=
  if s == -128 then "-128" else if s < 0 then "neg" else if s == 0 then "0" else if s.toNat < p then "lt-p" else "ge-p"

def sClsRead (s : Int) : String :=
  if s == -128 then "-128" else if s ≤ -25 then "le-25" else if s < 0 then "neg" else if s == 0 then "0"
  else if s ≥ 62 then "ge-62" else "pos"

/-- implementation outcome of a write: class and stored value -/
def implInt (o : Json) : Except String (String × Option Int) := do
  let cls := implCls o
  if cls == "ok" then
    let v ← jsonInt? (← o.getObjVal? "ok")
    return (cls, some v)
  else return (cls, none)

def modelInt (r : R Int) : String × Option Int :=
  match r with
  | .ok v => ("ok", some v)
  | .error (.err _) => ("err", none)
  | .error (.errCtx _ _) => ("err", none)
  | .error (.panic _) => ("panic", none)

def strClass (p : Nat) (s : Int) (txt : SaModel.Spec.Decimal.Bytes) : String :=
  if !(txt.any SaModel.Spec.Decimal.isDigit) then "nodigit"
  else if ¬ Dec txt then "notdec"
  else if scaledFloor txt s ≥ 10 ^ p then "over"
  else if s ≤ 0 ∧ (decompose txt).int.length ≤ (-s).toNat then "nokept"
  else if scaledFloor txt s == 0 then "zero"
  else "plain"

def parserTag (p : Nat) (s : Int) : String :=
  match Decimal.builderNew p s with
  | .ok (.integerOnlyTruncated ..) => "integerOnlyTruncated"
  | .ok (.mixedTruncated ..) => "mixedTruncated"
  | .ok (.fractionOnlyTruncated ..) => "fractionOnlyTruncated"
  | .ok _ => "other-parser"
  | .error _ => "no-builder"

def handleStr (p : Nat) (s : Int) (kind : String) (txtS : String) (impl oracle : Json) : Except String ItemV := do
  let txt := txtS.toUTF8.toList
  let (mcls, mv) := modelInt (Decimal.serializeStr p s txt)
  let (icls, iv) ← implInt impl
  let agree := mcls == icls && mv == iv
  let icls' := if icls == "ok" && mcls == "ok" && mv != iv then "okwrong" else icls
  let cls := strClass p s txt
  let sfx := s!"p-{pCls p}/s-{sClsWrite p s}"
  let tag := s!"{kind}:{parserTag p s}:{cls}:{icls}"
  if icls == "panic" then
    return { agree, c15 := "fail", panicked := true, tag, sig := s!"C15/str/{cls}/got-panic/{sfx}",
             why := s!"{kind} {txtS.quote}: implementation panicked" }
  if ¬ (1 ≤ p ∧ p ≤ 38) then
    -- outside the property's quantifier: only the correspondence (and no panic) is checked
    return { agree, c15 := "na", tag, sig := if agree then "" else s!"C15/str/{cls}/model-{mcls}/got-{icls'}/{sfx}",
             why := if agree then "" else s!"{kind} {txtS.quote}: model {mcls} {mv}, implementation {icls} {iv}" }
  let want := expected p s txt
  -- three-way: the Lean specification against BigDecimal (only where BigDecimal gave an answer)
  let big : Option Int := match oracle.getObjVal? "big" with
    | .ok (.str t) => t.toInt?
    | _ => none
  let specVsOracle : Bool := match big with
    | some b =>
      if Dec txt then decide (applySign (isNeg txt) (scaledFloor txt s) = b)
      else kind == "big"     -- BigDecimal's own Display may use an exponent: not Dec, nothing to compare
    | none => true
  if !specVsOracle then
    return { agree := false, c15 := "na", tag, sig := "C15/spec-vs-oracle/str",
             why := s!"{kind} {txtS.quote}: Lean spec {repr want} vs BigDecimal {repr big}" }
  let ok := match want, iv with
    | some w, some v => icls == "ok" && w == v
    | none, _ => icls == "err"
    | some _, none => false
  let wantS := if want.isSome then "ok" else "err"
  let got := if icls == "ok" && !ok && want.isSome then "okwrong" else icls
  if !ok then
    return { agree, c15 := "fail", tag, sig := s!"C15/str/{cls}/want-{wantS}/got-{got}/{sfx}",
             why := s!"{kind} {txtS.quote} into Decimal128({p},{s}): specification {repr want}, implementation {icls} {repr iv}" }
  return { agree, tag, sig := if agree then "" else s!"C15/str/{cls}/model-{mcls}/got-{icls'}/{sfx}",
           why := if agree then "" else s!"{kind} {txtS.quote}: model {mcls} {repr mv}, implementation {icls} {repr iv}" }

def handleFloat (p : Nat) (s : Int) (kind : String) (impl oracle : Json) : Except String ItemV := do
  let finite ← getBool oracle "finite"
  let cast ← getBigInt oracle "cast"
  let (mcls, mv) := modelInt (Decimal.serializeFloat p s finite cast)
  let (icls, iv) ← implInt impl
  let agree := mcls == icls && mv == iv
  let cls := if !finite then "nonfinite" else if cast.natAbs ≥ 10 ^ p then "over" else "fits"
  let sfx := s!"p-{pCls p}/s-{sClsWrite p s}"
  -- informational: how far the float arithmetic is from the exact decimal value of the float
  let close : String := match oracle.getObjVal? "exact" with
    | .ok (.str t) => match t.toInt? with
      | some e => if (cast - e).natAbs * 100000 ≤ e.natAbs + 100000 then "exact-close" else "exact-far"
      | none => "exact-na"
    | _ => "exact-na"
  let tag := s!"{kind}:{cls}:{icls}"
  if icls == "panic" then
    return { agree, c15 := "fail", panicked := true, tag, sig := s!"C15/{kind}/{cls}/got-panic/{sfx}", why := s!"{kind}: implementation panicked" }
  if ¬ (1 ≤ p ∧ p ≤ 38) then
    return { agree, c15 := "na", tag, sig := if agree then "" else s!"C15/{kind}/{cls}/model-{mcls}/got-{icls}/{sfx}",
             why := if agree then "" else s!"{kind}: model {mcls} {repr mv}, implementation {icls} {repr iv}" }
  -- specification: the same precision limit as for text; non-finite values are not numbers
  let want : Option Int := if finite ∧ cast.natAbs < 10 ^ p then some cast else none
  let ok := match want, iv with
    | some w, some v => icls == "ok" && w == v
    | none, _ => icls == "err"
    | some _, none => false
  let wantS := if want.isSome then "ok" else "err"
  if !ok then
    return { agree, c15 := "fail", tag, sig := s!"C15/{kind}/{cls}/want-{wantS}/got-{icls}/{sfx}",
             why := s!"{kind} (v*10^s as i128 = {cast}, finite = {finite}) into Decimal128({p},{s}): specification {repr want}, implementation {icls} {repr iv}" }
  return { agree, tag := s!"{tag}:{close}", sig := if agree then "" else s!"C15/{kind}/{cls}/model-{mcls}/got-{icls}/{sfx}",
           why := if agree then "" else s!"{kind}: model {mcls} {repr mv}, implementation {icls} {repr iv}" }

def bytesToString (b : List UInt8) : String := String.ofList (b.map fun c => Char.ofNat c.toNat)

def handleRead (s : Int) (v : Int) (impl oracle : Json) : Except String ItemV := do
  let model := Decimal.formatDecimal v s
  let icls := implCls impl
  let sfx := s!"s-{sClsRead s}"
  let tag := s!"read:{sClsRead s}:{icls}"
  if icls == "panic" then
    return { agree := model.cls == "panic", c15 := "fail", panicked := true, tag, sig := s!"C15/read/got-panic/{sfx}",
             why := s!"read {v} at scale {s}: implementation panicked" }
  if icls != "ok" then
    return { agree := model.cls == icls, c15 := "fail", tag, sig := s!"C15/read/want-ok/got-{icls}/{sfx}",
             why := s!"read {v} at scale {s}: implementation {icls}" }
  let arr ← (← impl.getObjVal? "ok").getArr?
  let some first := arr[0]? | throw "read: empty result"
  let txtS ← first.getStr?
  let txt := txtS.toUTF8.toList
  let agree := match model with
    | .ok m => m == txt && arr.size == 1
    | .error _ => false
  let specOk : Bool := decide (Dec txt) && decide (DenotesScaled txt v s)
  let bigEq := (oracle.getObjValAs? Bool "big_eq").toOption.getD false
  if specOk != bigEq then
    return { agree := false, c15 := "na", tag, sig := "C15/spec-vs-oracle/read",
             why := s!"read {v} at scale {s} gave {txtS.quote}: Lean spec {specOk} vs BigDecimal {bigEq}" }
  if !specOk then
    return { agree, c15 := "fail", tag, sig := s!"C15/read/want-ok/got-okwrong/{sfx}",
             why := s!"read {v} at scale {s} gave {txtS.quote}, which is not a decimal text equal to v / 10^s" }
  return { agree, tag, sig := if agree then "" else s!"C15/read/model-{model.cls}/got-ok/{sfx}",
           why := if agree then "" else s!"read {v} at scale {s}: model {repr (model.toOption.map bytesToString)}, implementation {txtS.quote}" }

def handle (j : Json) : Except String Verdict := do
  let p ← getNat j "p"
  let s ← getInt j "s"
  let items ← getArr j "items"
  let impls ← getArr j "impl"
  let oracles ← getArr j "oracle"
  let ctor ← getObj j "ctor"
  let mut vs : List ItemV := []
  -- builder creation
  let mctor := (Decimal.builderNew p s).cls
  let ictor := implCls ctor
  if ictor == "panic" then
    vs := vs ++ [{ agree := false, c15 := "fail", panicked := true, tag := "ctor:panic",
                   sig := s!"C15/ctor/got-panic/p-{pCls p}/s-{sClsWrite p s}", why := s!"creating the Decimal128({p},{s}) builder panicked" }]
  else if mctor != ictor then
    vs := vs ++ [{ agree := false, c15 := "na", tag := s!"ctor:{ictor}",
                   sig := s!"C15/ctor/model-{mctor}/got-{ictor}/p-{pCls p}/s-{sClsWrite p s}",
                   why := s!"creating the Decimal128({p},{s}) builder: model {mctor}, implementation {ictor}" }]
  else
    vs := vs ++ [{ tag := s!"ctor:{ictor}" }]
  if items.size != impls.size || items.size != oracles.size then throw "items / impl / oracle length mismatch"
  for i in [0:items.size] do
    let item := items[i]!
    let impl := impls[i]!
    let oracle := oracles[i]!
    let k ← getStr item "k"
    if (impl.getObjVal? "skip").isOk then continue
    let v ← match k with
      | "str" => handleStr p s k (← getStr item "txt") impl oracle
      | "big" => handleStr p s k (← getStr item "txt") impl oracle
      | "f64" => handleFloat p s k impl oracle
      | "f32" => handleFloat p s k impl oracle
      | "read" => handleRead s (← getBigInt item "v") impl oracle
      | other => throw s!"unknown item kind {other}"
    vs := vs ++ [v]
  let fails := vs.filter (·.c15 == "fail")
  let disagree := vs.filter (fun v => !v.agree)
  let bad := fails ++ disagree.filter (·.c15 != "fail")
  let c15 := if !fails.isEmpty then "fail" else if vs.any (·.c15 == "pass") then "pass" else "na"
  let c16 := if vs.any (·.panicked) then "fail" else "pass"
  let tags := (vs.map (·.tag)).eraseDups
  let tags := if items.size == 0 then "trivial" :: tags else tags
  return { agree := disagree.isEmpty, spec := [("C15", c15), ("C16", c16)],
           sig := match bad with | [] => "" | b :: _ => b.sig,
           tags,
           why := "; ".intercalate ((bad.take 4).map (·.why)) ++ (if bad.length > 4 then s!"; … {bad.length - 4} more" else "") }

end Driver.Suites.Decimal
