import Driver.Util
import SaModel.Ext.Fields
import SaModel.Ext.Json
/- suite `ext` (C20): the canonical-extension field helpers, mirrored call by call.
`agree`  : the model (SaModel/Ext) reproduces every outcome class and the produced field, including the
           exact extension-metadata text.
`spec`   : independent predicate — accept iff well formed, storage type as the Arrow specification
           prescribes, `serde_json`'s reading of the metadata equals exactly the configured entries. -/
namespace Driver.Suites.Ext
open Lean Driver SaModel SaModel.Ext

def i32MaxN : Nat := 2147483647

def getUsize (j : Json) : Except String Nat := do
  let v ← jsonInt? j
  if v < 0 then throw "negative usize" else pure v.toNat

def getUsizeList (j : Json) : Except String (List Nat) := do
  (← j.getArr?).toList.mapM getUsize

def getOptUsizeList (j : Json) : Except String (List (Option Nat)) := do
  (← j.getArr?).toList.mapM fun x => match x with
    | .null => pure none
    | x => some <$> getUsize x

def getNames (j : Json) : Except String (List String) := do
  (← j.getArr?).toList.mapM fun x => x.getStr?

/-! ### rendering the model's field the way the harness dumps marrow fields -/

def strOf (s : Str) : String := String.ofList s

mutual
partial def renderField : Field Json → Json
  | .element e => e
  | .mk name nullable dt md =>
    Json.mkObj [("name", name), ("nullable", nullable),
      ("meta", Json.arr (md.map fun (k, v) => Json.arr #[Json.str (strOf k), Json.str (strOf v)]).toArray),
      ("dt", renderDt dt)]
partial def renderDt : DataType Json → Json
  | .int8 => Json.mkObj [("t", "Int8")]
  | .int32 => Json.mkObj [("t", "Int32")]
  | .list c => Json.mkObj [("t", "List"), ("child", renderField c)]
  | .fixedSizeList c n => Json.mkObj [("t", "FixedSizeList"), ("child", renderField c), ("n", n)]
  | .struct fs => Json.mkObj [("t", "Struct"), ("fields", Json.arr (fs.map renderField).toArray)]
end

/-! ### the model, step by step -/

inductive H where
  | b (h : Bool8Field)
  | f (h : FixedShapeTensorField Json)
  | v (h : VariableShapeTensorField Json)

inductive Step where
  | nullable (v : Bool)
  | permutation (v : List Nat)
  | dimNames (v : List String)
  | uniformShape (v : List (Option Nat))

def Step.kind : Step → String
  | .nullable _ => "nullable" | .permutation _ => "permutation"
  | .dimNames _ => "dim_names" | .uniformShape _ => "uniform_shape"

def parseStep (j : Json) : Except String Step := do
  let k ← getStr j "set"
  let v ← getObj j "v"
  match k with
  | "nullable" => pure (.nullable (← v.getBool?))
  | "permutation" => pure (.permutation (← getUsizeList v))
  | "dim_names" => pure (.dimNames (← getNames v))
  | "uniform_shape" => pure (.uniformShape (← getOptUsizeList v))
  | _ => throw s!"unknown setter {k}"

def applyStep : H → Step → Except String (R H)
  | .b h, .nullable v => pure (.ok (.b (h.setNullable v)))
  | .f h, .nullable v => pure (.ok (.f (h.setNullable v)))
  | .v h, .nullable v => pure (.ok (.v (h.setNullable v)))
  | .f h, .permutation p => pure (H.f <$> h.setPermutation p)
  | .v h, .permutation p => pure (H.v <$> h.setPermutation p)
  | .f h, .dimNames d => pure (H.f <$> h.setDimNames (d.map String.toList))
  | .v h, .dimNames d => pure (H.v <$> h.setDimNames (d.map String.toList))
  | .v h, .uniformShape u => pure (H.v <$> h.setUniformShape u)
  | _, s => throw s!"setter {s.kind} does not exist on this helper"

def tryFrom : H → R (Field Json)
  | .b h => h.tryFrom
  | .f h => h.tryFrom
  | .v h => h.tryFrom

/-! ### the specification side -/

/-- "a rearrangement of 0..n": right length and every index below `n` occurs exactly once -/
def isPermutationSpec (n : Nat) (p : List Nat) : Bool :=
  p.length == n && (List.range n).all fun i => p.count i == 1

def wellFormed (ndim : Nat) : Step → Bool
  | .nullable _ => true
  | .permutation p => isPermutationSpec ndim p
  | .dimNames d => d.length == ndim
  | .uniformShape u => u.length == ndim

/-- what the user configured (the last value set wins) -/
structure Config where
  nullable : Bool := false
  permutation : Option (List Nat) := none
  dimNames : Option (List String) := none
  uniformShape : Option (List (Option Nat)) := none

def Config.apply (c : Config) : Step → Config
  | .nullable v => { c with nullable := v }
  | .permutation v => { c with permutation := some v }
  | .dimNames v => { c with dimNames := some v }
  | .uniformShape v => { c with uniformShape := some v }

def natArr (l : List Nat) : Json := Json.arr (l.map fun n => toJson n).toArray

/-- the JSON object the extension metadata must state -/
def expectedMetadata (helper : String) (shape : List Nat) (c : Config) : Json :=
  Json.mkObj <|
    (if helper == "fixed" then [("shape", natArr shape)] else [])
    ++ (match c.permutation with | some p => [("permutation", natArr p)] | none => [])
    ++ (match c.dimNames with | some d => [("dim_names", Json.arr (d.map Json.str).toArray)] | none => [])
    ++ (match c.uniformShape with
        | some u => [("uniform_shape", Json.arr (u.map fun | some v => toJson v | none => Json.null).toArray)]
        | none => [])

def plainChar (c : Char) : Bool := 32 ≤ c.toNat && c.toNat < 127 && c != '"' && c != '\\'

def namesClass (c : Config) : String :=
  match c.dimNames with
  | none => "none"
  | some d => if d.all fun s => s.toList.all plainChar then "plain" else "hostile"

def scalarJson : Json.JScalar → Json
  | .null => Json.null
  | .num n => toJson n
  | .str s => Json.str (strOf s)

def objJson (o : Json.JObj) : Json :=
  Json.mkObj (o.map fun (k, v) => (strOf k, match v with
    | .scalar s => scalarJson s
    | .arr l => Json.arr (l.map scalarJson).toArray))

def lookupMeta (md : Array Json) (key : String) : Option String :=
  md.toList.findSome? fun kv => match kv with
    | .arr #[.str k, .str v] => if k == key then some v else none
    | _ => none

def fieldSpec (cls : String) : List (String × String) :=
  [("C20", "fail"), ("C16", if cls == "panic" then "fail" else "pass")]

def handle (j : Json) : Except String Verdict := do
  let helper ← getStr j "helper"
  let name ← getStr j "name"
  let steps ← (← getArr j "steps").toList.mapM parseStep
  let implNew ← getObj j "new"
  let implSteps := (← getArr j "steps_out").toList
  let implField := (getOpt j "field")
  let mut tags : List String := [helper]
  -- shape / ndim
  let shape ← if helper == "fixed" then getUsizeList (← getObj j "shape") else pure []
  let ndim ← if helper == "fixed" then pure shape.length
             else if helper == "variable" then getUsize (← getObj j "ndim") else pure 0
  -- element as the public schema reader sees it
  let elem : Option Json := if helper == "bool8" then some Json.null else
    match j.getObjVal? "element_field" with
    | .ok e => (e.getObjVal? "ok").toOption
    | .error _ => none
  let elemName : String := match elem with
    | some e => (e.getObjValAs? String "name").toOption.getD ""
    | none => ""
  -- ---- new
  let modelNew : R H := match helper, elem with
    | "bool8", _ => .ok (.b (Bool8Field.new name))
    | _, none => fail "transmute_field failed"
    | "fixed", some e => H.f <$> FixedShapeTensorField.new name e elemName shape
    | _, some e => H.v <$> VariableShapeTensorField.new name e elemName ndim
  let specNewOk := helper == "bool8" || (elem.isSome && elemName == "element")
  let clsNew := implCls implNew
  let c16 (cls : String) := ("C16", if cls == "panic" then "fail" else "pass")
  let expectNew := if specNewOk then "ok" else "err"
  -- a fixed shape whose element count does not fit the i32 list size of the storage type is not a well-formed parameter set:
  -- the property leaves open WHERE it is refused (constructor or Field::try_from; the model refuses in try_from).  A refusal
  -- by the constructor is therefore neither a violation nor a disagreement (false-alarm probe g16: DESIGN.md section 11.1, correction dated in section 7.2).
  if helper == "fixed" && specNewOk && clsNew == "err" && shape.foldl (· * ·) 1 > i32MaxN then
    return { agree := true, spec := [("C20", "pass"), c16 clsNew], tags := tags ++ ["refused-at-construction"] }
  if clsNew != expectNew then
    return { agree := modelNew.cls == clsNew, spec := [("C20", "fail"), c16 clsNew], tags := tags,
             sig := s!"C20/new/{helper}/impl={clsNew}/expect={expectNew}",
             why := s!"constructor: implementation {clsNew}, element field {elem.isSome}/{elemName}" }
  if modelNew.cls != clsNew then
    return { agree := false, spec := [("C20", "pass"), c16 clsNew], tags := tags,
             sig := s!"C20/new/{helper}/model={modelNew.cls}/impl={clsNew}", why := "constructor: model differs" }
  let mut h ← match modelNew with
    | .ok h => pure h
    | .error _ => return { agree := true, spec := [("C20", "pass"), ("C16", "pass")], tags := tags ++ ["new-err"] }
  -- ---- setters
  let mut cfg : Config := {}
  let mut idx := 0
  let mut stopped := false
  for step in steps do
    if stopped then break
    let implOut ← match implSteps[idx]? with
      | some o => pure o
      | none => throw s!"harness: no outcome for step {idx}"
    let cls := implCls implOut
    let wf := wellFormed ndim step
    let expect := if wf then "ok" else "err"
    let model ← applyStep h step
    tags := tags ++ [s!"set-{step.kind}-{cls}"]
    if cls != expect then
      return { agree := model.cls == cls, spec := [("C20", "fail"), c16 cls], tags := tags,
               sig := s!"C20/step/{step.kind}/{helper}/impl={cls}/expect={expect}",
               why := s!"step {idx} {step.kind}: well formed = {wf}, implementation {cls}, model {model.cls}" }
    if model.cls != cls then
      return { agree := false, spec := [("C20", "pass"), c16 cls], tags := tags,
               sig := s!"C20/step/{step.kind}/{helper}/model={model.cls}/impl={cls}",
               why := s!"step {idx} {step.kind}: model {model.cls}, implementation {cls}" }
    match model with
    | .ok h' => h := h'; cfg := cfg.apply step
    | .error _ => stopped := true
    idx := idx + 1
  if implSteps.length != idx then
    return { agree := false, spec := [("C20", "na")], tags := tags, sig := "C20/harness/step-count",
             why := s!"{implSteps.length} step outcomes for {idx} executed steps" }
  if stopped then
    return { agree := true, spec := [("C20", "pass"), ("C16", "pass")], tags := tags ++ ["rejected"] }
  -- ---- Field::try_from
  let implField ← match implField with
    | some o => pure o
    | none => throw "harness: all steps ok but no field outcome"
  let cls := implCls implField
  let model := tryFrom h
  let prod := shape.foldl (· * ·) 1
  let fits : Bool := if helper == "fixed" then decide (prod ≤ i32MaxN) else if helper == "variable" then decide (ndim ≤ i32MaxN) else true
  if helper == "fixed" then
    tags := tags ++ [if prod == 0 then "prod=0" else if prod ≤ i32MaxN then "prod-fits" else if prod < 2 ^ 64 then "prod>i32" else "prod>usize"]
    if shape.isEmpty then tags := tags ++ ["shape-empty"]
  if helper != "bool8" then
    let op := if cfg.permutation.isSome then "p" else "-"
    let od := if cfg.dimNames.isSome then "d" else "-"
    let ou := if cfg.uniformShape.isSome then "u" else "-"
    tags := tags ++ [s!"opt={op}{od}{ou}", s!"names-{namesClass cfg}"]
  let expect := if fits then "ok" else "err"
  if cls != expect then
    return { agree := model.cls == cls, spec := fieldSpec cls, tags := tags,
             sig := s!"C20/tryfrom/{helper}/impl={cls}/expect={expect}",
             why := s!"Field::try_from: implementation {cls}, element count / ndim fits i32 = {fits}, model {model.cls}" }
  if model.cls != cls then
    return { agree := false, spec := [("C20", "pass"), c16 cls], tags := tags,
             sig := s!"C20/tryfrom/{helper}/model={model.cls}/impl={cls}", why := "Field::try_from: model differs" }
  tags := tags ++ [s!"field-{cls}"]
  -- the Serialize form must fail / succeed with try_from and read back as the same field
  let ser := (getOpt j "ser").getD Json.null
  let serCls := implCls ser
  match model with
  | .error _ =>
    if serCls != "err" then
      return { agree := false, spec := [("C20", "pass"), c16 serCls], tags := tags, sig := s!"C20/ser/{helper}/impl={serCls}/expect=err",
               why := "Serialize succeeded although try_from fails" }
    -- API coverage: the arrow conversions of the helper fail with it
    for key in ["field_arrow", "field_arrow_owned"] do
      if let some o := getOpt j key then
        if implCls o != "err" then
          return { agree := true, spec := [("C20", "fail"), c16 (implCls o)], tags := tags, sig := s!"C20/{key}/{helper}/impl={implCls o}/expect=err",
                   why := s!"arrow Field::try_from(helper) gives {o.compress} although Field::try_from(&helper) fails" }
    return { agree := true, spec := [("C20", "pass"), ("C16", "pass")], tags := tags }
  | .ok mf =>
    let f ← getObj implField "ok"
    -- specification predicate on the produced field
    let fname ← getStr f "name"
    let fnull ← getBool f "nullable"
    let fdt ← getObj f "dt"
    let fmeta ← getArr f "meta"
    let e := elem.getD Json.null
    let expectDt : Json := match helper with
      | "bool8" => Json.mkObj [("t", "Int8")]
      | "fixed" => Json.mkObj [("t", "FixedSizeList"), ("child", e), ("n", prod)]
      | _ => Json.mkObj [("t", "Struct"), ("fields", Json.arr #[
          Json.mkObj [("name", "data"), ("nullable", false), ("meta", Json.arr #[]),
                      ("dt", Json.mkObj [("t", "List"), ("child", e)])],
          Json.mkObj [("name", "shape"), ("nullable", false), ("meta", Json.arr #[]),
                      ("dt", Json.mkObj [("t", "FixedSizeList"), ("n", ndim),
                        ("child", Json.mkObj [("name", "element"), ("nullable", false), ("meta", Json.arr #[]),
                                              ("dt", Json.mkObj [("t", "Int32")])])])]])]
    let extName := match helper with
      | "bool8" => "arrow.bool8" | "fixed" => "arrow.fixed_shape_tensor" | _ => "arrow.variable_shape_tensor"
    let bad (what : String) (why : String) : Verdict :=
      { agree := renderField mf == f, spec := [("C20", "fail"), ("C16", "pass")], tags := tags,
        sig := s!"C20/field/{helper}/{what}", why := why }
    if fname != name then return bad "name" s!"field name {fname}"
    if fnull != cfg.nullable then return bad "nullable" s!"nullable {fnull}, configured {cfg.nullable}"
    if fdt != expectDt then return bad "storage" s!"storage type {fdt.compress}, prescribed {expectDt.compress}"
    if fmeta.size != 2 then return bad "meta-keys" s!"{fmeta.size} metadata entries"
    if lookupMeta fmeta "ARROW:extension:name" != some extName then return bad "ext-name" "extension name"
    let text ← match lookupMeta fmeta "ARROW:extension:metadata" with
      | some t => pure t
      | none => return bad "meta-keys" "no extension metadata"
    let oracle := (getOpt j "meta_oracle").getD Json.null
    if helper == "bool8" then
      if text != "" then return bad "ext-metadata" s!"bool8 extension metadata {text}"
    else
      let want := expectedMetadata helper shape cfg
      match oracle.getObjVal? "ok" with
      | .error _ =>
        return { agree := renderField mf == f, spec := [("C20", "fail"), ("C16", "pass")], tags := tags,
                 sig := s!"C20/meta/{helper}/not-json/names={namesClass cfg}",
                 why := s!"serde_json rejects the extension metadata {text}: {oracle.compress}" }
      | .ok got =>
        if got != want then
          return { agree := renderField mf == f, spec := [("C20", "fail"), ("C16", "pass")], tags := tags,
                   sig := s!"C20/meta/{helper}/wrong-entries/names={namesClass cfg}",
                   why := s!"extension metadata {text} states {got.compress}, configured {want.compress}" }
        -- cross-check of the Lean JSON reader (the specification of the theorems) against serde_json
        match Json.jsonParse text.toList with
        | some o =>
          if objJson o != got then
            return { agree := false, spec := [("C20", "pass"), ("C16", "pass")], tags := tags, sig := s!"C20/json-reader/{helper}/differs",
                     why := s!"Lean reader {(objJson o).compress} vs serde_json {got.compress} on {text}" }
        | none =>
          return { agree := false, spec := [("C20", "pass"), ("C16", "pass")], tags := tags, sig := s!"C20/json-reader/{helper}/rejects",
                   why := s!"Lean reader rejects {text}, serde_json accepts it" }
    -- correspondence: the model's field (including the exact metadata text) is the implementation's
    let mfj := renderField mf
    if mfj != f then
      return { agree := false, spec := [("C20", "pass"), ("C16", "pass")], tags := tags, sig := s!"C20/field/{helper}/model-differs",
               why := s!"model field {mfj.compress}, implementation {f.compress}" }
    if serCls != "ok" then
      return { agree := false, spec := [("C20", "pass"), c16 serCls], tags := tags, sig := s!"C20/ser/{helper}/impl={serCls}/expect=ok",
               why := s!"Serialize: {ser.compress}" }
    let back := (ser.getObjVal? "back").toOption.getD Json.null
    match back.getObjVal? "ok" with
    | .ok b =>
      if b != f then
        return { agree := false, spec := [("C20", "pass"), ("C16", "pass")], tags := tags, sig := s!"C20/ser/{helper}/reads-back-differently",
                 why := s!"serialized form reads back as {b.compress}" }
    | .error _ =>
      return { agree := false, spec := [("C20", "pass"), ("C16", "pass")], tags := tags, sig := s!"C20/ser/{helper}/does-not-read-back",
               why := s!"serialized form is not accepted by the schema reader: {back.compress}" }
    -- API coverage: the arrow field of the helper (borrowed and owned conversion) is this field
    for key in ["field_arrow", "field_arrow_owned"] do
      if let some o := getOpt j key then
        if (o.getObjVal? "ok").toOption != some f then
          return { agree := true, spec := [("C20", "fail"), c16 (implCls o)], tags := tags, sig := s!"C20/{key}/{helper}/{implCls o}",
                   why := s!"arrow Field::try_from(helper), read back as a marrow field, is {o.compress}; Field::try_from(&helper) is {f.compress}" }
        tags := tags ++ [s!"{key}-ok"]
    return { agree := true, spec := [("C20", "pass"), ("C16", "pass")], tags := tags }

end Driver.Suites.Ext
