import Driver.Util
import Driver.SchemaJson
import Driver.SValJson
import Driver.ArrJson
import Driver.Suites.Build
import SaModel.Build.Finish
import SaModel.Build.Guarded
import SaModel.Build.Dec
import SaModel.Spec.Interp
import SaModel.Spec.Blame
/-
suite `hist` (C10): histories of push / extend / serialize-through-Serializer / build on one ArrayBuilder.
A history does NOT end at a failing operation (finding C10-use-after-failed-push): every operation yields an outcome.
  agree : the model state machine (`Build.pushG` / `extendG` / `serializeWithG` / `buildArraysG`, SaModel/Build/Guarded.lean:
          the builder WITH its poisoned flag — the definitions `Props/C10Fail.lean` is about) reproduces every
          operation's outcome class and every build's arrays (decoded content; physical equality is tagged);
  spec  : C10  every build that SUCCEEDS decodes to exactly interp of the rows of the additions that succeeded since the
               previous successful build, in order (a 0-row build gives 0 rows), is identical to the one-shot to_marrow
               of that batch, and no build succeeds after an operation failed inside the builder;
          C03  every array any build returns is a well-formed array of its field (`Spec.WF`: structurally valid AND
               `typeOf` = the field's data type) with exactly the rows of its batch, one array per field — decided on the
               arrays alone, also after failed operations; `pass` only when that judgement ran on at least one build
               that returned arrays.  `na` (nothing decided) for schemas holding a `FixedSizeBinary(0)` (known finding
               C03-fixed-size-binary-0, decided by the build suite; tag `c03-na:fsb0`) and for histories in which no
               build returned arrays (tag `c03-na:no-build`);
          C16  no panic, also after a failed operation;
          C18  (API coverage) the public accessors of every error agree with its Display text (`accessorsDisagree`).
API coverage: `ctor_used = new` means the builder came from `ArrayBuilder::new(SerdeArrowSchema)` (same model: the
schema observably holds the given fields); `ser_owned` is `Serializer::new(builder)` by value + `into_inner()` (same
model operation as `ser`); batches arrive in every shape the front ends accept and `not:*` shapes must be refused.
-/
namespace Driver.Suites.Hist
open Lean Driver SaModel SaModel.Build SaModel.Spec Driver.Suites.Build

inductive HOp where
  | push (row : SVal)
  | extend (v : SVal) (rows : List SVal)
  | ser (v : SVal) (rows : List SVal) (owned : Bool := false)
  | build
  | userError (via text : String)   -- API coverage: an error made by the user of the crate (no model operation)

def wrapRows (as_ : String) (rows : List SVal) : SVal :=
  match as_ with
  | "tuple" => .tuple (SVals.ofList rows)
  | "tuple_struct" => .tupleStruct "Batch" (SVals.ofList rows)
  | "tuple_variant" => .tupleVariant "Batch" 1 "Rows" (SVals.ofList rows)
  | "newtype_struct" => .newtypeStruct "Batch" (.seq (SVals.ofList rows))
  | "newtype_variant" => .newtypeVariant "Batch" 0 "Rows" (.seq (SVals.ofList rows))
  | "some" => .some (.seq (SVals.ofList rows))
  | "nested" => .newtypeStruct "Outer" (.newtypeVariant "Batch" 2 "Rows" (.tuple (SVals.ofList rows)))
  | "some_tuple" => .some (.tuple (SVals.ofList rows))
  | "some_some" => .some (.some (.seq (SVals.ofList rows)))
  | "newtype_variant_tuple_variant" => .newtypeVariant "Batch" 0 "Rows" (.tupleVariant "Inner" 1 "Rows" (SVals.ofList rows))
  | "tuple_lying" => .tuple (SVals.ofList rows)
  | "not:row" => rows.headD (.record "Batch" .nil)
  | "not:map1" => .map (.cons (.str "a") (.int .i32 1) .nil)
  | "not:i32" => .int .i32 7
  | "not:bool" => .bool true
  | "not:str" => .str "rows"
  | "not:map" => .map .nil
  | "not:struct" => .record "Batch" .nil
  | "not:unit_variant" => .unitVariant "Batch" 0 "Rows"
  | "not:none" => .none
  | "not:some" => .some (.int .i32 7)
  | "not:unit" => .unit
  | "not:unit_struct" => .unitStruct "Batch"
  | "not:bytes" => .bytes [0, 255]
  | "not:char" => .char 97
  | "not:f32" => .f32 0
  | "not:f64" => .f64 0
  | "not:i8" => .int .i8 7 | "not:i16" => .int .i16 7 | "not:i64" => .int .i64 7
  | "not:u8" => .int .u8 7 | "not:u16" => .int .u16 7 | "not:u32" => .int .u32 7 | "not:u64" => .int .u64 7
  | "not:struct_variant" => .structVariant "Batch" 0 "Rows" .nil
  | _ => .seq (SVals.ofList rows)

def parseOp (j : Json) : Except String HOp := do
  match (← getStr j "op") with
  | "push" => pure (.push (← svalOfJson (← getObj j "row")))
  | "extend" =>
    let rows ← (← getArr j "rows").toList.mapM svalOfJson
    pure (.extend (wrapRows (← getStr j "as") rows) rows)
  | "ser" =>
    let rows ← (← getArr j "rows").toList.mapM svalOfJson
    pure (.ser (wrapRows (← getStr j "as") rows) rows)
  | "ser_owned" =>
    let rows ← (← getArr j "rows").toList.mapM svalOfJson
    pure (.ser (wrapRows (← getStr j "as") rows) rows true)
  | "build" => pure .build
  | "user_error" => pure (.userError (← getStr j "via") (← getStr j "text"))
  | o => throw s!"unknown op {o}"

def opName : HOp → String
  | .push _ => "push" | .extend _ _ => "extend" | .ser _ _ false => "ser" | .ser _ _ true => "ser_owned" | .build => "build"
  | .userError via _ => s!"user_error:{via}"

def decodeEq (a b : List (R LVal)) : Bool :=
  a.length == b.length && (a.zip b).all fun (x, y) =>
    match x, y with
    | .ok u, .ok v => u == v
    | .error _, .error _ => true
    | _, _ => false

def handle (j : Json) : Except String Verdict := do
  let fields ← (← getArr j "schema").toList.mapM fieldOfJson
  let ops ← (← getArr j "ops").toList.mapM parseOp
  let ext := extOfAux ((getObj j "aux").toOption.getD Json.null)
  let ctor ← getObj j "ctor"
  let impl := (← getArr j "impl").toList
  let oneshot := (← getArr j "oneshot").toList
  let shapes := ((← getArr j "ops").toList.filterMap fun o => (getStr o "as").toOption.map (s!"as:{·}")).eraseDups
  let tags0 := (ops.map opName).eraseDups ++ shapes ++ [s!"ctor:{(getStr j "ctor_used").toOption.getD "from_marrow"}"] ++ (fields.flatMap schemaTags).eraseDups
  let fsb0 := fields.any hasFsb0
  match newRoot fields with
  | .error _ =>
    let ok := implCls ctor == "err"
    return { agree := ok, spec := [("C10", "na"), ("C16", if implCls ctor == "panic" then "fail" else "pass")], tags := "ctor-err" :: tags0,
             sig := if ok then "" else s!"hist/ctor/impl={implCls ctor}" }
  | .ok root0 =>
    if implCls ctor != "ok" then
      return { agree := false, spec := [("C10", "na"), ("C16", if implCls ctor == "panic" then "fail" else "pass")], tags := tags0,
               sig := s!"hist/ctor/model=ok/impl={implCls ctor}" }
    -- walk the history: EVERY operation, also after a failed one
    let mut g : G := some root0        -- the model's builder with its poisoned flag
    let mut batch : List SVal := []    -- spec side: rows of the additions the IMPLEMENTATION accepted since its last successful build
    let mut dirty := false             -- spec side: an operation failed inside the implementation's builder since it was made
    let mut diverged := false          -- model and implementation differed in an outcome class: the model is not consulted any more
    let mut sawFailure := false
    let mut afterFailure := 0
    let mut agree := true
    let mut c10 := "pass"
    let mut c03 := "pass"
    let mut c03Judged := false          -- the C03 judgement ran on at least one build that returned arrays
    let mut c16 := "pass"
    let mut c18 := "pass"
    -- C05 on histories: an operation that ADDS rows is accepted by the implementation although the model refuses it — the
    -- model refuses exactly the rows the specification gives no meaning to (Props/C05.lean, umbrella and two-sided forms), so
    -- an unrepresentable value was taken in (seeded c05i: after a build a non-nullable primitive column accepted nulls)
    let mut c05 := "pass"
    let mut sig := ""
    let mut why := ""
    let mut nbuilt := 0
    let mut nbuildOps := 0
    let mut phys := true
    let mut i := 0
    for op in ops do
      let some io := impl[i]? | break
      let cls := implCls io
      if cls == "panic" || cls == "hang" then
        c16 := "fail"
        if sig == "" || !sig.startsWith "hist/C16" then
          sig := s!"hist/C16/{cls}/{opName op}/{if sawFailure then "after-failure" else "clean"}"
          why := s!"op #{i} {opName op}: {cls}: {(io.compress.take 300)}"
      if sawFailure then afterFailure := afterFailure + 1
      -- an error of the user's making comes back as an error carrying the user's text: `serde::ser::Error::custom` /
      -- `serde::de::Error::custom` prefix it with their trait's name, `Error::custom` / `custom_from` take it as it is
      -- (only `custom_from` has a source); the accessor check below applies as to every error; the history ends here
      if let .userError via text := op then
        let err := (io.getObjVal? "err").toOption.getD Json.null
        let want := match via with | "ser" => "serde::ser::Error: " ++ text | "de" => "serde::de::Error: " ++ text | _ => text
        let acc := (err.getObjVal? "acc").toOption.getD Json.null
        let hasSource := match acc.getObjVal? "source" with | .ok (.str _) => true | _ => false
        -- (through `push` on a builder that an earlier failure poisoned the refusal of the builder comes first)
        let poisonedFirst := via == "ser" && g.isNone && !diverged
        let good := cls == "err" && (poisonedFirst || ((acc.getObjValAs? String "message").toOption == some want && hasSource == (via == "custom_from")
          && (via == "ser" || annOfImpl err == [])))
        -- (`source`: that the cause is quoted at the end of the message is a convention of the crate's own conversions,
        -- not of `custom_from`)
        let accBad := match accessorsDisagree err with | some "source" => false | some _ => true | none => false
        if !good || accBad then
          c18 := "fail"
          if sig == "" then
            sig := s!"hist/C18/user-error/{via}"
            why := s!"op #{i}: a user error {repr text} made through {via} came back as {io.compress}"
        break
      -- the model: outcome and the state the operation leaves
      let (res, g') : R (Option (List Arr)) × G := match op with
        | .push row => let (r, g') := pushG ext g row; (r.map fun _ => none, g')
        | .extend v _ => let (r, g') := extendG ext g v; (r.map fun _ => none, g')
        | .ser v _ _ => let (r, g') := serializeWithG ext g v; (r.map fun _ => none, g')
        | .build => let (r, g') := buildArraysG ext g; (r.map some, g')
        | .userError _ _ => (.ok none, g)
      -- `ser_owned` (harness): a failing call drops the builder with the serializer, the history goes on with a fresh one
      let owned := match op with | .ser _ _ true => true | _ => false
      let g' : G := if owned && !res.isOk then some root0 else g'
      let newRows := match op with
        | .push row => [row]
        | .extend _ rows | .ser _ rows _ => rows
        | .build | .userError _ _ => []
      let isBuild := match op with | .build => true | _ => false
      -- does a failure of this operation happen INSIDE the builder (everything but the Serializer wrapper's refusal of a
      -- value that is not a collection: the wrapper refuses it before the builder is touched)
      let insideBuilder := match op with
        | .ser v _ _ => reachesBuilder v
        | _ => true
      -- an operation that fails must fail with the same annotations in model and implementation (C18: also after
      -- builds, when the builders have been reset), and the field must be a position Spec.blame allows
      if cls == "err" then
        match accessorsDisagree ((io.getObjVal? "err").toOption.getD Json.null) with
        | some aspect =>
          c18 := "fail"
          if sig == "" then
            sig := s!"hist/C18/error-accessors/{aspect}"
            why := s!"op #{i} {opName op}: Error::message / Display / Debug disagree ({aspect}): {((io.getObjVal? "err").toOption.getD Json.null).compress}"
        | none => pure ()
      if !diverged && res.cls == "err" && cls == "err" then
        let ia := annOfImpl ((io.getObjVal? "err").toOption.getD Json.null)
        let ma := res.ann
        if !ma.isEmpty && ia != ma then
          agree := false
          if sig == "" then
            sig := s!"hist/ann/{opName op}/after-builds={if nbuilt == 0 then "0" else "N"}/{(ma.lookup "data_type").getD "-"}"
            why := s!"op #{i} {opName op}: annotations: model {repr ma}, implementation {repr ia}"
        let firstBadRow := newRows.find? (fun r => !(interpRow ext fields r).isOk)
        match firstBadRow with
        | some row =>
          let blamed := blameRow ext fields row
          if !containsMalformed row && !blamed.isEmpty && !ma.isEmpty then
            -- (a refusal by an `UnknownVariant` placeholder is outside the claim: see Driver/Suites/Build.lean)
            if ia.lookup "field" == none ||
                (!blamed.contains ((ia.lookup "field").getD "") && ia.lookup "data_type" != some "<unknown variant>") then
              c18 := "fail"
              if sig == "" then
                sig := s!"hist/C18/{opName op}/after-builds={if nbuilt == 0 then "0" else "N"}"
                why := s!"op #{i}: blamed field {repr (ia.lookup "field")} not among {repr blamed}"
        | none => pure ()
      if !diverged && res.cls == "err" && cls == "ok" && !isBuild && !sawFailure then
        c05 := "fail"
      if !diverged && res.cls != cls then
        agree := false
        diverged := true
        if sig == "" then
          sig := s!"hist/{opName op}/model={res.cls}/impl={cls}{if sawFailure then "/after-failure" else ""}"
          why := s!"op #{i} {opName op}: model {res.cls} {repr res.ann}, implementation {cls}"
      -- ---- the properties, decided on what the IMPLEMENTATION returned
      if isBuild then
        if cls == "ok" then
          let iarrs ← (← getArr io "ok").toList.mapM arrOfJson
          let idec := iarrs.map decodeAll
          if !diverged then
            match res with
            | .ok (some marrs) =>
              let mdec := marrs.map decodeAll
              if !(idec.length == mdec.length && (idec.zip mdec).all fun (a, b) => decodeEq a b) then
                agree := false
                if sig == "" then
                  sig := "hist/build/decoded-differs"
                  why := s!"build #{nbuilt} (op #{i}): decoded arrays differ between model and implementation"
              if iarrs != marrs then phys := false
            | _ => pure ()
          -- C03 along histories (`Props.C10.C10_builds_wf`, `C10_builds_wf_with_failures`): every build returns well-formed
          -- arrays of the declared fields, one per field, each with exactly the rows of its batch — also from a reused
          -- builder, also after a failed operation
          if !fsb0 then
            c03Judged := true
            let wfAll := iarrs.length == fields.length &&
              (fields.zip iarrs).all (fun (f, a) => SaModel.Spec.WF f a && (decodeAll a).length == batch.length)
            if !wfAll then
              c03 := "fail"
              if sig == "" || sig.startsWith "hist/build/decoded" || sig.startsWith "hist/build/model" then
                let bad := (fields.zip iarrs).findIdx? (fun (f, a) => !(SaModel.Spec.WF f a && (decodeAll a).length == batch.length))
                sig := s!"hist/C03/not-wf/build{if nbuilt == 0 then "0" else "N"}/{((bad.bind (fun i => fields[i]?)).map (·.dataType.ctor)).getD "count"}{if dirty then "/after-failure" else ""}"
                why := s!"build #{nbuilt} (op #{i}) with {batch.length} rows returns an array that is not a well-formed array of its field"
          -- C10: no build succeeds on a builder in which an operation failed (what the failed operation left behind is not
          -- a collection of records anybody pushed)
          if dirty then
            c10 := "fail"
            if sig == "" || sig.startsWith "hist/build" then
              sig := s!"hist/C10/build-after-failure/build{if nbuilt == 0 then "0" else "N"}"
              why := s!"build (op #{i}) succeeds although an earlier operation on this builder failed"
          -- C10: exactly the rows of this batch, in order
          let interps := batch.map (interpRow ext fields)
          let malformed := interps.any isMalformed || batch.any containsMalformed
          if !malformed && !fsb0 then
            let rowsOk := interps.all (·.isOk)
            let colsOk := idec.length == fields.length && (List.range fields.length).all fun col =>
              match idec[col]? with
              | none => false
              | some slots => slots.length == batch.length && (List.range batch.length).all fun r =>
                  match interps[r]?, slots[r]? with
                  | some (.ok row), some (.ok lv) => projField row col == some lv
                  | _, _ => false
            -- identical to the one-shot conversion of the same rows
            let sameAsOneshot := match oneshot[nbuildOps]? with
              | some o => if implCls o == "ok" then
                  match (o.getObjVal? "ok").toOption.bind (fun a => a.getArr?.toOption) with
                  | some arr => (arr.toList.mapM arrOfJson).toOption == some iarrs
                  | none => false
                else false
              | none => false
            if !(rowsOk && colsOk && sameAsOneshot) then
              c10 := "fail"
              if sig == "" || sig.startsWith "hist/build/decoded" || sig.startsWith "hist/build/model" then
                sig := s!"hist/C10/{if !rowsOk then "unrepresentable-row-accepted" else if !colsOk then "batch-content" else "differs-from-oneshot"}/build{if nbuilt == 0 then "0" else "N"}/rows{if batch.isEmpty then "0" else "+"}{if dirty then "/after-failure" else ""}"
                why := s!"build #{nbuilt} (op #{i}) with {batch.length} rows: rowsOk={rowsOk} colsOk={colsOk} sameAsOneshot={sameAsOneshot}"
          -- C10, row-count level (`Props.C10.batches`, no hypothesis on the records: a Map builder refuses the streams that
          -- do not alternate, repo fix eafdf15): also a batch
          -- with malformed key/value call streams holds exactly as many rows as were added, in every column
          if malformed && !fsb0 then
            let lensOk := idec.length == fields.length && idec.all (fun slots => slots.length == batch.length)
            if !lensOk then
              c10 := "fail"
              if sig == "" || sig.startsWith "hist/build/decoded" then
                sig := s!"hist/C10/malformed-batch-length/build{if nbuilt == 0 then "0" else "N"}"
                why := s!"build #{nbuilt} (op #{i}) with {batch.length} rows (malformed call streams among them): column lengths {repr (idec.map (·.length))}"
          nbuilt := nbuilt + 1
          batch := []
        nbuildOps := nbuildOps + 1
      else if cls == "ok" then
        batch := batch ++ newRows
      if cls != "ok" then
        sawFailure := true
        if insideBuilder then dirty := true
        if owned then
          -- the harness continues with a fresh builder
          dirty := false
          batch := []
      g := g'
      i := i + 1
    let tags := tags0 ++ [s!"builds:{nbuilt}", if phys then "phys-eq" else "phys-diff"] ++
      (if sawFailure then [s!"ops-after-failure:{if afterFailure == 0 then "0" else "+"}"] else ["no-failure"])
    let tags := if nbuilt == 0 then "trivial" :: tags else tags
    -- C03 is `pass` only where it was decided: not for a schema with FixedSizeBinary(0) (judgement skipped), not for a
    -- history without a build that returned arrays
    if !(c03 == "fail" || c03Judged) then c03 := "na"
    let tags := if c03 == "na" then (if fsb0 then "c03-na:fsb0" else "c03-na:no-build") :: tags else tags
    return { agree := agree, spec := [("C10", c10), ("C03", c03), ("C16", c16), ("C18", c18), ("C05", c05)], tags := tags, sig := sig, why := why }

end Driver.Suites.Hist
