import Driver.Util
import Driver.SchemaJson
import Driver.SValJson
import Driver.ArrJson
import Driver.Suites.Build
import SaModel.Build.Finish
import SaModel.Build.Dec
import SaModel.Spec.Interp
import SaModel.Spec.Blame
/-
suite `hist` (C10): histories of push / extend / serialize-through-Serializer / build on one ArrayBuilder.
  agree : the model state machine (push / extend / serializeWith / buildArrays + takeRest) reproduces every
          operation's outcome class and every build's arrays (decoded content; physical equality is tagged);
  spec  : C10  build k decodes to exactly interp of the rows added since build k-1, in order (a 0-row build
               gives 0 rows), and is identical to the one-shot to_marrow of that batch;
          C16  no panic;
          C18  (API coverage) the public accessors of every error agree with its Display text (`accessorsDisagree`).
API coverage: `ctor_used = new` means the builder came from `ArrayBuilder::new(SerdeArrowSchema)` (same model: the
schema observably holds the given fields); `ser_owned` is `Serializer::new(builder)` by value + `into_inner()` (same
model operation as `ser`); batches arrive in every shape the front ends accept and `not:*` shapes must be refused.
-/
namespace Driver.Suites.Hist
open Lean Driver SaModel SaModel.Build SaModel.Spec Driver.Suites.Build

inductive HOp where
  | push (row : SVal)
  | extend (v : SVal) (rows : List SVal)
  | ser (v : SVal) (rows : List SVal) (owned : Bool := false)
  | build
  | userError (via text : String)   -- API coverage: an error made by the user of the crate (no model operation)

def wrapRows (as_ : String) (rows : List SVal) : SVal :=
  match as_ with
  | "tuple" => .tuple (SVals.ofList rows)
  | "tuple_struct" => .tupleStruct "Batch" (SVals.ofList rows)
  | "tuple_variant" => .tupleVariant "Batch" 1 "Rows" (SVals.ofList rows)
  | "newtype_struct" => .newtypeStruct "Batch" (.seq (SVals.ofList rows))
  | "newtype_variant" => .newtypeVariant "Batch" 0 "Rows" (.seq (SVals.ofList rows))
  | "some" => .some (.seq (SVals.ofList rows))
  | "not:i32" => .int .i32 7
  | "not:bool" => .bool true
  | "not:str" => .str "rows"
  | "not:map" => .map .nil
  | "not:struct" => .record "Batch" .nil
  | "not:unit_variant" => .unitVariant "Batch" 0 "Rows"
  | "not:none" => .none
  | "not:some" => .some (.int .i32 7)
  | "not:unit" => .unit
  | "not:unit_struct" => .unitStruct "Batch"
  | "not:bytes" => .bytes [0, 255]
  | "not:char" => .char 97
  | "not:f32" => .f32 0
  | "not:f64" => .f64 0
  | "not:i8" => .int .i8 7 | "not:i16" => .int .i16 7 | "not:i64" => .int .i64 7
  | "not:u8" => .int .u8 7 | "not:u16" => .int .u16 7 | "not:u32" => .int .u32 7 | "not:u64" => .int .u64 7
  | "not:struct_variant" => .structVariant "Batch" 0 "Rows" .nil
  | _ => .seq (SVals.ofList rows)

def parseOp (j : Json) : Except String HOp := do
  match (← getStr j "op") with
  | "push" => pure (.push (← svalOfJson (← getObj j "row")))
  | "extend" =>
    let rows ← (← getArr j "rows").toList.mapM svalOfJson
    pure (.extend (wrapRows (← getStr j "as") rows) rows)
  | "ser" =>
    let rows ← (← getArr j "rows").toList.mapM svalOfJson
    pure (.ser (wrapRows (← getStr j "as") rows) rows)
  | "ser_owned" =>
    let rows ← (← getArr j "rows").toList.mapM svalOfJson
    pure (.ser (wrapRows (← getStr j "as") rows) rows true)
  | "build" => pure .build
  | "user_error" => pure (.userError (← getStr j "via") (← getStr j "text"))
  | o => throw s!"unknown op {o}"

def opName : HOp → String
  | .push _ => "push" | .extend _ _ => "extend" | .ser _ _ false => "ser" | .ser _ _ true => "ser_owned" | .build => "build"
  | .userError via _ => s!"user_error:{via}"

structure St where
  root : B
  batch : List SVal := []          -- rows added since the last build (spec side)
  builds : Nat := 0

def decodeEq (a b : List (R LVal)) : Bool :=
  a.length == b.length && (a.zip b).all fun (x, y) =>
    match x, y with
    | .ok u, .ok v => u == v
    | .error _, .error _ => true
    | _, _ => false

def handle (j : Json) : Except String Verdict := do
  let fields ← (← getArr j "schema").toList.mapM fieldOfJson
  let ops ← (← getArr j "ops").toList.mapM parseOp
  let ext := extOfAux ((getObj j "aux").toOption.getD Json.null)
  let ctor ← getObj j "ctor"
  let impl := (← getArr j "impl").toList
  let oneshot := (← getArr j "oneshot").toList
  let shapes := ((← getArr j "ops").toList.filterMap fun o => (getStr o "as").toOption.map (s!"as:{·}")).eraseDups
  let tags0 := (ops.map opName).eraseDups ++ shapes ++ [s!"ctor:{(getStr j "ctor_used").toOption.getD "from_marrow"}"] ++ (fields.flatMap schemaTags).eraseDups
  let fsb0 := fields.any hasFsb0
  match newRoot fields with
  | .error _ =>
    let ok := implCls ctor == "err"
    return { agree := ok, spec := [("C10", "na"), ("C16", if implCls ctor == "panic" then "fail" else "pass")], tags := "ctor-err" :: tags0,
             sig := if ok then "" else s!"hist/ctor/impl={implCls ctor}" }
  | .ok root0 =>
    if implCls ctor != "ok" then
      return { agree := false, spec := [("C10", "na"), ("C16", if implCls ctor == "panic" then "fail" else "pass")], tags := tags0,
               sig := s!"hist/ctor/model=ok/impl={implCls ctor}" }
    -- walk the history
    let mut st : St := { root := root0 }
    let mut agree := true
    let mut c10 := "pass"
    let mut c03 := "pass"
    let mut c16 := "pass"
    let mut c18 := "pass"
    let mut sig := ""
    let mut why := ""
    let mut nbuilt := 0
    let mut phys := true
    let mut i := 0
    for op in ops do
      let some io := impl[i]? | break
      let cls := implCls io
      if cls == "panic" || cls == "hang" then c16 := "fail"
      -- an error of the user's making comes back as an error carrying the user's text: `serde::ser::Error::custom` /
      -- `serde::de::Error::custom` prefix it with their trait's name, `Error::custom` / `custom_from` take it as it is
      -- (only `custom_from` has a source); the accessor check below applies as to every error; the history ends here
      if let .userError via text := op then
        let err := (io.getObjVal? "err").toOption.getD Json.null
        let want := match via with | "ser" => "serde::ser::Error: " ++ text | "de" => "serde::de::Error: " ++ text | _ => text
        let acc := (err.getObjVal? "acc").toOption.getD Json.null
        let hasSource := match acc.getObjVal? "source" with | .ok (.str _) => true | _ => false
        let good := cls == "err" && (acc.getObjValAs? String "message").toOption == some want && hasSource == (via == "custom_from")
          && (via == "ser" || annOfImpl err == [])
        -- (`source`: that the cause is quoted at the end of the message is a convention of the crate's own conversions,
        -- not of `custom_from`)
        let accBad := match accessorsDisagree err with | some "source" => false | some _ => true | none => false
        if !good || accBad then
          c18 := "fail"
          if sig == "" then
            sig := s!"hist/C18/user-error/{via}"
            why := s!"op #{i}: a user error {repr text} made through {via} came back as {io.compress}"
        break
      let res : R (B × Option (List Arr)) := match op with
        | .push row => (push ext st.root row).map (·, none)
        | .extend v _ => (extend ext st.root v).map (·, none)
        | .ser v _ _ => (serializeWith ext st.root v).map (·, none)
        | .build => (buildArrays ext st.root).map fun (arrs, rest) => (rest, some arrs)
        | .userError _ _ => .ok (st.root, none)
      let batch' := match op with
        | .push row => st.batch ++ [row]
        | .extend _ rows | .ser _ rows _ => st.batch ++ rows
        | .build | .userError _ _ => st.batch
      -- an operation that fails must fail with the same annotations in model and implementation (C18: also after
      -- builds, when the builders have been reset), and the field must be a position Spec.blame allows
      if cls == "err" then
        match accessorsDisagree ((io.getObjVal? "err").toOption.getD Json.null) with
        | some aspect =>
          c18 := "fail"
          if sig == "" then
            sig := s!"hist/C18/error-accessors/{aspect}"
            why := s!"op #{i} {opName op}: Error::message / Display / Debug disagree ({aspect}): {((io.getObjVal? "err").toOption.getD Json.null).compress}"
        | none => pure ()
      if res.cls == "err" && cls == "err" then
        let ia := annOfImpl ((io.getObjVal? "err").toOption.getD Json.null)
        let ma := res.ann
        if !ma.isEmpty && ia != ma then
          agree := false
          if sig == "" then
            sig := s!"hist/ann/{opName op}/after-builds={if nbuilt == 0 then "0" else "N"}/{(ma.lookup "data_type").getD "-"}"
            why := s!"op #{i} {opName op}: annotations: model {repr ma}, implementation {repr ia}"
        let newRows := match op with
          | .push row => [row]
          | .extend _ rows | .ser _ rows _ => rows
          | .build | .userError _ _ => []
        let firstBadRow := newRows.find? (fun r => !(interpRow ext fields r).isOk)
        match firstBadRow with
        | some row =>
          let blamed := blameRow ext fields row
          if !containsMalformed row && !blamed.isEmpty && !ma.isEmpty then
            if ia.lookup "field" == none || !blamed.contains ((ia.lookup "field").getD "") then
              c18 := "fail"
              if sig == "" then
                sig := s!"hist/C18/{opName op}/after-builds={if nbuilt == 0 then "0" else "N"}"
                why := s!"op #{i}: blamed field {repr (ia.lookup "field")} not among {repr blamed}"
        | none => pure ()
      if res.cls != cls then
        agree := false
        if sig == "" then
          sig := s!"hist/{opName op}/model={res.cls}/impl={cls}"
          why := s!"op #{i} {opName op}: model {res.cls} {repr res.ann}, implementation {cls}"
        break
      match res with
      | .error _ => break                       -- histories end at the first failed operation
      | .ok (root', built) =>
        match built with
        | none => st := { st with root := root', batch := batch' }
        | some marrs =>
          let iarrs ← (← getArr io "ok").toList.mapM arrOfJson
          let idec := iarrs.map decodeAll
          let mdec := marrs.map decodeAll
          if !(idec.length == mdec.length && (idec.zip mdec).all fun (a, b) => decodeEq a b) then
            agree := false
            if sig == "" then
              sig := "hist/build/decoded-differs"
              why := s!"build #{nbuilt} (op #{i}): decoded arrays differ between model and implementation"
          if iarrs != marrs then phys := false
          -- C03 along histories (`Props.C10.C10_builds_wf`): every build returns well-formed arrays of the declared
          -- fields, one per field, each with exactly the rows of its batch — also from a reused builder
          if !fsb0 then
            let wfAll := iarrs.length == fields.length &&
              (fields.zip iarrs).all (fun (f, a) => SaModel.Spec.WF f a && (decodeAll a).length == st.batch.length)
            if !wfAll then
              c03 := "fail"
              if sig == "" || sig.startsWith "hist/build/decoded" then
                let bad := (fields.zip iarrs).findIdx? (fun (f, a) => !(SaModel.Spec.WF f a && (decodeAll a).length == st.batch.length))
                sig := s!"hist/C03/not-wf/build{if nbuilt == 0 then "0" else "N"}/{((bad.bind (fun i => fields[i]?)).map (·.dataType.ctor)).getD "count"}"
                why := s!"build #{nbuilt} (op #{i}) with {st.batch.length} rows returns an array that is not a well-formed array of its field"
          -- C10: exactly the rows of this batch, in order
          let interps := st.batch.map (interpRow ext fields)
          let malformed := interps.any isMalformed || st.batch.any containsMalformed
          if !malformed && !fsb0 then
            let rowsOk := interps.all (·.isOk)
            let colsOk := idec.length == fields.length && (List.range fields.length).all fun col =>
              match idec[col]? with
              | none => false
              | some slots => slots.length == st.batch.length && (List.range st.batch.length).all fun r =>
                  match interps[r]?, slots[r]? with
                  | some (.ok row), some (.ok lv) => projField row col == some lv
                  | _, _ => false
            -- identical to the one-shot conversion of the same rows
            let sameAsOneshot := match oneshot[nbuilt]? with
              | some o => if implCls o == "ok" then
                  match (o.getObjVal? "ok").toOption.bind (fun a => a.getArr?.toOption) with
                  | some arr => (arr.toList.mapM arrOfJson).toOption == some iarrs
                  | none => false
                else false
              | none => false
            if !(rowsOk && colsOk && sameAsOneshot) then
              c10 := "fail"
              if sig == "" || sig.startsWith "hist/build/decoded" then
                sig := s!"hist/C10/{if !rowsOk then "unrepresentable-row-accepted" else if !colsOk then "batch-content" else "differs-from-oneshot"}/build{if nbuilt == 0 then "0" else "N"}/rows{if st.batch.isEmpty then "0" else "+"}"
                why := s!"build #{nbuilt} (op #{i}) with {st.batch.length} rows: rowsOk={rowsOk} colsOk={colsOk} sameAsOneshot={sameAsOneshot}"
          -- C10, row-count level (`Props.C10.batches`, no hypothesis on the records since repo fix eafdf15): also a batch
          -- with malformed key/value call streams holds exactly as many rows as were added, in every column
          if malformed && !fsb0 then
            let lensOk := idec.length == fields.length && idec.all (fun slots => slots.length == st.batch.length)
            if !lensOk then
              c10 := "fail"
              if sig == "" || sig.startsWith "hist/build/decoded" then
                sig := s!"hist/C10/malformed-batch-length/build{if nbuilt == 0 then "0" else "N"}"
                why := s!"build #{nbuilt} (op #{i}) with {st.batch.length} rows (malformed call streams among them): column lengths {repr (idec.map (·.length))}"
          nbuilt := nbuilt + 1
          st := { root := root', batch := [], builds := st.builds + 1 }
      i := i + 1
    let tags := tags0 ++ [s!"builds:{nbuilt}", if phys then "phys-eq" else "phys-diff"]
    let tags := if nbuilt == 0 then "trivial" :: tags else tags
    return { agree := agree, spec := [("C10", c10), ("C03", c03), ("C16", c16), ("C18", c18)], tags := tags, sig := sig, why := why }

end Driver.Suites.Hist
