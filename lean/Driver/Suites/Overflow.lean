import Driver.Util
import SaModel.Build.Push
import SaModel.Codec.SchemaJson
/-
suite `overflow` (C05, C16), five kinds of cases (harness/src/suites/overflow.rs `gen`):
  both tiers (the 31 cases of the quick tier, milliseconds each): `deep_term` (8 depths), `union_rows` with n = 0, 3, 1000,
    `len_hint` (5 shapes × 4 announcements);
  thorough tier only (36 cases in all): `list_null` with n = 2^31 - 1 and 2^31, `view_bytes` with n = 2048 and 2050,
    `union_rows` with n = 2^31.
Every kind gives C16 = fail exactly when the implementation's outcome class is `panic` or `hang` (an abort of the harness
child is attributed to the case by `./check`); the C05 verdict and the comparison with the model are per kind, below.
`list_null` (the fall-through of `handle`): n unit elements in one List<Null> row, n at / beyond i32::MAX.
The model's answer is `incrementLast` at the boundary (theorems C05.offset_overflow_exact / _is_error):
the n-th element is accepted iff n ≤ 2^31 - 1; beyond it the push is an error — never a panic, never a wrap.
-/
namespace Driver.Suites.Overflow
open Lean Driver SaModel SaModel.Build

/-- `view_bytes`: n values of 2^20 bytes into one Utf8View column; value i is stored at buffer offset i * 2^20, which
the descriptor can hold iff it is ≤ i32::MAX, i.e. iff i ≤ 2047: the first refused push is 2048 (an error — not a
panic as in the pinned `pack_extern` assert, not a wrapped offset) -/
def handleViewBytes (j : Json) : Except String Verdict := do
  let n ← getNat j "n"
  let impl ← getObj j "impl"
  let cls := implCls impl
  let expected : Option Nat := if n > 2048 then some 2048 else none
  let got : Option Nat := (impl.getObjVal? "ok").toOption.bind fun o => (o.getObjValAs? Nat "first_err").toOption
  let c16 := if cls == "panic" || cls == "hang" then "fail" else "pass"
  let ok := cls == "ok" && got == expected
  let c05 := if cls == "ok" && got != expected then "fail" else "pass"
  return { agree := ok, spec := [("C05", c05), ("C16", c16)],
           tags := [s!"view-bytes:n{if n > 2048 then ">" else "≤"}2048", s!"impl:{cls}"],
           sig := if ok then "" else if cls == "panic" then "C16/panic/bytes-view-offset-assert/view_bytes" else s!"overflow/view-bytes/first-err={got}/expected={expected}",
           why := s!"n = {n}: first refused push {got}, expected {expected} ({cls})" }

/-- `deep_term`: the `data_type` text `A(A(…I8…))`, `n` levels, in a one-field schema value.  Up to 64 levels the model
(`SchemaJson.parseSchema`) is evaluated; beyond, its answer is the theorem `C16.deepTerm_refused` (an error for every
`n > MAX_TERM_DEPTH`, whatever the size of the text) — evaluating the parser model on a megabyte of text would only
exercise the driver's own stack. -/
def handleDeepTerm (j : Json) : Except String Verdict := do
  let n ← getNat j "n"
  let impl ← getObj j "impl"
  let cls := implCls impl
  let text : String := String.join (List.replicate n "A(") ++ "I8" ++ String.join (List.replicate n ")")
  let expected : String :=
    if n ≤ 64 then
      (SaModel.SchemaJson.parseSchema (.arr (.cons (.obj (.cons "name" (.str "a") (.cons "data_type" (.str text) .nil))) .nil))).cls
    else "err"
  let c16 := if cls == "panic" || cls == "hang" then "fail" else "pass"
  return { agree := expected == cls, spec := [("C05", "na"), ("C16", c16)],
           tags := [s!"deep-term:n{if n > SaModel.Dsl.MAX_TERM_DEPTH then ">" else "≤"}{SaModel.Dsl.MAX_TERM_DEPTH}", s!"impl:{cls}"],
           sig := if expected == cls then "" else s!"overflow/deep-term/model={expected}/impl={cls}",
           why := s!"data_type nested {n} levels: model {expected}, implementation {cls}" }

/-- `union_rows`: `n` rows of one unit variant into a dense `Union<Null, Null>` column.  Row `i` (0-based) of a variant
meets the counter `current_offset[variant] = i`; the model's answer is `Build.serializeVariant` on that state (theorems
C16.union_rows_capacity_is_error / union_row_ok_below_capacity): accepted iff `i + 1 ≤ i32::MAX`, beyond it an ERROR
annotated by the union builder — never a panic (the pinned `+= 1` with overflow checks), never a wrapped offset. -/
def handleUnionRows (j : Json) : Except String Verdict := do
  let n ← getNat j "n"
  let v ← getNat j "variant"
  let impl ← getObj j "impl"
  let cls := implCls impl
  let lim : Nat := 2147483647
  let kids : BL := .cons (.null "$.a.A" 0) { name := "A", nullable := true } (.cons (.null "$.a.B" 0) { name := "B", nullable := true } .nil)
  let rowCls (i : Nat) : String := (serializeVariant kids [] [] (([0, 0] : List Int).set v (i : Int)) v).cls
  -- the model at the boundary and at the last row of this case
  let modelFirstErr : Option Nat :=
    if rowCls (lim - 1) == "ok" && rowCls lim == "err" then (if n > lim then some lim else none) else some 0
  let lastOk := n == 0 || rowCls (min n lim - 1) == "ok"
  let ok? := (impl.getObjVal? "ok").toOption
  let got : Option Nat := ok?.bind fun o => (o.getObjValAs? Nat "first_err").toOption
  let rows : Option Nat := ok?.bind fun o => (o.getObjValAs? Nat "rows").toOption
  let lastOff : Option Int := ok?.bind fun o => (o.getObjValAs? Int "last_offset").toOption
  -- the refusal is annotated by the union builder
  let annOk : Bool := match got with
    | none => true
    | some _ =>
      match ok?.bind (fun o => (o.getObjVal? "err").toOption) with
      | some e => ((toString e).splitOn "Union(..)").length > 1 && ((toString e).splitOn "$.a").length > 1
      | none => false
  -- accepted rows: all of them present, the last offset is the last row's index in its child
  let arrOk : Bool := match got with
    | some _ => true
    | none => rows == some n && (n == 0 || lastOff == some ((n : Int) - 1))
  let c16 := if cls == "panic" || cls == "hang" then "fail" else "pass"
  let good := cls == "ok" && lastOk && got == modelFirstErr && annOk && arrOk
  let c05 := if cls == "ok" && (got != modelFirstErr || !arrOk) then "fail" else "pass"
  return { agree := good, spec := [("C05", c05), ("C16", c16)],
           tags := [s!"union-rows:n{if n > lim then ">" else "≤"}i32max", s!"impl:{cls}"],
           sig := if good then "" else if cls == "panic" then "C16/panic/union-current-offset/union_rows"
                  else s!"overflow/union-rows/first-err={got}/expected={modelFirstErr}/ann={annOk}/arr={arrOk}",
           why := s!"n = {n} rows of variant {v}: first refused row {got}, model {modelFirstErr} ({cls})" }

/-- `len_hint`: a `Serialize` impl that announces `n` elements and sends none, handed to `SerdeArrowSchema::from_value`
(repo fix 9aa1a7f: utils/value.rs preallocated `n` elements — "capacity overflow" panic for usize::MAX, allocation abort
for 2^40).  A length announcement is not data (the serde value model `SVal` of the models has none), so the specification
is: the outcome equals the outcome of the honest announcement, recorded in the same case. -/
def handleLenHint (j : Json) : Except String Verdict := do
  let n ← getNat j "n"
  let shape ← getStr j "shape"
  let impl ← getObj j "impl"
  let honest ← getObj j "honest"
  let cls := implCls impl
  let same := toString impl == toString honest
  let c16 := if cls == "panic" || cls == "hang" then "fail" else "pass"
  return { agree := same, spec := [("C05", "na"), ("C16", c16)],
           tags := [s!"len-hint:{shape}:{if n > 1024 then "huge" else "small"}", s!"impl:{cls}"],
           sig := if same then "" else if cls == "panic" then s!"C16/panic/len-hint-prealloc/{shape}" else s!"overflow/len-hint/{shape}/impl={cls}/honest={implCls honest}",
           why := s!"{shape} announcing {n} elements and sending none: {cls}, honest announcement {implCls honest}" }

/-- `trace_len_hint` (known finding C16-trace-tuple-len-alloc): `from_samples` on records whose field announces `n`
tuple elements and sends two.  `Tracer::ensure_tuple(len)` creates one field tracer per ANNOUNCED element, so an
announcement of usize::MAX panics ("capacity overflow").  A panic is C16's to judge (spec), not a correspondence
disagreement of the other properties reading this suite; an announcement of 3 legitimately yields a third (never seen)
field, so only the outcome CLASS is compared with the honest announcement. -/
def handleTraceLenHint (j : Json) : Except String Verdict := do
  let n ← getNat j "n"
  let shape ← getStr j "shape"
  let impl ← getObj j "impl"
  let honest ← getObj j "honest"
  let cls := implCls impl
  let panics := cls == "panic" || cls == "hang"
  let same := cls == implCls honest
  return { agree := same || panics, spec := [("C05", "na"), ("C16", if panics then "fail" else "pass")],
           tags := [s!"trace-len-hint:{shape}:{if n > 1024 then "huge" else "small"}", s!"impl:{cls}"],
           sig := if panics then s!"C16/panic/trace-len-hint-alloc/{shape}" else if same then "" else s!"overflow/trace-len-hint/{shape}/impl={cls}/honest={implCls honest}",
           why := s!"from_samples, {shape} announcing {n} elements and sending two: {cls}, honest announcement {implCls honest}" }

def handle (j : Json) : Except String Verdict := do
  if (getStr j "kind").toOption == some "trace_len_hint" then return ← handleTraceLenHint j
  if (getStr j "kind").toOption == some "len_hint" then return ← handleLenHint j
  if (getStr j "kind").toOption == some "union_rows" then return ← handleUnionRows j
  if (getStr j "kind").toOption == some "view_bytes" then return ← handleViewBytes j
  if (getStr j "kind").toOption == some "deep_term" then return ← handleDeepTerm j
  let n ← getNat j "n"
  let impl ← getObj j "impl"
  let cls := implCls impl
  -- the last element pushed: offsets are [0, n-1] before it
  let model := incrementLast true false [0, ((min n 2147483648 : Nat) : Int) - 1] 1
  let expected := model.cls
  let exact := if cls == "ok" then
      match (impl.getObjVal? "ok").toOption.bind (fun o => (o.getObjValAs? Int "last_offset").toOption) with
      | some l => l == (n : Int)
      | none => false
    else true
  let c05 := if cls == "ok" && !exact then "fail" else if cls == "ok" && n > 2147483647 then "fail" else "pass"
  let c16 := if cls == "panic" || cls == "hang" then "fail" else "pass"
  return { agree := expected == cls && exact, spec := [("C05", c05), ("C16", c16)],
           tags := [s!"n{if n > 2147483647 then ">" else "≤"}i32max", s!"impl:{cls}"],
           sig := if expected == cls && exact then "" else s!"overflow/class/model={expected}/impl={cls}",
           why := s!"n = {n}: model {expected}, implementation {cls}" }

end Driver.Suites.Overflow
