import Driver.Util
import SaModel.Build.Builder
import SaModel.Codec.SchemaJson
/-
suite `overflow` (thorough): n unit elements in one List<Null> row, n at / beyond i32::MAX.
The model's answer is `incrementLast` at the boundary (theorems C05.offset_overflow_exact / _is_error):
the n-th element is accepted iff n ≤ 2^31 - 1; beyond it the push is an error — never a panic, never a wrap.
-/
namespace Driver.Suites.Overflow
open Lean Driver SaModel SaModel.Build

/-- `view_bytes`: n values of 2^20 bytes into one Utf8View column; value i is stored at buffer offset i * 2^20, which
the descriptor can hold iff it is ≤ i32::MAX, i.e. iff i ≤ 2047: the first refused push is 2048 (an error — not a
panic as in the pinned `pack_extern` assert, not a wrapped offset) -/
def handleViewBytes (j : Json) : Except String Verdict := do
  let n ← getNat j "n"
  let impl ← getObj j "impl"
  let cls := implCls impl
  let expected : Option Nat := if n > 2048 then some 2048 else none
  let got : Option Nat := (impl.getObjVal? "ok").toOption.bind fun o => (o.getObjValAs? Nat "first_err").toOption
  let c16 := if cls == "panic" || cls == "hang" then "fail" else "pass"
  let ok := cls == "ok" && got == expected
  let c05 := if cls == "ok" && got != expected then "fail" else "pass"
  return { agree := ok, spec := [("C05", c05), ("C16", c16)],
           tags := [s!"view-bytes:n{if n > 2048 then ">" else "≤"}2048", s!"impl:{cls}"],
           sig := if ok then "" else if cls == "panic" then "C16/panic/bytes-view-offset-assert/view_bytes" else s!"overflow/view-bytes/first-err={got}/expected={expected}",
           why := s!"n = {n}: first refused push {got}, expected {expected} ({cls})" }

/-- `deep_term`: the `data_type` text `A(A(…I8…))`, `n` levels, in a one-field schema value.  Up to 64 levels the model
(`SchemaJson.parseSchema`) is evaluated; beyond, its answer is the theorem `C16.deepTerm_refused` (an error for every
`n > MAX_TERM_DEPTH`, whatever the size of the text) — evaluating the parser model on a megabyte of text would only
exercise the driver's own stack. -/
def handleDeepTerm (j : Json) : Except String Verdict := do
  let n ← getNat j "n"
  let impl ← getObj j "impl"
  let cls := implCls impl
  let text : String := String.join (List.replicate n "A(") ++ "I8" ++ String.join (List.replicate n ")")
  let expected : String :=
    if n ≤ 64 then
      (SaModel.SchemaJson.parseSchema (.arr (.cons (.obj (.cons "name" (.str "a") (.cons "data_type" (.str text) .nil))) .nil))).cls
    else "err"
  let c16 := if cls == "panic" || cls == "hang" then "fail" else "pass"
  return { agree := expected == cls, spec := [("C05", "na"), ("C16", c16)],
           tags := [s!"deep-term:n{if n > SaModel.Dsl.MAX_TERM_DEPTH then ">" else "≤"}{SaModel.Dsl.MAX_TERM_DEPTH}", s!"impl:{cls}"],
           sig := if expected == cls then "" else s!"overflow/deep-term/model={expected}/impl={cls}",
           why := s!"data_type nested {n} levels: model {expected}, implementation {cls}" }

def handle (j : Json) : Except String Verdict := do
  if (getStr j "kind").toOption == some "view_bytes" then return ← handleViewBytes j
  if (getStr j "kind").toOption == some "deep_term" then return ← handleDeepTerm j
  let n ← getNat j "n"
  let impl ← getObj j "impl"
  let cls := implCls impl
  -- the last element pushed: offsets are [0, n-1] before it
  let model := incrementLast true false [0, ((min n 2147483648 : Nat) : Int) - 1] 1
  let expected := model.cls
  let exact := if cls == "ok" then
      match (impl.getObjVal? "ok").toOption.bind (fun o => (o.getObjValAs? Int "last_offset").toOption) with
      | some l => l == (n : Int)
      | none => false
    else true
  let c05 := if cls == "ok" && !exact then "fail" else if cls == "ok" && n > 2147483647 then "fail" else "pass"
  let c16 := if cls == "panic" || cls == "hang" then "fail" else "pass"
  return { agree := expected == cls && exact, spec := [("C05", c05), ("C16", c16)],
           tags := [s!"n{if n > 2147483647 then ">" else "≤"}i32max", s!"impl:{cls}"],
           sig := if expected == cls && exact then "" else s!"overflow/class/model={expected}/impl={cls}",
           why := s!"n = {n}: model {expected}, implementation {cls}" }

end Driver.Suites.Overflow
