import Driver.Util
import Driver.SchemaJson
import Driver.SValJson
import Driver.ArrJson
import Driver.Suites.Build
import SaModel.Build.Finish
import SaModel.Build.Wrappers
import SaModel.Spec.Interp
/-
suite `present` (C11): k renderings of one logical batch.
  agree : the builder model reproduces every rendering's outcome and arrays;
  spec  : C11  all renderings that the documented mapping (Spec.interp) gives the same logical rows produce
               physically identical arrays, and succeed or fail together; the real `Items(&[T])` wrapper, a slice
               of real `Item(T)` wrappers and explicit one-field records named `item` (column `item: Struct(schema)`,
               items = the records of rendering 0) give physically identical arrays / the same outcome, and the
               model of the wrappers' `Serialize` impls (`Build.serItems`, `Build.serItem`) reproduces them;
               a case whose renderings are NOT all defined with equal rows is `na` for the first clause (tag
               `not-one-batch`; the other tag is `one-batch`), the remaining clauses can still fail it;
          C16 no panic.
-/
namespace Driver.Suites.Present
open Lean Driver SaModel SaModel.Build SaModel.Spec Driver.Suites.Build

def handle (j : Json) : Except String Verdict := do
  let fields ← (← getArr j "schema").toList.mapM fieldOfJson
  let rends ← (← getArr j "renderings").toList.mapM fun rs => do (← rs.getArr?).toList.mapM svalOfJson
  let ext := extOfAux ((getObj j "aux").toOption.getD Json.null)
  let impl := (← getArr j "impl").toList
  let fsb0 := fields.any hasFsb0
  let mut agree := true
  let mut sig := ""
  let mut why := ""
  let mut c16 := "pass"
  let mut outs : List (Option (List Arr)) := []
  let mut kinds : List String := []
  let mut idx := 0
  for rows in rends do
    let io := impl.getD idx Json.null
    let cls := implCls io
    if cls == "panic" || cls == "hang" then c16 := "fail"
    let model := toMarrow ext fields rows
    kinds := kinds ++ rows.map (fun r => r.kind)
    if model.cls != cls then
      agree := false
      if sig == "" then
        sig := s!"present/class/model={model.cls}/impl={cls}"
        why := s!"rendering #{idx}: model {model.cls} {repr model.ann}, implementation {cls}"
      outs := outs ++ [none]
    else
      match model with
      | .ok marrs =>
        let iarrs ← (← getArr io "ok").toList.mapM arrOfJson
        if iarrs.map decodeAll != marrs.map decodeAll && !fsb0 then
          agree := false
          if sig == "" then
            sig := "present/decoded-differs"
            why := s!"rendering #{idx}: decoded arrays differ between model and implementation"
        outs := outs ++ [some iarrs]
      | .error _ => outs := outs ++ [none]
    idx := idx + 1
  -- the specification side: renderings are the same logical batch iff interp gives the same rows
  let interps := rends.map fun rows => rows.map (interpRow ext fields)
  let base := interps.headD []
  let allSame := interps.all (fun x => x.length == base.length && (x.zip base).all fun (a, b) =>
    match a, b with
    | .ok u, .ok v => u == v
    | _, _ => false)
  let c11 :=
    -- not one logical batch: some rendering has a record WITHOUT a documented value, or the rows differ.  This does
    -- happen (quick tier: about one case in nine): for a dictionary column whose value type is not Utf8 / LargeUtf8 the
    -- generator also draws strings the value type does not parse, integers and unit variants, so the base record itself
    -- is undefined.  C11 = `na`, tag `not-one-batch`; the comparison of model and crate per rendering, the malformed
    -- renderings and the Item / Items comparison below are still judged and can turn the case into `fail`; that all
    -- renderings are refused TOGETHER is not judged.
    if !allSame then "na"
    else
      match outs.headD none with
      | none => if outs.all (·.isNone) then "pass" else "fail"
      | some first => if outs.all (fun o => o == some first) then "pass" else "fail"
  if c11 == "fail" && sig == "" then
    sig := s!"present/C11/arrays-differ"
    why := "renderings of one logical batch gave different arrays or different outcomes"
  -- malformed renderings (one entry of one record repeated): where the documented mapping is undefined for a row
  -- (a schema field given twice) the conversion must fail in every presentation; the model must reproduce the outcome
  let mal ← (match getObj j "malformed" with
    | .ok v => do (← v.getArr?).toList.mapM fun rs => do (← rs.getArr?).toList.mapM svalOfJson
    | .error _ => pure [])
  let mimpl := ((getArr j "impl_malformed").toOption.map (·.toList)).getD []
  let mut c11 := c11
  let mut midx := 0
  let mut nUndefined := 0
  for rows in mal do
    let io := mimpl.getD midx Json.null
    let cls := implCls io
    if cls == "panic" || cls == "hang" then c16 := "fail"
    let model := toMarrow ext fields rows
    if model.cls != cls then
      agree := false
      if sig == "" then
        sig := s!"present/malformed/class/model={model.cls}/impl={cls}"
        why := s!"malformed rendering #{midx}: model {model.cls} {repr model.ann}, implementation {cls}"
    let undefined := rows.any fun r => match interpRow ext fields r with | .error _ => true | .ok _ => false
    if undefined then
      nUndefined := nUndefined + 1
      if cls == "ok" then
        c11 := "fail"
        if sig == "" || sig.startsWith "present/malformed/class" then
          sig := "present/C11/repeated-field-accepted"
          why := s!"malformed rendering #{midx}: a record gives a schema field twice (the documented mapping is undefined) but the conversion succeeded"
    midx := midx + 1
  -- Item / Items wrappers: impl_items = [Items(&[T]), [Item(T)], explicit records]; the model runs `serItem`
  let itemsImpl := ((getArr j "impl_items").toOption.map (·.toList)).getD []
  let mut itemTags : List String := []
  if !itemsImpl.isEmpty then
    let rows0 := rends.headD []
    let itemFields : List Field := [.mk "item" (.struct (Fields.ofList fields)) false []]
    -- what `to_marrow(&fields, &Items(rows))` serializes: `serItems`, a `seq` whose elements are the `serItem`s
    let modelRows : List SVal := match serItems 1 rows0 with
      | .seq xs => xs.toList
      | _ => []
    let model := toMarrow ext itemFields modelRows
    let mut iouts : List (Option (List Arr)) := []
    let mut iidx := 0
    for io in itemsImpl do
      let cls := implCls io
      if cls == "panic" || cls == "hang" then c16 := "fail"
      if model.cls != cls then
        agree := false
        if sig == "" then
          sig := s!"present/items/class/model={model.cls}/impl={cls}"
          why := s!"Item/Items way #{iidx}: model {model.cls} {repr model.ann}, implementation {cls}"
        iouts := iouts ++ [none]
      else
        match model with
        | .ok marrs =>
          let iarrs ← (← getArr io "ok").toList.mapM arrOfJson
          if iarrs.map decodeAll != marrs.map decodeAll && !fsb0 then
            agree := false
            if sig == "" then
              sig := "present/items/decoded-differs"
              why := s!"Item/Items way #{iidx}: decoded arrays differ between model and implementation"
          iouts := iouts ++ [some iarrs]
        | .error _ => iouts := iouts ++ [none]
      iidx := iidx + 1
    let clss := itemsImpl.map implCls
    let sameCls := clss.all (· == clss.headD "")
    let sameArrs := match iouts.headD none with
      | none => true
      | some first => iouts.all (fun o => o == some first)
    if !(sameCls && sameArrs) then
      c11 := "fail"
      if sig == "" || sig.startsWith "present/items/class" then
        sig := "present/C11/items-differ-from-record"
        why := s!"Items(&[T]) / [Item(T)] / explicit one-field records named item gave different outcomes {clss} or arrays"
    itemTags := ["items:" ++ clss.headD ""]
  let tags := itemTags ++ (kinds.map (fun k => "row:" ++ k)).eraseDups ++ (fields.flatMap schemaTags).eraseDups ++ [if allSame then "one-batch" else "not-one-batch"]
    ++ (if nUndefined > 0 then ["malformed:repeated-schema-field"] else if mal.isEmpty then [] else ["malformed:repeat-harmless"])
  return { agree := agree, spec := [("C11", c11), ("C16", c16)], tags := tags, sig := sig, why := why }

end Driver.Suites.Present
