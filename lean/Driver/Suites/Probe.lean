import Driver.Util
import Driver.SchemaJson
import Driver.ArrJson
import Driver.Suites.Backend
import SaModel.Backend.Adapters
import SaModel.Spec.Decode
/-
suite `probe` (C19, thorough tier): one case holds the output of `harness-probe` built against the current
repository for a handful of feature sets (marrow only, single arrow versions on both sides of the 47 / 53
thresholds, two arrow versions at once, both arrow2 versions, arrow + arrow2).

  spec C19:
    every configuration builds and runs;
    the arrow / arrow2 version the public API is typed with is the one `versionSelect` (Backend/Adapters.lean)
    picks from the enabled features — the maximum;
    the marrow results are identical in every configuration;
    in every configuration every back end has the outcome class of marrow, arrays with the same decoded content
    (`Spec.decodeAll`), the same `Dump` from its readers, and record batches with exactly the given fields —
    except for the documented version gaps: byte views need arrow ≥ 53, viewing a FixedSizeBinary array needs
    arrow ≥ 47, and the arrow2 gaps of the `backend` suite.
  agree = spec (there is no separate operational model here beyond `versionSelect` / `arrowCfg`).
-/
namespace Driver.Suites.Probe
open Lean Driver SaModel SaModel.Spec SaModel.Backend Driver.Suites.Backend

def featVersion (pre : String) (f : String) : Option Nat :=
  if f.startsWith pre then (f.drop pre.length).toString.toNat? else none

partial def hasCtor (p : DataType → Bool) (f : Field) : Bool :=
  p f.dataType || match f.dataType with
  | .struct fs => fs.toList.any (hasCtor p)
  | .list c | .largeList c | .fixedSizeList c _ => hasCtor p c
  | .map e _ => hasCtor p e
  | .union fs _ => fs.toList.any fun x => hasCtor p x.2
  | .dictionary k v => p k || p v
  | _ => false

def isView : DataType → Bool
  | .utf8View | .binaryView => true
  | _ => false

def isFsb : DataType → Bool
  | .fixedSizeBinary _ => true
  | _ => false

structure Fail1 where
  sig : String
  why : String

def handle (j : Json) : Except String Verdict := do
  let results := (← getArr j "results").toList
  let get (o : Json) (k : String) : Json := (o.getObjVal? k).toOption.getD Json.null
  let mut fails : List Fail1 := []
  let mut tags : List String := []
  let mut refMarrow : Option (List Json) := none
  let mut compared := 0
  for r in results do
    let feats := ((get r "features").getArr?.toOption.getD #[]).toList.filterMap fun x => x.getStr?.toOption
    let name := if feats.isEmpty then "marrow-only" else "+".intercalate feats
    if !(get (get r "build") "ok" == Json.bool true) then
      fails := fails ++ [{ sig := s!"C19/probe/build/{name}", why := s!"{name} does not build: {(get (get r "build") "err").compress.take 600}" }]
      continue
    if !(get (get r "run") "ok" == Json.bool true) then
      fails := fails ++ [{ sig := s!"C19/probe/run/{name}", why := s!"{name} does not run: {(get (get r "run") "err").compress.take 600}" }]
      continue
    tags := s!"built:{name}" :: tags
    -- which version is the API typed with: the model's selection from the enabled features
    let arrowVs := feats.filterMap (featVersion "arrow-")
    let arrow2Vs := feats.filterMap (featVersion "arrow2-0-")
    let selA := versionSelect arrowVs
    let selA2 := versionSelect arrow2Vs
    let header := get r "header"
    let apiOf (k : String) : List Nat := ((get header k).getArr?.toOption.getD #[]).toList.filterMap fun x => x.getNat?.toOption
    if apiOf "api_arrow" != selA.toList then
      fails := fails ++ [{ sig := s!"C19/probe/api-version/arrow/{name}", why := s!"{name}: the arrow API is typed with version {apiOf "api_arrow"}, versionSelect gives {repr selA}" }]
    if apiOf "api_arrow2" != selA2.toList then
      fails := fails ++ [{ sig := s!"C19/probe/api-version/arrow2/{name}", why := s!"{name}: the arrow2 API is typed with version {apiOf "api_arrow2"}, versionSelect gives {repr selA2}" }]
    let cfgA := arrowCfg ((List.range 100).map fun n => (n, n)) arrowVs
    let entries := ((get r "entries").getArr?.toOption.getD #[]).toList
    let marrows := entries.map fun e => get e "marrow"
    match refMarrow with
    | none => refMarrow := some marrows
    | some ref =>
      if ref != marrows then
        fails := fails ++ [{ sig := s!"C19/probe/marrow-differs/{name}", why := s!"{name}: to_marrow / from_marrow results differ from the first configuration's" }]
    for e in entries do
      let idx := (get e "i").compress
      let fields ← ((get e "schema").getArr?.toOption.getD #[]).toList.mapM fieldOfJson
      let nrows := (get e "nrows").getNat?.toOption.getD 0
      let m := get e "marrow"
      let mser := get m "ser"
      let mcls := pathCls mser
      let marrs ← if mcls == "ok" then arraysOf mser else pure []
      for (fam, present) in [("arrow", selA.isSome), ("arrow2", selA2.isSome)] do
        if !present then continue
        let b := get e fam
        let ser := get b "ser"
        let cls := pathCls ser
        -- documented gaps of this configuration
        let viewGap := fam == "arrow" && !cfgA.bytesViewSupport && fields.any (hasCtor isView)
        let fsbGap := fam == "arrow" && !cfgA.fixedBinarySupport && fields.any (hasCtor isFsb)
        let a2Gap := fam == "arrow2" && !(fields.flatMap (fieldGaps "arrow2")).isEmpty
        if viewGap || a2Gap then
          if cls == "ok" then
            fails := fails ++ [{ sig := s!"C19/probe/gap-not-refused/{fam}/{name}", why := s!"{name} entry {idx}: {fam} accepted a data type listed as a gap" }]
          else tags := s!"gap:{fam}" :: tags
          continue
        compared := compared + 1
        let paths : List (String × Json × Json) :=
          [("to", ser, get b "de")] ++ (if fam == "arrow" then [("batch", get b "batch_ser", get b "batch_de")] else [])
        for (pn, pser, pde) in paths do
          let pcls := pathCls pser
          if fsbGap && mcls == "ok" && pcls == "view_err" then
            tags := "gap:arrow<47:FixedSizeBinary-view" :: tags
            continue
          if pcls != mcls then
            fails := fails ++ [{ sig := s!"C19/probe/outcome/{fam}/{pn}/{pcls}-vs-{mcls}/{name}",
                                 why := s!"{name} entry {idx}: {fam} {pn} is {pcls}, marrow {mcls}: {(pser.compress.take 300)}" }]
            continue
          if pcls == "ok" then
            let arrs ← arraysOf pser
            match contentEq marrs arrs with
            | some col => fails := fails ++ [{ sig := s!"C19/probe/content/{fam}/{pn}/{name}", why := s!"{name} entry {idx}: column {col} decodes differently from the marrow array" }]
            | none => pure ()
            if pde != get m "de" then
              fails := fails ++ [{ sig := s!"C19/probe/read/{fam}/{pn}/{name}", why := s!"{name} entry {idx}: reader gives {(pde.compress.take 200)}, from_marrow {((get m "de").compress.take 200)}" }]
          else if pcls == "err" then
            if get pser "err" != get mser "err" then
              fails := fails ++ [{ sig := s!"C19/probe/error-text/{fam}/{name}", why := s!"{name} entry {idx}: {(pser.compress.take 200)} vs {(mser.compress.take 200)}" }]
        -- record batch schema
        if fam == "arrow" then
          match getOpt b "batch" with
          | none => pure ()
          | some bi =>
            let got := ((get bi "fields").getArr?.toOption.getD #[]).toList.mapM fieldOfJson
            let bad : Option String := match got with
              | .error _ => some "unreadable"
              | .ok got => match fieldDiff fields got with
                | some a => some a
                | none =>
                  if get bi "meta" != Json.arr #[] then some "schema-metadata"
                  else if (get bi "cols").getNat?.toOption != some fields.length then some "columns"
                  else if (get bi "rows").getNat?.toOption != some nrows then some "rows"
                  else none
            match bad with
            | some a => fails := fails ++ [{ sig := s!"C19/probe/batch-fields/{a}/{name}", why := s!"{name} entry {idx}: batch schema differs from the given fields ({a})" }]
            | none => pure ()
  let c16 := if hasPanic (get j "results") then "fail" else "pass"
  match fails with
  | [] => return { agree := true, spec := [("C19", "pass"), ("C16", c16)], tags := (s!"compared:{compared}" :: tags).eraseDups }
  | f :: rest =>
    return { agree := false, spec := [("C19", "fail"), ("C16", c16)], sig := f.sig, tags := tags.eraseDups,
             why := f.why ++ (if rest.isEmpty then "" else s!" (+{rest.length} more: {", ".intercalate ((rest.map (·.sig)).eraseDups.take 12)})") }

end Driver.Suites.Probe
