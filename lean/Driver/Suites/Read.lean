import Driver.ReadCheck
import SaModel.Read.Cast
import SaModel.Read.PresentCodec
/- suite `read` (C02; also C05, C18, C16): valid views from three sources, read item-wise and in bulk.

agree    : the reader model reproduces constructor and read outcomes (class + value).
oracles  : `Spec.decodeAt` of the dumped view = the generator's logical rows = what arrow-rs accessors say
           (three-way; a mismatch means spec, generator or marrow conversion is wrong — reported, never ignored).
spec C02 : the result of every read equals what the INDEPENDENT reader-side table `Spec.typedRead Read.readCodec` (`Spec/Present.lean`,
           written from the documentation; `.any` = `Spec.presentAny`) demands of the decoded slot.  `Read.cast` (proved equal to
           it in every cell: `Props.C02.cast_eq_typedRead`) only supplies the REASON of a must-fail cell for the signature.
spec C05 : where the table says the value has no exact representation in the target, the read must fail.
spec C18 : errors name a field path and a data type.  spec C16: no panic. -/
namespace Driver.Suites.Read
open Lean Driver SaModel SaModel.Read

def slug (s : String) : String :=
  if s.startsWith "null into" then "null-into-non-option"
  else if s == "not a bool" then "int-as-bool"
  else if s == "out of range" then "int-out-of-range"
  else if s == "not a char" then "int-as-char"
  else if s == "missing field" then "missing-field"
  else if s == "unknown variant" then "unknown-variant"
  else if s.startsWith "tuple longer" then "tuple-longer"
  else if s.startsWith "strings carry" then "string-variant-data"
  else if s.startsWith "unsupported" then "unsupported-pair"
  else if s.startsWith "Unsupported date" || s.startsWith "Unsupported timestamp" || s.startsWith "Cannot convert" then "codec-range"
  else "other"

/-- `mustFail` reasons that are C05's "no exact representation" (the others: the reader does not offer the pair) -/
def isC05Reason (s : String) : Bool := !(s.startsWith "unsupported")

/-- C18 on one error outcome: annotations name a `$`-rooted field path and a data type -/
def annOk (impl : Json) : Bool :=
  match impl.getObjVal? "err" with
  | .ok e =>
    match e.getObjVal? "ann" with
    | .ok (.arr a) =>
      let get (k : String) : Option String := a.toList.findSome? fun kv =>
        match kv with
        | .arr #[.str k', .str v] => if k' == k then some v else none
        | _ => none
      (match get "field" with | some f => f.startsWith "$" | none => false) && (get "data_type").isSome
    | _ => false
  | _ => true

structure Acc where
  agree : Bool := true
  c02 : String := "pass"
  c05 : String := "pass"
  c18 : String := "pass"
  c16 : String := "pass"
  sig : String := ""
  why : String := ""
  tags : List String := []

def Acc.note (a : Acc) (sig why : String) : Acc :=
  if a.sig == "" then { a with sig := sig, why := why } else a

/-- what the specification says about one item read: decided by the independent table `Spec.typedRead`; the reason of a
must-fail cell (used for the signature only) is the one `Read.cast` names -/
def specItem (rec_ : Arr) (ty : Target) (idx : Nat) : Claim :=
  match Spec.decodeAt rec_ idx with
  | .ok lv =>
    if utf8Ok lv then
      match Spec.typedRead readCodec ty rec_ lv with
      | .value d => must d
      | .unclaimed => na
      | .fails =>
        (match cast ty rec_ lv with
         | .error e => .error e
         | _ => mustFail "other")
    else na
  | .error _ => na

def checkOne (acc : Acc) (kind : String) (ty : Target) (what : String) (claim : Claim) (impl : Json) : Acc :=
  let icls := implCls impl
  match claim with
  | .ok none => { acc with tags := "spec-na" :: acc.tags }
  | .ok (some d) =>
    match impl.getObjVal? "ok" with
      | .ok j =>
        if dvalMatches d j then acc
        else ({ acc with c02 := "fail" }).note s!"C02/value/{kind}/{targetKind ty}"
          s!"{what}: specification {(dvalToJson d).compress.take 300}, implementation {j.compress.take 300}"
      | _ => ({ acc with c02 := "fail" }).note s!"C02/{icls}-on-valid/{kind}/{targetKind ty}"
          s!"{what}: specification {(dvalToJson d).compress.take 300}, implementation {impl.compress.take 300}"
  | .error (.err why) =>
    if icls == "ok" then
      if isC05Reason why then
        ({ acc with c02 := "fail", c05 := "fail" }).note s!"C05/{slug why}/{kind}/{targetKind ty}"
          s!"{what}: the value has no exact representation in the target ({why}) but the read returned {impl.compress.take 300}"
      else
        ({ acc with c02 := "fail" }).note s!"C02/unsupported-pair-read/{kind}/{targetKind ty}"
          s!"{what}: the specification lists this (target, column) pair as not offered by the reader, but the read returned {impl.compress.take 300}"
    else { acc with tags := s!"must-fail:{slug why}" :: acc.tags }
  | .error (.errCtx why _) =>
    if icls == "ok" then
      ({ acc with c02 := "fail", c05 := "fail" }).note s!"C05/{slug why}/{kind}/{targetKind ty}"
        s!"{what}: the value has no exact representation in the target ({why}) but the read returned {impl.compress.take 300}"
    else { acc with tags := s!"must-fail:{slug why}" :: acc.tags }
  | .error (.panic _) => acc

def handle (j : Json) : Except String Verdict := do
  if let some s := getOpt j "skip" then
    -- the crate's own `to_marrow` unwinding while the harness builds the column is a C16 failure, not a skipped case
    if (s.compress.splitOn "to_marrow panicked").length > 1 then
      return { agree := false, spec := [("C02", "na"), ("C16", "fail")], sig := "read/C16/to_marrow-panicked", tags := ["skip"], why := s.compress }
    return { agree := true, spec := [("C02", "na")], tags := ["trivial", "skip"], why := s.compress }
  let fm ← fmetaOfJson (← getObj j "fm")
  let col ← arrOfJson (← getObj j "view")
  let src ← getStr j "src"
  let kind := arrKind col
  let rows := (← getArr j "rows").toList
  let rows := match getOpt j "slice" with
    | some (.arr #[o, l]) => (rows.drop (o.getNat?.toOption.getD 0)).take (l.getNat?.toOption.getD 0)
    | _ => rows
  let reads ← (← getArr j "reads").toList.mapM parseRead
  let ctor ← getObj j "ctor"
  let impls := (← getArr j "impl").toList
  let rec_ := record fm col
  let mut acc : Acc := { tags := [s!"src:{src}", s!"kind:{kind}"] }
  -- oracles: Spec.decodeAt (view) = generator rows = arrow-rs accessors
  if vlen col != rows.length then
    return { agree := false, spec := [("C02", "na")], sig := s!"C02/oracle/len/{src}/{kind}",
             why := s!"view length {vlen col}, generator rows {rows.length}" }
  let oracle := match getOpt j "oracle" with
    | some (.arr a) => some a.toList
    | _ => none
  let mut i := 0
  for row in rows do
    let dec := match Spec.decodeAt col i with
      | .ok lv => lvalToJson lv
      | .error _ => Json.str "<decode error>"
    if dec != row then
      return { agree := false, spec := [("C02", "na")], sig := s!"C02/oracle/spec-vs-generator/{src}/{kind}",
               why := s!"row {i}: Spec.decode {dec.compress.take 300}, generator {row.compress.take 300}" }
    if let some o := oracle then
      if o.getD i Json.null != row then
        return { agree := false, spec := [("C02", "na")], sig := s!"C02/oracle/arrow-vs-generator/{src}/{kind}",
                 why := s!"row {i}: arrow-rs {(o.getD i Json.null).compress.take 300}, generator {row.compress.take 300}" }
    i := i + 1
  -- constructor
  let mctor := new Fixes.all rec_
  let ccls := implCls ctor
  if ccls != "ok" || mctor.cls != "ok" then
    return { agree := mctor.cls == ccls, spec := [("C02", "fail"), ("C16", if ccls == "panic" then "fail" else "pass")],
             sig := s!"C02/ctor/{ccls}/model={mctor.cls}/{kind}", why := s!"constructor on a valid view: {ctor.compress.take 300}" }
  if impls.length != reads.length then
    return { agree := false, spec := [("C02", "na")], sig := "C02/read-count", why := "number of results differs from number of reads" }
  let mut k := 0
  for (r, impl) in reads.zip impls do
    let m := modelRead Fixes.all fm col r
    let icls := if isNoneItem impl then "none" else implCls impl
    let what := if r.bulk then s!"read #{k} (bulk {targetKind r.ty}) of {kind} [{src}]" else s!"read #{k} (idx {r.idx}, {targetKind r.ty}) of {kind} [{src}]"
    -- correspondence
    match compareRead m impl with
    | .agree => pure ()
    | .differ why =>
      acc := ({ acc with agree := false }).note s!"C02/disagree/{kind}/{targetKind r.ty}/impl={icls}" s!"{what}: {why}"
    if icls == "panic" then
      acc := ({ acc with c16 := "fail", c02 := "fail" }).note s!"C02/panic/{kind}/{targetKind r.ty}" s!"{what}: {impl.compress.take 300}"
    if icls == "err" && !annOk impl then
      acc := { acc with c18 := "fail", tags := "c18-ann" :: acc.tags }
    -- specification
    if icls != "none" && icls != "panic" then
      if r.bulk then
        let claims := (List.range (vlen col)).map fun i => specItem rec_ r.ty i
        let claim : Claim := match claimList claims with
          | .ok (some ds) => must (.seq (DVals.ofList ds))
          | .ok none => na
          | .error e => .error e
        acc := checkOne acc kind r.ty what claim impl
      else
        acc := checkOne acc kind r.ty what (specItem rec_ r.ty r.idx) impl
    else if icls == "none" && r.idx < vlen col then
      acc := ({ acc with c02 := "fail" }).note s!"C02/no-item/{kind}" s!"{what}: get returned None below len"
    k := k + 1
  let tags := (if vlen col == 0 then "trivial" :: acc.tags else acc.tags).eraseDups
  return { agree := acc.agree, spec := [("C02", acc.c02), ("C05", acc.c05), ("C18", acc.c18), ("C16", acc.c16)],
           sig := acc.sig, why := acc.why, tags := tags }

end Driver.Suites.Read
