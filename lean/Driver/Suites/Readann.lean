import Driver.ReadCheck
import SaModel.Lemmas.C18ReadAny
import SaModel.Lemmas.C05ReadCont
import SaModel.Spec.Blame
/- suite `readann` (C18, reader half): error annotations of the random-access readers on the views and typed
targets of the `read` suite and on the corrupted views of the `corrupt` suite.

agree   : the annotated reader model (`SaModel/Read/Annot.lean`, `AnnFixes.all`) reproduces every outcome class and,
          for every error, exactly the implementation's `field` and `data_type`; dropping the model's annotations
          gives the outcome of the un-annotated model (`Reader.readAs`) the C02 / C17 theorems are about.
spec C18 (independent of the operational model): an error carries both keys, and (field, data_type) is one of the
          positions of the record's type (`segsArr`: the `$`-rooted walk over the view) with the label of the
          reader family there; and — BLAME, the specification of `Props.C18.C18_de_blame` (Props/C18De.lean) — on every erroring typed read
          whose slot decodes and meets the hypotheses of that theorem (reader built, physical lengths, UTF-8 strings,
          neither known finding #23 / #24 inside the value: `noKnown`), (field, data_type) is one of the positions
          `Spec.blameRead target view value` blames (written from `Read.cast`, not from the readers): signature
          `C18/blame/…`.  Reads whose slot does not decode (corrupted views) or that meet a known finding: tag `blame-na`. -/
namespace Driver.Suites.Readann
open Lean Driver SaModel SaModel.Read SaModel.Props.C18

def annOf (impl : Json) : Option (Option String × Option String) :=
  match impl.getObjVal? "err" with
  | .ok e =>
    match e.getObjVal? "ann" with
    | .ok (.arr a) =>
      let get (k : String) : Option String := a.toList.findSome? fun kv =>
        match kv with
        | .arr #[.str k', .str v] => if k' == k then some v else none
        | _ => none
      some (get "field", get "data_type")
    | _ => some (none, none)
  | _ => none

def modelReadA (fm : FieldMeta) (col : Arr) (r : ReadReq) : Option (R DVal) :=
  if r.bulk then
    some (do
      let xs ← readRange (fun i => readAsA AnnFixes.all Fixes.all "$" r.ty (record fm col) i) 0 (vlen col)
      pure (.seq (DVals.ofList xs)))
  else readRecordA AnnFixes.all Fixes.all r.ty fm col r.idx

def modelAnn : R DVal → Option (Option String × Option String)
  | .error (.errCtx _ a) => some (a.lookup "field", a.lookup "data_type")
  | .error (.err _) => some (none, none)
  | _ => none

/-- the positions `Spec.blameRead` allows for row `i`; `none`: a hypothesis of `C18_de_blame` fails -/
def blameAt (rec_ : Arr) (ty : Target) (i : Nat) : Option (List (String × String)) :=
  match Spec.decodeAt rec_ i with
  | .ok lv =>
    if utf8Ok lv && noKnown ty rec_ lv then some (positionsAt "$" (Spec.blameRead ty rec_ lv)) else none
  | .error _ => none

/-- `pass` / `fail` / `na` for one erroring read: a bulk read stops at the first failing row, so the named position
must be blamed for some row -/
def blameVerdict (rec_ : Arr) (r : ReadReq) (f d : String) : String × List (String × String) :=
  if !((new Fixes.all rec_) == .ok () && physical rec_) then ("na", []) else
  let rows := if r.bulk then List.range (vlen rec_) else [r.idx]
  let per := rows.map (blameAt rec_ r.ty)
  let allowed := (per.filterMap id).flatten
  if allowed.contains (f, d) then ("pass", allowed)
  else if per.any Option.isNone then ("na", allowed)
  else ("fail", allowed)

def handle (j : Json) : Except String Verdict := do
  if let some s := getOpt j "skip" then
    return { agree := true, spec := [("C18", "na")], tags := ["trivial", "skip"], why := s.compress }
  let fm ← fmetaOfJson (← getObj j "fm")
  let col ← arrOfJson (← getObj j "view")
  let src ← getStr j "src"
  let kind := arrKind col
  let reads ← (← getArr j "reads").toList.mapM parseRead
  let ctor ← getObj j "ctor"
  let rec_ := record fm col
  if implCls ctor != "ok" then
    -- construction errors are not errors "while deserializing a value": out of scope here (C17 compares them)
    return { agree := true, spec := [("C18", "na")], tags := ["trivial", "ctor-" ++ implCls ctor, s!"src:{src}"] }
  let impls := (← getArr j "impl").toList
  if impls.length != reads.length then
    return { agree := false, spec := [("C18", "na")], sig := "C18/read-count", why := "number of results differs from number of reads" }
  let allowed : List (String × String) := positionsAt "$" (segsArr rec_)
  let mut agree := true
  let mut c18 := "pass"
  let mut sig := ""
  let mut why := ""
  let mut tags : List String := [s!"src:{src}", s!"kind:{kind}"]
  let mut nerr := 0
  let mut k := 0
  for (r, impl) in reads.zip impls do
    let m := modelReadA fm col r
    let plain := modelRead Fixes.all fm col r
    let what := s!"read #{k} ({if r.bulk then "bulk" else s!"idx {r.idx}"}, {targetKind r.ty}) of {kind} [{src}]"
    -- the annotated model is the un-annotated one plus annotations
    if m.map eraseAnn != plain then
      agree := false
      if sig == "" then
        sig := s!"C18/erase/{kind}/{targetKind r.ty}"
        why := s!"{what}: annotated and un-annotated reader models differ"
    match compareRead m impl with
    | .agree => pure ()
    | .differ w =>
      agree := false
      if sig == "" then
        sig := s!"C18/class/{kind}/{targetKind r.ty}/impl={implCls impl}"
        why := s!"{what}: {w}"
    if let some (f, d) := annOf impl then
      nerr := nerr + 1
      -- correspondence: same annotation
      match m with
      | some mr =>
        if let some (mf, md) := modelAnn mr then
          if (mf, md) != (f, d) then
            agree := false
            if sig == "" then
              sig := s!"C18/ann/{kind}/{targetKind r.ty}/impl={d.getD "-"}/model={md.getD "-"}"
              why := s!"{what}: implementation names {f.getD "<no field>"} / {d.getD "<no data_type>"}, model {mf.getD "<none>"} / {md.getD "<none>"}: {impl.compress.take 200}"
          tags := s!"label:{d.getD "-"}" :: tags
          if (f.getD "") == "$" then tags := "at-root" :: tags
          else if ((f.getD "").splitOn ".").length == 2 then tags := "at-column" :: tags
          else tags := "below-column" :: tags
      | none => pure ()
      -- specification
      match f, d with
      | some f, some d =>
        if !allowed.contains (f, d) then
          c18 := "fail"
          if sig == "" || sig.startsWith "C18/ann" then
            sig := s!"C18/position/{kind}/{targetKind r.ty}/{d}"
            why := s!"{what}: ({f}, {d}) is not a position of the record: {(toString allowed).take 300}"
        let (bv, ballowed) := blameVerdict rec_ r f d
        tags := s!"blame-{bv}" :: tags
        if bv == "fail" then
          c18 := "fail"
          if sig == "" || sig.startsWith "C18/ann" then
            sig := s!"C18/blame/{kind}/{targetKind r.ty}/{d}"
            why := s!"{what}: ({f}, {d}) is not a position Spec.blameRead blames: {(toString ballowed).take 300}"
      | _, _ =>
        c18 := "fail"
        if sig == "" || sig.startsWith "C18/ann" then
          sig := s!"C18/missing-key/{kind}/{targetKind r.ty}"
          why := s!"{what}: error without field / data_type: {impl.compress.take 300}"
    k := k + 1
  if nerr == 0 then tags := "trivial" :: tags
  return { agree := agree, spec := [("C18", if nerr == 0 then "na" else c18)], sig := sig, why := why, tags := tags.eraseDups }

end Driver.Suites.Readann
