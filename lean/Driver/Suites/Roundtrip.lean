import Driver.Util
import Driver.SchemaJson
import Driver.SValJson
import Driver.ArrJson
import Driver.Suites.Build
import Driver.RoundtripBridge
import SaModel.Roundtrip.Exclusions
/-
suite `roundtrip` (C04): real derived types → `from_type` → arrays → values, through every front end.

  agree : (1) harness fidelity: `record(SVal(record v)) = record v` for every value (sval.rs issues the calls a real
              derive issues);
          (2) the traced schema + the recorded rows + the implementation's arrays form a case of the `build` suite:
              the operational builder model `toMarrow ext fields rows` reproduces the outcome class, the decoded
              content of the arrays (`decodeAll`) and `decodeAll(arrays) = interp(rows)` (C01) / `WF` (C03);
          (3) the traced schema respects the options (`violatedOption`: List vs LargeList, Utf8 vs LargeUtf8,
              Dictionary only when asked for, Null only with `allow_null_fields`, Map only without `map_as_struct`);
              struct fields are traced in the order the derive presents them (`fieldOrderOk`);
              `from_type` fails exactly under the documented preconditions of the type (declared per zoo type:
              maps need `map_as_struct(false)`, Null positions need `allow_null_fields`, enums without data need
              `enums_without_data_as_strings` or `allow_null_fields`): `SaModel.Roundtrip.traceRefused`; a root that is
              not traced to a non-nullable struct (zoo flag `badroot`: unit struct, scalar newtype, Option, enum — tied to
              the model's `recordRoot` and to `C04_root_refused` by the bridge) is refused under EVERY option set.
  spec C04 : `from_type` succeeded, `to_marrow` succeeded and EVERY front end returned a sequence equal to the
          original (`==` on the real type, after the documented normalisation of nested Options; and equal recorded
          call streams, which also sees `-0.0` vs `0.0`).  Documented exclusions are `na` with explicit tags:
          a `None` at a position traced to a Union (`SaModel.Roundtrip.noneAtUnion`, decided on schema × rows),
          a refused `from_type` under (3).
          (4) THE TIE OF THE TYPE MODEL (Driver/RoundtripBridge.lean): the description of the zoo type in the model's type
              language (`Roundtrip.Ty`, shipped by the harness) is evaluated through `ser`, `toTraceTy` + `Trace.fromType`,
              `toTarget` + `readAll`, `dvalOf`, `norm` and the whole chain of `C04_end_to_end_root`, and compared with what the
              real derived impls / the crate did on the case; signatures `roundtrip/bridge/<check>/<type-class>`, tags
              `bridge:inside-fragE` / `bridge:outside-fragE:<reason>` and one tag per check that ran.
  C16   : no panic in any stage.
Signatures: `roundtrip/<front-end>/<what>/<type-class>`.
-/
namespace Driver.Suites.Roundtrip
open Lean Driver SaModel SaModel.Spec SaModel.Roundtrip

def optionNames : List String :=
  ["sequence_as_large_list", "strings_as_large_utf8", "string_dictionary_encoding",
   "enums_without_data_as_strings", "allow_null_fields", "map_as_struct"]

def getOpt? (o : Json) (k : String) (dflt : Bool) : Bool := (o.getObjValAs? Bool k).toOption.getD dflt

def optsOfJson (o : Json) : TraceOpts :=
  { sequenceAsLargeList := getOpt? o "sequence_as_large_list" true
    stringsAsLargeUtf8 := getOpt? o "strings_as_large_utf8" true
    stringDictionaryEncoding := getOpt? o "string_dictionary_encoding" false
    enumsWithoutDataAsStrings := getOpt? o "enums_without_data_as_strings" false
    allowNullFields := getOpt? o "allow_null_fields" false
    mapAsStruct := getOpt? o "map_as_struct" true }

def optTags (o : TraceOpts) : List String :=
  let d : TraceOpts := {}
  (if o.sequenceAsLargeList != d.sequenceAsLargeList then ["opt:list"] else []) ++
  (if o.stringsAsLargeUtf8 != d.stringsAsLargeUtf8 then ["opt:utf8"] else []) ++
  (if o.stringDictionaryEncoding then ["opt:dictionary"] else []) ++
  (if o.enumsWithoutDataAsStrings then ["opt:enum-strings"] else []) ++
  (if o.allowNullFields then ["opt:null-fields"] else []) ++
  (if !o.mapAsStruct then ["opt:map-as-map"] else [])

def frontEnds : List String := ["marrow", "builder", "arrow", "record_batch", "arrow2"]
/-- API coverage (judged when present): `serializer` = SerdeArrowSchema::from_type → ArrayBuilder::new → Serializer by value →
into_inner; `items` = the values as the column `item` through the `Item` / `Items` wrappers -/
def optFrontEnds : List String := ["serializer", "items"]

structure FrontVerdict where
  front : String
  /-- pass | fail | na | absent -/
  res : String
  what : String := ""
  panic : Bool := false
  why : String := ""

/-- one front end: `{"ok":{"equal","same_rec","n"}} | {"err":…,"stage"} | {"panic":…,"stage"}` -/
def judgeFront (front : String) (o : Option Json) (nRows : Nat) (excluded : Bool) : FrontVerdict :=
  match o with
  | none => { front, res := "absent" }
  | some o =>
    match implCls o with
    | "ok" =>
      let r := (o.getObjVal? "ok").toOption.getD Json.null
      let equal := (r.getObjValAs? Bool "equal").toOption.getD false
      let sameRec := match r.getObjVal? "same_rec" with
        | .ok (.bool b) => b
        | _ => true          -- null: not comparable (hash-ordered content)
      let n := (r.getObjValAs? Nat "n").toOption.getD 0
      if n != nRows then { front, res := "fail", what := "row-count", why := s!"{front}: {n} values came back for {nRows}" }
      else if !equal then
        { front, res := "fail", what := "not-equal",
          why := s!"{front}: value #{(r.getObjVal? "first_diff").toOption.getD Json.null} came back as {(r.getObjVal? "got").toOption.getD Json.null}, was {(r.getObjVal? "want").toOption.getD Json.null}" }
      else if !sameRec then { front, res := "fail", what := "record-differs", why := s!"{front}: equal under ==, but the serialized call streams differ" }
      else { front, res := "pass" }
    | "err" =>
      let stage := (o.getObjValAs? String "stage").toOption.getD "?"
      if excluded && stage == "to" then { front, res := "na" }
      else { front, res := "fail", what := s!"err-{stage}", why := s!"{front}: {(o.getObjVal? "err").toOption.getD Json.null}" }
    | _ =>
      let stage := (o.getObjValAs? String "stage").toOption.getD "?"
      { front, res := "fail", what := "panic", panic := true, why := s!"{front} ({stage}): panic {(o.getObjVal? "panic").toOption.getD Json.null}" }

def handleCore (j : Json) : Except String Verdict := do
  let cls := (getStr j "class").toOption.getD "?"
  let flags := ((getArr j "flags").toOption.getD #[]).toList.filterMap (fun x => x.getStr?.toOption)
  let opts := optsOfJson ((getObj j "options").toOption.getD Json.null)
  let baseTags := [s!"class:{cls}"] ++ flags.map (fun f => s!"flag:{f}") ++ optTags opts
  -- the value generator itself failed: nothing was run
  if let .ok e := j.getObjVal? "gen_err" then
    return { agree := false, spec := [("C04", "na"), ("C16", "na")], sig := "roundtrip/harness-gen", tags := baseTags,
             why := s!"the harness could not generate values: {e}" }
  let fidelity := (getBool j "fidelity").toOption.getD false
  let rows ← (← getArr j "rows").toList.mapM svalOfJson
  let fields ← (← getArr j "schema").toList.mapM fieldOfJson
  let normalised := (getBool j "normalised").toOption.getD false
  let baseTags := baseTags ++ (if normalised then ["excl:nested-option-collapse"] else []) ++
    [s!"rows:{if rows.length == 0 then "0" else if rows.length < 8 then "<8" else "≥8"}"]
  let baseTags := if rows.isEmpty then "trivial" :: baseTags else baseTags
  if !fidelity then
    return { agree := false, spec := [("C04", "na"), ("C16", "pass")], sig := "roundtrip/harness-fidelity", tags := baseTags,
             why := "recorder ∘ sval ≠ id on a recorded value of a real derived type: sval.rs does not issue the calls the derive issues" }
  -- ---- from_type
  let ft ← getObj j "from_type"
  -- a root `from_type` does not support at all (declared by the zoo: flag `badroot`; tied to the model's `recordRoot` and to
  -- `C04_root_refused` in Driver/RoundtripBridge.lean) is refused under every option set
  let refused := if flags.contains "badroot" then some "root-not-a-record"
    else traceRefused opts (flags.contains "maps") (flags.contains "nulls") (flags.contains "dataless")
  match implCls ft with
  | "ok" => pure ()
  | "err" =>
    if refused.isSome then
      return { agree := true, spec := [("C04", "na"), ("C16", "pass")], tags := s!"na:from_type-refuses:{refused.getD ""}" :: baseTags }
    else
      return { agree := true, spec := [("C04", "fail"), ("C16", "pass")], sig := s!"roundtrip/from_type/err/{cls}", tags := baseTags,
               why := s!"from_type failed on a supported type: {(ft.getObjVal? "err").toOption.getD Json.null}" }
  | _ =>
    return { agree := true, spec := [("C04", "fail"), ("C16", "fail")], sig := s!"roundtrip/from_type/panic/{cls}", tags := baseTags,
             why := s!"from_type panicked: {(ft.getObjVal? "panic").toOption.getD Json.null}" }
  if let some r := refused then
    return { agree := false, spec := [("C04", "na"), ("C16", "pass")], sig := s!"roundtrip/from_type/unexpected-ok/{cls}", tags := baseTags,
             why := s!"from_type accepted a type it is documented to refuse ({r})" }
  if let some w := violatedOptionRoot opts fields then
    return { agree := false, spec := [("C04", "na"), ("C16", "pass")], sig := s!"roundtrip/from_type/option-not-respected/{w}", tags := baseTags,
             why := s!"the traced schema contains a node the option {w} does not allow" }
  if !rows.all (fieldOrderOkRow fields) then
    return { agree := false, spec := [("C04", "na"), ("C16", "pass")], sig := s!"roundtrip/from_type/field-order/{cls}", tags := baseTags,
             why := "a struct of the traced schema does not list its fields in the order the derived Serialize presents them" }
  -- ---- the builder model on (traced schema, recorded rows) vs the implementation's arrays
  let bv ← Driver.Suites.Build.handle j
  let buildBad := !bv.agree || bv.spec.lookup "C01" == some "fail" || bv.spec.lookup "C03" == some "fail"
  let tags := baseTags ++ bv.tags.filter (fun t => t != "trivial" && !t.startsWith "row:" && !t.startsWith "rows:")
  -- ---- documented exclusion, decided on schema × rows
  let excluded := rows.any (noneAtUnionRow fields)
  let tags := if excluded then "excl:option-union-none" :: tags else tags
  -- ---- to_marrow
  let impl ← getObj j "impl"
  let fronts := (getObj j "fronts").toOption.getD Json.null
  let fvs := frontEnds.map fun f => judgeFront f (fronts.getObjVal? f).toOption rows.length excluded
  let fvs := fvs ++ (optFrontEnds.map fun f => judgeFront f (fronts.getObjVal? f).toOption rows.length excluded).filter (·.res != "absent")
  let anyPanic := implCls impl == "panic" || fvs.any (·.panic)
  let c16 := if anyPanic then "fail" else "pass"
  let tags := tags ++ fvs.map (fun v => s!"{v.front}:{v.res}")
  let toMarrowV : Option (String × String) :=
    match implCls impl with
    | "ok" => none
    | "err" => if excluded then none else some ("err", s!"to_marrow rejected a value of the type: {(impl.getObjVal? "err").toOption.getD Json.null}")
    | _ => some ("panic", s!"to_marrow panicked: {(impl.getObjVal? "panic").toOption.getD Json.null}")
  let firstFail := fvs.find? (·.res == "fail")
  let (c04, sig, why) : String × String × String :=
    match toMarrowV, firstFail with
    | some (what, why), _ => ("fail", s!"roundtrip/to_marrow/{what}/{cls}", why)
    | none, some v => ("fail", s!"roundtrip/{v.front}/{v.what}/{cls}", v.why)
    | none, none =>
      if excluded && implCls impl == "err" then ("na", "", "")
      else if fvs.all (fun v => v.res == "pass") then ("pass", "", "")
      else if fvs.any (fun v => v.res == "absent") then ("fail", s!"roundtrip/missing-front-end/{cls}", "a front end was not run")
      else ("na", "", "")
  -- an exclusion must really be one: if the model says the rows are fine the implementation must accept them
  let (agree, sig, why) :=
    if buildBad then (false, if sig == "" then s!"roundtrip/build/{bv.sig}" else sig, if why == "" then s!"builder model vs implementation on the traced schema: {bv.why}" else why)
    else (true, sig, why)
  return { agree, spec := [("C04", c04), ("C16", c16), ("C01", (bv.spec.lookup "C01").getD "na"), ("C03", (bv.spec.lookup "C03").getD "na")],
           sig, tags, why }

/-- the verdict of the case (`handleCore`) plus the tie of the Lean type model to the real derive (Driver/RoundtripBridge.lean) -/
def handle (j : Json) : Except String Verdict := do
  let v ← handleCore j
  if (j.getObjVal? "gen_err").isOk || !((getBool j "fidelity").toOption.getD false) then return v
  let cls := (getStr j "class").toOption.getD "?"
  let flags := ((getArr j "flags").toOption.getD #[]).toList.filterMap (fun x => x.getStr?.toOption)
  let opts := optsOfJson ((getObj j "options").toOption.getD Json.null)
  let rows ← (← getArr j "rows").toList.mapM svalOfJson
  let fields ← (← getArr j "schema").toList.mapM fieldOfJson
  let b ← Driver.RoundtripBridge.check j opts rows fields (flags.contains "unordered") (flags.contains "badroot")
  let v := { v with tags := v.tags ++ b.tags }
  match b.bad with
  | some (what, why) =>
    -- a failure the case already has (a finding of the crate) keeps its signature; the bridge failure is then a tag
    if v.sig == "" then return { v with agree := false, sig := s!"roundtrip/bridge/{what}/{cls}", why }
    else return { v with tags := v.tags ++ [s!"bridge:failed:{what}"] }
  | none => return v

end Driver.Suites.Roundtrip
