import Driver.Util
import Driver.TyJson
import Driver.SchemaJson
import Driver.SValJson
import Driver.Suites.Build
import Driver.Suites.Roundtrip
import SaModel.Roundtrip.Bridge
import SaModel.Trace.FromSamples
import SaModel.Lemmas.C06Excl
/-
suite `samplert` (C06, the TYPED read-back): real derived types → `from_samples` of a batch of values → `to_marrow` with the
traced schema on the same values → `from_marrow::<Vec<T>>`, compared with the values.

  spec C06 : whenever `from_samples` succeeds on the batch, `to_marrow` accepts the batch against the traced schema and the
          typed read returns a sequence equal to the batch (`==` on the real type after the documented normalisation of
          nested Options, and equal recorded call streams).  Exclusions, decided with the predicates of the closure
          theorems (`Lemmas.C06.hits` against the traced schema) and tagged: `c06-excl:null-enum` (documented: a null /
          missing field at a Union position) is `na`; `c06-typed-excl:map-as-struct-keys-vary` (a map lacking a key of its
          MapAsStruct column: documented, the absent key is written as a null and comes back as one) and
          `c06-typed-excl:serialize-deserialize-asymmetric` (`&[u8]` without serde_bytes) are `na` for the READ (to_marrow must
          still accept the batch); the known finding C06-data-less-newtype-variant-as-string keeps its
          signature; a batch whose traced schema has no column is the known finding C06-zero-columns.
          `from_samples` failing (a Null-only position without `allow_null_fields`, no record, …) is `na`.
  agree : (1) `Trace.fromSamples .fixed O rows` is what `from_samples` returned (same fields, or both errors);
          (2) for a type inside the grammar of the theorems (`fragE`, a record at the root, no borrowed target) the MODEL's
              chain `fromSamples → toMarrow → readAll (toTarget t)` = `vs.map (dvalOf t ∘ norm t)` is ok exactly when the
              crate reads the batch back — the statement of `Props.C06.C06_typed_readback_partial`, evaluated also on the
              batches that do NOT cover the type (narrower schemas).
  C16   : no panic in any stage.
Signatures: `C06/typed/<what>/<type-class>`, `samplert/<what>`.
-/
namespace Driver.Suites.Samplert
open Lean Driver SaModel SaModel.Roundtrip SaModel.Lemmas.C06

/-- a map presented to a MapAsStruct position lacks one of the struct's keys: the column holds a null there ("Fields that are
not present in all instances of the map are marked as nullable … written as null value if not present", `Strategy::MapAsStruct`),
and a typed map read gets an entry for EVERY field — the absent key comes back as a null value (or fails for a value type
that is not an `Option`).  Documented lossy representation: such a batch is outside the TYPED read-back (not outside
acceptance: `to_marrow` must still accept it). -/
partial def mapLacksKey (dt : DataType) (x : SVal) : Bool :=
  let byName (fs : Fields) (fields : SFields) : Bool :=
    fs.toList.any fun f => match fields.toList.find? (fun (k, _, _) => k == f.name) with
      | some (_, _, v) => mapLacksKey f.dataType v
      | none => false
  let byPos (fs : Fields) (xs : SVals) : Bool := (fs.toList.zip xs.toList).any fun (f, v) => mapLacksKey f.dataType v
  let variant (i : Nat) (k : DataType → Bool) : Bool :=
    match dt with
    | .union ufs _ => match ufs.toList[i]? with | some (_, f) => k f.dataType | none => false
    | _ => false
  match x with
  | .some v | .newtypeStruct _ v => mapLacksKey dt v
  | .seq xs =>
    match dt with
    | .list (.mk _ c _ _) | .largeList (.mk _ c _ _) => xs.toList.any (mapLacksKey c)
    | _ => false
  | .tuple xs | .tupleStruct _ xs => match dt with | .struct fs => byPos fs xs | _ => false
  | .record _ fields => match dt with | .struct fs => byName fs fields | _ => false
  | .map es =>
    match dt with
    | .struct fs => fs.toList.any fun f => match es.toList.find? (fun (k, _) => k == SVal.str f.name) with
        | some (_, v) => mapLacksKey f.dataType v
        | none => true
    | .map (.mk _ (.struct (.cons _ (.cons (.mk _ vdt _ _) _))) _ _) _ => es.toList.any fun (_, v) => mapLacksKey vdt v
    | _ => false
  | .newtypeVariant _ i _ v => variant i fun c => mapLacksKey c v
  | .tupleVariant _ i _ xs => variant i fun c => match c with | .struct fs => byPos fs xs | _ => false
  | .structVariant _ i _ fields => variant i fun c => match c with | .struct fs => byName fs fields | _ => false
  | _ => false

def fieldsOfOutcome (j : Json) : Except String (String × Option (List Field)) := do
  let cls := implCls j
  if cls == "ok" then pure (cls, some (← (← (← getObj j "ok").getArr?).toList.mapM fieldOfJson)) else pure (cls, none)

def handle (j : Json) : Except String Verdict := do
  let cls := (getStr j "class").toOption.getD "?"
  let flags := ((getArr j "flags").toOption.getD #[]).toList.filterMap (fun x => x.getStr?.toOption)
  let opts := Driver.Suites.Roundtrip.optsOfJson ((getObj j "options").toOption.getD Json.null)
  let O := toOptions opts
  let baseTags := [s!"class:{cls}"] ++ flags.map (fun f => s!"flag:{f}") ++ Driver.Suites.Roundtrip.optTags opts
  if let .ok e := j.getObjVal? "gen_err" then
    return { agree := false, spec := [("C06", "na"), ("C16", "na")], sig := "samplert/harness-gen", tags := baseTags,
             why := s!"the harness could not generate values: {e}" }
  if !((getBool j "fidelity").toOption.getD false) then
    return { agree := false, spec := [("C06", "na"), ("C16", "pass")], sig := "samplert/harness-fidelity", tags := baseTags,
             why := "recorder ∘ sval ≠ id on a recorded value of a real derived type" }
  let rows ← (← getArr j "rows").toList.mapM svalOfJson
  let unordered := flags.contains "unordered"
  let ext := Driver.Suites.Build.extOfAux ((getObj j "aux").toOption.getD Json.null)
  let baseTags := baseTags ++ [s!"rows:{if rows.length < 3 then "<3" else if rows.length < 8 then "<8" else "≥8"}"]
  -- ---- from_samples: the implementation and the model
  let (fsCls, implFields) ← fieldsOfOutcome (← getObj j "from_samples")
  let (_, typeFields) ← fieldsOfOutcome ((getObj j "from_type").toOption.getD Json.null)
  let model := Trace.fromSamples .fixed O rows
  let agreeTrace := model.cls == fsCls && (match model, implFields with | .ok a, some b => a == b | .ok _, none => false | _, _ => true)
  if !agreeTrace then
    return { agree := false, spec := [("C06", "na"), ("C16", if fsCls == "panic" then "fail" else "pass")],
             sig := s!"samplert/model-vs-impl/from_samples/model={model.cls}/impl={fsCls}", tags := baseTags,
             why := "`Trace.fromSamples` on the recorded rows differs from what `from_samples` returned for the values" }
  let some fields := implFields
    | return { agree := true, spec := [("C06", "na"), ("C16", if fsCls == "panic" then "fail" else "pass")],
               sig := if fsCls == "panic" then s!"C16/panic/from_samples/{cls}" else "",
               tags := s!"na:from_samples-{fsCls}" :: baseTags }
  let schemaTag := match typeFields with
    | some tf => if tf == fields then "schema:as-type-traced" else "schema:differs-from-type-traced"
    | none => "schema:type-not-traceable"
  let tags := schemaTag :: "c06-typed" :: baseTags
  -- ---- the exclusions of the closure theorems, against the traced schema
  let root : DataType := .struct (Fields.ofList fields)
  let nullEnum := rows.any (hits nullAtEnum root)
  let dataLess := rows.any (hits dataLessNewtype root)
  -- outside the TYPED read (acceptance is still judged): a map lacking a key of its MapAsStruct column (documented: the key is
  -- written as a null); a type whose Serialize and Deserialize sides differ (`&[u8]` without serde_bytes: a sequence out, bytes in)
  let keysVary := rows.any (mapLacksKey root)
  let asym := match getOpt j "ty_desc" with
    | some desc => (match rtyOfJson false desc, rtyOfJson true desc with | .ok a, .ok b => a != b | _, _ => false)
        -- since the borrowed leaves are part of the type language the asymmetric `&[u8]` is ONE leaf, `bytes_seq`
        || (desc.compress.splitOn "\"bytes_seq\"").length > 1
    | none => false
  let readExcluded := keysVary || asym
  let tags := (if nullEnum then ["c06-excl:null-enum"] else []) ++ (if dataLess then ["c06-excl:data-less-newtype"] else []) ++
    (if keysVary then ["c06-typed-excl:map-as-struct-keys-vary"] else []) ++
    (if asym then ["c06-typed-excl:serialize-deserialize-asymmetric"] else []) ++ tags
  -- ---- the crate: to_marrow, from_marrow::<Vec<T>>
  let to := (getObj j "to").toOption.getD Json.null
  let toCls := implCls to
  let back := (getObj j "back").toOption.getD Json.null
  let backCls := implCls back
  let anyPanic := toCls == "panic" || backCls == "panic"
  let c16 := if anyPanic then "fail" else "pass"
  let backOk := (back.getObjVal? "ok").toOption.getD Json.null
  let equal := (backOk.getObjValAs? Bool "equal").toOption.getD false
  let sameRec := match backOk.getObjVal? "same_rec" with | .ok (.bool b) => b | _ => true
  let nBack := (backOk.getObjValAs? Nat "n").toOption.getD 0
  let crateOk := toCls == "ok" && backCls == "ok" && equal && sameRec && nBack == rows.length
  let (c06, sig, why) : String × String × String :=
    if toCls == "panic" then ("fail", s!"C06/typed/to_marrow-panic/{cls}", s!"to_marrow panicked: {(to.getObjVal? "panic").toOption.getD Json.null}")
    else if toCls != "ok" then
      if nullEnum then ("na", "", "")
      else if dataLess then ("fail", "C06/to_marrow-rejects/data-less-newtype-variant-as-string/Dictionary", "known finding")
      else ("fail", s!"C06/typed/to_marrow-rejects/{cls}", s!"to_marrow rejects the values the schema was traced from: {(to.getObjVal? "err").toOption.getD Json.null}")
    else if readExcluded && backCls != "panic" then ("na", "", "")
    else if backCls == "panic" then ("fail", s!"C06/typed/from_marrow-panic/{cls}", s!"from_marrow panicked: {(back.getObjVal? "panic").toOption.getD Json.null}")
    else if backCls != "ok" then
      if nullEnum then ("na", "", "")
      else ("fail", s!"C06/typed/from_marrow-rejects/{cls}", s!"from_marrow::<Vec<T>> fails on the arrays built from the values: {(back.getObjVal? "err").toOption.getD Json.null}")
    else if fields.isEmpty && nBack != rows.length then ("fail", "C06/readback-differs/zero-columns", "known finding")
    else if nBack != rows.length then ("fail", s!"C06/typed/row-count/{cls}", s!"{nBack} values came back for {rows.length}")
    else if !equal then
      ("fail", s!"C06/typed/readback-differs/{cls}",
        s!"value #{(backOk.getObjVal? "first_diff").toOption.getD Json.null} came back as {(backOk.getObjVal? "got").toOption.getD Json.null}, was {(backOk.getObjVal? "want").toOption.getD Json.null}")
    else if !sameRec then ("fail", s!"C06/typed/record-differs/{cls}", "equal under ==, but the serialized call streams differ")
    else ("pass", "", "")
  -- ---- the model's chain on the same rows (types inside the grammar of the theorems)
  let some desc := getOpt j "ty_desc"
    | return { agree := true, spec := [("C06", c06), ("C16", c16)], sig, tags := "model-chain:no-description" :: tags, why }
  let t ← rtyOfJson false desc
  let tD ← rtyOfJson true desc
  let inside := t == tD && !hasTargetOverride desc && fragE t && (match t with | .struct _ .nil => false | .struct _ _ => true | _ => false)
  if !inside then
    return { agree := true, spec := [("C06", c06), ("C16", c16)], sig, tags := "model-chain:outside-fragE" :: tags, why }
  let some vs := rows.mapM (valOfSVal t)
    | return { agree := false, spec := [("C06", c06), ("C16", c16)], sig := if sig == "" then "samplert/ser-no-preimage" else sig, tags,
               why := "a recorded row is not the serialization of any value of the described type" }
  if !(vs.zip rows).all (fun (v, r) => ser t v == r) || !vs.all (wt t) then
    return { agree := false, spec := [("C06", c06), ("C16", c16)], sig := if sig == "" then "samplert/ser" else sig, tags,
             why := "`ser t v` differs from the call stream the derived Serialize issued, or the value is not well typed" }
  let expected : List Read.DVal := vs.map fun v => dvalOf t (norm t v)
  let chain : R Bool := do
    let arrs ← Build.toMarrow ext fields rows
    let ds ← readAll (toTarget t) fields arrs
    pure (ds == expected)
  let chainOk := match chain with | .ok b => b | .error _ => false
  let tags := (if chainOk then "model-chain:ok" else s!"model-chain:{match chain with | .ok _ => "differs" | .error _ => chain.cls}") :: tags
  -- hash-ordered content: the crate's result is compared by `==` only, the model's by position — not comparable
  if unordered then
    return { agree := true, spec := [("C06", c06), ("C16", c16)], sig, tags, why }
  if chainOk != crateOk then
    return { agree := false, spec := [("C06", c06), ("C16", c16)],
             sig := if sig == "" then s!"samplert/model-chain-vs-crate/{cls}" else sig, tags,
             why := if why == "" then s!"the model's chain fromSamples → toMarrow → readAll (toTarget t) is {if chainOk then "ok" else "not ok"} ({chain.cls}), the crate {if crateOk then "reads the batch back" else "does not"}" else why }
  return { agree := true, spec := [("C06", c06), ("C16", c16)], sig, tags, why }

end Driver.Suites.Samplert
