import Driver.Util
import Driver.SchemaJson
import SaModel.Codec.SchemaJson
import SaModel.Spec.SchemaOK
import SaModel.Spec.SchemaSide
/- suite `schema` (C09): the model's printer / parser / acceptance on the same fields as the real crate -/
namespace Driver.Suites.Schema
open Lean Driver SaModel SaModel.Dsl SaModel.SchemaJson

/-- `serde_json::Value` as seen through `utils/value.rs` -/
partial def toJVal : Json → JVal
  | .null => .null
  | .bool b => .bool b
  | .num n => .num n.mantissa
  | .str s => .str s
  | .arr a => .arr (JVals.ofList (a.toList.map toJVal))
  | .obj o => .obj (JObj.ofList (o.toList.map fun (k, v) => (k, toJVal v)))

/-- back to `Lean.Json` (objects become key-sorted maps, so comparison ignores key order) -/
partial def ofJVal : JVal → Json
  | .null => .null
  | .bool b => .bool b
  | .num n => .num (JsonNumber.fromInt n)
  | .str s => .str s
  | .arr a => .arr (a.toList.map ofJVal).toArray
  | .obj o => Json.mkObj (o.toList.map fun (k, v) => (k, ofJVal v))

def fieldsOfJson (j : Json) : Except String (List Field) := do
  (← j.getArr?).toList.mapM fieldOfJson

/-- implementation outcome `{"ok": [wire fields]}` → class and fields -/
def implFields (j : Json) : Except String (String × List Field) := do
  let cls := implCls j
  if cls == "ok" then
    pure (cls, ← fieldsOfJson (← j.getObjVal? "ok"))
  else pure (cls, [])

def escOf (j : Json) : Except String (Char → Bool) := do
  let cps ← match j.getObjVal? "esc" with
    | .ok a => (← a.getArr?).toList.mapM fun x => x.getNat?
    | .error _ => pure []
  pure fun c => cps.contains c.toNat

def firstCtor : List Field → String
  | [] => "-"
  | f :: _ => f.dataType.ctor

mutual
partial def tzNeedsEscape (esc : Char → Bool) : Field → Bool
  | .mk _ dt _ _ => tzNeedsEscapeT esc dt
partial def tzNeedsEscapeT (esc : Char → Bool) : DataType → Bool
  | .timestamp _ (some tz) => tz.toList.any fun c => (escapeChar esc c).length > 1
  | .struct fs => fs.toList.any (tzNeedsEscape esc)
  | .list f | .largeList f | .fixedSizeList f _ | .map f _ => tzNeedsEscape esc f
  | .union us _ => us.toList.any fun (_, f) => tzNeedsEscape esc f
  | _ => false
end

/-- compare one implementation outcome with a model outcome; returns `none` when they agree -/
def diffOutcome (what : String) (model : R (List Field)) (impl : Json) : Except String (Option String) := do
  let (cls, fs) ← implFields impl
  if model.cls != cls then return some s!"{what}: model {model.cls}, implementation {cls}"
  match model with
  | .ok mfs => if mfs == fs then return none else return some s!"{what}: model and implementation read different fields"
  | .error _ => return none

def c16 (js : List Json) : String := if js.any (fun j => implCls j == "panic") then "fail" else "pass"

def handleSpell (j : Json) : Except String Verdict := do
  let a ← getStr j "a"
  let b ← getStr j "b"
  let pa ← getObj j "pa"
  let pb ← getObj j "pb"
  let one (s : String) : R (List Field) :=
    parseSchema (.arr (.cons (.obj (.cons "name" (.str "x") (.cons "data_type" (.str s) .nil))) .nil))
  let quoted := a.toList.contains '"'
  let sigc := if quoted then "quoted" else "name"
  let da ← diffOutcome "a" (one a) pa
  let db ← diffOutcome "b" (one b) pb
  let (ca, fa) ← implFields pa
  let (cb, fb) ← implFields pb
  -- specification: two spellings of one type denote the same schema
  let spec := if a == b then "na" else if ca == "ok" && cb == "ok" && fa == fb then "pass" else "fail"
  let tags := [s!"spell-{ca}", if a == b then "spell-single" else "spell-pair"]
  match da.orElse (fun _ => db) with
  | some why => return { agree := false, spec := [("C09", spec), ("C16", c16 [pa, pb])], sig := s!"C09/spell/{sigc}", tags, why }
  | none => return { agree := true, spec := [("C09", spec), ("C16", c16 [pa, pb])], sig := if spec == "fail" then s!"C09/spell/{sigc}" else "", tags,
                     why := if spec == "fail" then s!"spellings {a} and {b} do not denote the same schema" else "" }

def handleJson (j : Json) : Except String Verdict := do
  let value ← getObj j "value"
  let parsed ← getObj j "parsed"
  let direct ← getObj j "parsed_direct"
  let reprint ← getObj j "reprint"
  let mutation := (getStr j "mutation").toOption.getD "none"
  let model := parseSchema (toJVal value)
  let (cls, fs) ← implFields parsed
  let tags := [s!"json-{cls}", s!"mut-{mutation}"] ++ (fs.map fun f => f.dataType.ctor).eraseDups
  let c16v := c16 [parsed, direct, reprint]
  -- specification: what is accepted is a valid schema inside the round-trip domain, and writing it again and
  -- reading it again gives the same fields; a panic is never acceptable
  let mut spec := "na"
  let mut why := ""
  let mut sig := ""
  if cls == "panic" then
    spec := "fail"; sig := "C09/json/panic"; why := "from_value panicked"
  else if cls == "ok" then
    let back ← match reprint.getObjVal? "ok" with
      | .ok r => do pure (some (← fieldsOfJson (← r.getObjVal? "back")))
      | .error _ => pure none
    if !fs.all schemaOK then
      spec := "fail"; sig := s!"C09/json/accepted-outside-domain/{firstCtor fs}"; why := "from_value accepted a value that does not denote a valid schema"
    else if back != some fs then
      spec := "fail"; sig := s!"C09/json/reprint/{firstCtor fs}"; why := "an accepted schema does not survive being written and read again"
    else spec := "pass"
  let d1 ← diffOutcome "from_value" model parsed
  let d2 ← diffOutcome "serde_json::from_value (direct)" model direct
  match d1.orElse (fun _ => d2) with
  | some w =>
    return { agree := false, spec := [("C09", spec), ("C16", c16v)], tags,
             sig := if sig != "" then sig else s!"C09/json/{if d1.isSome then "transmute" else "direct"}/mut-{mutation}", why := w }
  | none => return { agree := true, spec := [("C09", spec), ("C16", c16v)], sig, tags, why }

def handleFields (j : Json) : Except String Verdict := do
  let fs ← fieldsOfJson (← getObj j "fields")
  let esc ← escOf j
  let mut tags : List String := (fs.map fun f => f.dataType.ctor).eraseDups
  let mut problems : List (String × String) := []   -- (signature, why) of correspondence disagreements
  let mut specFail : List (String × String) := []
  let mut outcomes : List Json := []
  let blame := fs.findSome? blameField
  let valid := fs.all validField
  let inDomain := fs.all schemaOK
  tags := tags ++ [if inDomain then "in-domain" else if valid then s!"outside:{blame.getD "?"}" else "invalid"]
  if fs.isEmpty then tags := tags ++ ["trivial"]
  -- 1. foreign field objects
  for key in ["foreign", "foreign_arrow"] do
    match j.getObjVal? key with
    | .error _ => pure ()
    | .ok o =>
      outcomes := o :: outcomes
      if let some w ← diffOutcome key (acceptForeignList fs) o then problems := problems ++ [(s!"C09/{key}/{firstCtor fs}", w)]
      let (cls, got) ← implFields o
      -- specification: a valid schema is accepted unchanged (Null fields become nullable), never altered otherwise
      if cls == "ok" then
        let expect := fs.map fun f => match f with
          | .mk n .null _ m => Field.mk n .null true m
          | f => f
        -- a field object that does not denote a valid schema (`validField`, the explicit predicate of Spec/SchemaOK.lean,
        -- not the operational model: `C09_foreign_iff` says they agree) must not be accepted; the entries field of a map
        -- carrying a strategy no struct admits has its own signature (the defect repaired by `fix: validate_map_field
        -- validates the entries field itself`)
        if !valid then
          let what := if !fs.all entriesField then "Map/entries-strategy" else blame.getD (firstCtor fs)
          specFail := specFail ++ [(s!"C09/{key}/invalid-accepted/{what}", s!"{key}: a field object that does not denote a valid schema was accepted")]
        else if got != expect then specFail := specFail ++ [(s!"C09/{key}/altered/{firstCtor fs}", s!"{key}: accepted fields differ from the given ones")]
      else if cls == "err" && inDomain then
        specFail := specFail ++ [(s!"C09/{key}/rejected/{firstCtor fs}", s!"{key}: a valid schema was rejected")]
  -- 2. arrow / arrow2 field conversions
  let arrow ← getObj j "arrow"
  outcomes := arrow :: outcomes
  if implCls arrow != "ok" then
    tags := tags ++ ["arrow-na"]
  else
    -- (`arrow_plain`, `*_owned`: API coverage — the borrowed conversion into `Vec<arrow Field>` and the owned ones)
    for key in ["arrow", "arrow_refs", "arrow2", "arrow_plain", "arrow_owned", "arrow_refs_owned", "arrow2_owned"] do
      match j.getObjVal? key with
      | .error _ => pure ()
      | .ok o =>
        outcomes := o :: outcomes
        let (cls, got) ← implFields o
        if cls == "ok" then
          if got != fs then specFail := specFail ++ [(s!"C09/{key}/altered/{firstCtor fs}", s!"{key}: fields changed by the conversion and back")]
        else if key == "arrow2" then tags := tags ++ ["arrow2-na"]
        else if key == "arrow2_owned" then
          -- the owned conversion is the borrowed one
          if implCls ((j.getObjVal? "arrow2").toOption.getD Json.null) == "ok" then
            problems := problems ++ [(s!"C09/{key}/{cls}", s!"{key}: fails where the borrowed conversion succeeds")]
        else problems := problems ++ [(s!"C09/{key}/{cls}", s!"{key}: conversion back failed")]
    -- API coverage: Clone / PartialEq / Default of SerdeArrowSchema
    match j.getObjVal? "value_traits" with
    | .error _ => pure ()
    | .ok o =>
      outcomes := o :: outcomes
      let v := (o.getObjVal? "ok").toOption.getD Json.null
      let b (k : String) : Bool := (v.getObjValAs? Bool k).toOption.getD false
      let dflt := ((v.getObjVal? "default").toOption.bind fun d => (fieldsOfJson d).toOption)
      if !(b "clone_eq") || dflt != some [] || (b "ne_default") != !fs.isEmpty then
        specFail := specFail ++ [("C09/value-traits", s!"Clone / PartialEq / Default of SerdeArrowSchema: {o.compress}")]
    -- 3. the JSON form written by the crate
    let json ← getObj j "json"
    outcomes := json :: outcomes
    let mprint := printSchema esc fs
    if mprint.cls != implCls json then
      problems := problems ++ [(s!"C09/print/class/{firstCtor fs}", s!"to_value: model {mprint.cls}, implementation {implCls json}")]
    else if let .ok mj := mprint then
      let ij ← json.getObjVal? "ok"
      if ofJVal mj != ij then
        problems := problems ++ [(s!"C09/print/value/{firstCtor fs}", s!"to_value: model wrote {(ofJVal mj).compress}, implementation {ij.compress}")]
      tags := tags ++ ["printed"]
      -- 4. reading it back through every entry point
      let jv := toJVal ij
      let backObj ← getObj j "back_obj"
      let (bcls, bfs) ← implFields backObj
      for (key, mdl) in [("back_obj", parseSchema jv), ("back_list", parseSchema (toJVal (ij.getObjValD "fields"))),
                          ("back_schema", parseSchema jv), ("back_arrow", parseSchema jv), ("back_arrow_plain", parseSchema jv),
                          ("text_rt", parseSchema jv)] do
        let o ← getObj j key
        outcomes := o :: outcomes
        if let some w ← diffOutcome key mdl o then problems := problems ++ [(s!"C09/{key}/{firstCtor fs}", w)]
      let b2 ← getObj j "back_arrow2"
      outcomes := b2 :: outcomes
      let (b2cls, b2fs) ← implFields b2
      if b2cls == "ok" && (bcls != "ok" || b2fs != bfs) then
        specFail := specFail ++ [(s!"C09/back_arrow2/altered/{firstCtor fs}", "from_value into arrow2 fields differs from from_value into marrow fields")]
      -- specification of the property on the JSON form
      tags := tags ++ [s!"back-{bcls}"]
      if inDomain then
        -- round trip is the identity on every entry point
        for key in ["back_obj", "back_list", "back_schema", "back_arrow", "back_arrow_plain", "text_rt"] do
          let (c, got) ← implFields (← getObj j key)
          if c != "ok" || got != fs then
            let cause := if fs.any (tzNeedsEscape esc) then "Timestamp/tz-escape" else s!"{firstCtor fs}"
            specFail := specFail ++ [(s!"C09/json-rt/{cause}", s!"{key}: a schema inside the domain did not survive the JSON form ({c})")]
      else if !valid then
        -- not a valid schema: must be rejected
        if bcls == "ok" then specFail := specFail ++ [(s!"C09/json-rt/invalid-accepted/{firstCtor fs}", "an invalid schema was written and read back without an error")]
      else
        -- valid but not expressible: reading back silently alters it (or, for Null, normalises it)
        if bcls == "ok" && bfs != fs then
          match blame with
          | some "Null/non-nullable" => tags := tags ++ ["null-normalised"]
          | some b => specFail := specFail ++ [(s!"C09/json-rt/{b}", s!"the JSON form cannot express {b}: read back altered without an error")]
          | none => specFail := specFail ++ [(s!"C09/json-rt/altered/{firstCtor fs}", "read back altered")]
  let c16v := c16 outcomes
  if c16v == "fail" then specFail := specFail ++ [("C09/panic", "a schema operation panicked")]
  match specFail, problems with
  | (sig, why) :: _, _ => return { agree := problems.isEmpty, spec := [("C09", "fail"), ("C16", c16v)], sig, tags, why }
  | [], (sig, why) :: _ => return { agree := false, spec := [("C09", "pass"), ("C16", c16v)], sig, tags, why }
  | [], [] => return { agree := true, spec := [("C09", if inDomain || !valid then "pass" else "na"), ("C16", c16v)], tags }

/-- API coverage: the public `Strategy` value on its own.  Model: `Strategy.parse` / `Strategy.toString` / `STRATEGY_KEY`
(the definitions `parseSchema` / `printSchema` use).  Specification (C09, "a schema keeps … strategy"): the three readers
accept exactly the names the writers produce, every written form of an accepted strategy is that name, and the metadata
entry it converts to is `(STRATEGY_KEY, name)` — so a strategy written by any form is read back as itself. -/
def handleStrategy (j : Json) : Except String Verdict := do
  let s ← getStr j "s"
  let model := Strategy.parse s
  let readers ← ["parse", "try_from", "de"].mapM fun k => do pure (k, ← getObj j k)
  let key := (getStr j "key").toOption.getD ""
  let mut problems : List (String × String) := []
  let mut specFail : List (String × String) := []
  let known := ["InconsistentTypes", "TupleAsStruct", "MapAsStruct", "UnknownVariant"].contains s
  for (k, o) in readers do
    let cls := implCls o
    if cls != model.cls then problems := problems ++ [(s!"C09/strategy/{k}/model={model.cls}/impl={cls}", s!"{k} {repr s}: model {model.cls}, implementation {cls}")]
    if cls == "ok" then
      if !known then specFail := specFail ++ [(s!"C09/strategy/{k}/accepted-unknown", s!"{k} accepted {repr s}, which no writer produces")]
      else if (o.getObjValAs? String "ok").toOption != some s then
        specFail := specFail ++ [(s!"C09/strategy/{k}/altered", s!"{k} {repr s}: read as {o.compress}")]
    else if known then specFail := specFail ++ [(s!"C09/strategy/{k}/rejected", s!"{k} rejected the strategy name {repr s}: {o.compress}")]
  if key != STRATEGY_KEY then specFail := specFail ++ [("C09/strategy/key", s!"STRATEGY_KEY is {repr key}")]
  match j.getObjVal? "forms" with
  | .error _ => if known then specFail := specFail ++ [("C09/strategy/forms-missing", "no written forms for a known strategy")]
  | .ok o =>
    let v := (o.getObjVal? "ok").toOption.getD Json.null
    let name := match model with | .ok st => st.toString | .error _ => s
    let entry := Json.arr #[Json.arr #[Json.str STRATEGY_KEY, Json.str name]]
    let good := (v.getObjVal? "display").toOption == some (Json.str name) && (v.getObjVal? "into_string").toOption == some (Json.str name)
      && (v.getObjVal? "ser").toOption == some (Json.str name) && (v.getObjVal? "hash_map").toOption == some entry
      && (v.getObjVal? "btree_map").toOption == some entry && (v.getObjVal? "clone_eq").toOption == some (Json.bool true)
    if !good then specFail := specFail ++ [("C09/strategy/forms", s!"written forms of {repr s}: {o.compress}")]
  let c16v := c16 (readers.map (·.2) ++ ((j.getObjVal? "forms").toOption.toList))
  let tags := ["strategy", if known then "strategy-known" else "strategy-unknown"]
  match specFail, problems with
  | (sig, why) :: _, _ => return { agree := problems.isEmpty, spec := [("C09", "fail"), ("C16", c16v)], sig, tags, why }
  | [], (sig, why) :: _ => return { agree := false, spec := [("C09", "pass"), ("C16", c16v)], sig, tags, why }
  | [], [] => return { agree := true, spec := [("C09", "pass"), ("C16", c16v)], tags }

def handle (j : Json) : Except String Verdict := do
  match (← getStr j "kind") with
  | "spell" => handleSpell j
  | "strategy" => handleStrategy j
  | "json" => handleJson j
  | "fields" => handleFields j
  | k => throw s!"unknown kind {k}"

end Driver.Suites.Schema
