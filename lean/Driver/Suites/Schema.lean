import Driver.Util
import Driver.SchemaJson
import SaModel.Codec.SchemaJson
import SaModel.Spec.SchemaOK
import SaModel.Spec.SchemaSide
/- suite `schema` (C09): the model's printer / parser / acceptance on the same fields as the real crate -/
namespace Driver.Suites.Schema
open Lean Driver SaModel SaModel.Dsl SaModel.SchemaJson

/-- `serde_json::Value` as seen through `utils/value.rs` -/
partial def toJVal : Json → JVal
  | .null => .null
  | .bool b => .bool b
  | .num n => .num n.mantissa
  | .str s => .str s
  | .arr a => .arr (JVals.ofList (a.toList.map toJVal))
  | .obj o => .obj (JObj.ofList (o.toList.map fun (k, v) => (k, toJVal v)))

/-- back to `Lean.Json` (objects become key-sorted maps, so comparison ignores key order) -/
partial def ofJVal : JVal → Json
  | .null => .null
  | .bool b => .bool b
  | .num n => .num (JsonNumber.fromInt n)
  | .str s => .str s
  | .arr a => .arr (a.toList.map ofJVal).toArray
  | .obj o => Json.mkObj (o.toList.map fun (k, v) => (k, ofJVal v))

def fieldsOfJson (j : Json) : Except String (List Field) := do
  (← j.getArr?).toList.mapM fieldOfJson

/-- implementation outcome `{"ok": [wire fields]}` → class and fields -/
def implFields (j : Json) : Except String (String × List Field) := do
  let cls := implCls j
  if cls == "ok" then
    pure (cls, ← fieldsOfJson (← j.getObjVal? "ok"))
  else pure (cls, [])

def escOf (j : Json) : Except String (Char → Bool) := do
  let cps ← match j.getObjVal? "esc" with
    | .ok a => (← a.getArr?).toList.mapM fun x => x.getNat?
    | .error _ => pure []
  pure fun c => cps.contains c.toNat

def firstCtor : List Field → String
  | [] => "-"
  | f :: _ => f.dataType.ctor

mutual
partial def tzNeedsEscape (esc : Char → Bool) : Field → Bool
  | .mk _ dt _ _ => tzNeedsEscapeT esc dt
partial def tzNeedsEscapeT (esc : Char → Bool) : DataType → Bool
  | .timestamp _ (some tz) => tz.toList.any fun c => (escapeChar esc c).length > 1
  | .struct fs => fs.toList.any (tzNeedsEscape esc)
  | .list f | .largeList f | .fixedSizeList f _ | .map f _ => tzNeedsEscape esc f
  | .union us _ => us.toList.any fun (_, f) => tzNeedsEscape esc f
  | _ => false
end

/-! ### which data types the field conversions of a back end offer (marrow 0.2.3 ↔ arrow-schema 55 / arrow2 0.17)

A FIXED table, written from the conversion code of marrow (`impl TryFrom<&Field> for arrow_schema::Field` and back: total;
`impl TryFrom<&Field> for arrow2::datatypes::Field`: no byte views, no run-end encoding, no negative decimal scale, sizes
are `usize`, dictionary keys are `IntegerType`).  It decides whether a refusal is legitimate: a conversion that refuses a
schema whose types the back end offers is a violation of C09 (`schema/C09/unexpected-refusal/<backend>/<type>`), and so is
one that accepts and does not give the schema back.  An acceptance of a type the table lists as missing is reported as a
disagreement (the table is meant to be exact).  Compare `dtGap` of Driver/Suites/Backend.lean (arrays). -/
def dtRefused (backend : String) (dt : DataType) : Option String :=
  if backend != "arrow2" then none else
  match dt with
  | .utf8View => some "Utf8View"
  | .binaryView => some "BinaryView"
  | .decimal128 _ s => if s < 0 then some "Decimal128(negative-scale)" else none
  | .fixedSizeBinary n => if n < 0 then some "FixedSizeBinary(negative)" else none
  | .fixedSizeList _ n => if n < 0 then some "FixedSizeList(negative)" else none
  | .runEndEncoded _ _ => some "RunEndEncoded"
  | .dictionary k _ => if isIntType k then none else some "Dictionary(non-integer-key)"
  | _ => none

/-- data types in the field (pre-order) the back end does not offer -/
partial def fieldRefused (backend : String) (f : Field) : List String :=
  (dtRefused backend f.dataType).toList ++ match f.dataType with
  | .struct fs => fs.toList.flatMap (fieldRefused backend)
  | .list c | .largeList c | .fixedSizeList c _ => fieldRefused backend c
  | .map e _ => fieldRefused backend e
  | .union us _ => us.toList.flatMap fun x => fieldRefused backend x.2
  | .dictionary k v => fieldRefused backend (.mk "" k false []) ++ fieldRefused backend (.mk "" v false [])
  | .runEndEncoded r v => fieldRefused backend r ++ fieldRefused backend v
  | _ => []

def refused (backend : String) (fs : List Field) : List String := fs.flatMap (fieldRefused backend)

/-- the back end a key of a `fields` case converts through -/
def backendOf (key : String) : String :=
  if (key.splitOn "arrow2").length > 1 then "arrow2" else if (key.splitOn "arrow").length > 1 || (key.splitOn "refs").length > 1 then "arrow" else "marrow"

/-- compare one implementation outcome with a model outcome; returns `none` when they agree -/
def diffOutcome (what : String) (model : R (List Field)) (impl : Json) : Except String (Option String) := do
  let (cls, fs) ← implFields impl
  if model.cls != cls then return some s!"{what}: model {model.cls}, implementation {cls}"
  match model with
  | .ok mfs => if mfs == fs then return none else return some s!"{what}: model and implementation read different fields"
  | .error _ => return none

def c16 (js : List Json) : String := if js.any (fun j => implCls j == "panic") then "fail" else "pass"

def handleSpell (j : Json) : Except String Verdict := do
  let a ← getStr j "a"
  let b ← getStr j "b"
  let pa ← getObj j "pa"
  let pb ← getObj j "pb"
  let one (s : String) : R (List Field) :=
    parseSchema (.arr (.cons (.obj (.cons "name" (.str "x") (.cons "data_type" (.str s) .nil))) .nil))
  let quoted := a.toList.contains '"'
  let sigc := if quoted then "quoted" else "name"
  let da ← diffOutcome "a" (one a) pa
  let db ← diffOutcome "b" (one b) pb
  let (ca, fa) ← implFields pa
  let (cb, fb) ← implFields pb
  -- specification: two spellings of one type denote the same schema
  let spec := if a == b then "na" else if ca == "ok" && cb == "ok" && fa == fb then "pass" else "fail"
  let tags := [s!"spell-{ca}", if a == b then "spell-single" else "spell-pair"]
  match da.orElse (fun _ => db) with
  | some why => return { agree := false, spec := [("C09", spec), ("C16", c16 [pa, pb])], sig := s!"C09/spell/{sigc}", tags, why }
  | none => return { agree := true, spec := [("C09", spec), ("C16", c16 [pa, pb])], sig := if spec == "fail" then s!"C09/spell/{sigc}" else "", tags,
                     why := if spec == "fail" then s!"spellings {a} and {b} do not denote the same schema" else "" }

def handleJson (j : Json) : Except String Verdict := do
  let value ← getObj j "value"
  let parsed ← getObj j "parsed"
  let direct ← getObj j "parsed_direct"
  let reprint ← getObj j "reprint"
  let mutation := (getStr j "mutation").toOption.getD "none"
  let model := parseSchema (toJVal value)
  let (cls, fs) ← implFields parsed
  let tags := [s!"json-{cls}", s!"mut-{mutation}"] ++ (fs.map fun f => f.dataType.ctor).eraseDups
  let c16v := c16 [parsed, direct, reprint]
  -- specification: what is accepted is a valid schema inside the round-trip domain, and writing it again and
  -- reading it again gives the same fields; a panic is never acceptable
  let mut spec := "na"
  let mut why := ""
  let mut sig := ""
  if cls == "panic" then
    spec := "fail"; sig := "C09/json/panic"; why := "from_value panicked"
  else if cls == "ok" then
    let back ← match reprint.getObjVal? "ok" with
      | .ok r => do pure (some (← fieldsOfJson (← r.getObjVal? "back")))
      | .error _ => pure none
    if !fs.all schemaOK then
      spec := "fail"; sig := s!"C09/json/accepted-outside-domain/{firstCtor fs}"; why := "from_value accepted a value that does not denote a valid schema"
    else if back != some fs then
      spec := "fail"; sig := s!"C09/json/reprint/{firstCtor fs}"; why := "an accepted schema does not survive being written and read again"
    else spec := "pass"
  let d1 ← diffOutcome "from_value" model parsed
  let d2 ← diffOutcome "serde_json::from_value (direct)" model direct
  match d1.orElse (fun _ => d2) with
  | some w =>
    return { agree := false, spec := [("C09", spec), ("C16", c16v)], tags,
             sig := if sig != "" then sig else s!"C09/json/{if d1.isSome then "transmute" else "direct"}/mut-{mutation}", why := w }
  | none => return { agree := true, spec := [("C09", spec), ("C16", c16v)], sig, tags, why }

def handleFields (j : Json) : Except String Verdict := do
  let fs ← fieldsOfJson (← getObj j "fields")
  let esc ← escOf j
  let mut tags : List String := (fs.map fun f => f.dataType.ctor).eraseDups
  let mut problems : List (String × String) := []   -- (signature, why) of correspondence disagreements
  let mut specFail : List (String × String) := []
  let mut outcomes : List Json := []
  let blame := fs.findSome? blameField
  let valid := fs.all validField
  let inDomain := fs.all schemaOK
  tags := tags ++ [if inDomain then "in-domain" else if valid then s!"outside:{blame.getD "?"}" else "invalid"]
  if fs.isEmpty then tags := tags ++ ["trivial"]
  if fs.any (fun f => match f.dataType with | .timestamp _ (some tz) => tz != "UTC" && tz.toUpper == "UTC" | _ => false) then
    tags := tags ++ ["tz-utc-case-variant"]
  -- what a valid schema is accepted as: unchanged, `Null` fields become nullable
  let expect := fs.map fun f => match f with
    | .mk n .null _ m => Field.mk n .null true m
    | f => f
  -- 1. foreign field objects (marrow fields, arrow fields, arrow field refs) where a schema value is accepted, read as
  -- marrow fields and straight into arrow / arrow2 field vectors; 1b. tracing with every field overwritten
  let mut accepting : List (String × String × Json) := []   -- (key, back end, outcome)
  for key in ["foreign", "foreign_arrow", "foreign_refs", "foreign_to_refs", "foreign_to_arrow", "foreign_to_arrow2", "foreign_refs_to_arrow2"] do
    match j.getObjVal? key with
    | .error _ => pure ()
    | .ok o => accepting := accepting ++ [(key, if key.endsWith "arrow2" then "arrow2" else "marrow", o)]
  for key in ["traced_samples", "traced_type"] do
    match j.getObjVal? key with
    | .error _ => pure ()
    | .ok l =>
      tags := tags ++ ["traced"]
      for e in (← l.getArr?).toList do
        let t ← (← e.getArrVal? 0).getStr?
        accepting := accepting ++ [(s!"{key}/{t}", if t == "arrow2" then "arrow2" else "marrow", ← e.getArrVal? 1)]
  for (key, backend, o) in accepting do
    outcomes := o :: outcomes
    let gaps := refused backend expect
    let model : R (List Field) := if !gaps.isEmpty then fail "type not offered by the back end" else acceptForeignList fs
    if let some w ← diffOutcome key model o then
      problems := problems ++ [(s!"C09/{key}/{if !gaps.isEmpty && implCls o == "ok" then s!"unexpected-acceptance/{gaps.headD "?"}" else firstCtor fs}", w)]
    let (cls, got) ← implFields o
    -- specification: a valid schema is accepted unchanged (Null fields become nullable), never altered otherwise
    if cls == "ok" then
      -- a field object that does not denote a valid schema (`validField`, the explicit predicate of Spec/SchemaOK.lean,
      -- not the operational model: `C09_foreign_iff` says they agree) must not be accepted; the entries field of a map
      -- carrying a strategy no struct admits has its own signature (the defect repaired by `fix: validate_map_field
      -- validates the entries field itself`)
      if !valid then
        let what := if !fs.all entriesField then "Map/entries-strategy" else blame.getD (firstCtor fs)
        specFail := specFail ++ [(s!"C09/{key}/invalid-accepted/{what}", s!"{key}: a field object that does not denote a valid schema was accepted")]
      else if got != expect then specFail := specFail ++ [(s!"C09/{key}/altered/{firstCtor fs}", s!"{key}: accepted fields differ from the given ones")]
    else if cls == "err" && valid then
      if gaps.isEmpty then
        specFail := specFail ++ [(if backend == "marrow" then s!"C09/{key}/rejected/{firstCtor fs}" else s!"C09/unexpected-refusal/{backend}/{key}/{firstCtor fs}",
          s!"{key}: a valid schema{if backend == "marrow" then "" else " whose types the back end offers"} was rejected")]
      else tags := tags ++ [s!"{backend}-na"]
  -- 2. arrow / arrow2 field conversions.  A refusal is judged against the support table, never passed over
  let arrow ← getObj j "arrow"
  outcomes := arrow :: outcomes
  if implCls arrow != "ok" then
    let gaps := refused "arrow" fs
    if gaps.isEmpty then
      specFail := specFail ++ [(s!"C09/unexpected-refusal/arrow/arrow/{firstCtor fs}",
        s!"the conversion of the fields to arrow fields and into a SerdeArrowSchema was refused although arrow offers every type: {arrow.compress}")]
    else tags := tags ++ ["arrow-na"]
  else
    -- (`arrow_plain`, `*_owned`: API coverage — the borrowed conversion into `Vec<arrow Field>` and the owned ones;
    -- `arrow2_direct`: the arrow2 fields read by marrow, not through a second schema)
    for key in ["arrow", "arrow_refs", "arrow2", "arrow2_direct", "arrow_plain", "arrow_owned", "arrow_refs_owned", "arrow2_owned"] do
      match j.getObjVal? key with
      | .error _ => pure ()
      | .ok o =>
        outcomes := o :: outcomes
        let backend := backendOf key
        let gaps := refused backend fs
        let (cls, got) ← implFields o
        if cls == "ok" then
          if got != fs then specFail := specFail ++ [(s!"C09/{key}/altered/{firstCtor fs}", s!"{key}: fields changed by the conversion and back")]
          if !gaps.isEmpty then
            problems := problems ++ [(s!"C09/{key}/unexpected-acceptance/{gaps.headD "?"}", s!"{key}: the support table lists {gaps} as not offered by {backend}, the conversion succeeded")]
        else if cls == "err" then
          if gaps.isEmpty then
            specFail := specFail ++ [(s!"C09/unexpected-refusal/{backend}/{key}/{firstCtor fs}", s!"{key}: a schema whose types {backend} offers was refused: {o.compress}")]
          else tags := tags ++ [s!"{backend}-na"]
    -- there and back compared with `PartialEq for SerdeArrowSchema`
    match j.getObjVal? "rt_eq" with
    | .error _ => pure ()
    | .ok o =>
      outcomes := o :: outcomes
      let v := (o.getObjVal? "ok").toOption.getD Json.null
      let b (k : String) : Option Bool := (v.getObjValAs? Bool k).toOption
      if b "fields" != some true then specFail := specFail ++ [(s!"C09/rt_eq/fields/{firstCtor fs}", s!"schema → Vec<arrow Field> → schema is not the schema it started from: {o.compress}")]
      if b "refs" != some true then specFail := specFail ++ [(s!"C09/rt_eq/refs/{firstCtor fs}", s!"schema → Vec<FieldRef> → schema is not the schema it started from: {o.compress}")]
      if b "arrow2" != (if (refused "arrow2" fs).isEmpty then some true else none) then
        specFail := specFail ++ [(s!"C09/rt_eq/arrow2/{firstCtor fs}", s!"schema → Vec<arrow2 Field> → schema: {o.compress}")]
      -- the schema read from the marrow fields as foreign objects is the same schema (up to Null ⇒ nullable)
      if b "foreign" != (if valid then some (decide (expect = fs)) else none) then
        specFail := specFail ++ [(s!"C09/rt_eq/foreign/{firstCtor fs}", s!"from_value(&marrow fields) vs the schema converted from arrow fields: {o.compress}")]
      if inDomain && b "json" != some true then
        specFail := specFail ++ [(s!"C09/rt_eq/json/{firstCtor fs}", s!"schema → JSON → schema is not the schema it started from: {o.compress}")]
    -- API coverage: Clone / PartialEq / Default of SerdeArrowSchema
    match j.getObjVal? "value_traits" with
    | .error _ => pure ()
    | .ok o =>
      outcomes := o :: outcomes
      let v := (o.getObjVal? "ok").toOption.getD Json.null
      let b (k : String) : Bool := (v.getObjValAs? Bool k).toOption.getD false
      let dflt := ((v.getObjVal? "default").toOption.bind fun d => (fieldsOfJson d).toOption)
      if !(b "clone_eq") || dflt != some [] || (b "ne_default") != !fs.isEmpty then
        specFail := specFail ++ [("C09/value-traits", s!"Clone / PartialEq / Default of SerdeArrowSchema: {o.compress}")]
    -- 3. the JSON form written by the crate
    let json ← getObj j "json"
    outcomes := json :: outcomes
    let mprint := printSchema esc fs
    if mprint.cls != implCls json then
      problems := problems ++ [(s!"C09/print/class/{firstCtor fs}", s!"to_value: model {mprint.cls}, implementation {implCls json}")]
    else if let .ok mj := mprint then
      let ij ← json.getObjVal? "ok"
      if ofJVal mj != ij then
        problems := problems ++ [(s!"C09/print/value/{firstCtor fs}", s!"to_value: model wrote {(ofJVal mj).compress}, implementation {ij.compress}")]
      tags := tags ++ ["printed"]
      -- 4. reading it back through every entry point
      let jv := toJVal ij
      let backObj ← getObj j "back_obj"
      let (bcls, bfs) ← implFields backObj
      for (key, mdl) in [("back_obj", parseSchema jv), ("back_list", parseSchema (toJVal (ij.getObjValD "fields"))),
                          ("back_schema", parseSchema jv), ("back_arrow", parseSchema jv), ("back_arrow_plain", parseSchema jv),
                          ("text_rt", parseSchema jv)] do
        let o ← getObj j key
        outcomes := o :: outcomes
        if let some w ← diffOutcome key mdl o then problems := problems ++ [(s!"C09/{key}/{firstCtor fs}", w)]
      let b2 ← getObj j "back_arrow2"
      outcomes := b2 :: outcomes
      let (b2cls, b2fs) ← implFields b2
      if b2cls == "ok" && (bcls != "ok" || b2fs != bfs) then
        specFail := specFail ++ [(s!"C09/back_arrow2/altered/{firstCtor fs}", "from_value into arrow2 fields differs from from_value into marrow fields")]
      -- from_value into arrow2 fields may refuse only what arrow2 does not offer
      if bcls == "ok" then
        let gaps := refused "arrow2" bfs
        if b2cls == "err" && gaps.isEmpty then
          specFail := specFail ++ [(s!"C09/unexpected-refusal/arrow2/back_arrow2/{firstCtor fs}", s!"from_value into arrow2 fields refused a schema whose types arrow2 offers: {b2.compress}")]
        else if b2cls == "ok" && !gaps.isEmpty then
          problems := problems ++ [(s!"C09/back_arrow2/unexpected-acceptance/{gaps.headD "?"}", s!"back_arrow2: the support table lists {gaps} as not offered by arrow2")]
        else if b2cls == "err" then tags := tags ++ ["arrow2-na"]
      -- specification of the property on the JSON form
      tags := tags ++ [s!"back-{bcls}"]
      if inDomain then
        -- round trip is the identity on every entry point
        for key in ["back_obj", "back_list", "back_schema", "back_arrow", "back_arrow_plain", "text_rt"] do
          let (c, got) ← implFields (← getObj j key)
          if c != "ok" || got != fs then
            let cause := if fs.any (tzNeedsEscape esc) then "Timestamp/tz-escape" else s!"{firstCtor fs}"
            specFail := specFail ++ [(s!"C09/json-rt/{cause}", s!"{key}: a schema inside the domain did not survive the JSON form ({c})")]
      else if !valid then
        -- not a valid schema: must be rejected
        if bcls == "ok" then specFail := specFail ++ [(s!"C09/json-rt/invalid-accepted/{firstCtor fs}", "an invalid schema was written and read back without an error")]
      else
        -- valid but not expressible: reading back silently alters it (or, for Null, normalises it)
        if bcls == "ok" && bfs != fs then
          match blame with
          | some "Null/non-nullable" => tags := tags ++ ["null-normalised"]
          | some b => specFail := specFail ++ [(s!"C09/json-rt/{b}", s!"the JSON form cannot express {b}: read back altered without an error")]
          | none => specFail := specFail ++ [(s!"C09/json-rt/altered/{firstCtor fs}", "read back altered")]
  let c16v := c16 outcomes
  if c16v == "fail" then specFail := specFail ++ [("C09/panic", "a schema operation panicked")]
  tags := tags.eraseDups
  match specFail, problems with
  | (sig, why) :: _, _ => return { agree := problems.isEmpty, spec := [("C09", "fail"), ("C16", c16v)], sig, tags, why }
  | [], (sig, why) :: _ => return { agree := false, spec := [("C09", "pass"), ("C16", c16v)], sig, tags, why }
  | [], [] => return { agree := true, spec := [("C09", if inDomain || !valid then "pass" else "na"), ("C16", c16v)], tags }

/-- API coverage: the public `Strategy` value on its own.  Model: `Strategy.parse` / `Strategy.toString` / `STRATEGY_KEY`
(the definitions `parseSchema` / `printSchema` use).  Specification (C09, "a schema keeps … strategy"): the three readers
accept exactly the names the writers produce, every written form of an accepted strategy is that name, and the metadata
entry it converts to is `(STRATEGY_KEY, name)` — so a strategy written by any form is read back as itself. -/
def handleStrategy (j : Json) : Except String Verdict := do
  let s ← getStr j "s"
  let model := Strategy.parse s
  let readers ← ["parse", "try_from", "de"].mapM fun k => do pure (k, ← getObj j k)
  let key := (getStr j "key").toOption.getD ""
  let mut problems : List (String × String) := []
  let mut specFail : List (String × String) := []
  let known := ["InconsistentTypes", "TupleAsStruct", "MapAsStruct", "UnknownVariant"].contains s
  for (k, o) in readers do
    let cls := implCls o
    if cls != model.cls then problems := problems ++ [(s!"C09/strategy/{k}/model={model.cls}/impl={cls}", s!"{k} {repr s}: model {model.cls}, implementation {cls}")]
    if cls == "ok" then
      if !known then specFail := specFail ++ [(s!"C09/strategy/{k}/accepted-unknown", s!"{k} accepted {repr s}, which no writer produces")]
      else if (o.getObjValAs? String "ok").toOption != some s then
        specFail := specFail ++ [(s!"C09/strategy/{k}/altered", s!"{k} {repr s}: read as {o.compress}")]
    else if known then specFail := specFail ++ [(s!"C09/strategy/{k}/rejected", s!"{k} rejected the strategy name {repr s}: {o.compress}")]
  if key != STRATEGY_KEY then specFail := specFail ++ [("C09/strategy/key", s!"STRATEGY_KEY is {repr key}")]
  match j.getObjVal? "forms" with
  | .error _ => if known then specFail := specFail ++ [("C09/strategy/forms-missing", "no written forms for a known strategy")]
  | .ok o =>
    let v := (o.getObjVal? "ok").toOption.getD Json.null
    let name := match model with | .ok st => st.toString | .error _ => s
    let entry := Json.arr #[Json.arr #[Json.str STRATEGY_KEY, Json.str name]]
    let good := (v.getObjVal? "display").toOption == some (Json.str name) && (v.getObjVal? "into_string").toOption == some (Json.str name)
      && (v.getObjVal? "ser").toOption == some (Json.str name) && (v.getObjVal? "hash_map").toOption == some entry
      && (v.getObjVal? "btree_map").toOption == some entry && (v.getObjVal? "clone_eq").toOption == some (Json.bool true)
    if !good then specFail := specFail ++ [("C09/strategy/forms", s!"written forms of {repr s}: {o.compress}")]
  let c16v := c16 (readers.map (·.2) ++ ((j.getObjVal? "forms").toOption.toList))
  let tags := ["strategy", if known then "strategy-known" else "strategy-unknown"]
  match specFail, problems with
  | (sig, why) :: _, _ => return { agree := problems.isEmpty, spec := [("C09", "fail"), ("C16", c16v)], sig, tags, why }
  | [], (sig, why) :: _ => return { agree := false, spec := [("C09", "pass"), ("C16", c16v)], sig, tags, why }
  | [], [] => return { agree := true, spec := [("C09", "pass"), ("C16", c16v)], tags }

/-- traced schemas (`from_type` of a type description, `from_samples` of a sample collection) through the JSON form.
Correspondence: the model's printer on the traced fields writes the crate's JSON, the model's reader on that JSON is what the
crate reads back.  Specification (C09, "for all schemas the crate can trace"): a traced schema survives `to_value` /
`from_value` unchanged.  Tie to the theorems `C09_from_type_in_domain` / `C09_from_samples_in_domain`: the traced fields lie
in `SchemaOK` — for every option (a never-reached position is traced as a NULLABLE `Null` under `allow_null_fields`: repo fix
5168cf7, finding `C09-traced-unseen-null`; the behaviour before the fix is the witness `C09_unseen_position_outside_pinned`). -/
def handleTraced (j : Json) : Except String Verdict := do
  let esc ← escOf j
  let allowNull := ((← getObj j "opts").getObjValAs? Bool "allow_null_fields").toOption.getD false
  let hasOw := match (← getObj j "opts").getObjVal? "overwrites" with
    | .ok (.arr a) => !a.isEmpty
    | _ => false
  let mut tags : List String := if allowNull then ["allow-null-fields"] else []
  let mut problems : List (String × String) := []
  let mut specFail : List (String × String) := []
  let mut outcomes : List Json := []
  let mut anyOk := false
  let mut na := false
  for (key, what) in [("type", "from_type"), ("samples_out", "from_samples")] do
    match j.getObjVal? key with
    | .error _ => pure ()
    | .ok o =>
      outcomes := o :: outcomes
      tags := tags ++ [s!"{what}-{implCls o}"]
      if implCls o != "ok" then continue
      anyOk := true
      let v ← o.getObjVal? "ok"
      let fs ← fieldsOfJson (← v.getObjVal? "fields")
      let ij ← v.getObjVal? "json"
      let back ← v.getObjVal? "back"
      outcomes := back :: outcomes
      tags := tags ++ (fs.map fun f => f.dataType.ctor)
      let inDomain := fs.all schemaOK
      let blame := fs.findSome? blameField
      -- correspondence: printer and reader of the model on the traced schema
      match printSchema esc fs with
      | .ok mj =>
        if ofJVal mj != ij then
          problems := problems ++ [(s!"C09/traced/{what}/print/{firstCtor fs}", s!"to_value of the traced schema: model wrote {(ofJVal mj).compress}, implementation {ij.compress}")]
      | .error _ => problems := problems ++ [(s!"C09/traced/{what}/print/class", "the model cannot write the traced schema")]
      if let some w ← diffOutcome s!"{what}: from_value(to_value(schema))" (parseSchema (toJVal ij)) back then
        problems := problems ++ [(s!"C09/traced/{what}/read/{firstCtor fs}", w)]
      -- the theorems: traced fields lie in the domain
      if !inDomain && !hasOw then
        problems := problems ++ [(s!"C09/traced/{what}/outside-domain/{blame.getD "?"}", s!"{what} returned a schema outside SchemaOK ({blame.getD "?"}): contradicts C09_{what}_in_domain")]
      -- specification: the traced schema survives the JSON form
      let (bcls, bfs) ← implFields back
      let eq := (v.getObjValAs? Bool "eq").toOption
      let teq := (v.getObjValAs? Bool "text_eq").toOption
      if bcls == "ok" && bfs == fs && eq == some true && teq == some true then tags := tags ++ ["traced-survives"]
      else if inDomain || !hasOw then
        let b := blame.getD (firstCtor fs)
        specFail := specFail ++ [(s!"C09/traced/{what}/json-rt/{b}", s!"{what}: the traced schema does not survive to_value / from_value unchanged ({bcls}, eq {eq}, text {teq}; {b})")]
      else
        -- an overwrite outside the JSON domain (sorted map, sparse union): the known findings of the `fields` cases
        na := true
        tags := tags ++ [s!"outside:{blame.getD "?"}"]
  if !anyOk then tags := tags ++ ["traced-none"]
  let c16v := c16 outcomes
  if c16v == "fail" then specFail := specFail ++ [("C09/panic", "a schema operation panicked")]
  tags := tags.eraseDups
  match specFail, problems with
  | (sig, why) :: _, _ => return { agree := problems.isEmpty, spec := [("C09", "fail"), ("C16", c16v)], sig, tags, why }
  | [], (sig, why) :: _ => return { agree := false, spec := [("C09", "pass"), ("C16", c16v)], sig, tags, why }
  | [], [] => return { agree := true, spec := [("C09", if !anyOk || na then "na" else "pass"), ("C16", c16v)], tags }

def handle (j : Json) : Except String Verdict := do
  match (← getStr j "kind") with
  | "traced" => handleTraced j
  | "spell" => handleSpell j
  | "strategy" => handleStrategy j
  | "json" => handleJson j
  | "fields" => handleFields j
  | k => throw s!"unknown kind {k}"

end Driver.Suites.Schema
