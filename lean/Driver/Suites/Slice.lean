import Driver.ReadCheck
import SaModel.Read.Slice
/- suite `slice` (C12): real `Array::slice` / `RecordBatch::slice` (arrow-rs 55) and `sliced` (arrow2) on arrays of
every nested type; the views marrow hands over are dumped.

agree    : (1) `sliceView` reproduces every dumped view of the chain (physically; for arrow2, whose conversion trims
           bitmap bytes, up to the bitmaps and with all decoded rows equal); (2) the reader model reproduces the
           items read from the final slice.
spec C12 : items of the slice = the window of the items of the whole array, AND (independently of the crate)
           Spec.decodeAt of the final view = Spec.decodeAt of the whole view at o + i = the generator's rows.
typed    : the same for the record target a user would naturally write (`typed_ty`) and for that target without any
           `Option` layer addressed as a tuple (`strict_ty`: rows with a null inside fail) — theorems `readAs_slice`,
           `batch_readAs_slice`: typed items of the slice = window of the typed items of the whole array; the bulk
           read `Vec<R>` of the slice = the `ok` values of that window (or fails like its first failing item), and
           = the window of the bulk read of the whole array when that succeeds; `readAs` / the bulk loop of the model
           on the final view reproduce both.  The labels read are listed by the case (`labels`: typed, strict, wide, swap,
           anyrec, var0, var1 — see slice.rs).
modes    : `asm` (parent assembled over children already cut by `Array::slice`: the whole view has offsets at the inner
           levels; `Spec.decode(whole view) = rows` checks the assembly), `rb` (the root struct over ALL columns of a
           record batch sliced with `RecordBatch::slice`: the root reader is the dumped Struct view itself, not
           `record fm col`), `big` (1 000 – 5 000 rows), and within `asm` the sparse unions: the Arrow-level checks as
           for every case, then the crate must refuse the slice exactly as it refuses the whole array and as the model's
           `new` does (theorem `new_sparse_union_fails`). -/
namespace Driver.Suites.Slice
open Lean Driver SaModel SaModel.Read

mutual
partial def eraseBits : Arr → Arr
  | .boolean len v _ => .boolean len (v.map fun _ => ⟨[], 0⟩) ⟨[], 0⟩
  | .prim ty v vals => .prim ty (v.map fun _ => ⟨[], 0⟩) vals
  | .time ty u v vals => .time ty u (v.map fun _ => ⟨[], 0⟩) vals
  | .timestamp u tz v vals => .timestamp u tz (v.map fun _ => ⟨[], 0⟩) vals
  | .decimal128 p s v vals => .decimal128 p s (v.map fun _ => ⟨[], 0⟩) vals
  | .bytes ty v offs data => .bytes ty (v.map fun _ => ⟨[], 0⟩) offs data
  | .bytesView ty v views bufs => .bytesView ty (v.map fun _ => ⟨[], 0⟩) views bufs
  | .fixedSizeBinary n v data => .fixedSizeBinary n (v.map fun _ => ⟨[], 0⟩) data
  | .struct len v fs => .struct len (v.map fun _ => ⟨[], 0⟩) (eraseFields fs)
  | .list lg v offs fm el => .list lg (v.map fun _ => ⟨[], 0⟩) offs fm (eraseBits el)
  | .fixedSizeList len v n fm el => .fixedSizeList len (v.map fun _ => ⟨[], 0⟩) n fm (eraseBits el)
  | .map v offs mm ks vs => .map (v.map fun _ => ⟨[], 0⟩) offs mm (eraseBits ks) (eraseBits vs)
  | .dictionary ks vs => .dictionary (eraseBits ks) (eraseBits vs)
  | .union t o fs => .union t o (eraseUFields fs)
  | a => a
partial def eraseFields : ArrFields → ArrFields
  | .nil => .nil
  | .cons fm a r => .cons fm (eraseBits a) (eraseFields r)
partial def eraseUFields : ArrUFields → ArrUFields
  | .nil => .nil
  | .cons i fm a r => .cons i fm (eraseBits a) (eraseUFields r)
end

def rowsOf (a : Arr) (n : Nat) : List Json :=
  (List.range n).map fun i => match Spec.decodeAt a i with
    | .ok lv => lvalToJson lv
    | .error _ => Json.str "<decode error>"

def handle (j : Json) : Except String Verdict := do
  if let some e := getOpt j "build_err" then
    return { agree := true, spec := [("C12", "na")], tags := ["trivial", "build-err"], why := e.compress }
  let field ← getObj j "field"
  let fm ← fmetaOfJson field
  let backend ← getStr j "backend"
  -- C16: any outcome of the case (item, typed, strict or bulk read, of the slice or of the whole array) that is an unwinding
  -- is a failure for C16 whatever C12 says (outcomes are objects with the single key ok / err / panic)
  let c16 := if (j.compress.splitOn "{\"panic\":").length > 1 then "fail" else "pass"
  let wholeJ ← getObj j "whole_view"
  if (wholeJ.getObjVal? "err").isOk then
    return { agree := true, spec := [("C12", "na")], tags := ["trivial", "conversion-err"], why := wholeJ.compress }
  let whole ← arrOfJson wholeJ
  let kind := arrKind whole
  let rows := (← getArr j "rows").toList
  let windows ← (← getArr j "windows").toList.mapM fun w => do
    match (← w.getArr?).toList with
    | [o, l] => pure ((← o.getNat?), (← l.getNat?))
    | _ => throw "bad window"
  let sviews ← (← getArr j "slice_views").toList.mapM arrOfJson
  let (absO, absL) ← match (← getArr j "window").toList with
    | [o, l] => pure ((← o.getNat?), (← l.getNat?))
    | _ => throw "bad window"
  let mut tags : List String := [s!"backend:{backend}", s!"kind:{kind}", s!"chain:{windows.length}"]
  if (← getBool j "batch") then tags := "batch" :: tags
  let mode := match getOpt j "mode" with | some (Json.str m) => m | _ => ""
  let asmKind := match (getOpt j "assemble").bind (fun a => getOpt a "kind") with | some (Json.str k) => k | _ => ""
  if mode != "" then tags := (if mode == "asm" then s!"mode:asm-{asmKind}" else s!"mode:{mode}") :: tags
  if rows.length ≥ 1000 then tags := "rows>=1000" :: tags
  if absO ≥ 256 then tags := "offset>=256" :: tags
  if absL == 0 then tags := "empty-window" :: tags
  if absO % 8 != 0 then tags := "inside-byte" :: tags
  -- (1) sliceView against the dumped views, step by step
  let mut cur := whole
  let mut step := 0
  for ((o, l), sv) in windows.zip sviews do
    let m := sliceView cur o l
    if m == sv then tags := "view-exact" :: tags
    else if eraseBits m == eraseBits sv && rowsOf m l == rowsOf sv l then tags := "view-bitmap-trimmed" :: tags
    else
      return { agree := false, spec := [("C12", "pass")], sig := s!"C12/slice-view/{backend}/{arrKind cur}",
               tags := tags, why := s!"step {step}: sliceView (o={o}, l={l}) differs from the view marrow hands over for {arrKind cur}" }
    cur := sv
    step := step + 1
  let final := cur
  -- slices of slices compose (theorem slice_slice): reads of the chain = reads of the absolute window
  if rowsOf (sliceView whole absO absL) absL != rowsOf final absL then
    return { agree := false, spec := [("C12", "fail")], sig := s!"C12/slice-slice/{backend}/{kind}", tags := tags,
             why := "the chain of windows does not decode like the composed window" }
  -- (2) specification, independent of the crate: decode(final) i = decode(whole) (o+i) = generator rows
  let want := (rows.drop absO).take absL
  if rowsOf final absL != want || rowsOf whole rows.length != rows then
    return { agree := false, spec := [("C12", "na")], sig := s!"C12/oracle/{backend}/{kind}", tags := tags,
             why := s!"Spec.decode of the dumped views differs from the generator's rows" }
  -- items
  let wholeItems := (← getArr j "whole_items").toList
  let sliceItems := (← getArr j "slice_items").toList
  -- sparse unions: the crate's reader refuses them; the refusal must be the same for slice and whole, and the model's
  if asmKind == "SparseUnion" then
    let cw := wholeItems.head?.bind fun x => getOpt x "ctor"
    let cs := sliceItems.head?.bind fun x => getOpt x "ctor"
    match cw, cs with
    | some w, some s_ =>
      if w != s_ || implCls w != "err" then
        return { agree := true, spec := [("C12", "fail"), ("C16", c16)], sig := s!"C12/sparse-refusal/{backend}/{kind}", tags := tags,
                 why := s!"sparse union: the constructor on the slice {s_.compress.take 200} and on the whole array {w.compress.take 200} differ" }
      if (new Fixes.all (record fm final)).cls != "err" || (new Fixes.all (record fm whole)).cls != "err" then
        return { agree := false, spec := [("C12", "pass")], sig := s!"C12/sparse-disagree/{backend}/{kind}", tags := tags,
                 why := "sparse union: the model's reader constructor does not refuse it" }
      return { agree := true, spec := [("C12", "pass"), ("C16", c16)], tags := ("sparse-refused" :: tags).eraseDups }
    | _, _ =>
      return { agree := false, spec := [("C12", "fail"), ("C16", c16)], sig := s!"C12/sparse-accepted/{backend}/{kind}", tags := tags,
               why := "sparse union: the crate built a reader" }
  if let some c := (sliceItems.head?.bind fun x => getOpt x "ctor") then
    return { agree := false, spec := [("C12", "fail"), ("C16", if implCls c == "panic" then "fail" else "pass")],
             sig := s!"C12/ctor/{backend}/{kind}", tags := tags, why := s!"constructor on a slice: {c.compress.take 300}" }
  let windowOfWhole := (wholeItems.drop absO).take absL
  -- the root struct reader: `Deserializer::new` wraps the single column; in mode `rb` the dumped Struct view is the root
  let rec_ := if mode == "rb" then final else record fm final
  let nrec := vlen final
  let rd (ty : Target) (k : Nat) : Option (R DVal) := if k ≥ nrec then none else some (readAs Fixes.all ty rec_ k)
  let rdBulk (ty : Target) : Option (R DVal) :=
    some (do
      let xs ← readRange (fun i => readAs Fixes.all ty rec_ i) 0 nrec
      pure (.seq (DVals.ofList xs)))
  let mut specOk := sliceItems == windowOfWhole && sliceItems.length == absL
  let mut k := 0
  let mut agree := true
  let mut why := ""
  for it in sliceItems do
    -- the item must be the decoded slot (C02 on the slice) …
    match Spec.decodeAt rec_ k with
    | .ok lv =>
      let d := toD rec_ lv
      match it.getObjVal? "ok" with
      | .ok v => if !dvalMatches d v then specOk := false
      | _ => specOk := false
    | .error _ => specOk := false
    -- … and the reader model must reproduce it
    match compareRead (rd .any k) it with
    | .agree => pure ()
    | .differ w => if agree then agree := false; why := s!"item {k}: {w}"
    k := k + 1
  if !specOk then
    return { agree := agree, spec := [("C12", "fail"), ("C16", c16)], sig := s!"C12/items/{backend}/{kind}", tags := tags,
             why := s!"deserializing the slice (o={absO}, l={absL}) does not give the window of the whole array's items" }
  if !agree then
    return { agree := false, spec := [("C12", "pass")], sig := s!"C12/disagree/{backend}/{kind}", tags := tags, why := why }
  -- typed reads: the natural record target (`typed`) and the same without any `Option` layer, as a tuple (`strict`)
  let labels := match getOpt j "labels" with
    | some (Json.arr ls) => ls.toList.filterMap fun (l : Json) => match l with | Json.str s => some s | _ => none
    | _ => ["typed", "strict"]
  tags := s!"targets:{labels.length}" :: tags
  for label in labels do
    if let some tyJ := getOpt j s!"{label}_ty" then
      let ty ← targetOfJson tyJ
      let wholeTyped := (← getArr j s!"whole_{label}").toList
      let sliceTyped := (← getArr j s!"slice_{label}").toList
      let windowTyped := (wholeTyped.drop absO).take absL
      tags := label :: tags
      if sliceTyped != windowTyped || sliceTyped.length != absL then
        return { agree := true, spec := [("C12", "fail"), ("C16", c16)], sig := s!"C12/{label}-items/{backend}/{kind}", tags := tags,
                 why := s!"{label} reads of the slice (o={absO}, l={absL}) are not the window of the {label} reads of the whole array" }
      if sliceTyped.any (fun it => implCls it != "ok") then tags := s!"{label}-err" :: tags
      k := 0
      for it in sliceTyped do
        match compareRead (rd ty k) it with
        | .agree => pure ()
        | .differ w =>
          return { agree := false, spec := [("C12", "pass")], sig := s!"C12/{label}-disagree/{backend}/{kind}", tags := tags,
                   why := s!"{label} item {k}: {w}" }
        k := k + 1
      -- bulk: `Vec<R>` of the slice against the window of the item-wise reads, and against the bulk read of the whole
      let sliceBulk ← getObj j s!"slice_{label}_bulk"
      let wholeBulk ← getObj j s!"whole_{label}_bulk"
      let okVals := windowTyped.filterMap fun x => (x.getObjVal? "ok").toOption
      let bulkOk :=
        match windowTyped.find? (fun x => implCls x != "ok") with
        | none => sliceBulk == Json.mkObj [("ok", Json.mkObj [("seq", Json.arr okVals.toArray)])]
        | some bad => implCls sliceBulk == implCls bad
      let wholeOk :=
        match (wholeBulk.getObjVal? "ok").toOption.bind (fun v => (v.getObjVal? "seq").toOption) with
        | some (.arr xs) =>
          sliceBulk == Json.mkObj [("ok", Json.mkObj [("seq", Json.arr ((xs.toList.drop absO).take absL).toArray)])]
        | _ => true
      if implCls sliceBulk != "ok" then tags := s!"{label}-bulk-err" :: tags
      if !bulkOk || !wholeOk then
        return { agree := true, spec := [("C12", "fail"), ("C16", c16)], sig := s!"C12/{label}-bulk/{backend}/{kind}", tags := tags,
                 why := s!"bulk {label} read of the slice (o={absO}, l={absL}) is not the window of the reads of the whole array" }
      match compareRead (rdBulk ty) sliceBulk with
      | .agree => pure ()
      | .differ w =>
        return { agree := false, spec := [("C12", "pass")], sig := s!"C12/{label}-bulk-disagree/{backend}/{kind}", tags := tags,
                 why := s!"bulk {label}: {w}" }
  if rows.length == 0 then tags := "trivial" :: tags
  if c16 == "fail" then
    return { agree := false, spec := [("C12", "pass"), ("C16", "fail")], sig := s!"C12/panic/{backend}/{kind}", tags := tags.eraseDups,
             why := "a read of the slice or of the whole array unwinds" }
  return { agree := true, spec := [("C12", "pass"), ("C16", c16)], tags := tags.eraseDups }

end Driver.Suites.Slice
