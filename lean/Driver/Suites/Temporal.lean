import Driver.Util
import SaModel.Codec.Time
import SaModel.Spec.Calendar
/-
suite `temporal` (C14): one column, independent steps (write a string / an integer, read an integer as
string / integer).  Per step
  * the model (SaModel/Codec/{Span,Calendar,Time}.lean — the definitions the C14 theorems are about) is run
    on the same input and compared with the implementation: outcome class, stored integer, produced string;
  * the specification predicate is evaluated on the implementation's output with independent means: the
    typed values of the chrono and jiff oracles (unit arithmetic done here, by floor division of total
    nanoseconds), and for spans a separate ISO-8601 duration reader (`specSpan`) that works on exact
    rationals;
  * calendar probes (`cal` steps): chrono's TYPED calendar (validity, leap year, successor, predecessor, day
    difference to the epoch) and the stored integers of the date and of its successor against the independent
    calendar `SaModel/Spec/Calendar.lean` (`valid`, `isLeap`, `nextDay`, `prevDay`, `dayNumber` by counting) — the
    definitions `Props/C14Cal.lean` proves the model's closed formula equal to.
-/
namespace Driver.Suites.Temporal
open Lean Driver SaModel SaModel.Codec

structure Col where
  name : String
  ty : ColTy
  unit : TimeUnit
  tz : Option String

def parseUnit (s : String) : TimeUnit :=
  match s with
  | "s" => .second | "ms" => .millisecond | "us" => .microsecond | _ => .nanosecond

def parseCol (j : Json) : Except String Col := do
  let t ← getStr j "t"
  let unit := match (getStr j "unit") with | .ok u => parseUnit u | .error _ => TimeUnit.millisecond
  let tz := match getOpt j "tz" with | some (.str s) => some s | _ => none
  let ty ← match t with
    | "Date32" => pure (ColTy.date .date32)
    | "Date64" => pure (ColTy.date .date64)
    | "Time32" => pure (ColTy.time .time32)
    | "Time64" => pure (ColTy.time .time64)
    | "Timestamp" => pure ColTy.timestamp
    | "Duration" => pure ColTy.duration
    | _ => throw s!"unknown column type {t}"
  pure { name := t, ty, unit, tz }

def parseKind (s : String) : Option IntKind :=
  match s with
  | "i8" => some .i8 | "i16" => some .i16 | "i32" => some .i32 | "i64" => some .i64
  | "u8" => some .u8 | "u16" => some .u16 | "u32" => some .u32 | "u64" => some .u64
  | _ => none

/-! ### the model, per step -/

def builderAccepts (c : Col) : R Bool :=
  match c.ty with
  | .timestamp => isUtcTz (c.tz.map String.toList)
  | .time ty => if timeBuilderAccepts ty c.unit then .ok false else fail "TimeNN only supports … resolutions"
  | _ => .ok false

def readerAccepts (c : Col) : R Bool :=
  match c.ty with
  | .timestamp => isUtcTimestamp (c.tz.map String.toList)
  | _ => .ok false

def modelWriteStr (c : Col) (s : String) : R Int := do
  let utc ← builderAccepts c
  match c.ty with
  | .date ty => dateOfString ty s.toList
  | .time ty => timeOfString ty c.unit s.toList
  | .timestamp => timestampOfString c.unit utc s.toList
  | .duration => durationOfString s.toList c.unit

def modelWriteInt (c : Col) (k : IntKind) (v : Int) : R Int := do
  let _ ← builderAccepts c
  intOfInt c.ty k v

def modelReadStr (c : Col) (v : Int) : R String := do
  let utc ← readerAccepts c
  let cs ← match c.ty with
    | .date ty => dateToString ty v
    | .time _ => timeToString c.unit v
    | .timestamp => timestampToString c.unit utc v
    | .duration => pure (formatArrowDurationAsSpan v c.unit)
  pure (String.ofList cs)

def modelReadInt (c : Col) (as32 : Bool) (v : Int) : R Int := do
  let _ ← readerAccepts c
  intToInt c.ty as32 v

/-! ### independent reading of ISO-8601 durations, exact -/

structure SpecSpan where
  neg : Bool
  years : Nat := 0
  months : Nat := 0
  /-- total of the week … second components in seconds as `num / den` -/
  num : Nat := 0
  den : Nat := 1

def desIndex (timePart : Bool) (c : Char) : Option (Nat × Nat) :=
  -- (order index, seconds per unit; 0 for the calendar units)
  match timePart, c.toUpper with
  | false, 'Y' => some (1, 0) | false, 'M' => some (2, 0) | false, 'W' => some (3, 604800) | false, 'D' => some (4, 86400)
  | true, 'H' => some (1, 3600) | true, 'M' => some (2, 60) | true, 'S' => some (3, 1)
  | _, _ => none

def splitDigits (s : List Char) : List Char × List Char := (s.takeWhile Char.isDigit, s.dropWhile Char.isDigit)

def decVal (ds : List Char) : Nat := ds.foldl (fun a c => a * 10 + (c.toNat - '0'.toNat)) 0

def specSpanLoop : Nat → Bool → Nat → List Char → SpecSpan → Option SpecSpan
  | 0, _, _, _, _ => none
  | _ + 1, _, _, [], acc => some acc
  | f + 1, timePart, last, c :: rest, acc =>
    if (c = 'T' ∨ c = 't') ∧ ¬ timePart then specSpanLoop f true 0 rest acc
    else
      let (ds, r1) := splitDigits (c :: rest)
      if ds.isEmpty then none else
      let (frac, r2) : List Char × List Char :=
        match r1 with
        | '.' :: r => let (fs, r') := splitDigits r; (fs, if fs.isEmpty then '.' :: r else r')
        | _ => ([], r1)
      match r2 with
      | d :: r3 =>
        match desIndex timePart d with
        | none => none
        | some (idx, secs) =>
          if idx ≤ last then none
          else if ¬ frac.isEmpty ∧ ¬ (timePart ∧ idx = 3) then none
          else if secs = 0 then
            specSpanLoop f timePart idx r3 (if idx = 1 then { acc with years := decVal ds } else { acc with months := decVal ds })
          else
            -- acc + (ds.frac) * secs, on the common denominator 10^|frac|
            let den := 10 ^ frac.length
            let v := (decVal ds * den + decVal frac) * secs
            specSpanLoop f timePart idx r3 { acc with num := acc.num * den + v * acc.den, den := acc.den * den }
      | [] => none

def specSpan (s : String) : Option SpecSpan :=
  let cs := s.toList
  let (neg, cs) := match cs with
    | '-' :: r => (true, r)
    | '+' :: r => (false, r)
    | _ => (false, cs)
  match cs with
  | p :: r => if p = 'P' ∨ p = 'p' then specSpanLoop (r.length + 2) false 0 r { neg } else none
  | [] => none

/-- the duration the Arrow type defines for the span in `unit`: magnitude truncated, `none` = not representable -/
def specSpanValue (sp : SpecSpan) (u : TimeUnit) : Option Int :=
  if sp.years ≠ 0 ∨ sp.months ≠ 0 then none else
  let mag : Int := ((sp.num * u.perSec) / sp.den : Nat)
  let v := if sp.neg then -mag else mag
  if inI64 v then some v else none

/-! ### oracles -/

def oDays (o : Json) : Option Int := (o.getObjValAs? Int "days").toOption
def oSecsNanos (o : Json) : Option (Int × Int) :=
  match o.getObjValAs? Int "secs", o.getObjValAs? Int "nanos" with
  | .ok s, .ok n => some (s, n)
  | _, _ => none
def oNs (o : Json) : Option Int :=
  match o.getObjVal? "ns" with
  | .ok j => (jsonInt? j).toOption
  | _ => none

/-- total nanoseconds (since midnight / since the epoch / signed span) an oracle value stands for, and
whether it is a leap-second representation -/
def oracleTotalNs (c : Col) (o : Json) : Option (Int × Bool) :=
  match c.ty with
  | .date _ => (oDays o).map fun d => (d * 86400000000000, false)
  | _ =>
    match oSecsNanos o with
    | some (s, n) => some (s * 1000000000 + n, n ≥ 1000000000)
    | none => (oNs o).map fun n => (n, false)

/-- the integer the Arrow type defines for that typed value: floor for instants, truncated magnitude for spans -/
def expectedInt (c : Col) (totalNs : Int) : Int :=
  match c.ty with
  | .date .date32 => totalNs / 86400000000000
  | .date .date64 => totalNs / 86400000000000 * 86400000
  | .duration => if totalNs < 0 then -((-totalNs) / (c.unit.nsPer : Int)) else totalNs / (c.unit.nsPer : Int)
  | _ => totalNs / (c.unit.nsPer : Int)

def storageRange (c : Col) (v : Int) : Bool :=
  match c.ty with
  | .date .date32 | .time .time32 => inI32 v
  | _ => inI64 v

/-- does the stored value `v` stand for exactly the instant `totalNs` (what "round-trips exactly" means)? -/
def standsFor (c : Col) (v totalNs : Int) : Bool :=
  match c.ty with
  | .date .date32 => v * 86400000000000 == totalNs
  | .date .date64 => (v / 86400000) * 86400000000000 == totalNs   -- the day the value falls on
  | _ => v * (c.unit.nsPer : Int) == totalNs

/-- readable range of stored values (independent statement of the Arrow / chrono ranges) -/
def specReadable (c : Col) (v : Int) : Bool :=
  match c.ty with
  | .date .date32 => -96465292 ≤ v && v ≤ 95026236
  | .date .date64 => -96465292 ≤ v / 86400000 && v / 86400000 ≤ 95026236
  | .time _ => 0 ≤ v && v < 86400 * (c.unit.perSec : Int)
  | .timestamp => -8334601228800 ≤ v / (c.unit.perSec : Int) && v / (c.unit.perSec : Int) ≤ 8210266876799
  | .duration => true

/-! ### verdict per step -/

structure StepV where
  agree : Bool := true
  spec : String := "pass"      -- pass | fail | na
  what : String := ""          -- failure mechanism (signature component)
  why : String := ""
  tags : List String := []
  panic : Bool := false

def isNull (j : Option Json) : Bool := match j with | none => true | some .null => true | _ => false

def outInt (o : Json) : Option Int := match o.getObjVal? "ok" with | .ok j => (jsonInt? j).toOption | _ => none
def outStr (o : Json) : Option String := match o.getObjVal? "ok" with | .ok (.str s) => some s | _ => none

/-- check that a string produced by the crate is read back by the oracles as exactly `v` -/
def checkBack (c : Col) (v : Int) (s : String) (ob : Option Json) : Option (String × String) :=
  let ch := (ob.bind fun o => (o.getObjVal? "chrono").toOption).bind (oracleTotalNs c)
  let jf := (ob.bind fun o => (o.getObjVal? "jiff").toOption).bind (oracleTotalNs c)
  let bad (name : String) (r : Option (Int × Bool)) : Option (String × String) :=
    match r with
    | some (ns, _) => if standsFor c v ns then none else some (s!"back-{name}", s!"{name} reads {s} as {ns} ns, stored {v}")
    | none => none
  match bad "chrono" ch with
  | some e => some e
  | none =>
    match bad "jiff" jf with
    | some e => some e
    | none =>
      match c.ty with
      | .duration =>
        -- chrono has no span type: the independent reader must give back v
        match (specSpan s).bind (specSpanValue · c.unit) with
        | some v' => if v' == v then none else some ("back-spec", s!"{s} denotes {v'}, stored {v}")
        | none => some ("back-unparseable", s!"{s} is not a representable ISO-8601 duration")
      | _ => if ch.isNone then some ("back-unparseable", s!"chrono does not parse {s}") else none

def stepWriteStr (c : Col) (s : String) (r : Json) : StepV := Id.run do
  let out := (r.getObjVal? "out").toOption.getD Json.null
  let cls := implCls out
  let model := modelWriteStr c s
  let mut v : StepV := { tags := [s!"w-str/{c.name}/{model.cls}"] }
  if cls == "panic" then
    -- parameter class of the panic: is it the overflow mechanism of the pinned span arithmetic?
    let mech := match c.ty with
      | .duration => if (durationOfStringPinned s.toList c.unit).isPanic then "panic/i64-arith" else "panic"
      | _ => "panic"
    return { v with agree := model.cls == "panic", spec := "fail", what := mech, panic := true, why := s!"write {s.quote}: panic {out.compress}" }
  if model.cls != cls then
    v := { v with agree := false, what := s!"class/model={model.cls}/impl={cls}", why := s!"write {s.quote}: model {model.cls}, impl {out.compress}" }
  let oin := (r.getObjVal? "oracle_in").toOption
  let ch := (oin.bind fun o => (o.getObjVal? "chrono").toOption).bind (oracleTotalNs c)
  let jf := (oin.bind fun o => (o.getObjVal? "jiff").toOption).bind (oracleTotalNs c)
  let leap := match ch with | some (_, l) => l | none => false
  if leap then v := { v with tags := s!"leap/{c.name}" :: v.tags }
  -- what the specification expects: `some (some x)` = exactly x, `some none` = an error, `none` = no opinion
  let expected : Option (Option Int) :=
    match c.ty with
    | .duration =>
      match specSpan s with
      | some sp => some (specSpanValue sp c.unit)
      | none => none
    | .time _ =>
      match ch with
      | some (ns, false) => some (some (expectedInt c ns))
      | some (_, true) => some none          -- a leap second is not a time since midnight
      | none => some none
    | .timestamp =>
      match ch with
      | some (ns, false) => let x := expectedInt c ns; some (if inI64 x then some x else none)
      | some (ns, true) => let x := expectedInt c ns; some (if inI64 x then some x else none)  -- hh:mm:60 = one second after hh:mm:59
      | none => some none
    | .date _ =>
      match ch with
      | some (ns, _) => let x := expectedInt c ns; some (if storageRange c x then some x else none)
      | none => some none
  match cls, outInt out with
  | "ok", some x =>
    if let .ok mv := model then
      if mv != x then v := { v with agree := false, what := "model-value", why := s!"write {s.quote}: model {mv}, impl {x}" }
    match expected with
    | some (some e) =>
      if e != x then
        let what := if leap && c.ty == .timestamp then "leap-second-dropped" else "value-spec"
        return { v with spec := "fail", what, why := s!"write {s.quote}: stored {x}, the Arrow value is {e}" }
    | some none =>
      if leap then return { v with spec := "fail", what := "leap-second-stored", why := s!"write {s.quote}: stored {x}, not a valid time since midnight" }
      else if c.ty == .duration then return { v with spec := "fail", what := "accepted-unrepresentable", why := s!"write {s.quote}: stored {x} for an interval-style or out-of-range span" }
      else pure ()   -- the crate accepted a spelling the chrono oracle call rejects: cannot happen (same call); ignored
    | none => pure ()
    -- second oracle on the input
    if !leap then
      if let some (ns, _) := jf then
        if c.ty != .duration || true then
          let e := expectedInt c ns
          if e != x then return { v with spec := "fail", what := "value-jiff", why := s!"write {s.quote}: stored {x}, jiff's typed value gives {e}" }
    -- reading the stored value back as a string
    let back := (r.getObjVal? "back").toOption.getD Json.null
    let bcls := implCls back
    let mback := modelReadStr c x
    if bcls == "panic" then
      let mech := if c.ty == .duration && (formatArrowDurationAsSpanPinned x c.unit).isPanic then "back-panic/i64-min" else "back-panic"
      return { v with agree := false, spec := "fail", what := mech, panic := true, why := s!"write {s.quote} stored {x}: reading it back panics" }
    if mback.cls != bcls then
      v := { v with agree := false, what := s!"back-class/model={mback.cls}/impl={bcls}", why := s!"stored {x}: read back model {mback.cls}, impl {back.compress}" }
    -- a leap-second instant has no string form of its own: the read-back check is not applicable
    if leap && c.ty == .timestamp then return v
    match bcls, outStr back with
    | "ok", some bs =>
      if let .ok ms := mback then
        if ms != bs then v := { v with agree := false, what := "model-string", why := s!"stored {x}: model string {ms}, impl {bs}" }
      match checkBack c x bs (r.getObjVal? "oracle_back").toOption with
      | some (what, why) => return { v with spec := "fail", what, why := s!"write {s.quote}: {why}" }
      | none => return v
    | _, _ => return { v with spec := "fail", what := "back-unreadable", why := s!"write {s.quote} stored {x}, which cannot be read back: {back.compress}" }
  | "err", _ =>
    if !(builderAccepts c).isOk then return { v with tags := s!"col-refused/{c.name}" :: v.tags } else
    match expected with
    | some (some e) =>
      let fracDigits := ((s.toList.dropWhile (· != '.')).drop 1).takeWhile Char.isDigit |>.length
      let what :=
        if c.ty == .duration && fracDigits > 18 then "rejected-valid/subsecond-digits"
        else if c.ty == .duration && !(durationOfStringPinned s.toList c.unit).isOk then "rejected-valid/i64-component"
        else "rejected-valid"
      return { v with spec := "fail", what, why := s!"write {s.quote}: error, the Arrow value {e} is representable: {out.compress}" }
    | _ => return v
  | _, _ => return { v with agree := false, spec := "na", what := "harness", why := s!"unexpected outcome {out.compress}" }

def stepWriteInt (c : Col) (k : IntKind) (x : Int) (r : Json) : StepV := Id.run do
  let out := (r.getObjVal? "out").toOption.getD Json.null
  let cls := implCls out
  let model := modelWriteInt c k x
  let mut v : StepV := { tags := [s!"w-int/{c.name}/{model.cls}"] }
  if cls == "panic" then
    return { v with agree := false, spec := "fail", what := "panic", panic := true, why := s!"write int {x}: panic" }
  if model.cls != cls then
    v := { v with agree := false, what := s!"class/model={model.cls}/impl={cls}", why := s!"write int {x}: model {model.cls}, impl {out.compress}" }
  match cls, outInt out with
  | "ok", some y =>
    if y != x then return { v with spec := "fail", what := "passthrough", why := s!"integer {x} stored as {y}" }
    if !storageRange c x then return { v with spec := "fail", what := "passthrough-range", why := s!"integer {x} accepted" }
    return v
  | "err", _ => return v   -- unsupported serde kind or out of the column's integer range (the model says which)
  | _, _ => return { v with agree := false, spec := "na", what := "harness", why := s!"unexpected outcome {out.compress}" }

def stepReadStr (c : Col) (x : Int) (r : Json) : StepV := Id.run do
  let out := (r.getObjVal? "out").toOption.getD Json.null
  let cls := implCls out
  let model := modelReadStr c x
  let mut v : StepV := { tags := [s!"r-str/{c.name}/{model.cls}"] }
  if cls == "panic" then
    let mech := match c.ty with
      | .duration => if (formatArrowDurationAsSpanPinned x c.unit).isPanic then "panic/i64-min" else "panic"
      | .date ty => if (dateToStringPinned ty x).isPanic then "panic/out-of-chrono-range" else "panic"
      | _ => "panic"
    return { v with agree := model.cls == "panic", spec := "fail", what := mech, panic := true, why := s!"read {x} as string: panic {out.compress}" }
  if model.cls != cls then
    v := { v with agree := false, what := s!"class/model={model.cls}/impl={cls}", why := s!"read {x}: model {model.cls}, impl {out.compress}" }
  let colOk := (readerAccepts c).isOk
  match cls, outStr out with
  | "ok", some s =>
    if let .ok ms := model then
      if ms != s then v := { v with agree := false, what := "model-string", why := s!"read {x}: model {ms}, impl {s}" }
    match checkBack c x s (r.getObjVal? "oracle_back").toOption with
    | some (what, why) =>
      let what := if c.ty == .date .date64 && x < 0 && x % 86400000 != 0 then what ++ "/pre-epoch-part-day" else what
      return { v with spec := "fail", what, why := s!"read {x}: {why}" }
    | none => return v
  | "err", _ =>
    if colOk && specReadable c x then
      return { v with spec := "fail", what := "rejected-valid", why := s!"read {x} as string: error {out.compress}" }
    return v
  | _, _ => return { v with agree := false, spec := "na", what := "harness", why := s!"unexpected outcome {out.compress}" }

def stepReadInt (c : Col) (as32 : Bool) (x : Int) (r : Json) : StepV := Id.run do
  let out := (r.getObjVal? "out").toOption.getD Json.null
  let cls := implCls out
  let model := modelReadInt c as32 x
  let mut v : StepV := { tags := [s!"r-int/{c.name}/{model.cls}"] }
  if cls == "panic" then
    return { v with agree := false, spec := "fail", what := "panic", panic := true, why := s!"read int {x}: panic" }
  if model.cls != cls then
    v := { v with agree := false, what := s!"class/model={model.cls}/impl={cls}", why := s!"read int {x}: model {model.cls}, impl {out.compress}" }
  match cls, (out.getObjVal? "ok").toOption with
  | "ok", some (.arr a) =>
    match a.toList.map (fun j => (jsonInt? j).toOption) with
    | [some y] => if y != x then return { v with spec := "fail", what := "passthrough", why := s!"stored {x} read as {y}" } else return v
    | _ => return { v with spec := "fail", what := "passthrough", why := s!"stored {x} read as {out.compress}" }
  | "err", _ => return v
  | _, _ => return { v with agree := false, spec := "na", what := "harness", why := s!"unexpected outcome {out.compress}" }

/-! ### calendar probes -/

def jsonYmd? (j : Json) : Option (Int × Int × Int) :=
  match j with
  | .arr a =>
    match a.toList.map (fun x => (jsonInt? x).toOption) with
    | [some y, some m, some d] => some (y, m, d)
    | _ => none
  | _ => none

def optInt (r : Json) (k : String) : Option Int :=
  match r.getObjVal? k with
  | .ok j => (jsonInt? j).toOption
  | _ => none

/-- the day number of the specification: by counting where the recursion is shallow, otherwise the closed formula
(proved equal: `Props/C14Cal.lean: daysFromCivil_is_count`) -/
def specDayNumber (y m d : Int) : Int :=
  if -3000 ≤ y ∧ y ≤ 7000 then Spec.Calendar.dayNumber (y, m, d) else daysFromCivil y m d

def stepCal (c : Col) (y m d : Int) (r : Json) : StepV := Id.run do
  let inYears := chronoMinYear ≤ y && y ≤ chronoMaxYear
  let expValid := Spec.Calendar.valid (y, m, d) && inYears
  let mut v : StepV := { tags := [s!"cal/{if expValid then "valid" else "invalid"}"] }
  if (r.getObjVal? "oracle_panic").isOk then
    return { v with agree := false, spec := "fail", what := "oracle-panic", why := s!"chrono panics on {y}-{m}-{d}" }
  let chValid := (r.getObjValAs? Bool "valid").toOption.getD false
  -- the model's calendar
  if (validDate y m d && inYears) != chValid then
    v := { v with agree := false, what := "model-valid", why := s!"{y}-{m}-{d}: model validDate {validDate y m d}, chrono {chValid}" }
  if chValid != expValid then
    return { v with spec := "fail", what := "valid", why := s!"{y}-{m}-{d}: chrono from_ymd_opt {chValid}, the calendar says {expValid}" }
  match (r.getObjValAs? Bool "leap").toOption with
  | some l =>
    if l != Spec.Calendar.isLeap y then
      return { v with spec := "fail", what := "leap", why := s!"year {y}: chrono leap_year {l}, Gregorian rule {Spec.Calendar.isLeap y}" }
  | none => pure ()
  if !expValid then return v
  let n := specDayNumber y m d
  let fac : Int := match c.ty with | .date ty => ty.factor | _ => 1
  if m == 2 && d ≥ 28 then v := { v with tags := "cal/feb-end" :: v.tags }
  if d == Spec.Calendar.monthLength y m then v := { v with tags := (if m == 12 then "cal/year-end" else "cal/month-end") :: v.tags }
  if y < 0 then v := { v with tags := "cal/negative-year" :: v.tags }
  match optInt r "days" with
  | some days =>
    if daysFromCivil y m d != days then
      v := { v with agree := false, what := "model-days", why := s!"{y}-{m}-{d}: model daysFromCivil {daysFromCivil y m d}, chrono {days}" }
    if days != n then
      return { v with spec := "fail", what := "day-number", why := s!"{y}-{m}-{d}: chrono counts {days} days since 1970-01-01, the calendar {n}" }
  | none => return { v with agree := false, spec := "na", what := "harness", why := "cal step without days" }
  -- successor / predecessor
  let nx := Spec.Calendar.nextDay (y, m, d)
  let pv := Spec.Calendar.prevDay (y, m, d)
  let expSucc : Option (Int × Int × Int) := if nx.1 ≤ chronoMaxYear then some nx else none
  let expPred : Option (Int × Int × Int) := if chronoMinYear ≤ pv.1 then some pv else none
  let chSucc := (r.getObjVal? "succ").toOption.bind jsonYmd?
  let chPred := (r.getObjVal? "pred").toOption.bind jsonYmd?
  if chSucc != expSucc then
    return { v with spec := "fail", what := "succ", why := s!"{y}-{m}-{d}: chrono succ_opt {chSucc}, nextDay {expSucc}" }
  if chPred != expPred then
    return { v with spec := "fail", what := "pred", why := s!"{y}-{m}-{d}: chrono pred_opt {chPred}, prevDay {expPred}" }
  if expSucc.isSome && optInt r "succ_days" != some (n + 1) then
    return { v with spec := "fail", what := "succ-days", why := s!"{y}-{m}-{d}: the successor is {optInt r "succ_days"} days after the epoch, expected {n + 1}" }
  if expPred.isSome && optInt r "pred_days" != some (n - 1) then
    return { v with spec := "fail", what := "pred-days", why := s!"{y}-{m}-{d}: the predecessor is {optInt r "pred_days"} days after the epoch, expected {n - 1}" }
  -- through the column: the date and its successor as strings
  let through (key skey : String) (expect : Int) (v : StepV) : StepV := Id.run do
    let out := (r.getObjVal? key).toOption.getD Json.null
    let s := (getStr r skey).toOption.getD ""
    let cls := implCls out
    let model := modelWriteStr c s
    let mut v := v
    if cls == "panic" then
      return { v with agree := model.cls == "panic", spec := "fail", what := s!"{key}/panic", panic := true, why := s!"write {s.quote}: panic" }
    if model.cls != cls then
      v := { v with agree := false, what := s!"{key}/class/model={model.cls}/impl={cls}", why := s!"write {s.quote}: model {model.cls}, impl {out.compress}" }
    match outInt out with
    | some x =>
      if let .ok mv := model then
        if mv != x then v := { v with agree := false, what := s!"{key}/model-value", why := s!"write {s.quote}: model {mv}, impl {x}" }
      if x != expect * fac then
        return { v with spec := "fail", what := s!"{key}/stored", why := s!"write {s.quote}: stored {x}, the day number is {expect} (factor {fac})" }
      return v
    | none => return { v with spec := "fail", what := s!"{key}/rejected-valid", why := s!"write {s.quote}: {out.compress}" }
  v := through "out" "s" n v
  if v.spec == "fail" then return v
  if expSucc.isSome then v := through "out_succ" "s_succ" (n + 1) v
  return v

def stepName (st : Json) : String :=
  if (st.getObjVal? "cal").isOk then "cal" else
  match getStr st "w", getStr st "r" with
  | .ok k, _ => if k == "str" then "w-str" else "w-int"
  | _, .ok k => if k == "str" then "r-str" else "r-int"
  | _, _ => "?"

def evalStep (c : Col) (st r : Json) : Except String StepV := do
  if let .ok cal := st.getObjVal? "cal" then
    match jsonYmd? cal with
    | some (y, m, d) => return stepCal c y m d r
    | none => throw "cal step without [y, m, d]"
  match getStr st "w", getStr st "r" with
  | .ok "str", _ => pure (stepWriteStr c (← getStr st "v") r)
  | .ok k, _ =>
    match parseKind k with
    | some kind => pure (stepWriteInt c kind (← getBigInt st "v") r)
    | none => throw s!"unknown write kind {k}"
  | _, .ok "str" => pure (stepReadStr c (← getBigInt st "v") r)
  | _, .ok k => pure (stepReadInt c (k == "i32") (← getBigInt st "v") r)
  | _, _ => throw "step without w / r"

def handle (j : Json) : Except String Verdict := do
  let c ← parseCol (← getObj j "col")
  let steps := (← getArr j "steps").toList
  let impl := (← getArr j "impl").toList
  if steps.length != impl.length then
    return { agree := false, spec := [("C14", "na")], sig := "C14/step-count", why := "harness returned another number of steps" }
  -- the column itself: builder and reader must take the same tz strings as UTC (`utc_detection`)
  let bp := implCls ((j.getObjVal? "builder_probe").toOption.getD Json.null)
  let rp := implCls ((j.getObjVal? "reader_probe").toOption.getD Json.null)
  let mb := (modelWriteInt c .i64 0).cls
  let mr := (modelReadInt c false 0).cls
  let mut tags : List String := [s!"col/{c.name}/builder={bp}/reader={rp}"]
  if bp == "panic" || rp == "panic" then
    return { agree := false, spec := [("C14", "fail"), ("C16", "fail")], sig := s!"C14/{c.name}/column/panic", why := "constructing the builder / reader panics", tags }
  if mb != bp || mr != rp then
    return { agree := false, spec := [("C14", "pass")], sig := s!"C14/{c.name}/column/class", tags,
             why := s!"column acceptance: model builder {mb} reader {mr}, impl builder {bp} reader {rp}" }
  if c.ty == .timestamp && bp != rp then
    return { agree := true, spec := [("C14", "fail")], sig := s!"C14/Timestamp/column/utc-detection", tags,
             why := s!"tz {c.tz}: builder {bp}, reader {rp}" }
  let mut agree := true
  let mut spec := "pass"
  let mut sig := ""
  let mut why := ""
  let mut panicked := false
  let mut allNa := true
  for (st, r) in steps.zip impl do
    let v ← evalStep c st r
    tags := tags ++ v.tags
    if v.panic then panicked := true
    if v.spec != "na" then allNa := false
    let bad := v.spec == "fail" || !v.agree
    if bad && sig == "" then
      sig := s!"C14/{c.name}/{stepName st}/{v.what}"
      why := v.why
    -- a specification failure outranks a mere model disagreement for the reported signature
    if v.spec == "fail" && spec != "fail" then
      spec := "fail"
      sig := s!"C14/{c.name}/{stepName st}/{v.what}"
      why := v.why
    if !v.agree then agree := false
  if steps.isEmpty then tags := "trivial" :: tags
  return { agree, spec := [("C14", if spec == "pass" && allNa && !steps.isEmpty then "na" else spec), ("C16", if panicked then "fail" else "pass")],
           sig, why, tags := tags.eraseDups }

end Driver.Suites.Temporal
