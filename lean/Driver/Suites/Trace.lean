import Driver.Util
import Driver.SValJson
import Driver.SchemaJson
import SaModel.Trace.FromSamples
import SaModel.Trace.Spec
import Driver.TraceReadback
/- suite `trace` (C07, C06, from_samples half of C08): `from_samples` on the real crate vs `SaModel.Trace.fromSamples`,
   order independence evaluated on the implementation's own outputs, closure (trace → build → read back). -/
namespace Driver.Suites.Trace
open Lean Driver SaModel SaModel.Trace

def simpleDataType : String → Option DataType
  | "Null" => some .null | "Boolean" => some .boolean
  | "Int8" => some .int8 | "Int16" => some .int16 | "Int32" => some .int32 | "Int64" => some .int64
  | "UInt8" => some .uint8 | "UInt16" => some .uint16 | "UInt32" => some .uint32 | "UInt64" => some .uint64
  | "Float32" => some .float32 | "Float64" => some .float64
  | "Utf8" => some .utf8 | "LargeUtf8" => some .largeUtf8
  | "Binary" => some .binary | "LargeBinary" => some .largeBinary
  | "Date32" => some .date32 | "Date64" => some .date64
  | _ => none

def parseOpts (j : Json) : Except String Trace.Options := do
  let b (k : String) : Except String Bool := getBool j k
  let mut o : Trace.Options := {
    allow_null_fields := ← b "allow_null_fields"
    map_as_struct := ← b "map_as_struct"
    sequence_as_large_list := ← b "sequence_as_large_list"
    string_as_large_utf8 := ← b "strings_as_large_utf8"
    string_dictionary_encoding := ← b "string_dictionary_encoding"
    coerce_numbers := ← b "coerce_numbers"
    allow_to_string := ← b "allow_to_string"
    guess_dates := ← b "guess_dates"
    enums_without_data_as_strings := ← b "enums_without_data_as_strings"
    from_type_budget := ← getNat j "from_type_budget" }
  for ow in (← getArr j "overwrites") do
    match (← ow.getArr?).toList with
    | [p, f] =>
      -- `dt`: a name of the small leaf vocabulary, or a data type in the wire form of SchemaJson.lean (nested overwrite
      -- fields: Struct / List / LargeList); `meta` (optional): the metadata of the overwrite field
      let dt ← match (← getObj f "dt") with
        | .str dtName => match simpleDataType dtName with
          | some dt => pure dt
          | none => throw s!"overwrite data type {dtName}"
        | dj => dataTypeOfJson dj
      let md ← match getOpt f "meta" with
        | some m => metaOfJson m
        | none => pure []
      o := o.overwrite (← p.getStr?) (.mk (← getStr f "name") dt (← getBool f "nullable") md)
    | _ => throw "bad overwrite"
  pure o

def parseFields (j : Json) : Except String (List Field) := do
  (← j.getArr?).toList.mapM fieldOfJson

/-- implementation outcome → class and (on ok) the fields -/
def implOutcome (j : Json) : Except String (String × Option (List Field)) := do
  let cls := implCls j
  if cls == "ok" then pure (cls, some (← parseFields (← getObj j "ok"))) else pure (cls, none)

def ctorOfFields (fs : List Field) : String :=
  match fs with
  | [f] => f.dataType.ctor
  | _ => "Struct"

/-- first position at which two fields differ: constructor names along the way -/
partial def diffField (a b : Field) : String :=
  if a.name != b.name then "name"
  else if a.nullable != b.nullable then s!"{a.dataType.ctor}.nullable"
  else if a.metadata != b.metadata then s!"{a.dataType.ctor}.metadata"
  else if a.dataType.ctor != b.dataType.ctor then s!"{a.dataType.ctor}-vs-{b.dataType.ctor}"
  else
    let kids (d : DataType) : List Field := match d with
      | .struct fs => fs.toList
      | .list f | .largeList f | .fixedSizeList f _ | .map f _ => [f]
      | .union ufs _ => ufs.toList.map (·.2)
      | _ => []
    let ka := kids a.dataType
    let kb := kids b.dataType
    if ka.length != kb.length then s!"{a.dataType.ctor}.arity"
    else match (ka.zip kb).find? (fun (x, y) => x != y) with
      | some (x, y) => s!"{a.dataType.ctor}/" ++ diffField x y
      | none => s!"{a.dataType.ctor}.params"

def diffFields (a b : List Field) : String :=
  if a.length != b.length then "root.arity"
  else match (a.zip b).find? (fun (x, y) => x != y) with
    | some (x, y) => diffField x y
    | none => "same"

def sampleKinds (xs : List SVal) : List String := (xs.map SVal.kind).eraseDups

def handle (j : Json) : Except String Verdict := do
  let o ← parseOpts (← getObj j "opts")
  let items ← getBool j "items"
  let kind ← getStr j "kind"
  let raw ← (← getArr j "samples").toList.mapM svalOfJson
  let samples := if items then itemsOf raw else raw
  let impl ← getObj j "impl"
  let (cls, implFields) ← implOutcome impl
  -- a non-sequence at the top
  if let some top := getOpt j "top" then
    let m := fromSamplesTop .fixed o (← svalOfJson top)
    return { agree := m.cls == cls, spec := [("C07", "na"), ("C06", "na"), ("C08", "na"), ("C16", if cls == "panic" then "fail" else "pass")],
             sig := if m.cls == cls then "" else s!"trace/top/model={m.cls}/impl={cls}", tags := ["top", "trivial"] }
  let perms ← (← getArr j "perms").toList.mapM fun p => do (← p.getArr?).toList.mapM fun i => i.getNat?
  let permImpl ← (← getArr j "perm_impl").toList.mapM implOutcome
  let permCls := permImpl.map (·.1)
  let anyPanic := cls == "panic" || permCls.any (· == "panic")
  let c16 := if anyPanic then "fail" else "pass"
  -- the model on the same orders
  let model := fromSamples .fixed o samples
  let arr := samples.toArray
  let permModel := perms.map fun p => fromSamples .fixed o (p.filterMap fun i => arr[i]?)
  let tags := [kind, s!"cls:{cls}"] ++ (sampleKinds raw).map (s!"k:{·}")
    ++ (match implFields with | some fs => [s!"root:{ctorOfFields fs}"] | none => [])
    ++ (if samples.isEmpty then ["trivial"] else [])
  -- C07 on the implementation's own outputs
  let outs := implFields :: permImpl.map (·.2)
  let okAll := Spec.allEquiv outs
  let okSucc := o.allow_to_string || Spec.sameSuccess outs
  let c07 := if anyPanic then "na" else if okAll && okSucc then "pass" else "fail"
  let c07sig :=
    if c07 != "fail" then "" else
    if !okSucc then s!"C07/success-depends-on-order/{kind}"
    else
      -- name the position where two successful orders differ
      let succ := outs.filterMap id
      match succ with
      | a :: rest =>
        match rest.find? (fun b => !Spec.schemaEquiv a b) with
        | some b => s!"C07/schema-depends-on-order/{diffFields (Spec.normSchema a) (Spec.normSchema b)}"
        | none => "C07/schema-depends-on-order"
      | [] => "C07/schema-depends-on-order"
  -- C06 closure on the real crate
  let (c06, c06sig, c06tags) ← Readback.judge o j raw items implFields
  -- correspondence model ≃ implementation
  let agreeOne (m : R (List Field)) (c : String) (f : Option (List Field)) : Bool :=
    m.cls == c && (match m, f with | .ok a, some b => a == b | .ok _, none => false | _, _ => true)
  let agreeFirst := agreeOne model cls implFields
  let agreePerms := (permModel.zip permImpl).all fun (m, (c, f)) => agreeOne m c f
  let agree := agreeFirst && agreePerms && permModel.length == permImpl.length
  let asig :=
    if agree then "" else
    if !agreeFirst then
      match model, implFields with
      | .ok a, some b => s!"trace/model-vs-impl/{diffFields a b}"
      | _, _ => s!"trace/model-vs-impl/model={model.cls}/impl={cls}"
    else "trace/model-vs-impl/perm"
  let sig := if c07 == "fail" then c07sig else if c06 == "fail" then c06sig else if c16 == "fail" then "C16/panic/trace" else asig
  let why :=
    if c07 == "fail" then "orders of the same samples give different outcomes on the implementation"
    else if c06 == "fail" then "the traced schema does not reproduce the samples it was traced from"
    else if !agree then s!"model {model.cls} vs implementation {cls}"
    else ""
  return { agree, spec := [("C07", c07), ("C06", c06), ("C08", "na"), ("C16", c16)], sig, tags := tags ++ c06tags, why }

end Driver.Suites.Trace
