import Driver.Util
import Driver.SValJson
import Driver.SchemaJson
import Driver.Suites.Trace
import SaModel.Trace.FromTypeG
import SaModel.Trace.Mapping
import SaModel.Lemmas.C08Covers
import SaModel.Lemmas.C08Class
/- suite `tracety` (C08): `from_type::<DynRoot>` on the real crate vs `SaModel.Trace.fromTypeG` (operational model of the code after fix aaf3edc) and
   vs `Spec.fromTypeSpec` (the documented mapping); `from_samples` on covering samples must give the same schema;
   overwrites at real and perturbed paths; DynRoot fidelity against the compiled zoo of real derives.
   `samples_rand`: a randomised sample list that must be covering in the sense of `SaModel.Lemmas.C08.Covers` (decided here
   with `hasTy` / `covers`): `from_samples` on it vs the operational model and — C08 — vs `from_type`. -/
namespace Driver.Suites.Tracety
open Lean Driver SaModel SaModel.Trace Driver.Suites.Trace

def leafTy : String → Option Ty
  | "unit" => some .unit | "bool" => some .bool
  | "i8" => some (.int .i8) | "i16" => some (.int .i16) | "i32" => some (.int .i32) | "i64" => some (.int .i64)
  | "u8" => some (.int .u8) | "u16" => some (.int .u16) | "u32" => some (.int .u32) | "u64" => some (.int .u64)
  | "f32" => some .f32 | "f64" => some .f64 | "char" => some .char | "string" => some .string | "bytes" => some .bytes
  | _ => none

def tysOfList : List Ty → Tys
  | [] => .nil
  | t :: r => .cons t (tysOfList r)

def tyFieldsOfList : List (String × Ty) → TyFields
  | [] => .nil
  | (n, t) :: r => .cons n t (tyFieldsOfList r)

partial def tyOfJsonR (recTy : Option Ty) (j : Json) : Except String Ty := do
  let tyOfJson := tyOfJsonR recTy
  let t ← getStr j "t"
  let name := (getStr j "n").toOption.getD ""
  let tys (a : Json) : Except String Tys := do pure (tysOfList (← (← a.getArr?).toList.mapM tyOfJson))
  let fields (a : Json) : Except String TyFields := do
    let fs ← (← a.getArr?).toList.mapM fun e => do
      match (← e.getArr?).toList with
      | [n, ty] => pure ((← n.getStr?), (← tyOfJson ty))
      | _ => throw "bad field"
    pure (tyFieldsOfList fs)
  match leafTy t with
  | some l => pure l
  | none =>
    match t with
    | "option" => pure (.option (← tyOfJson (← getObj j "a")))
    | "vec" => pure (.vec (← tyOfJson (← getObj j "a")))
    | "tuple" => pure (.tuple (← tys (← getObj j "a")))
    | "map" => pure (.map (← tyOfJson (← getObj j "k")) (← tyOfJson (← getObj j "v")))
    | "struct" => pure (.struct name (← fields (← getObj j "f")))
    | "tuple_struct" => pure (.tupleStruct name (← tys (← getObj j "a")))
    | "newtype_struct" => pure (.newtypeStruct name (← tyOfJson (← getObj j "a")))
    | "unit_struct" => pure (.unitStruct name)
    | "enum" =>
      let vs ← (← getArr j "v").toList.mapM fun v => do
        pure ((← getStr v "n"), (← getStr v "k"), (← getObj v "a"))
      let rec build : List (String × String × Json) → Except String TyVariants
        | [] => pure .nil
        | (n, k, a) :: r => do
          let rest ← build r
          match k with
          | "unit" => pure (.unit n rest)
          | "newtype" => pure (.newtype n (← tyOfJson a) rest)
          | "tuple" => pure (.tuple n (← tys a) rest)
          | _ => pure (.struct n (← fields a) rest)
      pure (.enum name (← build vs))
    -- a recursive definition `T = body[rec := T]` (DynRoot follows it like a recursive Rust type): the finite model
    -- type is its unrolling, 30 levels deep (more than MAX_TYPE_DEPTH + 1 of any refusal), ending in `()`
    | "recdef" =>
      let body ← getObj j "a"
      let mut acc : Ty := .unit
      for _ in [0:30] do
        acc ← tyOfJsonR (some acc) body
      pure acc
    | "rec" => match recTy with
      | some t => pure t
      | none => throw "rec outside recdef"
    | _ => throw s!"unknown type tag {t}"

def tyOfJson (j : Json) : Except String Ty := tyOfJsonR none j

def sameOutcome (m : R (List Field)) (cls : String) (f : Option (List Field)) : Bool :=
  m.cls == cls && (match m, f with | .ok a, some b => decide (a = b) | .ok _, none => false | _, _ => true)

def diffSig (m : R (List Field)) (cls : String) (f : Option (List Field)) : String :=
  match m, f with
  | .ok a, some b => diffFields a b
  | _, _ => s!"expected={m.cls}/impl={cls}"

partial def tyCtors : Ty → List String
  | .option t => "option" :: tyCtors t
  | .vec t => "vec" :: tyCtors t
  | .newtypeStruct _ t => "newtype_struct" :: tyCtors t
  | .tuple _ => ["tuple"] | .tupleStruct _ _ => ["tuple_struct"] | .map _ _ => ["map"]
  | .struct _ _ => ["struct"] | .enum _ _ => ["enum"] | .unitStruct _ => ["unit_struct"]
  | _ => ["leaf"]

def tysToList : Tys → List Ty
  | .nil => []
  | .cons t r => t :: tysToList r

def tyFieldsToList' : TyFields → List (String × Ty)
  | .nil => []
  | .cons n t r => (n, t) :: tyFieldsToList' r

mutual
/-- the paths of the variant nodes of every enum of the type (`<path>.<Variant>`), at any depth -/
partial def variantNodes (path : String) : Ty → List String
  | .option t | .newtypeStruct _ t => variantNodes path t
  | .vec t => variantNodes (Spec.childPath path "element") t
  | .tuple ts | .tupleStruct _ ts => variantNodesTys path ts
  | .map k v => variantNodes (Spec.childPath path "key") k ++ variantNodes (Spec.childPath path "value") v
  | .struct _ fs => variantNodesFields path fs
  | .enum _ vs => variantNodesVariants path vs
  | _ => []
partial def variantNodesTys (path : String) (ts : Tys) : List String :=
  ((tysToList ts).zipIdx).flatMap fun (t, i) => variantNodes (Spec.childPath path (toString i)) t
partial def variantNodesFields (path : String) (fs : TyFields) : List String :=
  (tyFieldsToList' fs).flatMap fun (n, t) => variantNodes (Spec.childPath path n) t
partial def variantNodesVariants (path : String) : TyVariants → List String
  | .nil => []
  | .unit n r => Spec.childPath path n :: variantNodesVariants path r
  | .newtype n t r => Spec.childPath path n :: (variantNodes (Spec.childPath path n) t ++ variantNodesVariants path r)
  | .tuple n ts r => Spec.childPath path n :: (variantNodesTys (Spec.childPath path n) ts ++ variantNodesVariants path r)
  | .struct n fs r => Spec.childPath path n :: (variantNodesFields (Spec.childPath path n) fs ++ variantNodesVariants path r)
end

/-- what a sample list shows beyond the canonical covering list (coverage tags) -/
partial def svalMarks : SVal → List String
  | .none => ["rand:none"]
  | .some v | .newtypeStruct _ v | .newtypeVariant _ _ _ v => svalMarks v
  | .seq items => (match items.length with | 0 => ["rand:seq0"] | 1 => [] | _ => ["rand:seq2+"]) ++ items.toList.flatMap svalMarks
  | .tuple items | .tupleStruct _ items | .tupleVariant _ _ _ items => items.toList.flatMap svalMarks
  | .map es => (match es.toList.length with | 0 => ["rand:map0"] | 1 => [] | _ => ["rand:map2+"])
      ++ es.toList.flatMap fun (k, v) => svalMarks k ++ svalMarks v
  | .record _ fs | .structVariant _ _ _ fs => fs.toList.flatMap fun (_, _, v) => svalMarks v
  | _ => []

/-- the message of an implementation error -/
def implMsg (j : Json) : String :=
  match j.getObjVal? "err" with
  | .ok e => (e.getObjValAs? String "msg").toOption.getD ""
  | .error _ => ""

/-- the error CLASS (C08_from_type_class, table `SameClass` of Lemmas/C08Class.lean): when the implementation fails, the
documented error its message belongs to (`documentedError`) must be the error of `Spec.fromTypeSpec`; for a type that
cannot be walked the budget error may come first (`C08_not_walkable_budget_first`).  Second component: the operational
model must fail with a message of the same class as the implementation. -/
def classVerdict (o : Trace.Options) (ty : Ty) (implJ : Json) (model spec : R (List Field)) : Option String × Option String :=
  if implCls implJ != "err" then (none, none) else
  let dash (x : String) := x.replace " " "-"
  let ic := SaModel.Lemmas.C08.documentedError (implMsg implJ)
  let walk := Spec.walkable o "$" ty
  -- a root that is BOTH nullable and no struct (e.g. Option<u8>) is refused for either reason: the property does not fix
  -- which of the two always-failing root checks speaks first (false-alarm probe g08)
  let rootErr (s : String) := s == "the root cannot be nullable" || s == "the root must be a struct"
  let c := match spec with
    | .error (.err s) =>
      if ic == s || (!walk && ic == "budget") || (rootErr ic && rootErr s) then none
      else some s!"C08/error-class/expected={dash s}/impl={dash ic}"
    | _ => none
  let a := match model with
    | .error (.err m) =>
      let mc := SaModel.Lemmas.C08.documentedError m
      if mc == ic || (rootErr mc && rootErr ic) then none else some s!"tracety/error-class-model-vs-impl/{dash mc}/{dash ic}"
    | _ => none
  (c, a)

def handle (j : Json) : Except String Verdict := do
  let ty ← tyOfJson (← getObj j "ty")
  let optsJ ← getObj j "opts"
  let o ← parseOpts optsJ
  let kind ← getStr j "kind"
  let (cls, implFields) ← implOutcome (← getObj j "impl")
  let mut panics := cls == "panic"
  let mut agree := true
  let mut asig := ""
  let mut c08 := true
  let mut csig := ""
  -- (a) operational model and documented mapping vs from_type
  let model := fromTypeG .fixed o ty
  let spec := Spec.fromTypeSpecG o ty
  if !sameOutcome model cls implFields then
    agree := false; asig := s!"tracety/model-vs-impl/{diffSig model cls implFields}"
  if !sameOutcome spec cls implFields then
    c08 := false; csig := s!"C08/from_type-vs-mapping/{diffSig spec cls implFields}"
  let mut tagsErr : List String := []
  if cls == "err" then
    let (cc, ca) := classVerdict o ty (← getObj j "impl") model spec
    tagsErr := [s!"errclass:{(SaModel.Lemmas.C08.documentedError (implMsg (← getObj j "impl"))).replace " " "-"}"]
    if let some sg := ca then
      if agree then agree := false; asig := sg
    if let some sg := cc then
      if c08 then c08 := false; csig := sg
  -- (b) DynRoot fidelity
  if let some real := getOpt j "real" then
    let (rcls, rf) ← implOutcome real
    if rcls != cls || rf != implFields then
      agree := false; asig := "tracety/dynroot-fidelity"
  -- (c) from_samples on covering samples
  let samples ← (← getArr j "samples").toList.mapM svalOfJson
  if let some is := getOpt j "impl_samples" then
    let (scls, sf) ← implOutcome is
    panics := panics || scls == "panic"
    let ms := fromSamples .fixed o samples
    if !sameOutcome ms scls sf then
      agree := false; asig := s!"tracety/samples-model-vs-impl/{diffSig ms scls sf}"
    if cls == "ok" && c08 then
      if scls != "ok" || sf != implFields then
        c08 := false
        csig := s!"C08/from_type-vs-from_samples/{match implFields, sf with | some a, some b => diffFields a b | _, _ => s!"samples={scls}"}"
  let mut tags := [kind, s!"cls:{cls}"] ++ tagsErr ++ (match ty with | .struct _ fs => (tyFieldsToList fs).flatMap (fun (e : String × Ty) => tyCtors e.2) | t => tyCtors t).eraseDups
  -- (c') from_samples on a randomised sample list: it must be covering (`Covers o ty`, decided with the definitions of
  --      Lemmas/C08Covers.lean), the model must reproduce the implementation on it, and (C08) when from_type succeeds the
  --      implementation's from_samples must succeed with exactly from_type's fields
  let mut samplesRand : List SVal := []
  if let some sr := getOpt j "samples_rand" then
    samplesRand ← (← sr.getArr?).toList.mapM svalOfJson
    let isCov := samplesRand.all (SaModel.Lemmas.C08.hasTy o · ty) && SaModel.Lemmas.C08.covers ty samplesRand
    tags := tags ++ [if isCov then "cover:yes" else "cover:no"] ++ (samplesRand.flatMap svalMarks).eraseDups
      ++ (if samplesRand.length > samples.length then ["rand:more"] else [])
      ++ (if samplesRand.eraseDups.length < samplesRand.length then ["rand:repeated"] else [])
    if !isCov then
      agree := false; asig := "tracety/rand-not-covering"
    if let some is := getOpt j "impl_samples_rand" then
      let (scls, sf) ← implOutcome is
      panics := panics || scls == "panic"
      let ms := fromSamples .fixed o samplesRand
      if !sameOutcome ms scls sf then
        agree := false; asig := s!"tracety/samples-rand-model-vs-impl/{diffSig ms scls sf}"
      if cls == "ok" && c08 && isCov then
        tags := tags ++ ["rand:vs-from_type"]
        if scls != "ok" || sf != implFields then
          c08 := false
          csig := s!"C08/from_type-vs-from_samples-rand/{match implFields, sf with | some a, some b => diffFields a b | _, _ => s!"samples={scls}"}"
    else
      agree := false; asig := "tracety/rand-not-run"
  -- (d) overwrites
  let ows := (getArr j "overwrites").toOption.getD #[]
  if ows.size > 0 then
    let o2 ← parseOpts (optsJ.setObjVal! "overwrites" (Json.arr ows))
    let mut owCls := ""
    let mut owFields : Option (List Field) := none
    let vnodes := variantNodes "$" ty
    let vbelow := (Spec.tyPaths "$" ty).filter fun p => vnodes.any fun v => (v ++ ".").isPrefixOf p
    let keys := ows.toList.filterMap fun ow => match ow with | .arr #[.str p, _] => some ("$." ++ p) | _ => none
    tags := tags ++ [s!"ow:n{ows.size}"]
      ++ (if keys.any vnodes.contains then ["ow:at-variant"] else [])
      ++ (if keys.any vbelow.contains then ["ow:below-variant"] else [])
      ++ (if ows.any fun ow => match ow with | .arr #[_, f] => (match f.getObjVal? "dt" with | .ok (.str _) => false | _ => true) | _ => false then ["ow:nested-dt"] else [])
      ++ (if ows.any fun ow => match ow with | .arr #[_, f] => (f.getObjVal? "meta").isOk | _ => false then ["ow:meta"] else [])
      ++ (if keys.eraseDups.length < keys.length then ["ow:same-path"] else [])
    if let some iw := getOpt j "impl_ow" then
      let (wcls, wf) ← implOutcome iw
      panics := panics || wcls == "panic"
      let mw := fromTypeG .fixed o2 ty
      let sw := Spec.fromTypeSpecG o2 ty
      tags := tags ++ [s!"ow:{wcls}"]
      owCls := wcls; owFields := wf
      if !sameOutcome mw wcls wf then
        agree := false; asig := s!"tracety/overwrite-model-vs-impl/{diffSig mw wcls wf}"
      if c08 && !sameOutcome sw wcls wf then
        c08 := false; csig := s!"C08/overwrite/{diffSig sw wcls wf}"
      if wcls == "err" then
        let (cc, ca) := classVerdict o2 ty iw mw sw
        tags := tags ++ [s!"ow-errclass:{(SaModel.Lemmas.C08.documentedError (implMsg iw)).replace " " "-"}"]
        if let some sg := ca then
          if agree then agree := false; asig := sg
        if let some sg := cc then
          if c08 then c08 := false; csig := sg
    if let some iw := getOpt j "impl_samples_ow" then
      let (wcls, wf) ← implOutcome iw
      panics := panics || wcls == "panic"
      let mw := fromSamples .fixed o2 samples
      if !sameOutcome mw wcls wf then
        agree := false; asig := s!"tracety/overwrite-samples-model-vs-impl/{diffSig mw wcls wf}"
      -- C08 with the overwrites in the options: from_samples(covering) repeats a successful from_type
      if owCls == "ok" && c08 && (wcls != "ok" || wf != owFields) then
        c08 := false
        csig := s!"C08/from_type-vs-from_samples-ow/{match owFields, wf with | some a, some b => diffFields a b | _, _ => s!"samples={wcls}"}"
    if let some iw := getOpt j "impl_samples_rand_ow" then
      let (wcls, wf) ← implOutcome iw
      panics := panics || wcls == "panic"
      let mw := fromSamples .fixed o2 samplesRand
      if !sameOutcome mw wcls wf then
        agree := false; asig := s!"tracety/overwrite-samples-rand-model-vs-impl/{diffSig mw wcls wf}"
      let isCov2 := samplesRand.all (SaModel.Lemmas.C08.hasTy o2 · ty) && SaModel.Lemmas.C08.covers ty samplesRand
      if owCls == "ok" && c08 && isCov2 && (wcls != "ok" || wf != owFields) then
        c08 := false
        csig := s!"C08/from_type-vs-from_samples-rand-ow/{match owFields, wf with | some a, some b => diffFields a b | _, _ => s!"samples={wcls}"}"
  -- (e) API coverage: the same tracing with the options reached another way / through another `SchemaLike` implementor /
  --     with untouched defaults must repeat the result it stands beside (C08: the mapping depends on the option VALUES only,
  --     and `Default` holds the documented values)
  if let some api := (getStr j "api").toOption then
    tags := tags ++ [s!"api:{api}"]
    let withOw := (getBool j "api_with_overwrites").toOption.getD false
    let refTy := if withOw then getOpt j "impl_ow" else getOpt j "impl"
    let refSm := if withOw then getOpt j "impl_samples_ow" else getOpt j "impl_samples"
    for (key, ref) in [("impl_api", refTy), ("impl_samples_api", refSm)] do
      for e in ((getArr j key).toOption.getD #[]) do
        match e, ref with
        | .arr #[.str name, out], some r =>
          panics := panics || implCls out == "panic"
          if out != r && c08 then
            -- arrow2 has no place for some traced types only through marrow's conversion (an error there is a gap, not a difference)
            if name == "Vec<arrow2 Field>" && implCls out == "err" && implCls r == "ok" then tags := tags ++ ["api:arrow2-gap"]
            else
              c08 := false
              csig := s!"C08/api/{api}/{name}/{if key == "impl_api" then "from_type" else "from_samples"}/{implCls out}-vs-{implCls r}"
        | _, _ => pure ()
    if api == "defaults" then
      let d : Trace.Options := {}
      let want := Json.mkObj [("allow_null_fields", d.allow_null_fields), ("map_as_struct", d.map_as_struct),
        ("sequence_as_large_list", d.sequence_as_large_list), ("strings_as_large_utf8", d.string_as_large_utf8),
        ("string_dictionary_encoding", d.string_dictionary_encoding), ("coerce_numbers", d.coerce_numbers),
        ("allow_to_string", d.allow_to_string), ("guess_dates", d.guess_dates),
        ("enums_without_data_as_strings", d.enums_without_data_as_strings), ("from_type_budget", d.from_type_budget),
        ("overwrites_default", d.overwrites.isEmpty)]
      let df := (getObj j "default_fields").toOption.getD Json.null
      for k in ["default()", "new()"] do
        if (df.getObjVal? k).toOption != some want && c08 then
          c08 := false; csig := s!"C08/api/defaults/{k}/documented-values"
      if (df.getObjValAs? Bool "eq").toOption != some true && c08 then
        c08 := false; csig := "C08/api/defaults/new-vs-default"
      -- the case's own options must be the documented defaults, or the comparison above means nothing
      if o != d then agree := false; asig := "tracety/api/defaults/case-options"
  let c16 := if panics then "fail" else "pass"
  let sig := if !c08 then csig else if panics then "C16/panic/tracety" else asig
  return { agree, spec := [("C08", if c08 then "pass" else "fail"), ("C07", "na"), ("C06", "na"), ("C16", c16)], sig, tags,
           why := if !c08 then "from_type differs from the documented mapping / from_samples / overwrite rule" else if !agree then "model vs implementation" else "" }
where
  tyFieldsToList : TyFields → List (String × Ty)
    | .nil => []
    | .cons n t r => (n, t) :: tyFieldsToList r

end Driver.Suites.Tracety
