import Driver.ReadCheck
import SaModel.Spec.TouchRange
import SaModel.Spec.TouchEq
/-
`touchOK` — the run-time specification ingredient of the `corrupt` suite (C17): every slot a successful read of
target `t` at slot `i` of `a` has to visit lies below the length of the array it belongs to, and at a leaf what the
slot DESIGNATES lies inside the buffers the view has (`leafOK`: the offset pair inside the data buffer, a view descriptor
inline or inside a buffer that exists, a FixedSizeBinary row inside the data, the value slot of a dictionary key).  The definition is
the total model function `SaModel.Spec.touchOK` (lean/SaModel/Spec/TouchRange.lean), the one
`SaModel.Props.C17.readAs_touch_in_range` is about; this file only re-exports it for the driver.

`touchEq` — the footprint relation of `SaModel.Props.C17.untouched_ok` (lean/SaModel/Spec/TouchEq.lean): the corrupted
view agrees with the base view on what a read of target `t` at slot `i` looks at.  Re-exported the same way.
-/
namespace Driver

export SaModel.Spec (touchOK touchEq)

end Driver
