import Driver.ReadCheck
/-
`touchOK t a i` — C17's "never returns bytes or elements from outside the ranges the view itself designates",
as a predicate on (target type, view, slot) that is independent of the reader model: every slot a SUCCESSFUL read
of target `t` at slot `i` of `a` has to visit lies below the length of the array it belongs to (rows below the
declared length, list / map / fixed-size elements and union / dictionary references below the child's length).

It follows only what the target reads (a struct target visits the fields it names, a tuple the leading fields, an
`Option` / `any` target stops at a null slot), it does not look at validity-bitmap sizes, UTF-8 or view descriptors
(those are decided by `Spec.decodeAt`), and it accepts an empty element range wherever it lies (recorded known
finding `C17-empty-range-beyond-child`).  Used by the `corrupt` suite for reads that return `Ok` although
`Spec.decodeAt` rejects the slot: if `touchOK` is false the result can only have been assembled from outside the
designated ranges, whatever the uncorrupted view would have given.
-/
namespace Driver
open SaModel SaModel.Read SaModel.Spec

def validityOf : Arr → Option Bits
  | .boolean _ v _ | .prim _ v _ | .time _ _ v _ | .timestamp _ _ v _ | .decimal128 _ _ v _ => v
  | .bytes _ v _ _ | .bytesView _ v _ _ | .fixedSizeBinary _ v _ => v
  | .struct _ v _ | .list _ v _ _ _ | .fixedSizeList _ v _ _ _ | .map v _ _ _ _ => v
  | _ => none

/-- the bitmap marks slot `i` as null (an unreadable bitmap position counts as "not null": the read fails there) -/
def slotNull (a : Arr) (i : Nat) : Bool :=
  match a with
  | .null _ => true
  | .dictionary ks _ => (match isValid (validityOf ks) i with | .ok b => !b | .error _ => false)
  | a => (match isValid (validityOf a) i with | .ok b => !b | .error _ => false)

def stopsAtNull : Target → Bool
  | .any | .ignored | .option _ => true
  | _ => false

def tfieldNamed : TFields → String → Option Target
  | .nil, _ => none
  | .cons n t r, name => if n == name then some t else tfieldNamed r name

def targetsNth : Targets → Nat → Option Target
  | .nil, _ => none
  | .cons t _, 0 => some t
  | .cons _ r, k + 1 => targetsNth r k

def variantNamed : TVariants → String → Option VKind
  | .nil, _ => none
  | .cons n k r, name => if n == name then some k else variantNamed r name

def variantNth : TVariants → Nat → Option VKind
  | .nil, _ => none
  | .cons _ k _, 0 => some k
  | .cons _ _ r, i + 1 => variantNth r i

/-- target of the elements of a list-like column -/
def elemTarget (t : Target) (k : Nat) : Target :=
  match t with
  | .seq e => e
  | .tuple ts | .tupleStruct ts => (targetsNth ts k).getD .ignored
  | .any | .ignored => t
  | _ => .any

partial def touchOK : Target → Arr → Nat → Bool
  | .newtype t, a, i => touchOK t a i
  | t, a, i =>
    if i ≥ lenOf a then false
    else if stopsAtNull t && slotNull a i then true
    else
      let t := match t with | .option t' => t' | t => t
      match t with
      | .newtype t' => touchOK t' a i     -- `Option<Newtype<T>>`
      | .option _ => touchOK t a i
      | t =>
      let range (el : Arr) (s e : Int) (tgt : Nat → Target) : Bool :=
        if s == e then true
        else if 0 ≤ s ∧ s ≤ e ∧ e ≤ (lenOf el : Int) then
          (List.range (e.toNat - s.toNat)).all fun k => touchOK (tgt k) el (s.toNat + k)
        else false
      match a with
      | .struct _ _ fs =>
        (match t with
         | .struct tfs => fs.toList.all fun (fm, c) => match tfieldNamed tfs fm.name with | some tt => touchOK tt c i | none => true
         | .tuple ts | .tupleStruct ts =>
           (fs.toList.zip (List.range fs.toList.length)).all fun ((_, c), k) =>
             match targetsNth ts k with | some tt => touchOK tt c i | none => true
         | .map _ v => fs.toList.all fun (_, c) => touchOK v c i
         | .any | .ignored => fs.toList.all fun (_, c) => touchOK t c i
         | _ => true)
      | .list _ _ offs _ el =>
        if i + 1 < offs.length then range el (offs.getD i 0) (offs.getD (i + 1) 0) (elemTarget t) else false
      | .fixedSizeList _ _ n _ el =>
        if n < 0 then false else range el (i * n) ((i + 1) * n) (elemTarget t)
      | .map _ offs _ ks vs =>
        if i + 1 < offs.length then
          let (kt, vt) := match t with | .map k v => (k, v) | .any | .ignored => (t, t) | _ => (.any, .any)
          range ks (offs.getD i 0) (offs.getD (i + 1) 0) (fun _ => kt) &&
          range vs (offs.getD i 0) (offs.getD (i + 1) 0) (fun _ => vt)
        else false
      | .dictionary ks vs =>
        (match decodeAt ks i with
         | .ok (.int j) => 0 ≤ j && j.toNat < lenOf vs
         | _ => true)
      | .union types offs fs =>
        let tid := types.getD i 0
        (match indexOfTypeId (ArrUFields.ids fs) tid with
         | none => true            -- the read fails (or the column is not readable): nothing is returned
         | some pos =>
           match ArrUFields.child? fs pos, fs.toList[pos]? with
           | some child, some (_, fm, _) =>
             let j : Option Nat := match offs with
               | some o => if i < o.length ∧ 0 ≤ o.getD i (-1) then some (o.getD i 0).toNat else none
               | none => some i
             (match j with
              | none => false
              | some j =>
                let vt : Target := match t with
                  | .enum byIndex vs =>
                    (match (if byIndex then variantNth vs pos else variantNamed vs fm.name) with
                     | some (.newtype tt) => tt
                     | some (.tuple ts) => .tuple ts
                     | some (.struct tfs) => .struct tfs
                     | some .unit => .ignored
                     | none => .ignored)
                  | .any | .ignored => t
                  | _ => .any
                -- a unit variant / unknown variant still calls into the child reader at `j`
                if j ≥ lenOf child then false else touchOK vt child j)
           | _, _ => true)
      | _ => true

end Driver
