import Driver.Util
import SaModel.Trace.Spec
import SaModel.Trace.FromSamples
/- C06 on the real crate: the harness traced a schema from the samples, built arrays from the same samples
   with it (`to_marrow`) and read them back (`from_marrow` into a self-describing value).  `judge` evaluates the
   specification predicate `Spec.reproducesAll` and applies the three documented exclusions explicitly. -/
namespace Driver.Suites.Trace.Readback
open Lean Driver SaModel SaModel.Trace SaModel.Trace.Spec

partial def lvOfJson (j : Json) : Except String LV := do
  match j with
  | .null => pure .null
  | _ =>
    if let some b := getOpt j "b" then return .bool (← b.getBool?)
    if let some i := getOpt j "i" then return .int (← jsonInt? i)
    if let some f := getOpt j "f" then return .float (← jsonInt? f).toNat
    if let some s := getOpt j "s" then return .str (← s.getStr?)
    if let some y := getOpt j "y" then return .bytes (← unhex (← y.getStr?))
    if let some l := getOpt j "l" then return .list (← (← l.getArr?).toList.mapM lvOfJson)
    if let some m := getOpt j "m" then
      let es ← (← m.getArr?).toList.mapM fun e => do
        match (← e.getArr?).toList with
        | [k, v] => pure ((← lvOfJson k), (← lvOfJson v))
        | _ => throw "bad map entry"
      return .map es
    if let some v := getOpt j "v" then
      let name ← match (← lvOfJson v) with
        | .str s => pure s
        | _ => throw "variant name"
      return .variant name (← lvOfJson (← getObj j "c"))
    throw s!"unknown readback value {j.compress}"

mutual
partial def hasBigU64 : SVal → Bool
  | .int _ v => v > 9223372036854775807
  | .some v | .newtypeStruct _ v | .newtypeVariant _ _ _ v => hasBigU64 v
  | .seq xs | .tuple xs | .tupleStruct _ xs | .tupleVariant _ _ _ xs => xs.toList.any hasBigU64
  | .record _ fs | .structVariant _ _ _ fs => fs.toList.any fun (_, _, v) => hasBigU64 v
  | .map es => es.toList.any fun (k, v) => hasBigU64 k || hasBigU64 v
  | _ => false
end

mutual
partial def hasRaw : SVal → Bool
  | .mapRaw _ => true
  | .some v | .newtypeStruct _ v | .newtypeVariant _ _ _ v => hasRaw v
  | .seq xs | .tuple xs | .tupleStruct _ xs | .tupleVariant _ _ _ xs => xs.toList.any hasRaw
  | .record _ fs | .structVariant _ _ _ fs => fs.toList.any fun (_, _, v) => hasRaw v
  | .map es => es.toList.any fun (k, v) => hasRaw k || hasRaw v
  | _ => false
end

mutual
partial def hasDupKeys : SVal → Bool
  | .some v | .newtypeStruct _ v | .newtypeVariant _ _ _ v => hasDupKeys v
  | .seq xs | .tuple xs | .tupleStruct _ xs | .tupleVariant _ _ _ xs => xs.toList.any hasDupKeys
  | .record _ fs | .structVariant _ _ _ fs =>
    let keys := fs.toList.map (·.1)
    keys.eraseDups.length != keys.length || fs.toList.any fun (_, _, v) => hasDupKeys v
  | .map es =>
    let keys := es.toList.filterMap fun (k, _) => match k with | .str s => some s | _ => none
    keys.eraseDups.length != keys.length || es.toList.any fun (k, v) => hasDupKeys k || hasDupKeys v
  | _ => false
end

partial def hasKind (k : String) : SVal → Bool
  | .some v | .newtypeStruct _ v | .newtypeVariant _ _ _ v => v.kind == k || hasKind k v
  | .seq xs | .tuple xs | .tupleStruct _ xs | .tupleVariant _ _ _ xs => xs.toList.any fun v => v.kind == k || hasKind k v
  | .record _ fs | .structVariant _ _ _ fs => fs.toList.any fun (_, _, v) => v.kind == k || hasKind k v
  | .map es => es.toList.any fun (a, b) => a.kind == k || b.kind == k || hasKind k a || hasKind k b
  | v => v.kind == k

/-- tuples of different arity at one position is finding #25's input class; detected syntactically on the samples:
the multiset of tuple arities occurring in the collection -/
partial def tupleArities : SVal → List Nat
  | .some v | .newtypeStruct _ v | .newtypeVariant _ _ _ v => tupleArities v
  | .seq xs => xs.toList.flatMap tupleArities
  | .tuple xs | .tupleStruct _ xs | .tupleVariant _ _ _ xs => xs.length :: xs.toList.flatMap tupleArities
  | .record _ fs | .structVariant _ _ _ fs => fs.toList.flatMap fun (_, _, v) => tupleArities v
  | .map es => es.toList.flatMap fun (k, v) => tupleArities k ++ tupleArities v
  | _ => []

def annOf (err : Json) (key : String) : String :=
  match err.getObjVal? "ann" with
  | .ok (.arr a) =>
    match a.toList.find? (fun e => match e with | .arr kv => kv[0]? == some (Json.str key) | _ => false) with
    | some (.arr kv) => match kv[1]? with | some (Json.str s) => s | _ => ""
    | _ => ""
  | _ => ""

/-- constructor part of a `data_type` annotation such as `Struct(..)` -/
def ctorOfAnn (s : String) : String :=
  if s.startsWith "<unknown variant>" then "UnknownVariant" else (s.takeWhile (fun c => c.isAlphanum)).toString

/-- → (verdict for C06, signature when failing, tags) -/
def judge (o : Trace.Options) (j : Json) (raw : List SVal) (items : Bool) (implFields : Option (List Field)) :
    Except String (String × String × List String) := do
  let some fields := implFields | return ("na", "", [])
  let some c06 := getOpt j "c06" | return ("na", "", [])
  if raw.isEmpty then return ("na", "", [])
  -- documented exclusions, filtered explicitly
  if fields.any hasNullableUnion then return ("na", "", ["c06-excl:null-enum"])
  if o.coerce_numbers && raw.any hasBigU64 then return ("na", "", ["c06-excl:u64-above-i64"])
  if raw.any hasRaw then return ("na", "", ["c06-excl:raw-stream"])
  -- a record that names one field twice is a malformed stream (no derived `Serialize` emits it)
  if raw.any hasDupKeys then return ("na", "", ["c06-excl:duplicate-key"])
  let samples := if items then itemsOf raw else raw
  let to ← getObj c06 "to"
  let toCls := implCls to
  if toCls == "panic" then return ("fail", "C06/to_marrow/panic", ["c06"])
  if toCls != "ok" then
    let err ← getObj to "err"
    let ar := (raw.flatMap tupleArities).eraseDups
    let dt0 := ctorOfAnn (annOf err "data_type")
    let mech :=
      if dt0 == "UnknownVariant" then "unseen-first-variant-default"
      else if ar.length > 1 then "tuple-arity-varies"
      else if o.coerce_numbers && (dt0 == "Float64" || dt0 == "Float32") && raw.any (fun x => x.kind == "char" || hasKind "char" x) then "char-into-float"
      else if o.enums_without_data_as_strings && dt0 == "Dictionary" && raw.any (fun x => x.kind == "newtype_variant" || hasKind "newtype_variant" x) then
        "data-less-newtype-variant-as-string"
      else if o.allow_to_string && o.string_dictionary_encoding && dt0 == "Dictionary" then "to-string-into-dictionary"
      -- a unit struct is traced like `()` (null), but only `NullBuilder` implements `serialize_unit_struct`
      else if dt0 != "Null" && raw.any (fun x => x.kind == "unit_struct" || hasKind "unit_struct" x) then "unit-struct-into-value"
      else "other"
    -- sample strings that only look like dates (exclusion 2) fail inside the temporal builders
    let dt := ctorOfAnn (annOf err "data_type")
    if o.guess_dates && (dt == "Timestamp" || dt == "Date32" || dt == "Time64") then
      return ("na", "", ["c06-excl:looks-like-date"])
    return ("fail", s!"C06/to_marrow-rejects/{mech}/{dt}", ["c06"])
  let some back := getOpt c06 "back" | return ("fail", "C06/no-readback", ["c06"])
  let backCls := implCls back
  if backCls != "ok" then return ("fail", s!"C06/from_marrow-{backCls}", ["c06"])
  let rows ← (← (← getObj back "ok").getArr?).toList.mapM lvOfJson
  if reproducesAll fields samples rows then return ("pass", "", ["c06"])
  let ar := (raw.flatMap tupleArities).eraseDups
  let mech := if fields.isEmpty then "zero-columns" else if ar.length > 1 then "tuple-arity-varies" else "other"
  return ("fail", s!"C06/readback-differs/{mech}", ["c06"])

end Driver.Suites.Trace.Readback
