import Driver.Util
import Driver.ReadJson
import Driver.SValJson
import SaModel.Roundtrip.Bridge
/-
Wire form of the C04 type language (`SaModel.Roundtrip.Ty`), as written by hand beside every zoo type in
harness/src/zoo.rs (`trait Describe`):

  {"t": "bool" | "i8" … "u64" | "f32" | "f64" | "char" | "str" | "bytes" | "unit"}
  {"t": "str_ref" | "cow_str" | "bytes_ref" | "bytes_seq"}     the borrowed leaves `Prim.strRef` … `Prim.bytesSeq`
  {"t": "option" | "vec", "a": T}   {"t": "tuple", "a": [T…]}   {"t": "map", "k": T, "v": T}
  {"t": "struct", "n": name, "f": [[field, skipNone, T]…]}   {"t": "tuple_struct", "n": name, "a": [T…]}
  {"t": "newtype", "n": name, "a": T}   {"t": "unit_struct", "n": name}
  {"t": "enum", "n": name, "v": [{"n": variant, "k": "unit" | "newtype" | "tuple" | "struct", "a": …}…]}

The borrowed leaves are part of the type language (`&'de str`, `#[serde(borrow)] Cow<str>`, `&'de [u8]` with and without
serde_bytes — the latter ASYMMETRIC: `ser` issues a sequence of u8, `toTraceTy` / `toTarget` ask for bytes).  Legacy: a node
carrying `"target"` (a target override) or `"de"` (another Deserialize side; `rtyOfJson true` reads it) is a position the model
does NOT describe — no zoo type uses them any more, `hasTargetOverride` still tags such a case `outside-fragE`.

`valOfSVal t s`: the typed value whose serialization a recorded call stream is — the inverse of `Roundtrip.ser t`, type
directed (a field left out by `skip_serializing_if` is `None`).  Lenient: the caller checks `ser t v = s` and `wt t v`.
`targetToJson`: the descriptor language of harness/src/dynde.rs (inverse of `targetOfJson`).
-/
namespace Driver
open Lean SaModel SaModel.Roundtrip

def rprimOfStr : String → Option Prim
  | "bool" => some .bool | "f32" => some .f32 | "f64" => some .f64 | "char" => some .char | "str" => some .str
  | "bytes" => some .bytes
  | "str_ref" => some .strRef | "cow_str" => some .cowStr | "bytes_ref" => some .bytesRef | "bytes_seq" => some .bytesSeq
  | s => (intTyOfStr s).map .int

def tysOfList : List Ty → Tys
  | [] => .nil
  | t :: r => .cons t (tysOfList r)

def tfieldsOfList : List (String × Bool × Ty) → TFields
  | [] => .nil
  | (n, s, t) :: r => .cons n s t (tfieldsOfList r)

def variantsOfList : List (String × Variant) → Variants
  | [] => .nil
  | (n, v) :: r => .cons n v (variantsOfList r)

def valsOfList : List Val → Vals
  | [] => .nil
  | v :: r => .cons v (valsOfList r)

def ventriesOfList : List (Val × Val) → VEntries
  | [] => .nil
  | (k, v) :: r => .cons k v (ventriesOfList r)

partial def rtyOfJson (de : Bool) (j : Json) : Except String Ty := do
  if de then
    if let some d := getOpt j "de" then return ← rtyOfJson de d
  let rtyOfJson := rtyOfJson de
  let t ← getStr j "t"
  let name := (getStr j "n").toOption.getD ""
  let tys (a : Json) : Except String Tys := do pure (tysOfList (← (← a.getArr?).toList.mapM rtyOfJson))
  let fields (a : Json) : Except String TFields := do
    let fs ← (← a.getArr?).toList.mapM fun e => do
      match (← e.getArr?).toList with
      | [n, s, ty] => pure ((← n.getStr?), (← s.getBool?), (← rtyOfJson ty))
      | _ => throw "bad field description"
    pure (tfieldsOfList fs)
  match rprimOfStr t with
  | some p => pure (.prim p)
  | none =>
    match t with
    | "unit" => pure .unit
    | "option" => pure (.option (← rtyOfJson (← getObj j "a")))
    | "vec" => pure (.vec (← rtyOfJson (← getObj j "a")))
    | "tuple" => pure (.tuple (← tys (← getObj j "a")))
    | "map" => pure (.map (← rtyOfJson (← getObj j "k")) (← rtyOfJson (← getObj j "v")))
    | "struct" => pure (.struct name (← fields (← getObj j "f")))
    | "tuple_struct" => pure (.tupleStruct name (← tys (← getObj j "a")))
    | "newtype" => pure (.newtype name (← rtyOfJson (← getObj j "a")))
    | "unit_struct" => pure (.unitStruct name)
    | "enum" =>
      let vs ← (← getArr j "v").toList.mapM fun v => do
        let n ← getStr v "n"
        let k ← getStr v "k"
        let a := (getObj v "a").toOption.getD Json.null
        match k with
        | "unit" => pure (n, Variant.unit)
        | "newtype" => pure (n, Variant.newtype (← rtyOfJson a))
        | "tuple" => pure (n, Variant.tuple (← tys a))
        | "struct" => pure (n, Variant.struct (← fields a))
        | _ => throw s!"unknown variant kind {k}"
      pure (.enum name (variantsOfList vs))
    | _ => throw s!"unknown type tag {t}"

/-- does the description mark a borrowed position (`"target"` override) anywhere -/
partial def hasTargetOverride (j : Json) : Bool :=
  match j with
  | .obj kvs => kvs.foldl (fun acc k v => acc || k == "target" || hasTargetOverride v) false
  | .arr a => a.any hasTargetOverride
  | _ => false

/-! ### the typed value behind a recorded call stream -/

/-- the bytes behind a sequence of `serialize_u8` calls (`&[u8]` without serde_bytes) -/
def bytesOfU8Seq : List SVal → Option (List UInt8)
  | [] => some []
  | .int .u8 v :: r => if 0 ≤ v ∧ v ≤ 255 then (bytesOfU8Seq r).map (UInt8.ofNat v.toNat :: ·) else none
  | _ => none

mutual
partial def valOfSVal : Ty → SVal → Option Val
  | .prim .bool, .bool b => some (.bool b)
  | .prim (.int t), .int t' v => if t == t' then some (.int v) else none
  | .prim .f32, .f32 b => some (.f32 b)
  | .prim .f64, .f64 b => some (.f64 b)
  | .prim .char, .char c => some (.char c)
  | .prim .str, .str s => some (.str s)
  | .prim .bytes, .bytes b => some (.bytes b)
  | .prim .strRef, .str s => some (.str s)
  | .prim .cowStr, .str s => some (.str s)
  | .prim .bytesRef, .bytes b => some (.bytes b)
  | .prim .bytesSeq, .seq xs => (bytesOfU8Seq xs.toList).map .bytes
  | .unit, .unit => some .unit
  | .unitStruct _, .unitStruct _ => some .unit
  | .option _, .none => some .none
  | .option t, .some s => (valOfSVal t s).map .some
  | .vec t, .seq xs => (xs.toList.mapM (valOfSVal t)).map fun l => .vec (valsOfList l)
  | .tuple ts, .tuple xs => (valOfPos ts xs.toList).map .tuple
  | .tupleStruct _ ts, .tupleStruct _ xs => (valOfPos ts xs.toList).map .tuple
  | .struct _ fs, .record _ sfs => (valOfFields fs sfs.toList).map .struct
  | .newtype _ t, .newtypeStruct _ s => (valOfSVal t s).map .newtype
  | .enum _ vars, .unitVariant _ i _ =>
    match vars.get? i with
    | some (_, .unit) => some (.variant i .nil)
    | _ => none
  | .enum _ vars, .newtypeVariant _ i _ s =>
    match vars.get? i with
    | some (_, .newtype t) => (valOfSVal t s).map fun v => .variant i (.cons v .nil)
    | _ => none
  | .enum _ vars, .tupleVariant _ i _ xs =>
    match vars.get? i with
    | some (_, .tuple ts) => (valOfPos ts xs.toList).map (.variant i)
    | _ => none
  | .enum _ vars, .structVariant _ i _ sfs =>
    match vars.get? i with
    | some (_, .struct fs) => (valOfFields fs sfs.toList).map (.variant i)
    | _ => none
  | .map k v, .map es =>
    (es.toList.mapM fun (a, b) => do pure ((← valOfSVal k a), (← valOfSVal v b))).map fun l => .map (ventriesOfList l)
  | _, _ => none

partial def valOfPos : Tys → List SVal → Option Vals
  | .nil, [] => some .nil
  | .cons t ts, x :: xs => do
    let v ← valOfSVal t x
    let r ← valOfPos ts xs
    pure (.cons v r)
  | _, _ => none

/-- fields in declaration order; a field that is absent from the stream and carries `skip_serializing_if` was `None` -/
partial def valOfFields : TFields → List (String × Nat × SVal) → Option Vals
  | .nil, [] => some .nil
  | .nil, _ :: _ => none
  | .cons n skip t rest, sfs =>
    match sfs with
    | (n', _, s) :: more =>
      if n' == n then do
        let v ← valOfSVal t s
        let r ← valOfFields rest more
        pure (.cons v r)
      else if skip then (valOfFields rest sfs).map (.cons .none)
      else none
    | [] => if skip then (valOfFields rest []).map (.cons .none) else none
end

/-! ### targets in dynde's descriptor language -/

mutual
partial def targetToJson : Read.Target → Json
  | .any => "any" | .ignored => "ignored" | .unit => "unit" | .unitStruct => "unit_struct" | .bool => "bool"
  | .int ty => Json.str ty.name | .f32 => "f32" | .f64 => "f64" | .char => "char" | .string => "string" | .str => "str"
  | .bytes => "bytes" | .byteBuf => "byte_buf"
  | .option t => Json.mkObj [("option", targetToJson t)]
  | .newtype t => Json.mkObj [("newtype", targetToJson t)]
  | .seq t => Json.mkObj [("seq", targetToJson t)]
  | .tuple ts => Json.mkObj [("tuple", targetsToJson ts)]
  | .tupleStruct ts => Json.mkObj [("tuple_struct", targetsToJson ts)]
  | .map k v => Json.mkObj [("map", Json.arr #[targetToJson k, targetToJson v])]
  | .struct fs => Json.mkObj [("struct", tfieldsToJson fs)]
  | .enum false vs => Json.mkObj [("enum", tvariantsToJson vs)]
  | .enum true vs => Json.mkObj [("enum_idx", tvariantsToJson vs)]
partial def targetsToJson : Read.Targets → Json
  | ts => Json.arr (go ts).toArray
where go : Read.Targets → List Json
  | .nil => []
  | .cons t r => targetToJson t :: go r
partial def tfieldsToJson : Read.TFields → Json
  | fs => Json.arr (go fs).toArray
where go : Read.TFields → List Json
  | .nil => []
  | .cons n t r => Json.arr #[Json.str n, targetToJson t] :: go r
partial def tvariantsToJson : Read.TVariants → Json
  | vs => Json.arr (go vs).toArray
where go : Read.TVariants → List Json
  | .nil => []
  | .cons n k r =>
    let kj : Json := match k with
      | .unit => "unit"
      | .newtype t => Json.mkObj [("newtype", targetToJson t)]
      | .tuple ts => Json.mkObj [("tuple", targetsToJson ts)]
      | .struct fs => Json.mkObj [("struct", tfieldsToJson fs)]
    Json.arr #[Json.str n, kj] :: go r
end

end Driver
