import Lean.Data.Json
/-
Shared helpers of the correspondence driver `sadrv`.
A handler maps one case line (JSON) to one verdict:
  agree : the model (the definitions the theorems are about) reproduces what the implementation did
  spec  : per property id, does the implementation's output satisfy the specification predicate
  sig   : deterministic signature of a failure (used for known-finding matching, never seeds/messages)
-/
namespace Driver
open Lean

structure Verdict where
  agree : Bool := true
  spec : List (String × String) := []     -- property id ↦ pass | fail | na
  sig : String := ""
  tags : List String := []
  why : String := ""
deriving Inhabited

def Verdict.toJson (id : String) (v : Verdict) : Json :=
  Json.mkObj [
    ("id", id), ("agree", v.agree),
    ("spec", Json.mkObj (v.spec.map fun (k, x) => (k, Json.str x))),
    ("sig", v.sig), ("tags", Json.arr (v.tags.map Json.str).toArray), ("why", v.why)]

def getStr (j : Json) (k : String) : Except String String := j.getObjValAs? String k
def getNat (j : Json) (k : String) : Except String Nat := j.getObjValAs? Nat k
def getInt (j : Json) (k : String) : Except String Int := j.getObjValAs? Int k
def getBool (j : Json) (k : String) : Except String Bool := j.getObjValAs? Bool k
def getArr (j : Json) (k : String) : Except String (Array Json) := do
  let v ← j.getObjVal? k
  v.getArr?
def getObj (j : Json) (k : String) : Except String Json := j.getObjVal? k
def getOpt (j : Json) (k : String) : Option Json :=
  match j.getObjVal? k with
  | .ok .null => none
  | .ok v => some v
  | .error _ => none

/-- integers travel as JSON numbers when they fit i64, else as decimal strings -/
def jsonInt? (j : Json) : Except String Int :=
  match j with
  | .str s => match s.toInt? with
    | some v => .ok v
    | none => .error s!"not an integer: {s}"
  | _ => j.getInt?

def getBigInt (j : Json) (k : String) : Except String Int := do
  jsonInt? (← j.getObjVal? k)

/-- outcome class of an implementation outcome object `{"ok":..}|{"err":..}|{"panic":..}|{"hang":..}` -/
def implCls (j : Json) : String :=
  if (j.getObjVal? "ok").isOk then "ok"
  else if (j.getObjVal? "err").isOk then "err"
  else if (j.getObjVal? "panic").isOk then "panic"
  else if (j.getObjVal? "hang").isOk then "hang"
  else "?"

/-- API coverage of `serde_arrow::Error`: an error object written by `outcome::run_sa` carries, beside the message and
annotations PARSED from the Display text (`msg`, `ann`), the accessor view `acc` of the same error.  The accessors agree
when `message()` is the parsed message, Display is `Error: ` + message (+ ` (annotations)`), Debug repeats the Display
text and continues on a new line (the backtrace note), and a wrapped cause (`source()`) is the one quoted at the end of the
message.  Returns the aspect that disagrees. -/
def accessorsDisagree (err : Json) : Option String :=
  match err.getObjVal? "acc" with
  | .error _ => none
  | .ok acc =>
    let str (o : Json) (k : String) : String := (o.getObjValAs? String k).toOption.getD "\u0000<absent>"
    let msg := str err "msg"
    let message := str acc "message"
    let display := str acc "display"
    let debug := str acc "debug"
    let hasAnn := match err.getObjVal? "ann" with | .ok (.arr a) => !a.isEmpty | _ => false
    if message != msg then some "message"
    else if !(display.startsWith ("Error: " ++ message)) then some "display-prefix"
    else if !hasAnn && display != "Error: " ++ message then some "display"
    else if hasAnn && !(display.startsWith ("Error: " ++ message ++ " (") && display.endsWith ")") then some "display-annotations"
    else if !(debug.startsWith (display ++ "\n")) then some "debug"
    else match acc.getObjValAs? String "source" with
      | .ok src => if message.endsWith src then none else some "source"   -- the crate's own conversions (`From<..> for Error`) quote the cause at the end of the message
      | .error _ => none

def hexDigit (c : Char) : Option Nat :=
  if '0' ≤ c ∧ c ≤ '9' then some (c.toNat - '0'.toNat)
  else if 'a' ≤ c ∧ c ≤ 'f' then some (c.toNat - 'a'.toNat + 10)
  else if 'A' ≤ c ∧ c ≤ 'F' then some (c.toNat - 'A'.toNat + 10)
  else none

def unhex (s : String) : Except String (List UInt8) :=
  let rec go : List Char → List UInt8 → Except String (List UInt8)
    | [], acc => .ok acc.reverse
    | [_], _ => .error "odd hex length"
    | a :: b :: rest, acc =>
      match hexDigit a, hexDigit b with
      | some x, some y => go rest (UInt8.ofNat (x * 16 + y) :: acc)
      | _, _ => .error "bad hex digit"
  go s.toList []

end Driver
