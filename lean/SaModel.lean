import SaModel.Basic.Outcome
import SaModel.Read.Access
