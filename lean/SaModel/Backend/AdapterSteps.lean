import SaModel.Backend.History
/-
The BODIES of the adapter methods as step lists, and what a step list means.

`translator/adapter_bodies.py` reads `marrow_impl.rs`, `arrow_impl.rs`, `arrow2_impl.rs` statement by statement and writes,
for the four `&mut self` finishers of `ArrayBuilder` and the four reader constructors of `Deserializer` (plus the helper
`fields_from_field_refs`), the list of statements it recognised (`SaModel/Generated/AdapterBodies.lean`); it refuses every
statement of another shape.  This file holds, hand written:

  * the vocabulary (`FStep`, `RStep`): one constructor per statement shape that occurs in those bodies;
  * the interpreters (`interpF`, `interpR`, …): what a list of such statements does to a builder / to the arguments of a
    reader, over the same abstract `Core` / `Conv` as `Adapters.lean`;
  * the step lists the hand-written model corresponds to (`Steps.*`).

`Props/C19Gen.lean` proves that the interpreters map `Steps.*` to the model functions (`ArrayBuilder.to…S`,
`Deserializer.from…`) for every core and conversion, and — by `decide` — that the regenerated lists ARE `Steps.*`, that
the finishers take `&mut self`, and that the only mention of `self.schema` in the adapter files and in `internal/array_builder.rs` is the shared borrow in
`to_record_batch`.  A body that moves the schema out of the builder, drops the count check of a reader or walks
`fields.iter().zip(arrays)` is either refused by the translator or breaks a `decide`, before any case runs.
-/
namespace SaModel.Backend
open SaModel

/-! ### vocabulary -/

/-- a statement of a finisher body (`&mut self` methods of `ArrayBuilder`) -/
inductive FStep where
  /-- `self.build_arrays()` followed by `?` (or as the tail expression: the same `Result`) -/
  | selfBuildArrays
  /-- `.into_iter().map(<target>::try_from).collect::<Result<_, MarrowError>>()?` on the arrays just built -/
  | convertEach (target : String)
  /-- `let arrays = self.to_arrow()?;` -/
  | selfToArrow
  /-- `let fields = Vec::<FieldRef>::try_from(&self.schema)?;` — a SHARED borrow of the builder's schema -/
  | fieldRefsOfSelfSchema
  /-- `let schema = Schema::new(fields);` (no schema-level metadata) -/
  | schemaNew
  /-- `RecordBatch::try_new(Arc::new(schema), arrays).map_err(|err| Error::custom_from(err.to_string(), err))` -/
  | recordBatchTryNew
deriving Repr, BEq, DecidableEq

/-- a statement of a reader constructor body (`Deserializer::from_*`, `fields_from_field_refs`) -/
inductive RStep where
  /-- `if fields.len() != arrays.len() { fail!(<format>, fields.len(), arrays.len()); }` -/
  | checkCounts (format : String)
  /-- `let fields = fields_from_field_refs(fields)?;` -/
  | fieldsFromFieldRefs
  /-- `fields.iter().map(Field::try_from)` (or `|field| Field::try_from(field.as_ref())`) `.collect::<Result<..>>()?`:
  field by field, in order, the first error wins -/
  | fieldsEach
  /-- `View::try_from(array.as_ref())?` for every array in order (a `for` loop pushing onto a fresh `Vec`, or the
  iterator form collected into `Result<Vec<_>, MarrowError>`) -/
  | viewsEach
  /-- `Deserializer::new(&fields, views)` on the converted locals -/
  | deserializerNew
  /-- `Self::new(fields, views.to_vec())` on the parameters themselves (marrow) -/
  | deserializerNewOfParams
  /-- `let schema = record_batch.schema();` -/
  | batchSchema
  /-- `Deserializer::from_arrow(schema.fields(), record_batch.columns())` -/
  | fromArrowOfBatchParts
deriving Repr, BEq, DecidableEq

section
variable {OB Items D Out AF AA : Type}

/-! ### finishers -/

/-- intermediate values of a finisher body -/
inductive FVal (AF AA : Type) where
  | marrow (arrays : List Arr)
  | arrays (arrays : List AA)
  | fields (fields : List AF)
  | schema (fields : List AF)
  | batch (batch : RecordBatch AF AA)

def illFormed {α} : R α := panic "ill-formed body"

/-- one statement: the (outer) failure of `build_arrays`, else the value stack (`.error`: the method has returned
through `?`) and `*self` afterwards -/
def stepF (core : Core OB Items D Out) (cv : Conv AF AA) (validate : List AF → List AA → R Unit)
    (s : FStep) (self : ArrayBuilder OB) (stack : List (FVal AF AA)) : R (R (List (FVal AF AA)) × ArrayBuilder OB) :=
  match s, stack with
  | .selfBuildArrays, stack => do
    let (arrays, self) ← self.buildArrays core
    pure (.ok (.marrow arrays :: stack), self)
  | .convertEach _, .marrow arrays :: stack =>
    .ok ((arrays.mapM cv.arrayOfMarrow).map (.arrays · :: stack), self)
  | .selfToArrow, stack => do
    let (r, self) ← self.toArrowS core cv
    pure (r.map (.arrays · :: stack), self)
  | .fieldRefsOfSelfSchema, stack =>
    .ok ((fieldRefsOfSchema cv self.schema).map (.fields · :: stack), self)
  | .schemaNew, .fields fields :: stack => .ok (.ok (.schema fields :: stack), self)
  | .recordBatchTryNew, .schema fields :: .arrays arrays :: stack =>
    .ok ((RecordBatch.tryNew validate fields arrays).map (.batch · :: stack), self)
  | _, _ => .ok (illFormed, self)

/-- a body: statement by statement; once a `?` has returned nothing else runs -/
def interpF (core : Core OB Items D Out) (cv : Conv AF AA) (validate : List AF → List AA → R Unit) :
    List FStep → ArrayBuilder OB → R (List (FVal AF AA)) → R (R (List (FVal AF AA)) × ArrayBuilder OB)
  | [], self, st => .ok (st, self)
  | _ :: _, self, .error e => .ok (.error e, self)
  | s :: rest, self, .ok stack => do
    let (st, self) ← stepF core cv validate s self stack
    interpF core cv validate rest self st

def FVal.marrow? : R (List (FVal AF AA)) → R (List Arr)
  | .ok [.marrow a] => .ok a
  | .ok _ => illFormed
  | .error e => .error e

def FVal.arrays? : R (List (FVal AF AA)) → R (List AA)
  | .ok [.arrays a] => .ok a
  | .ok _ => illFormed
  | .error e => .error e

def FVal.batch? : R (List (FVal AF AA)) → R (RecordBatch AF AA)
  | .ok [.batch b] => .ok b
  | .ok _ => illFormed
  | .error e => .error e

/-- a finisher body run on a builder: the method's result and `*self` afterwards -/
def runF {α} (core : Core OB Items D Out) (cv : Conv AF AA) (validate : List AF → List AA → R Unit)
    (result : R (List (FVal AF AA)) → R α) (body : List FStep) (self : ArrayBuilder OB) : R (R α × ArrayBuilder OB) :=
  (interpF core cv validate body self (.ok [])).map fun p => (result p.1, p.2)

/-! ### readers -/

/-- the parameters and the (shadowing) locals of a reader constructor -/
structure RState (AF AA : Type) where
  afs : List AF
  as : List AA
  fields : Option (List Field) := none
  views : Option (List Arr) := none

/-- `Deserializer::from_arrow` / `from_arrow2` -/
def interpR (core : Core OB Items D Out) (cv : Conv AF AA) : List RStep → RState AF AA → R D
  | .checkCounts _ :: rest, st =>
    if st.afs.length != st.as.length then countMismatch st.afs.length st.as.length else interpR core cv rest st
  | .fieldsFromFieldRefs :: rest, st => do
    let fields ← fieldsFromFieldRefs cv st.afs
    interpR core cv rest { st with fields := some fields }
  | .fieldsEach :: rest, st => do
    let fields ← st.afs.mapM cv.fieldToMarrow
    interpR core cv rest { st with fields := some fields }
  | .viewsEach :: rest, st => do
    let views ← st.as.mapM cv.viewOf
    interpR core cv rest { st with views := some views }
  | [.deserializerNew], st =>
    match st.fields, st.views with
    | some fields, some views => core.deserializerNew fields views
    | _, _ => illFormed
  | _, _ => illFormed

/-- `fields_from_field_refs` -/
def interpFields (cv : Conv AF AA) : List RStep → List AF → R (List Field)
  | [.fieldsEach], afs => afs.mapM cv.fieldToMarrow
  | _, _ => illFormed

/-- `Deserializer::from_record_batch`: the batch's own parts handed to (the body of) `from_arrow` -/
def interpRBatch (core : Core OB Items D Out) (cv : Conv AF AA) (fromArrowBody : List RStep) :
    List RStep → RecordBatch AF AA → R D
  | [.batchSchema, .fromArrowOfBatchParts], batch => interpR core cv fromArrowBody { afs := batch.fields, as := batch.columns }
  | _, _ => illFormed

/-- `Deserializer::from_marrow` -/
def interpRMarrow (core : Core OB Items D Out) : List RStep → List Field → List Arr → R D
  | [.deserializerNewOfParams], fields, views => core.deserializerNew fields views
  | _, _, _ => illFormed

end

/-! ### the step lists of the hand-written model (`Adapters.lean`, `History.lean`) -/

namespace Steps

def COUNT_FORMAT : String := "different number of fields ({}) and arrays ({})"

def toMarrow : List FStep := [.selfBuildArrays]
def toArrow : List FStep := [.selfBuildArrays, .convertEach "ArrayRef"]
def toArrow2 : List FStep := [.selfBuildArrays, .convertEach "Box<dyn Array>"]
def toRecordBatch : List FStep := [.selfToArrow, .fieldRefsOfSelfSchema, .schemaNew, .recordBatchTryNew]

def fromMarrow : List RStep := [.deserializerNewOfParams]
def fromArrow : List RStep := [.checkCounts COUNT_FORMAT, .fieldsFromFieldRefs, .viewsEach, .deserializerNew]
def fromRecordBatch : List RStep := [.batchSchema, .fromArrowOfBatchParts]
def fromArrow2 : List RStep := [.checkCounts COUNT_FORMAT, .fieldsEach, .viewsEach, .deserializerNew]
def fieldsFromFieldRefs : List RStep := [.fieldsEach]

/-- receivers of the four finishers -/
def finisherReceivers : List (String × String) :=
  [("to_marrow", "&mut self"), ("to_arrow", "&mut self"), ("to_record_batch", "&mut self"), ("to_arrow2", "&mut self")]

/-- every mention of `self.schema` in the three adapter files and in `internal/array_builder.rs` (where the field is
only initialised, in `new`): (file, function, how it is used) -/
def selfSchemaUses : List (String × String × String) := [("arrow_impl.rs", "to_record_batch", "&self.schema")]

end Steps

end SaModel.Backend
