import SaModel.Basic.Outcome
import SaModel.Data.Arr
/-
Model of the array back ends of serde_arrow: `marrow_impl.rs`, `arrow_impl.rs`, `arrow2_impl.rs` and the
version selection of `build.rs` / `lib.rs`, function by function.

What these files do themselves is small: convert the caller's fields to marrow fields, run the back-end
independent core (`ArrayBuilder`, `Serializer`, `Deserializer` in `internal/`), convert marrow arrays to the
back end's arrays (or the back end's arrays to marrow views), make two count checks and assemble a record
batch.  Everything else is somebody else's code and enters this model as a PARAMETER (never as an axiom):

  `Core`   the back-end independent part of the crate (modelled in SaModel/Build, SaModel/Read; any other
           implementation may be plugged in — the theorems hold for all of them);
  `Conv`   marrow's conversions for one back end (`TryFrom` impls in marrow::impl_arrow / impl_arrow2);
  `validate`  arrow's `RecordBatch::try_new` checks.

`Props/C19.lean` proves what follows from this structure for every choice of the parameters; the `backend`
suite runs the same definitions with "conversion = identity on the wire form" against the real crate, which
is at the same time the validation of the hypotheses about `Conv` used in the theorems.
-/
namespace SaModel.Backend
open SaModel

/-! ### parameters -/

/-- the back-end independent core: `internal::{serialization::OuterSequenceBuilder, serializer, deserializer}` -/
structure Core (OB Items D Out : Type) where
  /-- `OuterSequenceBuilder::new(&schema)` -/
  newOuter : List Field → R OB
  /-- `items.serialize(Serializer::new(builder))?.into_inner()` (what it does to the wrapped builder) -/
  serialize : OB → Items → R OB
  /-- `take_records()?` + `into_array()?` per column: the arrays and the (reset) builder left behind -/
  takeArrays : OB → R (List Arr × OB)
  /-- `Deserializer::new(fields, views)` -/
  deserializerNew : List Field → List Arr → R D
  /-- `T::deserialize(deserializer)` -/
  deserialize : D → R Out

/-- marrow's conversions for one back end with field type `AF` and array type `AA`
(`arrow_schema::Field` / `Arc<dyn arrow_array::Array>`, `arrow2::datatypes::Field` / `Box<dyn arrow2::array::Array>`) -/
structure Conv (AF AA : Type) where
  /-- `marrow::datatypes::Field::try_from(&AF)` -/
  fieldToMarrow : AF → R Field
  /-- `AF::try_from(&marrow::datatypes::Field)` -/
  fieldOfMarrow : Field → R AF
  /-- `AA::try_from(marrow::array::Array)` -/
  arrayOfMarrow : Arr → R AA
  /-- `marrow::view::View::try_from(&dyn Array)` -/
  viewOf : AA → R Arr

/-- marrow seen as a back end of itself: every conversion is the identity -/
def Conv.id : Conv Field Arr where
  fieldToMarrow := pure
  fieldOfMarrow := pure
  arrayOfMarrow := pure
  viewOf := pure

/-! ### `internal/array_builder.rs` (the part the adapters use) -/

/-- `ArrayBuilder { builder, schema }`: the schema is stored at construction and never written again -/
structure ArrayBuilder (OB : Type) where
  builder : OB
  schema : List Field

section
variable {OB Items D Out AF AA : Type}

/-- `ArrayBuilder::new(schema)` -/
def ArrayBuilder.new (core : Core OB Items D Out) (schema : List Field) : R (ArrayBuilder OB) := do
  let builder ← core.newOuter schema
  pure { builder, schema }

/-- `ArrayBuilder::build_arrays(&mut self)`; the second component is `self` afterwards -/
def ArrayBuilder.buildArrays (core : Core OB Items D Out) (self : ArrayBuilder OB) : R (List Arr × ArrayBuilder OB) := do
  let (arrays, builder) ← core.takeArrays self.builder
  pure (arrays, { self with builder })

/-- `items.serialize(Serializer::new(builder))?.into_inner()` -/
def serializeInto (core : Core OB Items D Out) (self : ArrayBuilder OB) (items : Items) : R (ArrayBuilder OB) := do
  let builder ← core.serialize self.builder items
  pure { self with builder }

/-! ### `marrow_impl.rs` -/

/-- `ArrayBuilder::from_marrow(fields)` -/
def ArrayBuilder.fromMarrow (core : Core OB Items D Out) (fields : List Field) : R (ArrayBuilder OB) :=
  ArrayBuilder.new core fields

/-- `ArrayBuilder::to_marrow(&mut self)` -/
def ArrayBuilder.toMarrow (core : Core OB Items D Out) (self : ArrayBuilder OB) : R (List Arr × ArrayBuilder OB) :=
  self.buildArrays core

/-- `to_marrow(fields, items)` -/
def toMarrow (core : Core OB Items D Out) (fields : List Field) (items : Items) : R (List Arr) := do
  let builder ← ArrayBuilder.fromMarrow core fields
  let builder ← serializeInto core builder items
  let (arrays, _) ← builder.toMarrow core
  pure arrays

/-- `Deserializer::from_marrow(fields, views)` -/
def Deserializer.fromMarrow (core : Core OB Items D Out) (fields : List Field) (views : List Arr) : R D :=
  core.deserializerNew fields views

/-- `from_marrow(fields, views)` -/
def fromMarrow (core : Core OB Items D Out) (fields : List Field) (views : List Arr) : R Out := do
  let d ← Deserializer.fromMarrow core fields views
  core.deserialize d

/-! ### `arrow_impl.rs` -/

/-- `fields_from_field_refs` (also `SerdeArrowSchema::try_from(&[FieldRef])`): field by field, the first
conversion error wins -/
def fieldsFromFieldRefs (cv : Conv AF AA) (fields : List AF) : R (List Field) :=
  fields.mapM cv.fieldToMarrow

/-- `Vec::<FieldRef>::try_from(&SerdeArrowSchema)` -/
def fieldRefsOfSchema (cv : Conv AF AA) (schema : List Field) : R (List AF) :=
  schema.mapM cv.fieldOfMarrow

/-- `ArrayBuilder::from_arrow(fields)` -/
def ArrayBuilder.fromArrow (core : Core OB Items D Out) (cv : Conv AF AA) (fields : List AF) : R (ArrayBuilder OB) := do
  let fields ← fieldsFromFieldRefs cv fields
  ArrayBuilder.new core fields

/-- `ArrayBuilder::to_arrow(&mut self)`: build, then convert array by array (the builder has been reset when a
conversion fails) -/
def ArrayBuilder.toArrow (core : Core OB Items D Out) (cv : Conv AF AA) (self : ArrayBuilder OB) :
    R (List AA × ArrayBuilder OB) := do
  let (arrays, self) ← self.buildArrays core
  let arrays ← arrays.mapM cv.arrayOfMarrow
  pure (arrays, self)

/-- `arrow_array::RecordBatch` as far as the crate looks at it: `Schema { fields, metadata }` and the columns -/
structure RecordBatch (AF AA : Type) where
  fields : List AF
  schemaMetadata : Metadata
  columns : List AA

/-- `RecordBatch::try_new(Arc::new(Schema::new(fields)), arrays)`: arrow's own checks (`validate`: column count,
one length, data types, nullability) and then exactly the given parts; `Schema::new` has empty metadata -/
def RecordBatch.tryNew (validate : List AF → List AA → R Unit) (fields : List AF) (arrays : List AA) :
    R (RecordBatch AF AA) := do
  validate fields arrays
  pure { fields, schemaMetadata := [], columns := arrays }

/-- `ArrayBuilder::to_record_batch(&mut self)`: the arrays first, then the fields of the builder's OWN schema -/
def ArrayBuilder.toRecordBatch (core : Core OB Items D Out) (cv : Conv AF AA) (validate : List AF → List AA → R Unit)
    (self : ArrayBuilder OB) : R (RecordBatch AF AA × ArrayBuilder OB) := do
  let (arrays, self) ← self.toArrow core cv
  let fields ← fieldRefsOfSchema cv self.schema
  let batch ← RecordBatch.tryNew validate fields arrays
  pure (batch, self)

/-- `to_arrow(fields, items)` -/
def toArrow (core : Core OB Items D Out) (cv : Conv AF AA) (fields : List AF) (items : Items) : R (List AA) := do
  let builder ← ArrayBuilder.fromArrow core cv fields
  let builder ← serializeInto core builder items
  let (arrays, _) ← builder.toArrow core cv
  pure arrays

/-- `to_record_batch(fields, items)` -/
def toRecordBatch (core : Core OB Items D Out) (cv : Conv AF AA) (validate : List AF → List AA → R Unit)
    (fields : List AF) (items : Items) : R (RecordBatch AF AA) := do
  let builder ← ArrayBuilder.fromArrow core cv fields
  let builder ← serializeInto core builder items
  let (batch, _) ← builder.toRecordBatch core cv validate
  pure batch

def countMismatch {α} (nfields narrays : Nat) : R α :=
  fail s!"different number of fields ({nfields}) and arrays ({narrays})"

/-- `Deserializer::from_arrow(fields, arrays)`: count check, fields, then views (array by array) -/
def Deserializer.fromArrow (core : Core OB Items D Out) (cv : Conv AF AA) (fields : List AF) (arrays : List AA) : R D := do
  if fields.length != arrays.length then countMismatch fields.length arrays.length else
  let fields ← fieldsFromFieldRefs cv fields
  let views ← arrays.mapM cv.viewOf
  core.deserializerNew fields views

/-- `Deserializer::from_record_batch(record_batch)`: nothing but the batch's own schema and columns -/
def Deserializer.fromRecordBatch (core : Core OB Items D Out) (cv : Conv AF AA) (batch : RecordBatch AF AA) : R D :=
  Deserializer.fromArrow core cv batch.fields batch.columns

/-- `from_arrow(fields, arrays)` -/
def fromArrow (core : Core OB Items D Out) (cv : Conv AF AA) (fields : List AF) (arrays : List AA) : R Out := do
  let d ← Deserializer.fromArrow core cv fields arrays
  core.deserialize d

/-- `from_record_batch(record_batch)` -/
def fromRecordBatch (core : Core OB Items D Out) (cv : Conv AF AA) (batch : RecordBatch AF AA) : R Out := do
  let d ← Deserializer.fromRecordBatch core cv batch
  core.deserialize d

/-! ### `arrow2_impl.rs` (same shape, its own copy of the code) -/

/-- `SerdeArrowSchema::try_from(&[arrow2::datatypes::Field])` -/
def schemaOfArrow2Fields (cv : Conv AF AA) (fields : List AF) : R (List Field) :=
  fields.mapM cv.fieldToMarrow

/-- `ArrayBuilder::from_arrow2(fields)` -/
def ArrayBuilder.fromArrow2 (core : Core OB Items D Out) (cv : Conv AF AA) (fields : List AF) : R (ArrayBuilder OB) := do
  let schema ← schemaOfArrow2Fields cv fields
  ArrayBuilder.new core schema

/-- `ArrayBuilder::to_arrow2(&mut self)` -/
def ArrayBuilder.toArrow2 (core : Core OB Items D Out) (cv : Conv AF AA) (self : ArrayBuilder OB) :
    R (List AA × ArrayBuilder OB) := do
  let (arrays, self) ← self.buildArrays core
  let arrays ← arrays.mapM cv.arrayOfMarrow
  pure (arrays, self)

/-- `to_arrow2(fields, items)` -/
def toArrow2 (core : Core OB Items D Out) (cv : Conv AF AA) (fields : List AF) (items : Items) : R (List AA) := do
  let builder ← ArrayBuilder.fromArrow2 core cv fields
  let builder ← serializeInto core builder items
  let (arrays, _) ← builder.toArrow2 core cv
  pure arrays

/-- `Deserializer::from_arrow2(fields, arrays)` -/
def Deserializer.fromArrow2 (core : Core OB Items D Out) (cv : Conv AF AA) (fields : List AF) (arrays : List AA) : R D := do
  if fields.length != arrays.length then countMismatch fields.length arrays.length else
  let fields ← fields.mapM cv.fieldToMarrow
  let views ← arrays.mapM cv.viewOf
  core.deserializerNew fields views

/-- `from_arrow2(fields, arrays)` -/
def fromArrow2 (core : Core OB Items D Out) (cv : Conv AF AA) (fields : List AF) (arrays : List AA) : R Out := do
  let deserializer ← Deserializer.fromArrow2 core cv fields arrays
  core.deserialize deserializer

/-! ### the count checks of the reader constructors

`Deserializer::from_arrow` and `Deserializer::from_arrow2` compare `fields.len()` with `arrays.len()` BEFORE anything
else (above: the first statement; no field or array has been converted yet, so this error wins over every conversion
error); `from_record_batch` passes the batch's own fields and columns to `from_arrow`; `from_marrow` has no check of
its own and relies on the one `Deserializer::new` starts with (deserializer.rs; modelled with the rest of that
constructor in `SaModel/Read/Access.lean`, `Access.new true`).  For an abstract core that check is a property: -/

/-- the core's `Deserializer::new` refuses a different number of fields and views with an error (not a panic) -/
def Core.RefusesCounts (core : Core OB Items D Out) : Prop :=
  ∀ (fields : List Field) (views : List Arr), fields.length ≠ views.length →
    ∃ msg, core.deserializerNew fields views = .error (.err msg)

/-- `Deserializer::new(fields, views)`: its count check in front of the rest of the constructor -/
def deserializerNewCounted (rest : List Field → List Arr → R D) (fields : List Field) (views : List Arr) : R D :=
  if fields.length != views.length then
    fail s!"Cannot deserialize: the number of fields ({fields.length}) does not match the number of arrays ({views.length})"
  else rest fields views

/-- a core whose `Deserializer::new` starts with the count check -/
def Core.counted (core : Core OB Items D Out) : Core OB Items D Out :=
  { core with deserializerNew := deserializerNewCounted core.deserializerNew }

/-- the regression the model must exclude (used only for the negative example of `Props/C19.lean`): a `from_arrow2`
without the count check that walks `fields.iter().zip(arrays)` -/
def Deserializer.fromArrow2Zipping (core : Core OB Items D Out) (cv : Conv AF AA) (fields : List AF) (arrays : List AA) : R D := do
  let n := min fields.length arrays.length
  let fields ← (fields.take n).mapM cv.fieldToMarrow
  let views ← (arrays.take n).mapM cv.viewOf
  core.deserializerNew fields views

end

/-! ### `build.rs` / `lib.rs`: which arrow version the API is built against -/

/-- `[ #[cfg(feature = "arrow-N")] N, … ].into_iter().max()` -/
def versionSelect : List Nat → Option Nat
  | [] => none
  | v :: vs =>
    match versionSelect vs with
    | none => some v
    | some m => some (if v ≤ m then m else v)

/-- the entries of a `#[cfg(feature = ..)] value` table that survive for the enabled features, in file order -/
def enabledValues (table : List (Nat × Nat)) (features : List Nat) : List Nat :=
  (table.filter fun e => features.contains e.1).map (·.2)

/-- the cfg flags `build.rs` prints for the arrow family -/
structure ArrowCfg where
  /-- `has_arrow` -/
  hasArrow : Bool
  /-- `has_arrow_{version}` -/
  hasArrowN : Option Nat
  /-- `has_arrow_fixed_binary_support` -/
  fixedBinarySupport : Bool
  /-- `has_arrow_bytes_view_support` -/
  bytesViewSupport : Bool
deriving Repr, BEq, DecidableEq

def FIXED_BINARY_SINCE : Nat := 47
def BYTES_VIEW_SINCE : Nat := 53

/-- the arrow half of `build.rs::main` -/
def arrowCfg (table : List (Nat × Nat)) (features : List Nat) : ArrowCfg :=
  match versionSelect (enabledValues table features) with
  | none => { hasArrow := false, hasArrowN := none, fixedBinarySupport := false, bytesViewSupport := false }
  | some version =>
    { hasArrow := true, hasArrowN := some version,
      fixedBinarySupport := decide (version ≥ FIXED_BINARY_SINCE),
      bytesViewSupport := decide (version ≥ BYTES_VIEW_SINCE) }

/-- `lib.rs`: the `build_arrow_crate!(arrow_array_A, arrow_schema_S)` invocations that are compiled under the
flags (each defines `pub mod arrow`: exactly one must remain whenever `has_arrow` is set — none leaves
`arrow_impl.rs` without its imports, two define the module twice) -/
def wiredCrates (lib : List (Nat × Nat × Nat)) (cfg : ArrowCfg) : List (Nat × Nat) :=
  (lib.filter fun e => cfg.hasArrowN == some e.1).map (·.2)

/-- the arrow2 half: `has_arrow2`, `has_arrow2_0_{version}` -/
def arrow2Cfg (table : List (Nat × Nat)) (features : List Nat) : Option Nat :=
  versionSelect (enabledValues table features)

/-- `#[cfg(has_arrow2_0_C)] pub use arrow2_0_U as arrow2;` -/
def wiredArrow2 (lib : List (Nat × Nat)) (cfg : Option Nat) : List Nat :=
  (lib.filter fun e => cfg == some e.1).map (·.2)

end SaModel.Backend
