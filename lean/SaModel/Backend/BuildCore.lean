import SaModel.Backend.Adapters
import SaModel.Build.Finish
/-
The builder model (`SaModel/Build`) as the serializing half of the adapters' `Core`: with it the marrow entry
point of the adapter model IS the `to_marrow` model the build-side theorems (C01, C03, C05, C10, C11) speak about.
The reading half stays a parameter.
-/
namespace SaModel.Backend
open SaModel SaModel.Build

def buildCore (ext : Ext) {D Out : Type} (deserializerNew : List Field → List Arr → R D) (deserialize : D → R Out) :
    Core B (List SVal) D Out where
  newOuter := newRoot
  serialize := fun b rows => rows.foldlM (push ext) b
  takeArrays := buildArrays ext
  deserializerNew := deserializerNew
  deserialize := deserialize

end SaModel.Backend
