import SaModel.Backend.Adapters
import SaModel.Build.Finish
import SaModel.Build.Guarded
/-
The builder model (`SaModel/Build`) as the serializing half of the adapters' `Core`: with it the marrow entry
point of the adapter model IS the `to_marrow` model the build-side theorems (C01, C03, C05, C10, C11) speak about.
The reading half stays a parameter.
-/
namespace SaModel.Backend
open SaModel SaModel.Build

def buildCore (ext : Ext) {D Out : Type} (deserializerNew : List Field → List Arr → R D) (deserialize : D → R Out) :
    Core B (List SVal) D Out where
  newOuter := newRoot
  serialize := fun b rows => rows.foldlM (push ext) b
  takeArrays := buildArrays ext
  deserializerNew := deserializerNew
  deserialize := deserialize

/-- one addition to an `ArrayBuilder` (`internal/array_builder.rs`, `internal/serializer.rs`) -/
inductive Add where
  /-- `ArrayBuilder::push(&record)` -/
  | push (x : SVal)
  /-- `ArrayBuilder::extend(&records)` -/
  | extend (x : SVal)
  /-- `records.serialize(Serializer::new(&mut builder))` -/
  | viaSerializer (x : SVal)

def addTo (ext : Ext) (root : B) : Add → R B
  | .push x => push ext root x
  | .extend x => extend ext root x
  | .viaSerializer x => serializeWith ext root x

/-- what an addition checks before it reaches the builder (`Backend.stepG`): `push` / `extend` nothing, the `Serializer`
wrapper that its value is a collection -/
def addPre : Add → R Unit
  | .viaSerializer x => serializerPre x
  | _ => .ok ()

/-- the builder model as the core of HISTORIES on one builder (`Backend/History.lean`): an item of a history is one
`push` / `extend` / `Serializer` call, exactly the operations `Props/C10.lean` runs -/
def histCore (ext : Ext) {D Out : Type} (deserializerNew : List Field → List Arr → R D) (deserialize : D → R Out) :
    Core B Add D Out where
  newOuter := newRoot
  serialize := addTo ext
  takeArrays := buildArrays ext
  deserializerNew := deserializerNew
  deserialize := deserialize

end SaModel.Backend
