import SaModel.Backend.Adapters
/-
The `ArrayBuilder` ACROSS calls (`internal/array_builder.rs` + the `impl ArrayBuilder` blocks of `marrow_impl.rs`,
`arrow_impl.rs`, `arrow2_impl.rs`).

`Adapters.lean` models each finisher as one call that returns `R (result × builder)`: when the call fails the state it
leaves behind is lost.  Here the state is kept:

  * the four finishers are `&mut self` methods; each one is `self.build_arrays()?` (= `take_records` + `into_array`: the
    builder is reset) followed by work on the arrays that were taken and — `to_record_batch` — on `&self.schema`.
    `…S` variants return `R (R result × builder)`: the OUTER failure is that of `build_arrays` (the abstract core does
    not say what a failing `take_records` leaves behind, the history stops there), the INNER result is what the method
    returns; the second component is `*self` afterwards — ALSO when a conversion, the schema conversion or
    `RecordBatch::try_new` failed (the builder has been reset by then and stays usable);
  * nothing ever writes `self.schema`: `to_record_batch` reads it through `&self.schema` AFTER `self.to_arrow()?`
    (`{ self with builder }` in `buildArrays`, `serializeInto`);
  * a history is any sequence of additions (`push` / `extend` / `Serializer::new(&mut builder)`: the core's `serialize`)
    and finishers, in any mix, on ONE builder (`runHistory`).

`runHistoryG` is the history of the builder WITH its poisoned flag (repo fix "poison the ArrayBuilder after a failed
operation"): every operation yields its outcome and the history goes on after a failing one (`Props/C19Fail.lean`).

`runMarrow` is the same history with every finisher replaced by `to_marrow` (it is what C10 speaks about once the
builder model is plugged in: `BuildCore.histCore`, `Props/C19Reuse.lean`), `convertBuilt` is "finisher f applied to
the arrays of a marrow build".  `Props/C19.lean` proves `runHistory = runMarrow ; convertBuilt` (`builder_reuse_agrees`).
-/
namespace SaModel.Backend
open SaModel

/-- the public `&mut self` finishers: `to_marrow` (marrow_impl.rs), `to_arrow`, `to_record_batch` (arrow_impl.rs),
`to_arrow2` (arrow2_impl.rs) -/
inductive Finisher where
  | marrow
  | arrow
  | recordBatch
  | arrow2
deriving Repr, BEq, DecidableEq

/-- what a finisher hands back (`AF`/`AA`: arrow fields / arrays, `BA`: arrow2 arrays) -/
inductive Built (AF AA BA : Type) where
  | marrow (arrays : List Arr)
  | arrow (arrays : List AA)
  | recordBatch (batch : RecordBatch AF AA)
  | arrow2 (arrays : List BA)

/-- one operation on a builder -/
inductive HOp (Items : Type) where
  /-- `push(&item)` / `extend(&items)` / `items.serialize(Serializer::new(&mut builder))` -/
  | add (items : Items)
  | finish (f : Finisher)

def HOp.finisher? {Items} : HOp Items → Option Finisher
  | .add _ => none
  | .finish f => some f

/-- the finishers of a history, in order (one per build) -/
def finishers {Items} (ops : List (HOp Items)) : List Finisher := ops.filterMap HOp.finisher?

section
variable {OB Items D Out AF AA BF BA : Type}

/-! ### the finishers with the state they leave behind -/

/-- `to_marrow(&mut self)`: `self.build_arrays()` -/
def ArrayBuilder.toMarrowS (core : Core OB Items D Out) (self : ArrayBuilder OB) :
    R (R (List Arr) × ArrayBuilder OB) := do
  let (arrays, self) ← self.buildArrays core
  pure (.ok arrays, self)

/-- `to_arrow(&mut self)`: `self.build_arrays()?`, then `ArrayRef::try_from` array by array -/
def ArrayBuilder.toArrowS (core : Core OB Items D Out) (cv : Conv AF AA) (self : ArrayBuilder OB) :
    R (R (List AA) × ArrayBuilder OB) := do
  let (arrays, self) ← self.buildArrays core
  pure (arrays.mapM cv.arrayOfMarrow, self)

/-- `to_arrow2(&mut self)`: its own copy of the same body -/
def ArrayBuilder.toArrow2S (core : Core OB Items D Out) (cv : Conv AF AA) (self : ArrayBuilder OB) :
    R (R (List AA) × ArrayBuilder OB) := do
  let (arrays, self) ← self.buildArrays core
  pure (arrays.mapM cv.arrayOfMarrow, self)

/-- what `to_record_batch` does after `self.to_arrow()` returned: `?`, `Vec::<FieldRef>::try_from(&self.schema)?`,
`Schema::new`, `RecordBatch::try_new` — `schema` is the schema of the builder AT THAT POINT -/
def recordBatchOf (cv : Conv AF AA) (validate : List AF → List AA → R Unit) (schema : List Field)
    (arrays : R (List AA)) : R (RecordBatch AF AA) := do
  let arrays ← arrays
  let fields ← fieldRefsOfSchema cv schema
  RecordBatch.tryNew validate fields arrays

/-- `to_record_batch(&mut self)`: `self.to_arrow()` first, then the schema is READ from the builder as `to_arrow` left it -/
def ArrayBuilder.toRecordBatchS (core : Core OB Items D Out) (cv : Conv AF AA) (validate : List AF → List AA → R Unit)
    (self : ArrayBuilder OB) : R (R (RecordBatch AF AA) × ArrayBuilder OB) := do
  let (arrays, self) ← self.toArrowS core cv
  pure (recordBatchOf cv validate self.schema arrays, self)

/-- a method result with the state, collapsed to the one-call form of `Adapters.lean` -/
def collapse {α β} (r : R (R α × β)) : R (α × β) := do
  let (a, s) ← r
  let a ← a
  pure (a, s)

/-- any of the four finishers on the current state -/
def ArrayBuilder.finishS (core : Core OB Items D Out) (cvA : Conv AF AA) (cvB : Conv BF BA)
    (validate : List AF → List AA → R Unit) (f : Finisher) (self : ArrayBuilder OB) :
    R (R (Built AF AA BA) × ArrayBuilder OB) :=
  match f with
  | .marrow => do
    let (r, self) ← self.toMarrowS core
    pure (r.map .marrow, self)
  | .arrow => do
    let (r, self) ← self.toArrowS core cvA
    pure (r.map .arrow, self)
  | .recordBatch => do
    let (r, self) ← self.toRecordBatchS core cvA validate
    pure (r.map .recordBatch, self)
  | .arrow2 => do
    let (r, self) ← self.toArrow2S core cvB
    pure (r.map .arrow2, self)

/-! ### histories -/

/-- run a history on one builder: the result of every finisher, in order, and the builder at the end.  A failing addition
or a failing `build_arrays` ends the history (the core does not model the state they leave); a finisher that fails
AFTER `build_arrays` is recorded as a failed build and the history goes on with the reset builder. -/
def runHistory (core : Core OB Items D Out) (cvA : Conv AF AA) (cvB : Conv BF BA) (validate : List AF → List AA → R Unit) :
    ArrayBuilder OB → List (HOp Items) → R (List (R (Built AF AA BA)) × ArrayBuilder OB)
  | self, [] => .ok ([], self)
  | self, .add items :: ops => do
    let self ← serializeInto core self items
    runHistory core cvA cvB validate self ops
  | self, .finish f :: ops => do
    let (out, self) ← self.finishS core cvA cvB validate f
    let (outs, fin) ← runHistory core cvA cvB validate self ops
    pure (out :: outs, fin)

/-- the same history with `to_marrow` at every build: the marrow arrays of every build and the builder at the end -/
def runMarrow (core : Core OB Items D Out) : ArrayBuilder OB → List (HOp Items) → R (List (List Arr) × ArrayBuilder OB)
  | self, [] => .ok ([], self)
  | self, .add items :: ops => do
    let self ← serializeInto core self items
    runMarrow core self ops
  | self, .finish _ :: ops => do
    let (arrays, self) ← self.toMarrow core
    let (outs, fin) ← runMarrow core self ops
    pure (arrays :: outs, fin)

/-- finisher `f` applied to the arrays of a marrow build, for a builder whose schema is `schema`: nothing for
`to_marrow`, the array conversion of the family for `to_arrow` / `to_arrow2`, and for `to_record_batch` the arrow arrays
under the converted fields of `schema` -/
def convertBuilt (cvA : Conv AF AA) (cvB : Conv BF BA) (validate : List AF → List AA → R Unit) (schema : List Field)
    (f : Finisher) (arrays : List Arr) : R (Built AF AA BA) :=
  match f with
  | .marrow => .ok (.marrow arrays)
  | .arrow => (arrays.mapM cvA.arrayOfMarrow).map .arrow
  | .recordBatch => (recordBatchOf cvA validate schema (arrays.mapM cvA.arrayOfMarrow)).map .recordBatch
  | .arrow2 => (arrays.mapM cvB.arrayOfMarrow).map .arrow2

/-! ### the builder WITH its poisoned flag: histories that go on after a failing operation

`internal/array_builder.rs` after repo fix "poison the ArrayBuilder after a failed operation": `push`, `extend` and
`build_arrays` run under `ArrayBuilder::guarded` — refused while `poisoned` is set, and `poisoned` stays set unless the
operation succeeds.  A finisher that fails AFTER `build_arrays` (array conversion, schema conversion,
`RecordBatch::try_new`) is still a recorded failure of that build on a builder that has been reset and stays usable.
What the nested builders of a poisoned builder hold is never read again (`inner` keeps the last consistent state only so
that the schema can still be named).  `pre`: what an addition checks BEFORE it reaches the builder — the `Serializer`
wrapper refuses a value that is not a collection without touching the builder (`Build.serializeWithG`); `push` / `extend`
check nothing. -/

/-- the text of `ArrayBuilder::ensure_consistent` (= `Build.poisonedMsg`) -/
def poisonedMsg : String :=
  "The ArrayBuilder is in an inconsistent state after an earlier error: it may hold partial records and cannot be used any more"

/-- `ArrayBuilder { builder, schema, poisoned }` -/
structure GBuilder (OB : Type) where
  inner : ArrayBuilder OB
  poisoned : Bool

/-- a freshly made builder -/
def GBuilder.clean {OB : Type} (inner : ArrayBuilder OB) : GBuilder OB := { inner, poisoned := false }

/-- one operation, its outcome (`none`: an addition; `some built`: what the finisher handed back) and the builder it leaves -/
def stepG (core : Core OB Items D Out) (pre : Items → R Unit) (cvA : Conv AF AA) (cvB : Conv BF BA)
    (validate : List AF → List AA → R Unit) (gb : GBuilder OB) : HOp Items → R (Option (Built AF AA BA)) × GBuilder OB
  | .add items =>
    match pre items with
    | .error e => (.error e, gb)
    | .ok _ =>
      if gb.poisoned then (fail poisonedMsg, gb) else
      match serializeInto core gb.inner items with
      | .ok inner => (.ok none, { inner, poisoned := false })
      | .error e => (.error e, { gb with poisoned := true })
  | .finish f =>
    if gb.poisoned then (fail poisonedMsg, gb) else
    match gb.inner.finishS core cvA cvB validate f with
    | .ok (r, inner) => (r.map some, { inner, poisoned := false })
    | .error e => (.error e, { gb with poisoned := true })

/-- run a history on one builder: EVERY operation yields its outcome, the history goes on after a failing one -/
def runHistoryG (core : Core OB Items D Out) (pre : Items → R Unit) (cvA : Conv AF AA) (cvB : Conv BF BA)
    (validate : List AF → List AA → R Unit) :
    GBuilder OB → List (HOp Items) → List (R (Option (Built AF AA BA))) × GBuilder OB
  | gb, [] => ([], gb)
  | gb, op :: ops =>
    let (out, gb') := stepG core pre cvA cvB validate gb op
    let (outs, fin) := runHistoryG core pre cvA cvB validate gb' ops
    (out :: outs, fin)

/-! the UNREPAIRED `ArrayBuilder` (kept beside the model, used only for the negative example of `Props/C19Fail.lean`):
no flag; a failing addition leaves behind whatever the core had written by then (`partialState`: not specified by the
core, a parameter) and the history goes on with it -/
def stepPinned (core : Core OB Items D Out) (partialState : OB → Items → OB) (cvA : Conv AF AA) (cvB : Conv BF BA)
    (validate : List AF → List AA → R Unit) (self : ArrayBuilder OB) : HOp Items → R (Option (Built AF AA BA)) × ArrayBuilder OB
  | .add items =>
    match serializeInto core self items with
    | .ok self' => (.ok none, self')
    | .error e => (.error e, { self with builder := partialState self.builder items })
  | .finish f =>
    match self.finishS core cvA cvB validate f with
    | .ok (r, self') => (r.map some, self')
    | .error e => (.error e, self)

def runHistoryPinned (core : Core OB Items D Out) (partialState : OB → Items → OB) (cvA : Conv AF AA) (cvB : Conv BF BA)
    (validate : List AF → List AA → R Unit) :
    ArrayBuilder OB → List (HOp Items) → List (R (Option (Built AF AA BA))) × ArrayBuilder OB
  | self, [] => ([], self)
  | self, op :: ops =>
    let (out, self') := stepPinned core partialState cvA cvB validate self op
    let (outs, fin) := runHistoryPinned core partialState cvA cvB validate self' ops
    (out :: outs, fin)

/-! ### the regression the model must exclude (kept beside the model, used only for the negative examples of
`Props/C19.lean`): a `to_record_batch` that MOVES the schema out of the builder (`std::mem::take(&mut self.schema)`) -/

def ArrayBuilder.toRecordBatchTakingS (core : Core OB Items D Out) (cv : Conv AF AA) (validate : List AF → List AA → R Unit)
    (self : ArrayBuilder OB) : R (R (RecordBatch AF AA) × ArrayBuilder OB) := do
  let (arrays, self) ← self.toArrowS core cv
  pure (recordBatchOf cv validate self.schema arrays, { self with schema := [] })

end

end SaModel.Backend
