/-
IEEE-754 binary formats as bit patterns over `Nat`, with the three conversions the crate performs through
Rust's `as` casts and `half::f16::from_f32/from_f64`: integer → float, float → narrower float (round to
nearest, ties to even), float → wider float (exact).  These are the *documented lossy* conversions of C05; the
model computes them so that the correspondence check can compare stored bit patterns, but no exactness
theorem is claimed about them.  All NaNs are canonicalised (quiet NaN, zero payload).
-/
namespace SaModel.Float

structure Fmt where
  eb : Nat   -- exponent bits
  mb : Nat   -- mantissa bits
deriving Repr, BEq, DecidableEq

def f16 : Fmt := ⟨5, 10⟩
def f32 : Fmt := ⟨8, 23⟩
def f64 : Fmt := ⟨11, 52⟩

def Fmt.bias (f : Fmt) : Nat := 2 ^ (f.eb - 1) - 1
def Fmt.expMax (f : Fmt) : Nat := 2 ^ f.eb - 1
def Fmt.width (f : Fmt) : Nat := 1 + f.eb + f.mb
def Fmt.inf (f : Fmt) : Nat := f.expMax * 2 ^ f.mb
def Fmt.nan (f : Fmt) : Nat := f.expMax * 2 ^ f.mb + 2 ^ (f.mb - 1)
def Fmt.signBit (f : Fmt) : Nat := 2 ^ (f.eb + f.mb)

/-- shift right by `s` with round-to-nearest-even -/
def rshiftRne (m s : Nat) : Nat :=
  if s = 0 then m else
  let q := m / 2 ^ s
  let r := m % 2 ^ s
  let half := 2 ^ (s - 1)
  if r > half ∨ (r = half ∧ q % 2 = 1) then q + 1 else q

/-- magnitude bits (no sign) of the value `m * 2^e` rounded into format `f` -/
def roundMag (f : Fmt) (m : Nat) (e : Int) : Nat :=
  if m = 0 then 0 else
  let L : Int := m.log2
  let E : Int := L + e                                  -- value = 1.xxx * 2^E
  let emin : Int := 1 - (f.bias : Int)
  if E < emin then
    -- subnormal range: quantum 2^(emin - mb)
    let k : Int := e - (emin - f.mb)
    if k ≥ 0 then m * 2 ^ k.toNat else rshiftRne m (-k).toNat
  else
    let shift : Int := L - f.mb
    let q := if shift ≤ 0 then m * 2 ^ (-shift).toNat else rshiftRne m shift.toNat
    -- rounding may carry into the next binade
    let (q, E) := if q ≥ 2 ^ (f.mb + 1) then (q / 2, E + 1) else (q, E)
    if E > (f.bias : Int) then f.inf
    else (E + f.bias).toNat * 2 ^ f.mb + (q - 2 ^ f.mb)

inductive Class where
  | finite (neg : Bool) (m : Nat) (e : Int)
  | inf (neg : Bool)
  | nan
deriving Repr, BEq

def classify (f : Fmt) (bits : Nat) : Class :=
  let neg := bits / f.signBit % 2 = 1
  let x := bits / 2 ^ f.mb % 2 ^ f.eb
  let frac := bits % 2 ^ f.mb
  if x = f.expMax then (if frac = 0 then .inf neg else .nan)
  else if x = 0 then .finite neg frac (1 - (f.bias : Int) - f.mb)
  else .finite neg (frac + 2 ^ f.mb) ((x : Int) - f.bias - f.mb)

def withSign (f : Fmt) (neg : Bool) (mag : Nat) : Nat := if neg then mag + f.signBit else mag

/-- float → float (narrowing rounds, widening is exact) -/
def convert (src dst : Fmt) (bits : Nat) : Nat :=
  match classify src bits with
  | .nan => dst.nan
  | .inf neg => withSign dst neg dst.inf
  | .finite neg m e => withSign dst neg (roundMag dst m e)

/-- integer → float (`v as f32`, `v as f64`) -/
def ofInt (dst : Fmt) (v : Int) : Nat :=
  withSign dst (v < 0) (roundMag dst v.natAbs 0)

def isNan (f : Fmt) (bits : Nat) : Bool :=
  match classify f bits with
  | .nan => true
  | _ => false

/-- canonical form used when comparing stored floats: all NaNs are one value -/
def canon (f : Fmt) (bits : Nat) : Nat := if isNan f bits then f.nan else bits

end SaModel.Float
