/-
Outcome monad shared by every model: a Rust operation either returns a value,
returns `Err(..)` (class `err`) or unwinds (class `panic`).  "No panic" properties are
ordinary theorems `f x ≠ .error (.panic _)`.
-/
namespace SaModel

inductive Fail where
  | err (msg : String)
  | panic (site : String)
  /-- an error that already carries annotations (`ContextSupport::ctx`: the innermost context wins) -/
  | errCtx (msg : String) (ann : List (String × String))
deriving Repr, BEq, DecidableEq, Inhabited

abbrev R := Except Fail

instance {α} [DecidableEq α] : DecidableEq (R α) := fun a b =>
  match a, b with
  | .ok x, .ok y => if h : x = y then isTrue (by rw [h]) else isFalse (by intro h'; cases h'; exact h rfl)
  | .error x, .error y => if h : x = y then isTrue (by rw [h]) else isFalse (by intro h'; cases h'; exact h rfl)
  | .ok _, .error _ => isFalse (by intro h; cases h)
  | .error _, .ok _ => isFalse (by intro h; cases h)

def fail {α} (msg : String) : R α := .error (.err msg)
def panic {α} (site : String) : R α := .error (.panic site)

def R.isOk {α} : R α → Bool
  | .ok _ => true
  | .error _ => false

def R.isErr {α} : R α → Bool
  | .error (.err _) => true
  | .error (.errCtx _ _) => true
  | _ => false

def R.isPanic {α} : R α → Bool
  | .error (.panic _) => true
  | _ => false

/-- outcome class used by the correspondence relation: messages are not compared -/
def R.cls {α} : R α → String
  | .ok _ => "ok"
  | .error (.err _) => "err"
  | .error (.errCtx _ _) => "err"
  | .error (.panic _) => "panic"

/-- `ContextSupport::ctx`: annotate an error that carries no annotations yet; never touches `ok`/`panic` -/
def ctx {α} (ann : List (String × String)) : R α → R α
  | .error (.err msg) => if ann.isEmpty then .error (.err msg) else .error (.errCtx msg ann)
  | r => r

/-- `ctx` never touches a success -/
theorem ctx_eq_ok {α} (ann : List (String × String)) (r : R α) (v : α) : ctx ann r = .ok v ↔ r = .ok v := by
  unfold ctx
  split
  · split <;> simp
  · rfl

/-- annotations of an outcome (empty for `ok`, `panic` and un-annotated errors) -/
def R.ann {α} : R α → List (String × String)
  | .error (.errCtx _ a) => a
  | _ => []

end SaModel
