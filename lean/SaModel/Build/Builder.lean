import SaModel.Basic.Outcome
import SaModel.Basic.Float
import SaModel.Data.Schema
import SaModel.Data.SVal
import SaModel.Data.Arr
import SaModel.Data.Ext
/-
Operational model of `serde_arrow/src/internal/serialization/*`: one constructor of `B` per family of
`ArrayBuilder`, state exactly as in the Rust structs (validity as abstract bits, offsets, data, counters,
struct `next`/`seen`/name cache, union `types`/`offsets`/`current_offset`, dictionary `index`).
`push b x` is `x.serialize(Mut(b))`: recursion on the serde value, the builder is the accumulator.
Function names follow the Rust (`push_scalar_none`, `start_seq`, `lookup`, `element`, `end` …).

Everything an `impl Context` annotates goes through `ctx (annOf b)`: innermost annotation wins.
-/
namespace SaModel.Build
open SaModel

/- `Ext` (the functions of other crates / std the builders call), `strBytes`, `indexOfName`, `strategyOf`:
`SaModel/Data/Ext.lean` (shared with the specification, same names). -/

/-- builders whose storage is a `PrimitiveArray`-like (validity, values) pair -/
inductive LeafKind where
  | bool
  | int (t : IntTy)
  | f16 | f32 | f64
  | date32 | date64
  | time32 (u : TimeUnit) | time64 (u : TimeUnit)
  | duration (u : TimeUnit)
  | timestamp (u : TimeUnit) (tz : Option String) (utc : Bool)
  | decimal (p : Nat) (s : Int)
deriving Repr, BEq, DecidableEq

abbrev Validity := Option (List Bool)

def UNKNOWN_KEY : Nat := 18446744073709551615

mutual
inductive B where
  | null (path : String) (len : Nat)
  | unknownVariant (path : String)
  | leaf (path : String) (kind : LeafKind) (validity : Validity) (values : List Int)
  | bytes (path : String) (ty : BytesTy) (validity : Validity) (offsets : List Int) (data : Bytes)
  | bytesView (path : String) (ty : ViewTy) (validity : Validity) (views : List Nat) (buf0 : Bytes)
  | fixedSizeBinary (path : String) (n : Nat) (len : Nat) (validity : Validity) (buffer : Bytes) (currentN : Nat)
  | list (path : String) (large : Bool) (fm : FieldMeta) (validity : Validity) (offsets : List Int) (elements : B)
  | fixedSizeList (path : String) (fm : FieldMeta) (n : Nat) (len : Nat) (validity : Validity) (currentCount : Nat) (elements : B)
  | map (path : String) (mm : MapMeta) (validity : Validity) (offsets : List Int) (keys : B) (values : B)
  | struct (path : String) (len : Nat) (validity : Validity) (fields : BL)
      (cached : List (Option (String × Nat))) (next : Nat) (seen : List Bool)
  | dictionary (path : String) (indices : B) (values : B) (index : List String)
  | union (path : String) (fields : BL) (types : List Int) (offsets : List Int) (currentOffset : List Int)
deriving Repr, BEq, DecidableEq
inductive BL where
  | nil
  | cons (b : B) (fm : FieldMeta) (rest : BL)
deriving Repr, BEq, DecidableEq
end

instance : Inhabited B := ⟨.null "" 0⟩

def BL.toList : BL → List (B × FieldMeta)
  | .nil => []
  | .cons b m r => (b, m) :: r.toList

def BL.length : BL → Nat
  | .nil => 0
  | .cons _ _ r => r.length + 1

def BL.get? : BL → Nat → Option (B × FieldMeta)
  | .nil, _ => none
  | .cons b m _, 0 => some (b, m)
  | .cons _ _ r, k + 1 => r.get? k

def BL.set : BL → Nat → B → BL
  | .nil, _, _ => .nil
  | .cons _ m r, 0, b' => .cons b' m r
  | .cons b m r, k + 1, b' => .cons b m (r.set k b')

def BL.names : BL → List String
  | .nil => []
  | .cons _ m r => m.name :: r.names

/-! ### paths and annotations -/

/-- `ChildName`: empty names are shown as `<empty>` -/
def childName (s : String) : String := if s.isEmpty then "<empty>" else s

def B.path : B → String
  | .null p _ | .unknownVariant p | .leaf p _ _ _ | .bytes p _ _ _ _ | .bytesView p _ _ _ _
  | .fixedSizeBinary p _ _ _ _ _ | .list p _ _ _ _ _ | .fixedSizeList p _ _ _ _ _ _ | .map p _ _ _ _ _
  | .struct p _ _ _ _ _ _ | .dictionary p _ _ _ | .union p _ _ _ _ => p

def intTyLabel : IntTy → String
  | .i8 => "Int8" | .i16 => "Int16" | .i32 => "Int32" | .i64 => "Int64"
  | .u8 => "UInt8" | .u16 => "UInt16" | .u32 => "UInt32" | .u64 => "UInt64"

/-- the `data_type` label of each `impl Context` -/
def B.label : B → String
  | .null _ _ => "Null"
  | .unknownVariant _ => "<unknown variant>"
  | .leaf _ k _ _ =>
    match k with
    | .bool => "Boolean" | .int t => intTyLabel t
    | .f16 => "Float16" | .f32 => "Float32" | .f64 => "Float64"
    | .date32 => "Date32" | .date64 => "Date64"
    | .time32 _ => "Time32" | .time64 _ => "Time64"
    | .duration _ => "Duration(..)" | .timestamp _ _ _ => "Timestamp(..)" | .decimal _ _ => "Decimal128(..)"
  | .bytes _ ty _ _ _ =>
    match ty with
    | .utf8 => "Utf8" | .largeUtf8 => "LargeUtf8" | .binary => "Binary" | .largeBinary => "LargeBinary"
  | .bytesView _ ty _ _ _ => match ty with | .utf8View => "Utf8View" | .binaryView => "BinaryView"
  | .fixedSizeBinary _ _ _ _ _ _ => "FixedSizeBinary(..)"
  | .list _ large _ _ _ _ => if large then "LargeList" else "List"
  | .fixedSizeList _ _ _ _ _ _ _ => "FixedSizeList(..)"
  | .map _ _ _ _ _ _ => "Map(..)"
  | .struct _ _ _ _ _ _ _ => "Struct(..)"
  | .dictionary _ _ _ _ => "Dictionary(..)"
  | .union _ _ _ _ _ => "Union(..)"

/-- what `annotate` writes (a `BTreeMap`, hence sorted by key) -/
def B.ann (b : B) : List (String × String) := [("data_type", b.label), ("field", b.path)]

/-! ### array_ext.rs -/

/-- `set_bit_buffer` on abstract bits: the buffer grows (zero filled) up to `idx`, then bit `idx` is written -/
def setBit (bits : List Bool) (idx : Nat) (value : Bool) : List Bool :=
  let padded := if idx < bits.length then bits else bits ++ List.replicate (idx + 1 - bits.length) false
  padded.set idx value

/-- `set_validity` -/
def setValidity (v : Validity) (idx : Nat) (value : Bool) : R Validity :=
  match v with
  | some bits => .ok (some (setBit bits idx value))
  | none => if value then .ok none else fail "Cannot push null for non-nullable array"

/-- `set_validity_default` -/
def setValidityDefault (v : Validity) (idx : Nat) : Validity :=
  match v with
  | some bits => some (setBit bits idx false)
  | none => none

def offMax (large : Bool) : Int := if large then 9223372036854775807 else 2147483647

/-- `duplicate_last` -/
def duplicateLast (offs : List Int) : R (List Int) :=
  match offs.getLast? with
  | none => fail "Invalid offset array: expected at least a single element"
  | some l => .ok (offs ++ [l])

/-- `increment_last` (repaired: checked addition; `checked = false` is the pinned unchecked `+`) -/
def incrementLast (checked : Bool) (large : Bool) (offs : List Int) (inc : Nat) : R (List Int) :=
  match offs.getLast? with
  | none => fail "Invalid offset array: expected at least a single element"
  | some l =>
    if (inc : Int) > offMax large then fail "out of range integral type conversion attempted"
    else if l + inc > offMax large then
      (if checked then fail "offset overflow" else panic "attempt to add with overflow")
    else .ok (offs.dropLast ++ [l + inc])

def isLargeTy : BytesTy → Bool
  | .largeUtf8 | .largeBinary => true
  | _ => false

/-! ### bytes-view descriptors (`bytes_view` module) -/

def leBytes (b : Bytes) : Nat := b.foldr (fun x acc => x.toNat + 256 * acc) 0

def packInline (data : Bytes) : Nat := data.length + 2 ^ 32 * leBytes data

def packExtern (data : Bytes) (buffer offset : Nat) : Nat :=
  data.length % 2 ^ 32 + 2 ^ 32 * leBytes (data.take 4) + 2 ^ 64 * (buffer % 2 ^ 32) + 2 ^ 96 * (offset % 2 ^ 32)

def I32_MAX : Nat := 2147483647

/-- `push_scalar_value` of `BytesViewArray` (after `fix: Utf8View / BinaryView builders report lengths and buffer
offsets beyond i32::MAX as an error`): an out-of-line value whose length or whose offset (the current buffer length)
exceeds `i32::MAX` is refused before anything is written — `pack_extern` would unwind on its `assert!`s. -/
def viewPushValue (views : List Nat) (buf0 : Bytes) (value : Bytes) : R (List Nat × Bytes) :=
  if value.length ≤ 12 then .ok (views ++ [packInline value], buf0)
  else if value.length > I32_MAX ∨ buf0.length > I32_MAX then
    fail s!"BytesView overflow: the length {value.length} or the buffer offset {buf0.length} exceeds i32::MAX"
  else .ok (views ++ [packExtern value 0 buf0.length], buf0 ++ value)

/-! ### scalar conversions of the leaf builders -/

def boolInt (b : Bool) : Int := if b then 1 else 0

def tryInto (t : IntTy) (v : Int) : R Int :=
  if t.inRange v then .ok v else fail "out of range integral type conversion attempted"

def notSupported {α} (what : String) : R α := fail s!"{what} is not supported"

/-- what each leaf builder stores for a scalar serde call (`serialize_bool`, `serialize_i8`, …) -/
def convLeaf (ext : Ext) (k : LeafKind) (x : SVal) : R Int :=
  match k, x with
  | .bool, .bool b => .ok (boolInt b)
  | .int t, .bool b => tryInto t (boolInt b)
  | .int t, .int _ v => tryInto t v
  | .int t, .char c => tryInto t c
  | .f32, .int _ v => .ok (Float.ofInt Float.f32 v)
  | .f32, .f32 b => .ok b
  | .f32, .f64 b => .ok (Float.convert Float.f64 Float.f32 b)
  | .f32, .char c => .ok (Float.ofInt Float.f32 c)
  | .f64, .int _ v => .ok (Float.ofInt Float.f64 v)
  | .f64, .f32 b => .ok (Float.convert Float.f32 Float.f64 b)
  | .f64, .f64 b => .ok b
  | .f64, .char c => .ok (Float.ofInt Float.f64 c)
  | .f16, .f32 b => .ok (Float.convert Float.f32 Float.f16 b)
  | .f16, .f64 b => .ok (Float.convert Float.f64 Float.f16 b)
  | .date32, .str s => ext.parseDate false s
  | .date32, .int .i32 v => .ok v
  | .date32, .int .i64 v => if IntTy.i32.inRange v then .ok v else fail "cannot convert to i32"
  | .date64, .str s => ext.parseDate true s
  | .date64, .int .i32 v => .ok v
  | .date64, .int .i64 v => .ok v
  | .time32 u, .str s => do tryInto .i32 (← ext.parseTime u s)
  | .time32 _, .int .i32 v => .ok v
  | .time32 _, .int .i64 v => tryInto .i32 v
  | .time64 u, .str s => ext.parseTime u s
  | .time64 _, .int .i32 v => .ok v
  | .time64 _, .int .i64 v => .ok v
  | .timestamp u _ utc, .str s => ext.parseTimestamp u utc s
  | .timestamp _ _ _, .int .i64 v => .ok v
  | .duration u, .str s => ext.parseDuration u s
  | .duration _, .int t v => if t == .u64 then tryInto .i64 v else .ok v
  | .decimal p s, .str t => ext.parseDecimal p s t
  | .decimal p s, .f32 b => ext.floatToDecimal p s false b
  | .decimal p s, .f64 b => ext.floatToDecimal p s true b
  | _, x => notSupported s!"serialize_{x.kind}"

/-- `to_string()` of the scalar kinds a string builder accepts -/
def scalarToString (ext : Ext) : SVal → Option String
  | .str s => some s
  | .bool b => some (if b then "true" else "false")
  | .int _ v => some (toString v)
  | .f32 b => some (ext.f32Str b)
  | .f64 b => some (ext.f64Str b)
  | .char c => some (String.singleton (Char.ofNat c))
  | .unitVariant _ _ variant => some variant
  | _ => none

/-- `U8Serializer`: the byte an element of a binary sequence denotes -/
def u8Of : SVal → R UInt8
  | .int _ v => if IntTy.u8.inRange v then .ok (UInt8.ofNat v.toNat) else fail "out of range integral type conversion attempted"
  | .some v => u8Of v
  | .newtypeStruct _ v => u8Of v
  | x => notSupported s!"serialize_{x.kind}"

def u8All : SVals → R Bytes
  | .nil => .ok []
  | .cons v r => do
    let b ← u8Of v
    let bs ← u8All r
    pure (b :: bs)

/-- `KeyLookupSerializer`: the string a map key presents, if it is one -/
def keyStr : SVal → R String
  | .str s => .ok s
  | .some v => keyStr v
  | .newtypeStruct _ v => keyStr v
  | x => notSupported s!"serialize_{x.kind}"

/-- `FieldLookup::lookup`: positional guess through the (address-keyed) name cache, else the index -/
def lookup (names : List String) (cached : List (Option (String × Nat))) (guess : Nat) (key : String × Nat) :
    Option Nat × List (Option (String × Nat)) :=
  if cached[guess]? == some (some key) then (some guess, cached)
  else match indexOfName names key.1 with
    | none => (none, cached)
    | some idx => (some idx, if cached[idx]? == some none then cached.set idx (some key) else cached)

/-! ### construction (`build_builder`) -/

def isUtcTz : Option String → R Bool
  | none => .ok false
  | some tz => if tz.toUpper == "UTC" then .ok true else fail s!"Timezone {tz} is not supported"

def newValidity (nullable : Bool) : Validity := if nullable then some [] else none

def hasDup : List String → Bool
  | [] => false
  | n :: ns => ns.contains n || hasDup ns

/-- `StructBuilder::new` (duplicate names are refused by `FieldLookup::new`) -/
def mkStruct (path : String) (bl : BL) (nullable : Bool) : R B :=
  if hasDup bl.names then fail "Duplicate field"
  else .ok (.struct path 0 (newValidity nullable) bl (List.replicate bl.length none) 0 (List.replicate bl.length false))

/-- integer data types (the key types of an Arrow dictionary; `build_builder` refuses any other key type) -/
def isIntDT : DataType → Bool
  | .int8 | .int16 | .int32 | .int64 | .uint8 | .uint16 | .uint32 | .uint64 => true
  | _ => false

mutual
/-- `build_builder` on the parts of a field.  (Map: exactly two entry children; Dictionary: integer key type — the
repo fixes 095456f / 7359431; the pinned code ignored further entry children and accepted any key type.  Union: dense
only; Map: the entries field is not nullable — the repo fixes of round c03f; the pinned code ignored the union mode and the
nullability of the entries field and built a dense union / a map with non-nullable entries, i.e. arrays of ANOTHER type
than the field's.) -/
def newDT (path : String) : DataType → Bool → Metadata → R B
  | .null, _, md =>
    if strategyOf md == some "UnknownVariant" then .ok (.unknownVariant path) else .ok (.null path 0)
  | .boolean, nullable, _ => .ok (.leaf path .bool (newValidity nullable) [])
  | .int8, nullable, _ => .ok (.leaf path (.int .i8) (newValidity nullable) [])
  | .int16, nullable, _ => .ok (.leaf path (.int .i16) (newValidity nullable) [])
  | .int32, nullable, _ => .ok (.leaf path (.int .i32) (newValidity nullable) [])
  | .int64, nullable, _ => .ok (.leaf path (.int .i64) (newValidity nullable) [])
  | .uint8, nullable, _ => .ok (.leaf path (.int .u8) (newValidity nullable) [])
  | .uint16, nullable, _ => .ok (.leaf path (.int .u16) (newValidity nullable) [])
  | .uint32, nullable, _ => .ok (.leaf path (.int .u32) (newValidity nullable) [])
  | .uint64, nullable, _ => .ok (.leaf path (.int .u64) (newValidity nullable) [])
  | .float16, nullable, _ => .ok (.leaf path .f16 (newValidity nullable) [])
  | .float32, nullable, _ => .ok (.leaf path .f32 (newValidity nullable) [])
  | .float64, nullable, _ => .ok (.leaf path .f64 (newValidity nullable) [])
  | .date32, nullable, _ => .ok (.leaf path .date32 (newValidity nullable) [])
  | .date64, nullable, _ => .ok (.leaf path .date64 (newValidity nullable) [])
  | .timestamp u tz, nullable, _ => do
    let utc ← isUtcTz tz
    pure (.leaf path (.timestamp u tz utc) (newValidity nullable) [])
  | .time32 u, nullable, _ =>
    if u == .second || u == .millisecond then .ok (.leaf path (.time32 u) (newValidity nullable) [])
    else ctx [("field", path)] (fail "Time32 only supports second or millisecond resolutions")
  | .time64 u, nullable, _ =>
    if u == .nanosecond || u == .microsecond then .ok (.leaf path (.time64 u) (newValidity nullable) [])
    else ctx [("field", path)] (fail "Time64 only supports nanosecond or microsecond resolutions")
  | .duration u, nullable, _ => .ok (.leaf path (.duration u) (newValidity nullable) [])
  | .decimal128 p s, nullable, _ =>
    if 1 ≤ p ∧ p ≤ 38 then .ok (.leaf path (.decimal p s) (newValidity nullable) [])
    else ctx [("field", path)] (fail "Decimal128 only supports precisions between 1 and 38")
  | .utf8, nullable, _ => .ok (.bytes path .utf8 (newValidity nullable) [0] [])
  | .largeUtf8, nullable, _ => .ok (.bytes path .largeUtf8 (newValidity nullable) [0] [])
  | .utf8View, nullable, _ => .ok (.bytesView path .utf8View (newValidity nullable) [] [])
  | .binary, nullable, _ => .ok (.bytes path .binary (newValidity nullable) [0] [])
  | .largeBinary, nullable, _ => .ok (.bytes path .largeBinary (newValidity nullable) [0] [])
  | .binaryView, nullable, _ => .ok (.bytesView path .binaryView (newValidity nullable) [] [])
  | .fixedSizeBinary n, nullable, _ =>
    if n < 0 then ctx [("field", path)] (fail "out of range integral type conversion attempted")
    else .ok (.fixedSizeBinary path n.toNat 0 (newValidity nullable) [] 0)
  | .list child, nullable, _ => do
    let el ← newB (path ++ "." ++ childName child.name) child
    pure (.list path false (metaOfField child) (newValidity nullable) [0] el)
  | .largeList child, nullable, _ => do
    let el ← newB (path ++ "." ++ childName child.name) child
    pure (.list path true (metaOfField child) (newValidity nullable) [0] el)
  | .fixedSizeList child n, nullable, _ =>
    if n < 0 then ctx [("field", path)] (fail "out of range integral type conversion attempted")
    else do
      let el ← newB (path ++ "." ++ childName child.name) child
      pure (.fixedSizeList path (metaOfField child) n.toNat 0 (newValidity nullable) 0 el)
  | .map (.mk _ (.struct (.cons _ (.cons _ (.cons _ _)))) _ _) _, _, _ =>
    fail "Map entries must have exactly two fields (keys and values)"
  | .map (.mk ename (.struct (.cons kf (.cons vf .nil))) false _) sorted, nullable, _ => do
    let kb ← newB (path ++ "." ++ childName ename ++ "." ++ childName kf.name) kf
    let vb ← newB (path ++ "." ++ childName ename ++ "." ++ childName vf.name) vf
    pure (.map path { entriesName := ename, sorted := sorted, keys := metaOfField kf, values := metaOfField vf }
      (newValidity nullable) [0] kb vb)
  | .map (.mk _ (.struct (.cons _ (.cons _ .nil))) true _) _, _, _ =>
    ctx [("field", path)] (fail "The entries field of a Map must not be nullable")
  | .map (.mk _ (.struct .nil) _ _) _, _, _ => fail "Missing keys field for map"
  | .map (.mk _ (.struct (.cons _ .nil)) _ _) _, _, _ => fail "Missing values field for map"
  | .map _ _, _, _ => fail "unexpected data type for map array"
  | .struct fs, nullable, _ => do
    let bl ← newFields path fs
    mkStruct path bl nullable
  | .dictionary k v, nullable, _ =>
    if isIntDT k then do
      let kb ← newDT (path ++ ".key") k nullable []
      let vb ← newDT (path ++ ".value") v false []
      pure (.dictionary path kb vb [])
    else ctx [("field", path)] (fail "Dictionary keys must be integers")
  | .union fs .dense, _, _ => do
    let bl ← newUnionFields path fs 0
    pure (.union path bl [] [] (List.replicate bl.length 0))
  | .union _ .sparse, _, _ => ctx [("field", path)] (fail "Only dense unions are supported")
  | .interval _, _, _ => fail "Cannot build ArrayBuilder for data type Interval"
  | .runEndEncoded _ _, _, _ => fail "Cannot build ArrayBuilder for data type RunEndEncoded"
def newB (path : String) : Field → R B
  | .mk _ dt nullable md => newDT path dt nullable md
def newFields (path : String) : Fields → R BL
  | .nil => .ok .nil
  | .cons f rest => do
    let b ← newB (path ++ "." ++ f.name) f
    let r ← newFields path rest
    pure (.cons b (metaOfField f) r)
def newUnionFields (path : String) : UFields → Nat → R BL
  | .nil, _ => .ok .nil
  | .cons tid f rest, idx =>
    if tid != idx then ctx [("field", path)] (fail "Union with non consecutive type ids are not supported")
    else do
      let b ← newB (path ++ "." ++ childName f.name) f
      let r ← newUnionFields path rest (idx + 1)
      pure (.cons b (metaOfField f) r)
end

/-- `OuterSequenceBuilder::new`: the root struct `$`, never nullable.  Note: struct children use the raw field
name in their path (`{path}.{field_name}`), list/map/union children go through `ChildName`. -/
def newRoot (fields : List Field) : R B := do
  let bl ← newFields "$" (Fields.ofList fields)
  mkStruct "$" bl false

/-! ### serialize_default / serialize_none -/

/-- apply a step `k` times -/
def iter {α} : Nat → (α → R α) → α → R α
  | 0, _, a => .ok a
  | k + 1, f, a => do
    let a' ← f a
    iter k f a'

/-- is this builder the `UnknownVariant` placeholder (a union variant never seen while tracing)? -/
def B.isPlaceholder : B → Bool
  | .unknownVariant _ => true
  | _ => false

/-- index of the first child that is not a placeholder (`none`: all are placeholders) -/
def firstReal? : BL → Option Nat
  | .nil => none
  | .cons b _ rest => if b.isPlaceholder then (firstReal? rest).map (· + 1) else some 0

/-- `fields.iter().position(|b| !matches!(b, UnknownVariant(_))).unwrap_or(0)` -/
def firstReal (fs : BL) : Nat := (firstReal? fs).getD 0

mutual
/-- `k` consecutive `serialize_default` calls.  The Rust code loops (`for _ in 0..n { elements.serialize_default() }`);
the model pushes the `k` placeholders of each builder in one structural pass over the builder tree (own state
stepped `k` times, fixed-size children `k * n` times), which is the same sequence of writes. -/
def pushDefaultK : B → Nat → R B
  | .null p len, k => .ok (.null p (len + k))
  | b@(.unknownVariant _), k =>
    if k = 0 then .ok b else ctx b.ann (fail "Unknown variant does not support serialize_default")
  | .leaf p kind v vals, k => do
    let (v', vals') ← iter k (fun (s : Validity × List Int) => .ok (setValidityDefault s.1 s.2.length, s.2 ++ [0])) (v, vals)
    pure (.leaf p kind v' vals')
  | b@(.bytes p ty v offs data), k => ctx b.ann (do
    let (v', offs') ← iter k (fun (s : Validity × List Int) => do
      let o ← duplicateLast s.2
      pure (setValidityDefault s.1 (s.2.length - 1), o)) (v, offs)
    pure (.bytes p ty v' offs' data))
  | .bytesView p ty v views buf, k => do
    let (v', views') ← iter k (fun (s : Validity × List Nat) => .ok (setValidityDefault s.1 s.2.length, s.2 ++ [packInline []])) (v, views)
    pure (.bytesView p ty v' views' buf)
  | .fixedSizeBinary p n len v buf cur, k => do
    let (len', v', buf') ← iter k (fun (s : Nat × Validity × Bytes) =>
      .ok (s.1 + 1, setValidityDefault s.2.1 s.1, s.2.2 ++ List.replicate n 0)) (len, v, buf)
    pure (.fixedSizeBinary p n len' v' buf' cur)
  | b@(.list p large fm v offs el), k => ctx b.ann (do
    let (v', offs') ← iter k (fun (s : Validity × List Int) => do
      let o ← duplicateLast s.2
      pure (setValidityDefault s.1 (s.2.length - 1), o)) (v, offs)
    pure (.list p large fm v' offs' el))
  | b@(.fixedSizeList p fm n len v cur el), k => ctx b.ann (do
    let (len', v') ← iter k (fun (s : Nat × Validity) => .ok (s.1 + 1, setValidityDefault s.2 s.1)) (len, v)
    let el' ← pushDefaultK el (k * n)
    pure (.fixedSizeList p fm n len' v' cur el'))
  | b@(.map p mm v offs ks vs), k => ctx b.ann (do
    let (v', offs') ← iter k (fun (s : Validity × List Int) => do
      let o ← duplicateLast s.2
      pure (setValidityDefault s.1 (s.2.length - 1), o)) (v, offs)
    pure (.map p mm v' offs' ks vs))
  | b@(.struct p len v fs cached next seen), k => ctx b.ann (do
    let (len', v') ← iter k (fun (s : Nat × Validity) => .ok (s.1 + 1, setValidityDefault s.2 s.1)) (len, v)
    let fs' ← pushDefaultKAll fs k
    pure (.struct p len' v' fs' cached next seen))
  | b@(.dictionary p idx vals index), k => ctx b.ann (do
    let idx' ← pushDefaultK idx k
    pure (.dictionary p idx' vals index))
  | b@(.union p fs types offs cur), k => ctx b.ann (
    match fs with
    | .nil => if k = 0 then .ok b else fail "Could not find variant 0 in Union"
    | .cons _ _ _ =>
      -- repo fix 837fa53: the first variant that is not an `UnknownVariant` placeholder (variant 0 if all are);
      -- `serialize_variant` converts the index to `i8`
      let j := firstReal fs
      let cj := cur.getD j 0
      -- repo fix 217d612: `serialize_variant` checks `current_offset[j] + 1` (i32) before the `i8` conversion and
      -- before the child's `serialize_default`: the first of the `k` rows
      if k ≠ 0 ∧ cj + 1 > 2147483647 then
        fail s!"Invalid union offsets: the offset type cannot represent the number of elements of variant {j}"
      else if k ≠ 0 ∧ j > 127 then fail "out of range integral type conversion attempted"
      else do
        let fs' ← pushDefaultKAt fs j k
        -- a later one of the `k` rows overflows the counter.  The one-pass model does not distinguish "a later row
        -- overflows here" from "a later row fails in the child" (which of the two messages comes first): both are
        -- `Err`, and the situation is only reachable beyond 2^31 rows of one variant
        if k ≠ 0 ∧ cj + k > 2147483647 then
          fail s!"Invalid union offsets: the offset type cannot represent the number of elements of variant {j}"
        else
          pure (.union p fs' (types ++ List.replicate k (j : Int))
            (offs ++ (List.range k).map (fun (i : Nat) => cj + (i : Int))) (cur.set j (cj + k))))
def pushDefaultKAll : BL → Nat → R BL
  | .nil, _ => .ok .nil
  | .cons b m rest, k => do
    let b' ← pushDefaultK b k
    let r ← pushDefaultKAll rest k
    pure (.cons b' m r)
/-- `k` consecutive `serialize_default` calls on child `j` (the other children are untouched) -/
def pushDefaultKAt : BL → Nat → Nat → R BL
  | .nil, _, _ => .ok .nil
  | .cons b m rest, 0, k => do
    let b' ← pushDefaultK b k
    pure (.cons b' m rest)
  | .cons b m rest, j + 1, k => do
    let r ← pushDefaultKAt rest j k
    pure (.cons b m r)
end

/-- `serialize_default` -/
def pushDefault (b : B) : R B := pushDefaultK b 1

/-- `ArrayBuilder::is_nullable` (moved here from Finish.lean: `DictionaryUtf8Builder::serialize_none` asks its key builder) -/
def B.isNullable : B → Bool
  | .null _ _ => true
  | .unknownVariant _ => false
  | .leaf _ _ v _ | .bytes _ _ v _ _ | .bytesView _ _ v _ _ | .fixedSizeBinary _ _ _ v _ _
  | .list _ _ _ v _ _ | .fixedSizeList _ _ _ _ v _ _ | .map _ _ v _ _ _ | .struct _ _ v _ _ _ _ => v.isSome
  | .dictionary _ idx _ _ => idx.isNullable
  | .union _ _ _ _ _ => false

/-- `serialize_none` (and `serialize_unit`, which forwards to it) -/
def pushNone : B → R B
  | .null p len => .ok (.null p (len + 1))
  | b@(.unknownVariant _) => ctx b.ann (fail "Unknown variant does not support serialize_none")
  | b@(.leaf p k v vals) => ctx b.ann (do
      let v' ← setValidity v vals.length false
      pure (.leaf p k v' (vals ++ [0])))
  | b@(.bytes p ty v offs data) => ctx b.ann (do
      let v' ← setValidity v (offs.length - 1) false
      let offs' ← duplicateLast offs
      pure (.bytes p ty v' offs' data))
  | b@(.bytesView p ty v views buf) => ctx b.ann (do
      let v' ← setValidity v views.length false
      pure (.bytesView p ty v' (views ++ [packInline []]) buf))
  | b@(.fixedSizeBinary p n len v buf cur) => ctx b.ann (do
      let v' ← setValidity v len false
      pure (.fixedSizeBinary p n (len + 1) v' (buf ++ List.replicate n 0) cur))
  | b@(.list p large fm v offs el) => ctx b.ann (do
      let v' ← setValidity v (offs.length - 1) false
      let offs' ← duplicateLast offs
      pure (.list p large fm v' offs' el))
  | b@(.fixedSizeList p fm n len v cur el) => ctx b.ann (do
      let v' ← setValidity v len false
      let el' ← pushDefaultK el n
      pure (.fixedSizeList p fm n (len + 1) v' cur el'))
  | b@(.map p mm v offs ks vs) => ctx b.ann (do
      let v' ← setValidity v (offs.length - 1) false
      let offs' ← duplicateLast offs
      pure (.map p mm v' offs' ks vs))
  | b@(.struct p len v fs cached next seen) => ctx b.ann (do
      let v' ← setValidity v len false
      let fs' ← pushDefaultKAll fs 1
      pure (.struct p (len + 1) v' fs' cached next seen))
  | b@(.dictionary p idx vals index) => ctx b.ann (
      -- repo fix ca6f255: the dictionary builder itself refuses a null for a non-nullable field (before, the key
      -- builder did, under `{path}.key` / its integer type)
      if idx.isNullable = false then fail "Cannot push null for non-nullable array"
      else do
        let idx' ← ctx b.ann (pushNone idx)
        pure (.dictionary p idx' vals index))
  | b@(.union _ _ _ _ _) => ctx b.ann (fail "serialize_unit/serialize_none is not supported")

end SaModel.Build
