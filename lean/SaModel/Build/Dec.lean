import SaModel.Build.Finish
import SaModel.Spec.Decode
/-
`dec b`: the logical rows a builder state holds, read off the *state* (abstract bits, offsets, children) —
the abstraction function of the refinement proofs:
   push b x = ok b'  →  dec b' = dec b ++ [interp x]          (Props/C01, C10)
   decodeAll (finish b) = (dec b).map ok                        (the physical array means what the state holds)
-/
namespace SaModel.Build
open SaModel SaModel.Spec

/-- rows whose validity bit is clear are null, whatever the slot holds -/
def maskNull (v : Validity) (xs : List LVal) : List LVal :=
  match v with
  | none => xs
  | some bits => List.zipWith (fun b x => if b then x else LVal.null) bits xs

def leafVal : LeafKind → Int → LVal
  | .bool, x => .bool (x != 0)
  | .f16, x | .f32, x | .f64, x => .float x
  | _, x => .int x

/-- consecutive offset pairs -/
def pairs (offs : List Int) : List (Int × Int) := offs.zip offs.tail

def sliceL {α} (xs : List α) (s e : Int) : List α := (xs.drop s.toNat).take (e.toNat - s.toNat)

/-- bytes a view descriptor designates against the builder's single buffer (empty if it designates nothing) -/
def viewBytes (buf : Bytes) (desc : Nat) : Bytes :=
  match decodeView [buf] desc with
  | .ok b => b
  | .error _ => []

mutual
def dec : B → List LVal
  | .null _ len => List.replicate len .null
  | .unknownVariant _ => []
  | .leaf _ k v vals => maskNull v (vals.map (leafVal k))
  | .bytes _ ty v offs data => maskNull v ((pairs offs).map fun se => bytesVal (isUtf8Ty ty) (sliceL data se.1 se.2))
  | .bytesView _ ty v views buf => maskNull v (views.map fun d => bytesVal (ty == .utf8View) (viewBytes buf d))
  | .fixedSizeBinary _ n len v buf _ => maskNull v ((List.range len).map fun i => .bin ((buf.drop (i * n)).take n))
  | .list _ _ _ v offs el =>
    let elems := dec el
    maskNull v ((pairs offs).map fun se => .list (LVals.ofList (sliceL elems se.1 se.2)))
  | .fixedSizeList _ _ n len v _ el =>
    let elems := dec el
    maskNull v ((List.range len).map fun i => .list (LVals.ofList ((elems.drop (i * n)).take n)))
  | .map _ _ v offs ks vs =>
    let k := dec ks
    let w := dec vs
    maskNull v ((pairs offs).map fun se => .map (LEntries.ofList ((sliceL k se.1 se.2).zip (sliceL w se.1 se.2))))
  | .struct _ len v fs _ _ _ =>
    let cols := decCols fs
    maskNull v ((List.range len).map fun i => .struct (LFields.ofList (cols.map fun c => (c.1, c.2.getD i .null))))
  | .dictionary _ idx vals _ =>
    let vs := dec vals
    (dec idx).map fun k => match k with
      | .int j => vs.getD j.toNat .null
      | _ => .null
  | .union _ fs types offs _ =>
    let cols := decCols fs
    List.zipWith (fun t o => LVal.union t ((cols.getD t.toNat ("", [])).2.getD o.toNat .null)) types offs
def decCols : BL → List (String × List LVal)
  | .nil => []
  | .cons b m r => (m.name, dec b) :: decCols r
end

/-- the columns of the root struct -/
def decRoot : B → List (List LVal)
  | .struct _ _ _ fs _ _ _ => (decCols fs).map (·.2)
  | _ => []

end SaModel.Build
