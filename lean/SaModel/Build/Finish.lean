import SaModel.Build.Push
/-
`into_array` of every builder (state → physical array), `take`, and the front ends
(`ArrayBuilder::{push, extend, build_arrays}`, `Serializer`, `to_marrow`).
-/
namespace SaModel.Build
open SaModel

/-- LSB-first packing of abstract bits into bytes (what `set_bit_buffer` has written, zero padded) -/
def packByte (bs : List Bool) : UInt8 :=
  UInt8.ofNat ((bs.zipIdx.map fun (b, i) => if b then 2 ^ i else 0).sum)

def packBits : List Bool → Bytes
  | [] => []
  | b :: bs =>
    let chunk := (b :: bs).take 8
    packByte chunk :: packBits ((b :: bs).drop 8)
termination_by l => l.length
decreasing_by simp; omega

def finishValidity (v : Validity) : Option Bits := v.map fun b => { data := packBits b, offset := 0 }

def primOfInt : IntTy → PrimTy
  | .i8 => .int8 | .i16 => .int16 | .i32 => .int32 | .i64 => .int64
  | .u8 => .uint8 | .u16 => .uint16 | .u32 => .uint32 | .u64 => .uint64

def finishLeaf (k : LeafKind) (v : Validity) (vals : List Int) : Arr :=
  match k with
  | .bool => .boolean vals.length (finishValidity v) { data := packBits (vals.map (· != 0)), offset := 0 }
  | .int t => .prim (primOfInt t) (finishValidity v) vals
  | .f16 => .prim .float16 (finishValidity v) vals
  | .f32 => .prim .float32 (finishValidity v) vals
  | .f64 => .prim .float64 (finishValidity v) vals
  | .date32 => .prim .date32 (finishValidity v) vals
  | .date64 => .prim .date64 (finishValidity v) vals
  | .time32 u => .time .time32 u (finishValidity v) vals
  | .time64 u => .time .time64 u (finishValidity v) vals
  | .duration u => .time .duration u (finishValidity v) vals
  | .timestamp u tz _ => .timestamp u tz (finishValidity v) vals
  | .decimal p s => .decimal128 p s (finishValidity v) vals

/-- number of rows a builder holds -/
def B.rows : B → Nat
  | .null _ len => len
  | .unknownVariant _ => 0
  | .leaf _ _ _ vals => vals.length
  | .bytes _ _ _ offs _ => offs.length - 1
  | .bytesView _ _ _ views _ => views.length
  | .fixedSizeBinary _ _ len _ _ _ => len
  | .list _ _ _ _ offs _ => offs.length - 1
  | .fixedSizeList _ _ _ len _ _ _ => len
  | .map _ _ _ offs _ _ => offs.length - 1
  | .struct _ len _ _ _ _ _ => len
  | .dictionary _ idx _ _ => idx.rows
  | .union _ _ types _ _ => types.length

/-- the array of a (non-nullable) string builder after one more `serialize_str("")` -/
def appendEmptyStr : Arr → Arr
  | .bytes ty v offs data => .bytes ty v (offs ++ [offs.getLastD 0]) data
  | .bytesView ty v views bufs => .bytesView ty v (views ++ [packInline []]) bufs
  | a => a

mutual
/-- `into_array` -/
def finish (ext : Ext) : B → R Arr
  | .null _ len => .ok (.null len)
  | .unknownVariant _ => .ok (.null 0)
  | .leaf _ k v vals => .ok (finishLeaf k v vals)
  | .bytes _ ty v offs data => .ok (.bytes ty (finishValidity v) offs data)
  | .bytesView _ ty v views buf => .ok (.bytesView ty (finishValidity v) views [buf])
  | .fixedSizeBinary _ n _ v buf _ =>
    if (n : Int) > 2147483647 then fail "out of range integral type conversion attempted"
    else .ok (.fixedSizeBinary n (finishValidity v) buf)
  | .list _ large fm v offs el => do
    pure (.list large (finishValidity v) offs fm (← finish ext el))
  | .fixedSizeList _ fm n len v _ el =>
    if (n : Int) > 2147483647 then fail "out of range integral type conversion attempted"
    else do pure (.fixedSizeList len (finishValidity v) n fm (← finish ext el))
  | .map _ mm v offs ks vs => do
    pure (.map (finishValidity v) offs mm (← finish ext ks) (← finish ext vs))
  | .struct _ len v fs _ _ _ => do
    pure (.struct len (finishValidity v) (← finishFields ext fs))
  | .dictionary _ idx vals index => do
    let keys ← finish ext idx
    -- non-null dummy keys with no value at all: map them to the empty string so that they can be decoded
    let valsArr ← finish ext vals
    if !idx.isNullable && idx.rows != 0 && index.isEmpty then do
      let _ ← ctx vals.ann (pushScalar ext vals (.str ""))      -- `self.values.serialize_str("")` (may refuse)
      pure (.dictionary keys (appendEmptyStr valsArr))
    else pure (.dictionary keys valsArr)
  | .union _ fs types offs _ => do
    pure (.union types (some offs) (← finishUFields ext fs 0))
def finishFields (ext : Ext) : BL → R ArrFields
  | .nil => .ok .nil
  | .cons b m rest => do
    let a ← finish ext b
    let r ← finishFields ext rest
    pure (.cons m a r)
def finishUFields (ext : Ext) : BL → Nat → R ArrUFields
  | .nil, _ => .ok .nil
  | .cons b m rest, idx =>
    if idx > 127 then fail "out of range integral type conversion attempted"
    else do
      let a ← finish ext b
      let r ← finishUFields ext rest (idx + 1)
      pure (.cons idx m a r)
end

mutual
/-- `take`: what stays behind in the builder after its content has been moved out -/
def takeRest : B → B
  | .null p _ => .null p 0
  | .unknownVariant p => .unknownVariant p
  | .leaf p k v _ => .leaf p k (v.map fun _ => []) []
  | .bytes p ty v _ _ => .bytes p ty (v.map fun _ => []) [0] []
  | .bytesView p ty v _ _ => .bytesView p ty (v.map fun _ => []) [] []
  | .fixedSizeBinary p n _ v _ _ => .fixedSizeBinary p n 0 (v.map fun _ => []) [] 0
  | .list p large fm v _ el => .list p large fm (v.map fun _ => []) [0] (takeRest el)
  | .fixedSizeList p fm n _ v _ el => .fixedSizeList p fm n 0 (v.map fun _ => []) 0 (takeRest el)
  | .map p mm v _ ks vs => .map p mm (v.map fun _ => []) [0] (takeRest ks) (takeRest vs)
  | .struct p _ v fs cached _ seen =>
    .struct p 0 (v.map fun _ => []) (takeRestAll fs) (List.replicate cached.length none) 0 (List.replicate seen.length false)
  | .dictionary p idx vals _ => .dictionary p (takeRest idx) (takeRest vals) []
  | .union p fs _ _ cur => .union p (takeRestAll fs) [] [] (List.replicate cur.length 0)
def takeRestAll : BL → BL
  | .nil => .nil
  | .cons b m rest => .cons (takeRest b) m (takeRestAll rest)
end

/-! ### front ends -/

/-- `OuterSequenceBuilder` as a serializer (`ArrayBuilder::extend`): a sequence / tuple / tuple struct of records -/
def extend (ext : Ext) (root : B) : SVal → R B
  | .some v => extend ext root v
  | .newtypeStruct _ v => extend ext root v
  | .seq xs | .tuple xs | .tupleStruct _ xs => pushAll root xs
  | .none | .unit | .unitStruct _ => pushNone root
  | x => ctx root.ann (notSupported s!"serialize_{x.kind}")
where pushAll (root : B) : SVals → R B
  | .nil => .ok root
  | .cons x rest => do
    let r ← push ext root x
    pushAll r rest

/-- `build_arrays`: take the columns out of the root struct and turn each into an array -/
def buildArrays (ext : Ext) (root : B) : R (List Arr × B) :=
  match root with
  | .struct _ _ _ fs _ _ _ => do
    let cols ← finishFields ext fs
    pure (cols.toList.map (·.2), takeRest root)
  | _ => panic "root builder is not a struct"

/-- `Serializer<&mut ArrayBuilder>` (serializer.rs): a sequence / tuple / tuple struct / tuple variant of records,
through newtype wrappers; every element goes through `ArrayBuilder::push` -/
def serializeWith (ext : Ext) (root : B) : SVal → R B
  | .newtypeStruct _ v => serializeWith ext root v
  | .newtypeVariant _ _ _ v => serializeWith ext root v
  | .seq xs | .tuple xs | .tupleStruct _ xs | .tupleVariant _ _ _ xs => extend.pushAll ext root xs
  | x => fail s!"Serializer expects a sequence of records, not a single {x.kind}"

/-- the builder state after all rows have been pushed (before `build_arrays`) -/
def runRows (ext : Ext) (fields : List Field) (rows : List SVal) : R B := do
  let root ← newRoot fields
  rows.foldlM (push ext) root

/-- `to_marrow(fields, items)` where `items` serializes as a sequence of records -/
def toMarrow (ext : Ext) (fields : List Field) (rows : List SVal) : R (List Arr) := do
  let root ← newRoot fields
  let root ← rows.foldlM (push ext) root
  let (arrs, _) ← buildArrays ext root
  pure arrs

end SaModel.Build
