import SaModel.Build.Finish
/-
`ArrayBuilder` WITH the flag that refuses its use after a failed operation (`internal/array_builder.rs` after repo
fix "poison the ArrayBuilder after a failed operation"; `internal/serializer.rs`).

A `push` that fails half way through a record leaves the nested builders behind with a partial row (the struct child
`a` got its value, the child `b` did not): the unrepaired crate went on using that state — the next `push` succeeded and
`to_marrow` returned a struct array with children of unequal length, `to_arrow` failed, `to_arrow2` panicked (finding
C10-use-after-failed-push, notes/C10.md).  The repaired `ArrayBuilder` carries `poisoned: bool`:

    fn guarded(&mut self, op) -> Result<T> { self.ensure_consistent()?; self.poisoned = true; let res = op(self)?;
                                             self.poisoned = false; Ok(res) }

`push`, `extend`, `build_arrays` (hence `to_marrow` / `to_arrow` / `to_record_batch` / `to_arrow2`) run under `guarded`;
the `Serializer` wrapper calls `ensure_consistent` when a collection starts and routes every element through
`ArrayBuilder::push`.  The nested builders of a poisoned `ArrayBuilder` are never read or written again, which is why the
model need not say what a failing `push` leaves behind: the state is `G = Option B`, `none` = poisoned.

Every operation yields its OUTCOME and the state it leaves (`R α × G`): histories continue after a failing operation
(`Props/C10Fail.lean`: `runG`, `after_failure_refuses`, `build_ok_oneShot`).
-/
namespace SaModel.Build
open SaModel

/-- the text of `ArrayBuilder::ensure_consistent` -/
def poisonedMsg : String :=
  "The ArrayBuilder is in an inconsistent state after an earlier error: it may hold partial records and cannot be used any more"

/-- `ArrayBuilder { builder, schema, poisoned }` as far as the nested builders go: `none` = `poisoned` -/
abbrev G := Option B

/-- `ArrayBuilder::guarded(op)`: refused when poisoned; poisoned unless `op` succeeds -/
def guarded {α : Type} (g : G) (op : B → R (α × B)) : R α × G :=
  match g with
  | none => (fail poisonedMsg, none)
  | some b =>
    match op b with
    | .ok (a, b') => (.ok a, some b')
    | .error e => (.error e, none)

/-- `ArrayBuilder::push(&record)` -/
def pushG (ext : Ext) (g : G) (x : SVal) : R Unit × G :=
  guarded g fun b => (push ext b x).map fun b' => ((), b')

/-- `ArrayBuilder::extend(&records)` (whatever `OuterSequenceBuilder::extend` refuses — also a value that is no
collection, before any record was touched — poisons the builder: the guard does not look at the error) -/
def extendG (ext : Ext) (g : G) (x : SVal) : R Unit × G :=
  guarded g fun b => (extend ext b x).map fun b' => ((), b')

/-- `ArrayBuilder::build_arrays` (= `to_marrow`; the first step of `to_arrow`, `to_record_batch`, `to_arrow2`) -/
def buildArraysG (ext : Ext) (g : G) : R (List Arr) × G :=
  guarded g (buildArrays ext)

/-- the elements of a collection given to the `Serializer` wrapper: each one through `ArrayBuilder::push`
(`CollectionSerializer::serialize_element` / `serialize_field`), the first failing one ends the call -/
def pushAllG (ext : Ext) : G → SVals → R Unit × G
  | g, .nil => (.ok (), g)
  | g, .cons x rest =>
    match pushG ext g x with
    | (.ok _, g') => pushAllG ext g' rest
    | (.error e, g') => (.error e, g')

/-- `records.serialize(Serializer::new(&mut builder))` (serializer.rs): newtype layers are transparent; a sequence /
tuple / tuple struct / tuple variant first asks the builder whether it is still consistent, then pushes its elements;
every other value is refused by the wrapper itself — the builder is not touched and stays as it was -/
def serializeWithG (ext : Ext) (g : G) : SVal → R Unit × G
  | .newtypeStruct _ v => serializeWithG ext g v
  | .newtypeVariant _ _ _ v => serializeWithG ext g v
  | .seq xs | .tuple xs | .tupleStruct _ xs | .tupleVariant _ _ _ xs =>
    match g with
    | none => (fail poisonedMsg, none)
    | some _ => pushAllG ext g xs
  | x => (fail s!"Serializer expects a sequence of records, not a single {x.kind}", g)

/-- does the `Serializer` wrapper reach the builder with this value (a collection behind newtype layers)?  Every other
value is refused by the wrapper itself and leaves the builder as it was -/
def reachesBuilder : SVal → Bool
  | .newtypeStruct _ v => reachesBuilder v
  | .newtypeVariant _ _ _ v => reachesBuilder v
  | .seq _ | .tuple _ | .tupleStruct _ _ | .tupleVariant _ _ _ _ => true
  | _ => false

/-- what the `Serializer` wrapper checks BEFORE it reaches the builder: a value that is not a collection behind newtype
layers is refused with the wrapper's own error (the error `serializeWithG` returns for it, `Props/C19Fail.lean`) -/
def serializerPre : SVal → R Unit
  | .newtypeStruct _ v => serializerPre v
  | .newtypeVariant _ _ _ v => serializerPre v
  | .seq _ | .tuple _ | .tupleStruct _ _ | .tupleVariant _ _ _ _ => .ok ()
  | x => fail s!"Serializer expects a sequence of records, not a single {x.kind}"

end SaModel.Build
