import SaModel.Build.Dec
/-
The state invariant of the refinement proofs (between two pushes, i.e. outside a record):
bitmap length = row count when nullable; offsets start at 0, never decrease and end at the child length;
fixed-size children hold n entries per row; struct children all at the row count; per-variant counters =
child lengths, type ids and dense offsets in range; dictionary index ↔ values, keys in range; view
descriptors designate bytes of the buffer, which stays below 4 GiB (`push_scalar_value` / `end_seq` refuse offsets
and lengths beyond `i32::MAX`).
-/
namespace SaModel.Build
open SaModel SaModel.Spec

/-- one validity bit per row (when there is a bitmap) -/
def VLen (v : Validity) (n : Nat) : Prop := ∀ bits, v = some bits → bits.length = n

/-- offsets start at 0, never decrease, and end at the child length -/
def OffsOK (offs : List Int) (childLen : Nat) : Prop :=
  offs.head? = some 0 ∧ offs.getLast? = some (childLen : Int) ∧ offs.Pairwise (· ≤ ·)

/-- `cached[j] = some key` ⇒ the key's content is the name of field `j` (address identity ⇒ content identity) -/
def CacheInv (names : List String) (cached : List (Option (String × Nat))) : Prop :=
  cached.length = names.length ∧ ∀ (j : Nat) (key : String × Nat), cached[j]? = some (some key) → names[j]? = some key.1

mutual
/-- `serialize_default` into this builder appends rows whose meaning never changes afterwards.  The only
builder for which this can fail is a dictionary with non-nullable keys: its placeholder is the key `0`, which
designates nothing while the dictionary is empty and the first value pushed later on (the row is hidden below a
null ancestor in the finished array, but `dec` of the dictionary builder itself is not append-only). -/
def DefSafe : B → Prop
  | .dictionary _ idx _ _ => idx.isNullable = true ∧ DefSafe idx
  | .struct _ _ _ fs _ _ _ => DefSafeL fs
  | .fixedSizeList _ _ _ _ _ _ el => DefSafe el
  | .union _ fs _ _ _ => DefSafeFirst fs
  | _ => True
def DefSafeL : BL → Prop
  | .nil => True
  | .cons b _ r => DefSafe b ∧ DefSafeL r
/-- the child `UnionBuilder::serialize_default` delegates to (the first that is not a placeholder; placeholders
themselves are trivially `DefSafe`) -/
def DefSafeFirst : BL → Prop
  | .nil => True
  | .cons b _ r => (b.isPlaceholder = true → DefSafeFirst r) ∧ (b.isPlaceholder = false → DefSafe b)
end

/-- is this a dictionary builder? -/
def B.isDict : B → Bool
  | .dictionary _ _ _ _ => true
  | _ => false

mutual
/-- every builder that issues `serialize_default` (a nullable struct or fixed-size list receiving a null)
targets `DefSafe` children; and the KEY builder of a dictionary is not itself a dictionary (a dictionary forwards
integers through `to_string`, so a dictionary-keyed dictionary would receive its keys as strings and hand back
whatever its own values decode to).  A property of the schema only (see `Lemmas/C10Take`: unchanged by every push). -/
def Safe : B → Prop
  | .list _ _ _ _ _ el => Safe el
  | .fixedSizeList _ _ _ _ v _ el => Safe el ∧ (v.isSome = true → DefSafe el)
  | .map _ _ _ _ ks vs => Safe ks ∧ Safe vs
  | .struct _ _ v fs _ _ _ => SafeL fs ∧ (v.isSome = true → DefSafeL fs)
  | .dictionary _ idx vals _ => idx.isDict = false ∧ Safe idx ∧ Safe vals
  | .union _ fs _ _ _ => SafeL fs
  | _ => True
def SafeL : BL → Prop
  | .nil => True
  | .cons b _ r => Safe b ∧ SafeL r
end

/-- is this a Utf8 / LargeUtf8 builder (the value builder `build_builder` means a dictionary to have)? -/
def B.isUtf8B : B → Bool
  | .bytes _ ty _ _ _ => isUtf8Ty ty
  | _ => false

/-- is this an integer leaf builder (the key builder of an Arrow dictionary)? -/
def B.isIntLeaf : B → Bool
  | .leaf _ (.int _) _ _ => true
  | _ => false

/-- value builders of a dictionary that refuse `serialize_str` (every builder but the string builders, the builders
that parse strings — dates, times, timestamps, durations, decimals — and a nested dictionary): a dictionary with such
a value builder never holds a value, every non-null push into it fails. -/
def B.refusesStr : B → Bool
  | .leaf _ k _ _ =>
    match k with
    | .bool | .int _ | .f16 | .f32 | .f64 => true
    | _ => false
  | .bytes _ ty _ _ _ => !isUtf8Ty ty
  | .bytesView _ ty _ _ _ => !(ty == .utf8View)
  | .dictionary _ _ _ _ => false
  | _ => true

/-- values decoded = index entries: when the value builder of a dictionary is a Utf8 / LargeUtf8 builder, the
values it holds are exactly the strings of the index, in insertion order (`values[index[s]] = s`); when the value
builder refuses strings the index is empty (an entry is made only after `values.serialize_str` succeeded).  Other value
builders (`build_builder` accepts any type, e.g. `Dictionary(Int8, Date32)` stores parsed dates) are not constrained. -/
def DictVals (vals : B) (index : List String) : Prop :=
  (vals.isUtf8B = true → dec vals = index.map fun s => LVal.str (strBytes s)) ∧
  (vals.refusesStr = true → index = [])

mutual
def WFB : B → Prop
  | .null _ _ => True
  | .unknownVariant _ => True
  | .leaf _ _ v vals => VLen v vals.length
  | .bytes _ _ v offs data => OffsOK offs data.length ∧ VLen v (offs.length - 1)
  | .bytesView _ _ v views buf =>
    VLen v views.length ∧ (∀ d ∈ views, (decodeView [buf] d).isOk = true) ∧ buf.length < 2 ^ 32
  | .fixedSizeBinary _ n len v buf _ => VLen v len ∧ buf.length = len * n
  | .list _ _ _ v offs el => OffsOK offs (dec el).length ∧ VLen v (offs.length - 1) ∧ WFB el
  | .fixedSizeList _ _ n len v _ el => VLen v len ∧ (dec el).length = len * n ∧ WFB el
  | .map _ _ v offs ks vs =>
    OffsOK offs (dec ks).length ∧ (dec vs).length = (dec ks).length ∧ VLen v (offs.length - 1) ∧ WFB ks ∧ WFB vs
  | .struct _ len v fs cached _ seen =>
    VLen v len ∧ WFL fs len ∧ seen.length = fs.length ∧ fs.names.Nodup ∧ CacheInv fs.names cached
  | .dictionary _ idx vals index =>
    WFB idx ∧ WFB vals ∧ index.Nodup ∧
    (dec vals).length = index.length ∧
    (∀ k ∈ dec idx, ∀ j : Int, k = .int j → 0 ≤ j ∧ j.toNat < index.length) ∧
    DictVals vals index
  | .union _ fs types offs cur =>
    types.length = offs.length ∧ cur.length = fs.length ∧ WFU fs cur ∧
    (∀ to ∈ types.zip offs,
      0 ≤ to.1 ∧ 0 ≤ to.2 ∧ ∃ c, fs.get? to.1.toNat = some c ∧ to.2.toNat < (dec c.1).length)
/-- struct children: all well formed and all at the row count -/
def WFL : BL → Nat → Prop
  | .nil, _ => True
  | .cons b _ r, len => WFB b ∧ (dec b).length = len ∧ WFL r len
/-- union children: well formed, and the per-variant counter equals the child's length -/
def WFU : BL → List Int → Prop
  | .nil, _ => True
  | .cons b _ r, cur => WFB b ∧ cur.head? = some ((dec b).length : Int) ∧ WFU r cur.tail
end

end SaModel.Build
