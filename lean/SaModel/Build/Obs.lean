import SaModel.Build.Dec
/-
The OBSERVABLE rows of a builder state (the abstraction function of the "hidden rows" refinement, Props/C01Obs.lean).

`dec b` (Build/Dec.lean) reads every slot of a builder, also the slots hidden below a null ancestor.  `decH b` is `dec b`
with every row the state does NOT determine replaced by `none`:
  * a dictionary row whose key designates no value (yet) — the placeholder key 0 a non-nullable key builder receives
    through `serialize_default` while the dictionary is empty — is `none`;
  * a struct / list / fixed-size list / map / union row is `none` when a child row it READS is `none`; a row whose own
    validity bit is clear reads no child and is the determined value `null`.
So whatever sits below a null parent never reaches the parent's rows (the Arrow reading rule: `Spec.decodeAll` stops at
a null parent).  Executable: the correspondence driver evaluates it on the model's final state (suite `build`).
-/
namespace SaModel.Build
open SaModel SaModel.Spec

/-- observable rows: `none` = not determined by the state (only possible below a null ancestor) -/
abbrev H := List (Option LVal)

/-- rows whose validity bit is clear are (determined) nulls, whatever the slot holds -/
def maskNullH (v : Validity) (xs : H) : H :=
  match v with
  | none => xs
  | some bits => List.zipWith (fun b x => if b then x else some LVal.null) bits xs

/-- all rows determined? -/
def allSome {α} : List (Option α) → Option (List α)
  | [] => some []
  | none :: _ => none
  | some x :: r => (allSome r).map (x :: ·)

/-! pure row functions of the container families (children as lists of observable rows) -/

def listRowsH (offs : List Int) (elems : H) : H :=
  (pairs offs).map fun se => (allSome (sliceL elems se.1 se.2)).map fun xs => LVal.list (LVals.ofList xs)

def fslRowsH (n len : Nat) (elems : H) : H :=
  (List.range len).map fun i => (allSome ((elems.drop (i * n)).take n)).map fun xs => LVal.list (LVals.ofList xs)

def mapRowH (k w : Option (List LVal)) : Option LVal :=
  match k, w with
  | some k, some w => some (.map (LEntries.ofList (k.zip w)))
  | _, _ => none

def mapRowsH (offs : List Int) (ks vs : H) : H :=
  (pairs offs).map fun se => mapRowH (allSome (sliceL ks se.1 se.2)) (allSome (sliceL vs se.1 se.2))

/-- row `i` of a struct with the given observable columns -/
def rowAtH (cols : List (String × H)) (i : Nat) : Option LVal :=
  (allSome (cols.map fun c => (c.2.getD i (some .null)).map fun x => (c.1, x))).map fun fl => LVal.struct (LFields.ofList fl)

def structRowsH (len : Nat) (cols : List (String × H)) : H := (List.range len).map (rowAtH cols)

/-- a dictionary row: a key that designates no value is NOT determined -/
def dictRowH (vs : H) (k : Option LVal) : Option LVal :=
  match k with
  | some (.int j) => vs.getD j.toNat none
  | some _ => some .null
  | none => none

def unionRowH (cols : List (String × H)) (t o : Int) : Option LVal :=
  ((cols.getD t.toNat ("", [])).2.getD o.toNat (some .null)).map (LVal.union t)

mutual
/-- the observable rows of a builder state -/
def decH : B → H
  | .null p len => (dec (.null p len)).map some
  | .unknownVariant p => (dec (.unknownVariant p)).map some
  | .leaf p k v vals => (dec (.leaf p k v vals)).map some
  | .bytes p ty v offs data => (dec (.bytes p ty v offs data)).map some
  | .bytesView p ty v views buf => (dec (.bytesView p ty v views buf)).map some
  | .fixedSizeBinary p n len v buf c => (dec (.fixedSizeBinary p n len v buf c)).map some
  | .list _ _ _ v offs el => maskNullH v (listRowsH offs (decH el))
  | .fixedSizeList _ _ n len v _ el => maskNullH v (fslRowsH n len (decH el))
  | .map _ _ v offs ks vs => maskNullH v (mapRowsH offs (decH ks) (decH vs))
  | .struct _ len v fs _ _ _ => maskNullH v (structRowsH len (decHCols fs))
  | .dictionary _ idx vals _ => (decH idx).map (dictRowH (decH vals))
  | .union _ fs types offs _ => List.zipWith (unionRowH (decHCols fs)) types offs
def decHCols : BL → List (String × H)
  | .nil => []
  | .cons b m r => (m.name, decH b) :: decHCols r
end

mutual
/-- is some row ANYWHERE in the builder tree undetermined (a placeholder key hidden below a null ancestor)? -/
def anyUndet : B → Bool
  | .list _ _ _ _ _ el => anyUndet el
  | .fixedSizeList _ _ _ _ _ _ el => anyUndet el
  | .map _ _ _ _ ks vs => anyUndet ks || anyUndet vs
  | .struct _ _ _ fs _ _ _ => anyUndetL fs
  | .dictionary p idx vals index =>
    (decH (.dictionary p idx vals index)).any (·.isNone) || anyUndet idx || anyUndet vals
  | .union _ fs _ _ _ => anyUndetL fs
  | _ => false
def anyUndetL : BL → Bool
  | .nil => false
  | .cons b _ r => anyUndet b || anyUndetL r
end

end SaModel.Build
