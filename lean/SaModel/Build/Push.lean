import SaModel.Build.Builder
import SaModel.Spec.Decode
/-
`push b x` = `x.serialize(Mut(b))`: what each builder does for each serde call.  One mutual block,
structurally recursive on the serde value; the builder is threaded through as an accumulator.
-/
namespace SaModel.Build
open SaModel.Spec (isUtf8Ty)
open SaModel

/-- the mutable part of a `StructBuilder` while a record is being written -/
structure SS where
  path : String
  len : Nat
  validity : Validity
  fields : BL
  cached : List (Option (String × Nat))
  next : Nat
  seen : List Bool
deriving Repr

def SS.toB (s : SS) : B := .struct s.path s.len s.validity s.fields s.cached s.next s.seen

/-- `StructBuilder::start` (= `seq.start_seq()` + `reset()`) -/
def SS.start (s : SS) : R SS := do
  let v' ← setValidity s.validity s.len true
  pure { s with validity := v', len := s.len + 1, seen := List.replicate s.seen.length false, next := 0 }

/-- the loop of `StructBuilder::end`: unseen fields must be nullable and receive `serialize_none` -/
def endFields : BL → List Bool → R BL
  | .nil, _ => .ok .nil
  | .cons b m rest, seen =>
    match seen with
    | [] => panic "index out of bounds: seen"
    | s :: seenRest =>
      if s then do
        let r ← endFields rest seenRest
        pure (.cons b m r)
      else if !m.nullable then fail s!"Missing non-nullable field {m.name} in struct"
      else do
        let b' ← pushNone b
        let r ← endFields rest seenRest
        pure (.cons b' m r)

/-- `StructBuilder::end` -/
def SS.finishRow (s : SS) : R SS := do
  let fs ← endFields s.fields s.seen
  pure { s with fields := fs }

/-- `StructBuilder::element(idx, value)`; `pushChild` is `value.serialize(Mut(child))`.
`seen[idx]` is a raw index in the Rust code: out of range unwinds. -/
def SS.element (s : SS) (idx : Nat) (pushChild : B → R B) : R SS :=
  match s.seen[idx]? with
  | none => panic "index out of bounds: seen[idx]"
  | some true => ctx [("data_type", "Struct(..)"), ("field", s.path)] (fail "Duplicate field")
  | some false =>
    match s.fields.get? idx with
    | none => panic "index out of bounds: fields[idx]"
    | some (c, _) => do
      let c' ← pushChild c
      pure { s with fields := s.fields.set idx c', seen := s.seen.set idx true, next := idx + 1 }

/-- `UnionBuilder::serialize_variant`: bookkeeping for one row of variant `idx`; returns the variant's builder.
`current_offset: Vec<i32>`: the next offset `co + 1` is a CHECKED addition (repo fix 217d612: beyond `i32::MAX` rows of
one variant the push is an error, raised before `offsets` / `types` are touched). -/
def serializeVariant (fs : BL) (types offs cur : List Int) (idx : Nat) : R (B × List Int × List Int × List Int) :=
  match fs.get? idx with
  | none => fail s!"Could not find variant {idx} in Union"
  | some (c, _) =>
    match cur[idx]? with
    | none => panic "index out of bounds: current_offset[variant_index]"
    | some co =>
      if co + 1 > 2147483647 then
        fail s!"Invalid union offsets: the offset type cannot represent the number of elements of variant {idx}"
      else if idx > 127 then fail "out of range integral type conversion attempted"
      else .ok (c, types ++ [(idx : Int)], offs ++ [co], cur.set idx (co + 1))

/-- the pinned `serialize_variant` (before 217d612): `self.current_offset[variant_index] += 1` on an `i32`, unchecked —
with overflow checks on it unwinds on the 2^31-th row of one variant (after `offsets` and `types` were pushed) -/
def serializeVariantPinned (fs : BL) (types offs cur : List Int) (idx : Nat) : R (B × List Int × List Int × List Int) :=
  match fs.get? idx with
  | none => fail s!"Could not find variant {idx} in Union"
  | some (c, _) =>
    match cur[idx]? with
    | none => panic "index out of bounds: current_offset[variant_index]"
    | some co =>
      if idx > 127 then fail "out of range integral type conversion attempted"
      else if co + 1 > 2147483647 then panic "attempt to add with overflow"
      else .ok (c, types ++ [(idx : Int)], offs ++ [co], cur.set idx (co + 1))

inductive SeqKind where
  | seq | tuple | tupleStruct
deriving Repr, BEq, DecidableEq

def SeqKind.name : SeqKind → String
  | .seq => "seq" | .tuple => "tuple" | .tupleStruct => "tuple_struct"

/-- `start_seq` / `push_seq_elements(1)`* / `end_seq` of a binary view array around the bytes of one sequence (after the
`fix:` above): `push_seq_elements` refuses the element that takes the length beyond `i32::MAX`, `end_seq` refuses an
out-of-line value whose start offset exceeds `i32::MAX`.  (The element bytes are converted up front in the model — a
non-`u8` element behind 2^31 valid ones is reported as that conversion error here, as the overflow in the code: both `Err`.) -/
def viewSeq (views : List Nat) (buf0 : Bytes) (bytes : Bytes) : R (List Nat × Bytes) :=
  if bytes.length > I32_MAX then fail s!"BytesView overflow: the element length {I32_MAX + 1} exceeds i32::MAX"
  else if bytes.length ≤ 12 then .ok (views ++ [packInline bytes], buf0)
  else if buf0.length > I32_MAX then fail s!"BytesView overflow: the buffer offset {buf0.length} exceeds i32::MAX"
  else .ok (views ++ [packExtern bytes 0 buf0.length], buf0 ++ bytes)

/-- scalar calls (`serialize_bool` … `serialize_bytes`, `serialize_unit_struct`): not recursive -/
def pushScalar (ext : Ext) (b : B) (x : SVal) : R B :=
  match b with
  | .null p len =>
    match x with
    | .unitStruct _ => .ok (.null p (len + 1))
    | _ => notSupported s!"serialize_{x.kind}"
  | .unknownVariant _ => fail s!"Unknown variant does not support serialize_{x.kind}"
  | .leaf p k v vals => do
    let val ← convLeaf ext k x
    let v' ← setValidity v vals.length true
    pure (.leaf p k v' (vals ++ [val]))
  | .bytes p ty v offs data =>
    let value : R Bytes :=
      if isUtf8Ty ty then
        match scalarToString ext x with
        | some s => .ok (strBytes s)
        | none => notSupported s!"serialize_{x.kind}"
      else match x with
        | .bytes bs => .ok bs
        | _ => notSupported s!"serialize_{x.kind}"
    do
      let bs ← value
      let v' ← setValidity v (offs.length - 1) true
      let offs' ← duplicateLast offs
      let offs'' ← incrementLast true (isLargeTy ty) offs' bs.length
      pure (.bytes p ty v' offs'' (data ++ bs))
  | .bytesView p ty v views buf =>
    let value : R Bytes :=
      if ty == .utf8View then
        match scalarToString ext x with
        | some s => .ok (strBytes s)
        | none => notSupported s!"serialize_{x.kind}"
      else match x with
        | .bytes bs => .ok bs
        | _ => notSupported s!"serialize_{x.kind}"
    do
      let bs ← value
      let (views', buf') ← viewPushValue views buf bs
      let v' ← setValidity v views.length true
      pure (.bytesView p ty v' views' buf')
  | .fixedSizeBinary p n len v buf cur =>
    match x with
    | .bytes bs =>
      if bs.length != n then fail "Invalid number of elements for fixed size binary"
      else do
        let v' ← setValidity v len true
        pure (.fixedSizeBinary p n (len + 1) v' (buf ++ bs) cur)
    | _ => notSupported s!"serialize_{x.kind}"
  | .dictionary p idx vals index =>
    -- `serialize_str`, `serialize_unit_variant` and the scalars forwarded through `to_string` (as Utf8Builder does).
    -- `self.values.serialize_str(v)?` and `idx.serialize(Mut(self.indices))` are calls of the CHILD builders' own
    -- `serialize_str` / `serialize_u64`, each of which ends in `.ctx(self)` of that child: an error the value builder
    -- raises (a string its type cannot take, its capacity) is annotated `{p}.value` / the value type, a key that does
    -- not fit the key type `{p}.key` / the key type; `Error::ctx` annotates only an error without annotations
    -- (error.rs), so the dictionary's own `.ctx(self)` (the `ctx b.ann` at the call sites of `pushScalar`) is a no-op then
    let key : Option String := scalarToString ext x
    match key with
    | some s =>
      match indexOfName index s with
      | some i => do
        let idx' ← ctx idx.ann (pushScalar ext idx (.int .u64 i))
        pure (.dictionary p idx' vals index)
      | none => do
        let vals' ← ctx vals.ann (pushScalar ext vals (.str s))
        let idx' ← ctx idx.ann (pushScalar ext idx (.int .u64 index.length))
        pure (.dictionary p idx' vals' (index ++ [s]))
    | none => notSupported s!"serialize_{x.kind}"
  | .list _ _ _ _ _ _ | .fixedSizeList _ _ _ _ _ _ _ | .map _ _ _ _ _ _ | .struct _ _ _ _ _ _ _
  | .union _ _ _ _ _ => notSupported s!"serialize_{x.kind}"
termination_by structural b

/-- `ListBuilder::serialize_bytes`: every byte is pushed to the child as a `u8` element -/
def pushByteElems (ext : Ext) (large : Bool) : B → List Int → Bytes → R (B × List Int)
  | el, offs, [] => .ok (el, offs)
  | el, offs, x :: rest => do
    let offs' ← incrementLast true large offs 1
    let el' ← ctx el.ann (pushScalar ext el (.int .u8 x.toNat))
    pushByteElems ext large el' offs' rest

def isBinaryTy : BytesTy → Bool
  | .binary | .largeBinary => true
  | _ => false

/-- `serialize_seq` / `serialize_tuple` / `serialize_tuple_struct` with their elements and `end`.
The element loops are passed in (`pe` list elements, `pc` counted elements, `pt` positional record fields,
`bytes` the `U8Serializer` results), so that `push` below stays structurally recursive. -/
def seqLikeWith (pe : Bool → B → List Int → R (B × List Int)) (pc : B → Nat → R (B × Nat))
    (pt : SS → R SS) (bytes : R Bytes) : B → SeqKind → R B
  | .list p large fm v offs el, _ => do
    let v' ← setValidity v (offs.length - 1) true
    let offs' ← duplicateLast offs
    let (el', offs'') ← pe large el offs'
    pure (.list p large fm v' offs'' el')
  | .fixedSizeList p fm n len v _ el, _ => do
    let v' ← setValidity v len true
    let (el', cnt) ← pc el 0
    if cnt != n then fail "Invalid number of elements for FixedSizedList"
    else pure (.fixedSizeList p fm n (len + 1) v' cnt el')
  | .bytes p ty v offs data, k =>
    if isBinaryTy ty then do
      let v' ← setValidity v (offs.length - 1) true
      let offs' ← duplicateLast offs
      let bs ← bytes
      let offs'' ← iter bs.length (fun o => incrementLast true (isLargeTy ty) o 1) offs'
      pure (.bytes p ty v' offs'' (data ++ bs))
    else notSupported s!"serialize_{k.name}_start"
  | .bytesView p ty v views buf, k =>
    if ty == .binaryView then do
      let v' ← setValidity v views.length true
      let bs ← bytes
      let (views', buf') ← viewSeq views buf bs
      pure (.bytesView p ty v' views' buf')
    else notSupported s!"serialize_{k.name}_start"
  | .fixedSizeBinary p n len v buf _, _ => do
    let v' ← setValidity v len true
    let bs ← bytes
    if bs.length != n then fail "Invalid number of elements for fixed size binary"
    else pure (.fixedSizeBinary p n (len + 1) v' (buf ++ bs) bs.length)
  | .struct p len v fs cached next seen, k =>
    match k with
    | .seq => notSupported "serialize_seq_start"
    | _ => do
      let s ← SS.start ⟨p, len, v, fs, cached, next, seen⟩
      let s ← pt s
      let s ← s.finishRow
      pure s.toB
  | .unknownVariant _, k => fail s!"Unknown variant does not support serialize_{k.name}_start"
  | _, k => notSupported s!"serialize_{k.name}_start"

/-- `serialize_struct` (+ fields via `pf` + `end`) -/
def recordWith (pf : SS → R SS) : B → R B
  | .struct p len v fs cached next seen => do
    let s ← SS.start ⟨p, len, v, fs, cached, next, seen⟩
    let s ← pf s
    let s ← s.finishRow
    pure s.toB
  | .unknownVariant _ => fail "Unknown variant does not support serialize_struct_start"
  | _ => notSupported "serialize_start_start"

mutual
/-- `x.serialize(Mut(b))` -/
def push (ext : Ext) : B → SVal → R B
  | b, .some v => push ext b v
  | b, .newtypeStruct _ v => push ext b v
  | b, .none => pushNone b
  | b, .unit =>
    match b with
    | .unknownVariant _ => ctx b.ann (fail "Unknown variant does not support serialize_unit")
    | _ => pushNone b
  | b, .seq xs => ctx b.ann (seqLikeWith (fun large el offs => pushElems ext large el offs xs) (fun el c => pushCountElems ext el c xs) (fun s => pushTupleElems ext s xs) (u8All xs) b .seq)
  | b, .tuple xs => ctx b.ann (seqLikeWith (fun large el offs => pushElems ext large el offs xs) (fun el c => pushCountElems ext el c xs) (fun s => pushTupleElems ext s xs) (u8All xs) b .tuple)
  | b, .tupleStruct _ xs => ctx b.ann (seqLikeWith (fun large el offs => pushElems ext large el offs xs) (fun el c => pushCountElems ext el c xs) (fun s => pushTupleElems ext s xs) (u8All xs) b .tupleStruct)
  | b, .record _ fs => ctx b.ann (recordWith (fun s => pushFields ext s fs) b)
  | b, .map es =>
    ctx b.ann (
      match b with
      | .struct p len v fs cached next seen => do
        let s ← SS.start ⟨p, len, v, fs, cached, next, seen⟩
        let s ← pushStructEntries ext { s with next := UNKNOWN_KEY } es
        let s ← s.finishRow
        pure s.toB
      | .map p mm v offs ks vs => do
        let v' ← setValidity v (offs.length - 1) true
        let offs' ← duplicateLast offs
        let (offs'', ks', vs') ← pushMapEntries ext offs' ks vs es
        pure (.map p mm v' offs'' ks' vs')
      | .unknownVariant _ => fail "Unknown variant does not support serialize_map_start"
      | _ => notSupported "serialize_map_start")
  | b, .mapRaw ops =>
    ctx b.ann (
      match b with
      | .struct p len v fs cached next seen => do
        let s ← SS.start ⟨p, len, v, fs, cached, next, seen⟩
        let s ← pushStructOps ext { s with next := UNKNOWN_KEY } ops
        let s ← s.finishRow
        pure s.toB
      | .map p mm v offs ks vs => do
        let v' ← setValidity v (offs.length - 1) true
        let offs' ← duplicateLast offs
        let (offs'', ks', vs') ← pushMapOps ext false offs' ks vs ops
        pure (.map p mm v' offs'' ks' vs')
      | .unknownVariant _ => fail "Unknown variant does not support serialize_map_start"
      | _ => notSupported "serialize_map_start")
  | b, .unitVariant n i vn =>
    ctx b.ann (
      match b with
      | .union p fs types offs cur => do
        let (c, types', offs', cur') ← serializeVariant fs types offs cur i
        let c' ← (match c with
          | .unknownVariant _ => ctx c.ann (fail "Unknown variant does not support serialize_unit")
          | _ => pushNone c)
        pure (.union p (fs.set i c') types' offs' cur')
      | _ => pushScalar ext b (.unitVariant n i vn))
  | b, .newtypeVariant _ i _ v =>
    ctx b.ann (
      match b with
      | .union p fs types offs cur => do
        let (c, types', offs', cur') ← serializeVariant fs types offs cur i
        let c' ← push ext c v
        pure (.union p (fs.set i c') types' offs' cur')
      | .bytes _ ty _ _ _ => if isUtf8Ty ty then fail "Cannot serialize enum with data as string" else notSupported "serialize_newtype_variant"
      | .bytesView _ ty _ _ _ => if ty == .utf8View then fail "Cannot serialize enum with data as string" else notSupported "serialize_newtype_variant"
      | .dictionary _ _ _ _ => fail "Cannot serialize enum with data as string"
      | .unknownVariant _ => fail "Unknown variant does not support serialize_newtype_variant"
      | _ => notSupported "serialize_newtype_variant")
  | b, .tupleVariant _ i _ xs =>
    ctx b.ann (
      match b with
      | .union p fs types offs cur => do
        let (c, types', offs', cur') ← serializeVariant fs types offs cur i
        let c' ← ctx c.ann (seqLikeWith (fun large el offs => pushElems ext large el offs xs) (fun el c => pushCountElems ext el c xs) (fun s => pushTupleElems ext s xs) (u8All xs) c .tupleStruct)
        pure (.union p (fs.set i c') types' offs' cur')
      | .bytes _ ty _ _ _ => if isUtf8Ty ty then fail "Cannot serialize enum with data as string" else notSupported "serialize_tuple_variant_start"
      | .bytesView _ ty _ _ _ => if ty == .utf8View then fail "Cannot serialize enum with data as string" else notSupported "serialize_tuple_variant_start"
      | .dictionary _ _ _ _ => fail "Cannot serialize enum with data as string"
      | .unknownVariant _ => fail "Unknown variant does not support serialize_tuple_variant_start"
      | _ => notSupported "serialize_tuple_variant_start")
  | b, .structVariant _ i _ fields =>
    ctx b.ann (
      match b with
      | .union p fs types offs cur => do
        let (c, types', offs', cur') ← serializeVariant fs types offs cur i
        let c' ← ctx c.ann (recordWith (fun s => pushFields ext s fields) c)
        pure (.union p (fs.set i c') types' offs' cur')
      | .bytes _ ty _ _ _ => if isUtf8Ty ty then fail "Cannot serialize enum with data as string" else notSupported "serialize_struct_variant_start"
      | .bytesView _ ty _ _ _ => if ty == .utf8View then fail "Cannot serialize enum with data as string" else notSupported "serialize_struct_variant_start"
      | .dictionary _ _ _ _ => fail "Cannot serialize enum with data as string"
      | .unknownVariant _ => fail "Unknown variant does not support serialize_struct_variant_start"
      | _ => notSupported "serialize_struct_variant_start")
  | b, .bytes bs =>
    ctx b.ann (
      match b with
      | .list p large fm v offs el => do
        -- `ListBuilder::serialize_bytes`: each byte is an element
        let v' ← setValidity v (offs.length - 1) true
        let offs' ← duplicateLast offs
        let (el', offs'') ← pushByteElems ext large el offs' bs
        pure (.list p large fm v' offs'' el')
      | _ => pushScalar ext b (.bytes bs))
  | b, .bool x => ctx b.ann (pushScalar ext b (.bool x))
  | b, .int t x => ctx b.ann (pushScalar ext b (.int t x))
  | b, .f32 x => ctx b.ann (pushScalar ext b (.f32 x))
  | b, .f64 x => ctx b.ann (pushScalar ext b (.f64 x))
  | b, .char x => ctx b.ann (pushScalar ext b (.char x))
  | b, .str x => ctx b.ann (pushScalar ext b (.str x))
  -- repo fix ae2fc46: the default `serialize_unit_struct` forwards to `serialize_unit` (`NullBuilder` keeps its own
  -- override, which does what its `serialize_none` does; `UnknownVariantBuilder` refuses under the method's own name)
  | b, .unitStruct _ =>
    match b with
    | .unknownVariant _ => ctx b.ann (fail "Unknown variant does not support serialize_unit_struct")
    | _ => pushNone b

/-- list elements: `push_seq_elements(1)` then the element into the child -/
def pushElems (ext : Ext) (large : Bool) : B → List Int → SVals → R (B × List Int)
  | el, offs, .nil => .ok (el, offs)
  | el, offs, .cons x rest => do
    let offs' ← incrementLast true large offs 1
    let el' ← push ext el x
    pushElems ext large el' offs' rest

/-- fixed-size list elements (`current_count += 1`) -/
def pushCountElems (ext : Ext) : B → Nat → SVals → R (B × Nat)
  | el, cnt, .nil => .ok (el, cnt)
  | el, cnt, .cons x rest => do
    let el' ← push ext el x
    pushCountElems ext el' (cnt + 1) rest

/-- positional record: tuple elements and tuple-struct fields beyond the schema are ignored -/
def pushTupleElems (ext : Ext) : SS → SVals → R SS
  | s, .nil => .ok s
  | s, .cons x rest =>
    if s.next < s.fields.length then do
      let s' ← s.element s.next (fun c => push ext c x)
      pushTupleElems ext s' rest
    else pushTupleElems ext s rest

/-- `serialize_struct_field` -/
def pushFields (ext : Ext) : SS → SFields → R SS
  | s, .nil => .ok s
  | s, .cons key al x rest =>
    match lookup s.fields.names s.cached s.next (key, al) with
    | (none, cached') => pushFields ext { s with cached := cached' } rest
    | (some idx, cached') => do
      let s' ← SS.element { s with cached := cached' } idx (fun c => push ext c x)
      pushFields ext s' rest

/-- a struct receiving a well-formed map: key then value -/
def pushStructEntries (ext : Ext) : SS → SEntries → R SS
  | s, .nil => .ok s
  | s, .cons k x rest => do
    let key ← keyStr k
    match indexOfName s.fields.names key with
    | none => pushStructEntries ext { s with next := UNKNOWN_KEY } rest
    | some idx => do
      let s' ← s.element idx (fun c => push ext c x)
      pushStructEntries ext { s' with next := UNKNOWN_KEY } rest

/-- a struct receiving an arbitrary stream of `serialize_key` / `serialize_value` calls -/
def pushStructOps (ext : Ext) : SS → SMapOps → R SS
  | s, .nil => .ok s
  | s, .key k rest => do
    let key ← keyStr k
    pushStructOps ext { s with next := (indexOfName s.fields.names key).getD UNKNOWN_KEY } rest
  | s, .value x rest =>
    if s.next != UNKNOWN_KEY then do
      let s' ← s.element s.next (fun c => push ext c x)
      pushStructOps ext { s' with next := UNKNOWN_KEY } rest
    else pushStructOps ext { s with next := UNKNOWN_KEY } rest

/-- `MapBuilder`: key ⇒ offset + 1 and push to keys; value ⇒ push to values -/
def pushMapEntries (ext : Ext) : List Int → B → B → SEntries → R (List Int × B × B)
  | offs, ks, vs, .nil => .ok (offs, ks, vs)
  | offs, ks, vs, .cons k x rest => do
    let offs' ← incrementLast true false offs 1
    let ks' ← push ext ks k
    let vs' ← push ext vs x
    pushMapEntries ext offs' ks' vs' rest

/-- `MapBuilder` receiving an arbitrary stream of `serialize_key` / `serialize_value` calls.  `pending` is
`MapBuilder::key_pending` (reset by `serialize_map_start`, local to one map value): a key while a value is outstanding,
a value without a key and an end with a key outstanding are refused BEFORE anything is touched; on a key the offset
is incremented and the key pushed before the flag is set. -/
def pushMapOps (ext : Ext) : Bool → List Int → B → B → SMapOps → R (List Int × B × B)
  | pending, offs, ks, vs, .nil =>
    if pending then fail "Invalid map: the last key has no value"
    else .ok (offs, ks, vs)
  | pending, offs, ks, vs, .key k rest =>
    if pending then fail "Invalid map: a key was serialized before the value of the previous key"
    else do
      let offs' ← incrementLast true false offs 1
      let ks' ← push ext ks k
      pushMapOps ext true offs' ks' vs rest
  | pending, offs, ks, vs, .value x rest =>
    if !pending then fail "Invalid map: a value was serialized without a key"
    else do
      let vs' ← push ext vs x
      pushMapOps ext false offs ks vs' rest
end

end SaModel.Build
