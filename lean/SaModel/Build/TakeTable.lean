/-
Vocabulary and interpreter of `SaModel/Generated/Takes.lean` (translator/takes.py): for every builder struct of
serde_arrow/src/internal/serialization/*.rs, every `impl ArrayExt for …` of utils/array_ext.rs and the top-level
`ArrayBuilder` of internal/array_builder.rs

  * how the constructor (`new`) initialises each field        (`Val`)
  * what the reset method (`take`, `take_self`, `take_records`, `build_arrays`) does to the field of `self` (`Take`)
  * where a field that `take` keeps is written outside the constructor (`writes`)

Hand written, core Lean only.  The translator copies shapes; everything that is DECIDED about them is decided here:
`leaves` (what a treatment leaves behind in `self`), `Val.isDefault` (is a value the type's `Default`), `sameVal`
(equality up to the tolerated rewrites), `fieldProblem` (does `take` leave what `new` creates), `kindOf` (the abstract
kind compared with the model's `takeRest`, `SaModel/Props/C10Gen.lean`).
-/
namespace SaModel.Build.TakeTable

/-- the length of a `vec![e; n]` -/
inductive Len where
  /-- `<what initialises field f>.len()` in `new`, `self.f.len()` in `take` -/
  | ofField (f : String)
  | lit (n : Nat)
  | other (rust : String)
deriving Repr, DecidableEq

/-- how `new` initialises a field / what `mem::replace` puts back -/
inductive Val where
  /-- `Default::default()`, `T::default()` -/
  | defaultCall
  /-- `T::new()` without arguments (`Vec::new()`, `HashMap::new()`, …) -/
  | newCall (ty : String)
  /-- a literal: `0` (any integer type suffix dropped), `false`, `None`, … -/
  | lit (text : String)
  /-- `vec![]` -/
  | vecEmpty
  /-- `vec![e]` -/
  | vecOne (item : Val)
  /-- `vec![e; n]` -/
  | vecRepeat (item : Val) (len : Len)
  /-- `is_nullable.then(Vec::new)`: `Some(empty)` iff the column is nullable -/
  | thenNew
  /-- an argument of `new`, moved or cloned into the field -/
  | arg (name : String)
  /-- `Box::new(<argument>)` -/
  | boxArg (name : String)
  /-- `T::new(args…)` of a type with its own `take` -/
  | ctor (ty : String) (args : String)
  /-- anything else, computed from the arguments (configuration) -/
  | computed (rust : String)
deriving Repr, DecidableEq

/-- what `take` does with the field of `self` -/
inductive Take where
  /-- `std::mem::take(&mut self.f)`: leaves `Default::default()` -/
  | memTake
  /-- `std::mem::replace(&mut self.f, v)` (or `self.f = v`): leaves `v` -/
  | replace (v : Val)
  /-- `self.f.as_mut().map(std::mem::take)`: leaves `Some(default)` iff it was `Some` -/
  | optMapTake
  /-- `self.f.clone()`: `self.f` unchanged -/
  | clone
  /-- `self.f` (a `Copy` field): unchanged -/
  | copy
  /-- `self.f.take()` / `self.f.take_self()` / `self.f.take_records()`: the field's own reset -/
  | childTake (method : String)
  /-- `Box::new(self.f.take())` -/
  | boxChildTake (method : String)
  /-- `self.f.iter_mut().map(|(b, m)| (b.take(), m.clone())).collect()`: every child builder's own reset -/
  | mapChildren (method : String)
  /-- `self.f` is not mentioned: unchanged; the returned struct gets `returned` -/
  | untouched (returned : String)
deriving Repr, DecidableEq

structure FieldRow where
  name : String
  /-- declared type (empty for the structs of marrow, whose declaration is not in the crate) -/
  ty : String
  /-- the identifiers of the declared type, in order -/
  tyIdents : List String
  init : Val
  take : Take
  /-- the Rust text of the initialiser and of the treatment, `file:line` of the latter -/
  newRust : String
  takeRust : String
  takeAt : String
  /-- writes to the field outside the constructor and the reset method (`fn: text`) — only collected for fields `take` keeps -/
  writes : List String
deriving Repr, DecidableEq

structure StructRow where
  /-- the Rust type (`UnionBuilder`, `BytesArray`, …; `ArrayBuilder` = the top-level one of internal/array_builder.rs) -/
  name : String
  file : String
  generics : List String
  newFn : String
  takeFn : String
  fields : List FieldRow
deriving Repr, DecidableEq

/-- the zero-argument constructors that ARE the type's `Default` -/
def defaultNews : List String := ["Vec", "HashMap", "BTreeMap", "String", "HashSet", "BTreeSet", "VecDeque"]

/-- the literals that are the `Default` of their type -/
def defaultLits : List String := ["0", "false", "None", "0.0"]

/-- is the value the `Default` of its type (what `mem::take` leaves behind)? -/
def Val.isDefault : Val → Bool
  | .defaultCall => true
  | .newCall ty => defaultNews.contains ty
  | .lit t => defaultLits.contains t
  | .vecEmpty => true
  | _ => false

/-- normal form up to the tolerated rewrites: every spelling of the `Default` becomes `defaultCall` -/
def Val.norm : Val → Val
  | .vecOne item => .vecOne item.norm
  | .vecRepeat item len => .vecRepeat item.norm len
  | v => if v.isDefault then .defaultCall else v

def sameVal (a b : Val) : Bool := decide (a.norm = b.norm)

/-- does the treatment leave the LENGTH of the field unchanged (so that `self.f.len()` in `take` is `f.len()` in `new`)? -/
def Take.keepsLength : Take → Bool
  | .clone | .copy | .untouched _ | .mapChildren _ => true
  | _ => false

def StructRow.field? (s : StructRow) (f : String) : Option FieldRow := s.fields.find? (·.name == f)

/-- the lengths a value mentions refer to fields whose length `take` does not change -/
def lensKept (s : StructRow) : Val → Bool
  | .vecOne item => lensKept s item
  | .vecRepeat item (.ofField f) => lensKept s item && (match s.field? f with | some g => g.take.keepsLength | none => false)
  | .vecRepeat item (.lit _) => lensKept s item
  | .vecRepeat _ (.other _) => false
  | _ => true

/-- configuration: a function of the arguments of `new` only -/
def Val.isConfig : Val → Bool
  | .arg _ | .computed _ => true
  | _ => false

def Val.isCtor : Val → Bool
  | .ctor _ _ => true
  | _ => false

/-- something with its own reset method -/
def Val.isChild : Val → Bool
  | .arg _ | .boxArg _ | .ctor _ _ | .computed _ => true
  | _ => false

/-- abstract kind of a field under `take`, compared with the model -/
inductive Kind where
  /-- configuration, unchanged -/
  | kept
  /-- left as the type's `Default` (empty / 0 / false / None) -/
  | resetDefault
  /-- left as the given non-default value (normal form) -/
  | resetTo (v : Val)
  /-- a validity buffer: `Some(empty)` iff nullable -/
  | validity
  /-- reset by the field's own `take` -/
  | child
deriving Repr, DecidableEq

def valText : Val → String
  | .defaultCall => "Default::default()"
  | .newCall ty => ty ++ "::new()"
  | .lit t => t
  | .vecEmpty => "vec![]"
  | .vecOne i => "vec![" ++ valText i ++ "]"
  | .vecRepeat i (.ofField f) => "vec![" ++ valText i ++ "; <" ++ f ++ ">.len()]"
  | .vecRepeat i (.lit n) => "vec![" ++ valText i ++ "; " ++ toString n ++ "]"
  | .vecRepeat i (.other r) => "vec![" ++ valText i ++ "; " ++ r ++ "]"
  | .thenNew => "is_nullable.then(Vec::new)"
  | .arg a => "<argument " ++ a ++ ">"
  | .boxArg a => "Box::new(<argument " ++ a ++ ">)"
  | .ctor ty args => ty ++ "::new(" ++ args ++ ")"
  | .computed r => "<computed: " ++ r ++ ">"

/-- why a reset does not restore the constructor's value -/
inductive Problem where
  /-- `mem::take` leaves the `Default`, `new` creates something else -/
  | takeOfNonDefault
  /-- `mem::replace(.., e)`: `e` is not the initialiser of `new` -/
  | replaceDiffers
  /-- the length of the replaced vector is read from a field whose length `take` changes -/
  | lengthNotKept
  /-- `as_mut().map(mem::take)` on a field that `new` does not create as `is_nullable.then(Vec::new)` -/
  | validityMismatch
  /-- the field keeps its content, but `new` creates a fresh value (it is state, not configuration) -/
  | keptState
  /-- the field keeps its content but is written after construction -/
  | keptWritten
  /-- reset through the field's own `take`, but `new` creates a plain value -/
  | childOfPlain
  /-- reset through the field's own `take`, but the type has no row in the table -/
  | childUnknown
deriving Repr, DecidableEq

/-- **the obligation per field.**  `none`: what `take` leaves in `self.f` is what `new` creates for the same
configuration.  (No string is built here: the kernel evaluates this function.) -/
def fieldProblem (s : StructRow) (f : FieldRow) : Option Problem :=
  match f.take with
  | .memTake => if f.init.isDefault then none else some .takeOfNonDefault
  | .replace v =>
    if !sameVal v f.init then some .replaceDiffers
    else if !lensKept s v then some .lengthNotKept
    else none
  | .optMapTake => if f.init = .thenNew then none else some .validityMismatch
  | .clone | .copy | .untouched _ =>
    -- a field that is kept must be configuration: an argument or computed from the arguments; `self.f` by value (a `Copy`
    -- type, which owns no buffer) may also be a `T::new(args…)` of the arguments (`DecimalParser::new(precision, scale, true)`)
    if !(f.init.isConfig || (f.take = .copy && f.init.isCtor)) then some .keptState
    else if !f.writes.isEmpty then some .keptWritten
    else none
  | .childTake _ | .boxChildTake _ | .mapChildren _ => if f.init.isChild then none else some .childOfPlain

def kindOf (f : FieldRow) : Kind :=
  match f.take with
  | .memTake => .resetDefault
  | .replace v => if v.isDefault then .resetDefault else .resetTo v.norm
  | .optMapTake => .validity
  | .clone | .copy | .untouched _ => .kept
  | .childTake _ | .boxChildTake _ | .mapChildren _ => .child

/-- is the type of a field reset through its own `take` one whose `take` is in the table (a listed struct, the enum
`ArrayBuilder` whose `take` dispatches to the variants, a type parameter of the struct — bounded by `ArrayExt`)?
`tyIdents`: the identifiers of the declared type. -/
def childKnown (names : List String) (s : StructRow) (f : FieldRow) : Bool :=
  match f.take with
  | .childTake _ | .boxChildTake _ | .mapChildren _ =>
    f.tyIdents.any fun n => names.contains n || s.generics.contains n || n == "ArrayBuilder"
  | _ => true

/-- every (struct, field) whose reset does not restore the constructor's value -/
def violations (structs : List StructRow) : List (String × String × Problem) :=
  let names := structs.map (·.name)
  structs.flatMap fun s => s.fields.filterMap fun f =>
    match fieldProblem s f with
    | some why => some (s.name, f.name, why)
    | none => if childKnown names s f then none else some (s.name, f.name, .childUnknown)

/-- for the build log only (strings do not reduce in the kernel) -/
def explain (structs : List StructRow) : String × String × Problem → String
  | (sn, fn, why) =>
    match structs.find? (·.name == sn) with
    | none => sn ++ "." ++ fn
    | some s =>
      match s.field? fn with
      | none => sn ++ "." ++ fn
      | some f =>
        let what := match why with
          | .takeOfNonDefault => "mem::take leaves Default::default(), but " ++ s.newFn ++ " creates " ++ valText f.init
          | .replaceDiffers => "mem::replace does not put back what " ++ s.newFn ++ " creates, " ++ valText f.init
          | .lengthNotKept => "the length of the replaced vector is read from a field that " ++ s.takeFn ++ " does not keep"
          | .validityMismatch => "as_mut().map(mem::take) leaves Some(empty) / None, but " ++ s.newFn ++ " creates " ++ valText f.init
          | .keptState => "the field keeps its content over " ++ s.takeFn ++ ", but " ++ s.newFn ++ " creates " ++ valText f.init
          | .keptWritten => "the field keeps its content over " ++ s.takeFn ++ " but is written after construction: " ++ "; ".intercalate f.writes
          | .childOfPlain => "reset through the field's own take, but " ++ s.newFn ++ " creates " ++ valText f.init
          | .childUnknown => "the type `" ++ f.ty ++ "` has no take in the table"
        s.name ++ "." ++ f.name ++ " (" ++ f.takeAt ++ ", `" ++ f.takeRust ++ "`; " ++ s.newFn ++ ": `" ++ f.newRust ++ "`): " ++ what

/-- `fn take` wrappers: (type, method, the reset method it calls) -/
abbrev Wrapper := String × String × String

/-- a wrapper is fine when the method it calls is the reset method of the type's row -/
def wrapperProblems (structs : List StructRow) (ws : List Wrapper) : List Wrapper :=
  ws.filter fun (ty, _, callee) => !structs.any (fun s => s.name == ty && s.takeFn == callee)

end SaModel.Build.TakeTable
