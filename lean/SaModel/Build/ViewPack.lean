import SaModel.Build.Push
/-
The `assert!`s of the `bytes_view` module (serde_arrow/src/internal/utils/array_ext.rs: `pack_len`, `pack_inline`,
`pack_extern`) as explicit `panic` branches, and the two callers (`push_scalar_value`; `start_seq` / `push_seq_elements` /
`end_seq`) written with them.  `Build/Builder.lean viewPushValue` and `Build/Push.lean viewSeq` — the definitions every
builder theorem is about — return the callers' `Err` first and have no branch for the asserts; `Props/C16View.lean` shows
that the asserted versions below are EQUAL to them on every input, i.e. that no assert can fire (additive: the model the
other properties use is unchanged).
-/
namespace SaModel.Build
open SaModel

/-- `bytes_view::pack_len` -/
def packLenA (len : Nat) : R Nat :=
  if len ≤ I32_MAX then .ok len else panic "bytes_view::pack_len: assert!(len <= i32::MAX as usize)"

/-- `bytes_view::pack_inline` -/
def packInlineA (data : Bytes) : R Nat :=
  if data.length ≤ 12 then .ok (packInline data) else panic "bytes_view::pack_inline: assert!(data.len() <= 12)"

/-- `bytes_view::pack_extern`: the four asserts in source order (the indexings `data[0]` … `data[3]` below them are covered
by the first) -/
def packExternA (data : Bytes) (buffer offset : Nat) : R Nat :=
  if data.length < 4 then panic "bytes_view::pack_extern: assert!(data.len() >= 4)"
  else if data.length > I32_MAX then panic "bytes_view::pack_extern: assert!(data.len() <= i32::MAX as usize)"
  else if buffer > I32_MAX then panic "bytes_view::pack_extern: assert!(buffer <= i32::MAX as usize)"
  else if offset > I32_MAX then panic "bytes_view::pack_extern: assert!(offset <= i32::MAX as usize)"
  else .ok (packExtern data buffer offset)

/-- `BytesViewArray::push_scalar_value` with the asserts of the packers (`buffers` is never empty: `vec![vec![]]` in `new`
and `take`, so `assert!(!self.buffers.is_empty())` has no branch here) -/
def viewPushValueA (views : List Nat) (buf0 : Bytes) (value : Bytes) : R (List Nat × Bytes) :=
  if value.length > 12 ∧ (value.length > I32_MAX ∨ buf0.length > I32_MAX) then
    fail s!"BytesView overflow: the length {value.length} or the buffer offset {buf0.length} exceeds i32::MAX"
  else if value.length ≤ 12 then do
    let d ← packInlineA value
    pure (views ++ [d], buf0)
  else do
    let d ← packExternA value 0 buf0.length
    pure (views ++ [d], buf0 ++ value)

/-- `start_seq`, `push_seq_elements(1)` once per byte, `end_seq` with the asserts of the packers: `pack_len(0)`, then
`pack_len(k)` for the running length (the call that would exceed `i32::MAX` is refused by the caller first; the model
keeps the last call, the earlier ones have smaller arguments), then `pack_inline` / `pack_extern(data, 0, start)` -/
def viewSeqA (views : List Nat) (buf0 : Bytes) (bytes : Bytes) : R (List Nat × Bytes) := do
  let _ ← packLenA 0
  if bytes.length > I32_MAX then fail s!"BytesView overflow: the element length {I32_MAX + 1} exceeds i32::MAX"
  else do
    let _ ← packLenA bytes.length
    if bytes.length ≤ 12 then do
      let d ← packInlineA bytes
      pure (views ++ [d], buf0)
    else if buf0.length > I32_MAX then fail s!"BytesView overflow: the buffer offset {buf0.length} exceeds i32::MAX"
    else do
      let d ← packExternA bytes 0 buf0.length
      pure (views ++ [d], buf0 ++ bytes)

end SaModel.Build
