import SaModel.Data.SVal
/-
The `Serialize` impls of the wrappers `serde_arrow::utils::{Item, Items}` (serde_arrow/src/internal/utils/mod.rs:17-153),
call by call, as values of the serde data model.  Everything a serializer — the builder, or the specification — sees of
a wrapper is the value below.  Theorems: Props/C11.lean (`item_is_record`, …), Props/C11Arrays.lean (`items_arrays`);
the `present` suite runs the real wrappers against these definitions.
-/
namespace SaModel.Build
open SaModel

/-- `impl<T: Serialize> Serialize for Item<T>` (utils/mod.rs:67-78): builds the local
`#[derive(Serialize)] struct Item<'a, T> { item: &'a T }` and serializes it — `serialize_struct("Item", 1)`, one
`serialize_field("item", &self.0)`, `end`.  `al`: the address identity of the static name `"item"`; `v`: the calls
`T::serialize` issues. -/
def serItem (al : Nat) (v : SVal) : SVal := .record "Item" (.cons "item" al v .nil)

/-- `impl<T: Serialize> Serialize for Items<&[T]>` (utils/mod.rs:140-151; the impls for `Vec<T>`, `&Vec<T>`, `[T; N]`,
`&[T; N]` delegate to it through `as_slice`, :104-138): `serialize_seq(Some(len))`, one `serialize_element(&Item(item))`
per item, `end`.  All elements go through the same `Item<&T>` impl, hence the same static `"item"` (`al`). -/
def serItems (al : Nat) (vs : List SVal) : SVal := .seq (SVals.ofList (vs.map (serItem al)))

end SaModel.Build
