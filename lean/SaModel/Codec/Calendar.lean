import SaModel.Codec.Span
/-
Calendar model (EXTERNAL: chrono owns this logic, serde_arrow only calls it).

* proleptic Gregorian days ↔ civil date by Hinnant's algorithms (`daysFromCivil`, `civilFromDays`);
* chrono's supported date range;
* the item parser of chrono 0.4.40 (`format::parse::parse_internal`) restricted to the items
  `NaiveDate::from_str` uses, and the string form `NaiveDate`'s `Display`/`Debug` and the crate's own
  negative-year branch produce.

Agreement of this file with chrono (and, inside its year range, jiff) is validated by the `temporal`
correspondence suite on every run; nothing is proved *about chrono*.
-/
namespace SaModel.Codec

/-- days since 1970-01-01 of the proleptic Gregorian date `y-m-d` (Hinnant, `days_from_civil`) -/
def daysFromCivil (y m d : Int) : Int :=
  let y := if m ≤ 2 then y - 1 else y
  let era := y / 400
  let yoe := y - era * 400
  let mp := (m + 9) % 12
  let doy := (153 * mp + 2) / 5 + d - 1
  let doe := yoe * 365 + yoe / 4 - yoe / 100 + doy
  era * 146097 + doe - 719468

/-- civil date of a day count (Hinnant, `civil_from_days`) -/
def civilFromDays (z : Int) : Int × Int × Int :=
  let z := z + 719468
  let era := z / 146097
  let doe := z - era * 146097
  let yoe := (doe - doe / 1460 + doe / 36524 - doe / 146096) / 365
  let y := yoe + era * 400
  let doy := doe - (365 * yoe + yoe / 4 - yoe / 100)
  let mp := (5 * doy + 2) / 153
  let d := doy - (153 * mp + 2) / 5 + 1
  let m := if mp < 10 then mp + 3 else mp - 9
  (if m ≤ 2 then y + 1 else y, m, d)

def isLeapYear (y : Int) : Bool := y % 4 = 0 && (y % 100 ≠ 0 || y % 400 = 0)

def daysInMonth (y m : Int) : Int :=
  if m = 2 then (if isLeapYear y then 29 else 28)
  else if m = 4 ∨ m = 6 ∨ m = 9 ∨ m = 11 then 30 else 31

def validDate (y m d : Int) : Bool := 1 ≤ m && m ≤ 12 && 1 ≤ d && d ≤ daysInMonth y m

/-- chrono: `NaiveDate::MIN.year()` / `MAX.year()` -/
def chronoMinYear : Int := -262143
def chronoMaxYear : Int := 262142
/-- -262143-01-01 and +262142-12-31 as days since the epoch -/
def chronoMinDays : Int := -96465292
def chronoMaxDays : Int := 95026236

def inChronoDays (z : Int) : Bool := chronoMinDays ≤ z && z ≤ chronoMaxDays

/-! ### chrono's item parser -/

/-- `char::is_whitespace` (Unicode White_Space) -/
def isWs (c : Char) : Bool :=
  let n := c.toNat
  (9 ≤ n && n ≤ 13) || n = 32 || n = 0x85 || n = 0xA0 || n = 0x1680 || (0x2000 ≤ n && n ≤ 0x200A) ||
  n = 0x2028 || n = 0x2029 || n = 0x202F || n = 0x205F || n = 0x3000

def skipWs : List Char → List Char
  | [] => []
  | c :: cs => if isWs c then skipWs cs else c :: cs

/-- `scan::number(s, 1, max)`: between one and `max` ASCII digits; value in `Nat` (an i64 overflow is
an error in chrono, every caller below rejects such values by its own range check) -/
def scanNumberAux : Nat → Nat → List Char → Nat × List Char
  | 0, acc, s => (acc, s)
  | _ + 1, acc, [] => (acc, [])
  | k + 1, acc, c :: cs => if isDigit c then scanNumberAux k (acc * 10 + digitVal c) cs else (acc, c :: cs)

def scanNumber (s : List Char) (max : Nat) : Option (List Char × Nat) :=
  match s with
  | c :: _ => if isDigit c then (let (v, rest) := scanNumberAux max 0 s; some (rest, v)) else none
  | [] => none

/-- `Item::Numeric(Year)`: signed; without a sign at most four digits -/
def itemYear (s : List Char) : Option (List Char × Int) :=
  match skipWs s with
  | '-' :: r => (scanNumber r r.length).map fun (rest, v) => (rest, -(v : Int))
  | '+' :: r => (scanNumber r r.length).map fun (rest, v) => (rest, (v : Int))
  | s => (scanNumber s 4).map fun (rest, v) => (rest, (v : Int))

/-- `Item::Numeric(Month | Day | Hour | Minute | Second)`: unsigned, at most two digits -/
def itemTwo (s : List Char) : Option (List Char × Nat) := scanNumber (skipWs s) 2

/-- `Item::Literal` of one char -/
def itemLit (c : Char) (s : List Char) : Option (List Char) :=
  match s with
  | x :: rest => if x = c then some rest else none
  | [] => none

/-- year, `-`, month, `-`, day with the `Space` items in between (not the trailing one) -/
def parseDateItems (s : List Char) : Option (List Char × Int × Nat × Nat) := do
  let (s, y) ← itemYear s
  let s ← itemLit '-' (skipWs s)
  let (s, m) ← itemTwo s
  let s ← itemLit '-' (skipWs s)
  let (s, d) ← itemTwo s
  pure (s, y, m, d)

/-- `Parsed::to_naive_date` for (year, month, day): a valid date inside chrono's range, as days since the epoch -/
def resolveDate (y : Int) (m d : Nat) : Option Int :=
  if chronoMinYear ≤ y ∧ y ≤ chronoMaxYear ∧ validDate y m d then some (daysFromCivil y m d) else none

/-- `s.parse::<NaiveDate>()` → days since 1970-01-01 (`signed_duration_since(UNIX_EPOCH).num_days()`) -/
def parseNaiveDate (s : List Char) : R Int :=
  match parseDateItems s with
  | some (rest, y, m, d) =>
    match skipWs rest with
    | [] =>
      match resolveDate y m d with
      | some z => .ok z
      | none => fail "chrono::ParseError: out of range"
    | _ => fail "chrono::ParseError: trailing input"
  | none => fail "chrono::ParseError: invalid"

/-! ### string forms -/

/-- `NaiveDate`'s `Debug`/`Display` for `year ≥ 0` and the crate's `-{:06}` branch for negative years -/
def formatDate (y m d : Int) : List Char :=
  let md := ['-'] ++ padDigits 2 m.toNat ++ ['-'] ++ padDigits 2 d.toNat
  if y < 0 then ['-'] ++ padDigitsMin 6 (-y).toNat ++ md
  else if y ≤ 9999 then padDigits 4 y.toNat ++ md
  else ['+'] ++ natDigits y.toNat ++ md

def formatDays (z : Int) : List Char :=
  let (y, m, d) := civilFromDays z
  formatDate y m d

/-! ### the Date32 / Date64 builders and readers (crate-owned part) -/

inductive DateTy where | date32 | date64
deriving DecidableEq, Repr

def DateTy.factor : DateTy → Int
  | .date32 => 1
  | .date64 => 86400000

def DateTy.inRange : DateTy → Int → Bool
  | .date32 => inI32
  | .date64 => inI64

/-- `DateBuilder::parse_str_to_days_since_epoch` (`I::try_from(days)`, then `* DAY_TO_VALUE_FACTOR`;
the product cannot overflow inside chrono's date range) -/
def dateOfString (ty : DateTy) (s : List Char) : R Int := do
  let days ← parseNaiveDate s
  if ty.inRange days then
    (if inI64 (days * ty.factor) then .ok (days * ty.factor) else panic "date_builder.rs: days_since_epoch * DAY_TO_VALUE_FACTOR")
  else fail "cannot convert days to the column's integer type"

/-- `DateDeserializer::get_string_repr` after the fixes: floor division, checked date arithmetic -/
def dateToString (ty : DateTy) (v : Int) : R (List Char) :=
  let days := v / ty.factor
  if inChronoDays days then .ok (formatDays days) else fail "Unsupported date value"

/-- Int division truncating toward zero (Rust `/`) -/
def tdiv (a b : Int) : Int := Int.tdiv a b

/-- pinned: `ts / DAY_TO_VALUE_FACTOR` truncates toward zero, `Duration::days` and `NaiveDate + TimeDelta` unwind
out of range -/
def dateToStringPinned (ty : DateTy) (v : Int) : R (List Char) :=
  let days := tdiv v ty.factor
  if inChronoDays days then .ok (formatDays days) else panic "date_deserializer.rs: `NaiveDate + TimeDelta` overflowed"

end SaModel.Codec
