import SaModel.Basic.Outcome
/-
Byte-level model of the Decimal128 codec of serde_arrow, function by function:

  serde_arrow/src/internal/utils/decimal.rs            DecimalParser::{new, parse_decimal128, copy_digits},
                                                       parse_sign, Sign::apply_i128, copy_digits_{integer_only,
                                                       fraction_only, mixed}, find_period, check_all_ascii_{zero,digit},
                                                       scaled_float_to_decimal128, format_decimal (+ write_val)
  serde_arrow/src/internal/serialization/decimal_builder.rs      serialize_str / serialize_f32 / serialize_f64
  serde_arrow/src/internal/serialization/outer_sequence_builder.rs   the `Decimal128` arm of build_builder
  serde_arrow/src/internal/deserialization/decimal_deserializer.rs   with_value

Text is bytes (`&str::as_bytes`), digits are `Nat`, i128 values are `Int` with the range made explicit
where the code parses / negates.  Every place where the Rust code can unwind is a `panic`: slice
indexing, the fixed parse / format buffers (their length is a parameter: 64 in the parser, 168 in
the repaired reader, 64 in the pinned reader), `-scale` on an `i8`, `usize` subtraction, `debug_assert!`.
`std::str::from_utf8(..).unwrap()` cannot fail (only ASCII digits / sign / point are written) and is not modelled.

This is the code AFTER the `fix:` commits (a96337b, e478dbd, b74bc3f, c1ae7cc, 4470dae, 02f31f8, 3b6f086);
the pinned behaviour is kept beside it as `…Pinned`.
-/
namespace SaModel.Decimal

abbrev Bytes := List UInt8

/-- `BUFFER_SIZE_I128` -/
def BUFFER_SIZE_I128 : Nat := 64
/-- `FORMAT_BUFFER_SIZE_I128 = 1 + 39 + 128` (repaired reader) -/
def FORMAT_BUFFER_SIZE_I128 : Nat := 168

def I128_MAX : Int := 170141183460469231731687303715884105727
def I128_MIN : Int := -170141183460469231731687303715884105728

def inI128 (v : Int) : Prop := I128_MIN ≤ v ∧ v ≤ I128_MAX
def inI8 (s : Int) : Prop := -128 ≤ s ∧ s ≤ 127

/-! ### slices and checked arithmetic -/

/-- `&s[a..b]` -/
def slice (s : Bytes) (a b : Nat) : R Bytes :=
  if a ≤ b ∧ b ≤ s.length then .ok ((s.drop a).take (b - a)) else panic "slice index out of range"

/-- `a - b` on `usize` (debug profile) -/
def checkedSub (a b : Nat) : R Nat :=
  if b ≤ a then .ok (a - b) else panic "attempt to subtract with overflow"

/-! ### the byte checks -/

/-- `check_all_ascii_zero` -/
def checkAllAsciiZero (s : Bytes) (leading : Bool) : R Unit :=
  if s.any (fun c => c != 48) then
    (if leading then fail "Invalid decimal: not enough precision"
     else fail "Invalid decimal: not enough scale, the given number would be truncated")
  else .ok ()

/-- `check_all_ascii_digit` -/
def checkAllAsciiDigit (s : Bytes) : R Unit :=
  if s.any (fun c => c < 48 || c > 57) then fail "Invalid decimal: only ascii digits are supported"
  else .ok ()

/-- `s.iter().position(|b| *b == b'.')` -/
def position : Bytes → Option Nat
  | [] => none
  | c :: rest => if c == 46 then some 0 else (position rest).map (· + 1)

/-- `find_period` -/
def findPeriod (s : Bytes) : Nat × Nat :=
  match position s with
  | some pos => (pos, pos + 1)
  | none => (s.length, s.length)

inductive Sign where
  | minus | plus | none
deriving Repr, DecidableEq

/-- `parse_sign` -/
def parseSign (s : Bytes) : Bytes × Sign :=
  match s with
  | 43 :: rest => (rest, .plus)
  | 45 :: rest => (rest, .minus)
  | _ => (s, .none)

/-- `Sign::apply_i128` (`-val` unwinds for `i128::MIN` in the debug profile) -/
def Sign.applyI128 (sg : Sign) (val : Int) : R Int :=
  match sg with
  | .minus => if val = I128_MIN then panic "attempt to negate with overflow" else .ok (-val)
  | _ => .ok val

/-! ### the three digit-copy functions -/

/-- `copy_digits_integer_only` -/
def copyDigitsIntegerOnly (bufLen : Nat) (s : Bytes) (precision scale : Nat) (truncate : Bool) : R Bytes := do
  let (beforePeriod, afterPeriod) := findPeriod s
  let endCopy := beforePeriod - scale          -- saturating_sub
  let startCopy := endCopy - precision         -- saturating_sub
  checkAllAsciiZero (← slice s 0 startCopy) true
  if !truncate then
    checkAllAsciiDigit (← slice s startCopy endCopy)
    checkAllAsciiZero (← slice s endCopy beforePeriod) false
    checkAllAsciiZero (← slice s afterPeriod s.length) false
  else
    checkAllAsciiDigit (← slice s startCopy beforePeriod)
    checkAllAsciiDigit (← slice s afterPeriod s.length)
  -- buffer[0..end_copy - start_copy].copy_from_slice(&s[start_copy..end_copy])
  if endCopy - startCopy > bufLen then panic "range end index out of range for the parse buffer" else
  slice s startCopy endCopy

/-- `copy_digits_fraction_only` -/
def copyDigitsFractionOnly (bufLen : Nat) (s : Bytes) (precision scale : Nat) (truncate : Bool) : R Bytes := do
  if scale < precision then panic "debug_assert!(scale >= precision)" else
  let (beforePeriod, afterPeriod) := findPeriod s
  let startCopy := min s.length (← checkedSub (afterPeriod + scale) precision)
  let endCopy := min s.length (afterPeriod + scale)
  let fill ← checkedSub precision (endCopy - startCopy)
  checkAllAsciiZero (← slice s 0 beforePeriod) true
  checkAllAsciiZero (← slice s afterPeriod startCopy) true
  if !truncate then
    checkAllAsciiDigit (← slice s startCopy endCopy)
    checkAllAsciiZero (← slice s endCopy s.length) false
  else
    checkAllAsciiDigit (← slice s startCopy s.length)
  -- buffer[0..n].copy_from_slice(..); buffer[n..][..fill].fill(b'0'); &buffer[..n + fill]
  if (endCopy - startCopy) + fill > bufLen then panic "range end index out of range for the parse buffer" else
  let copied ← slice s startCopy endCopy
  .ok (copied ++ List.replicate fill 48)

/-- `copy_digits_mixed` -/
def copyDigitsMixed (bufLen : Nat) (s : Bytes) (precision scale : Nat) (truncate : Bool) : R Bytes := do
  if ¬ scale < precision then panic "debug_assert!(scale < precision)" else
  let (beforePeriod, afterPeriod) := findPeriod s
  let startCopy := beforePeriod - (precision - scale)    -- saturating_sub
  let endCopy := min s.length (afterPeriod + scale)
  let fill ← checkedSub scale (endCopy - afterPeriod)
  checkAllAsciiZero (← slice s 0 startCopy) true
  let copy1 ← slice s startCopy beforePeriod
  checkAllAsciiDigit copy1
  if !truncate then
    checkAllAsciiDigit (← slice s afterPeriod endCopy)
    checkAllAsciiZero (← slice s endCopy s.length) false
  else
    checkAllAsciiDigit (← slice s afterPeriod s.length)
  let copy2 ← slice s afterPeriod endCopy
  if copy1.length + copy2.length + fill > bufLen then panic "range end index out of range for the parse buffer" else
  .ok (copy1 ++ copy2 ++ List.replicate fill 48)

/-! ### `DecimalParser` -/

inductive DecimalParser where
  | integerOnly (precision scale : Nat)
  | integerOnlyTruncated (precision scale : Nat)
  | mixed (precision scale : Nat)
  | mixedTruncated (precision scale : Nat)
  | fractionOnly (precision scale : Nat)
  | fractionOnlyTruncated (precision scale : Nat)
deriving Repr, DecidableEq

/-- `DecimalParser::new(precision: u8, scale: i8, truncated)`; `negate` models how `|scale|` is obtained -/
def DecimalParser.newWith (negate : Int → R Nat) (precision : Nat) (scale : Int) (truncated : Bool) : R DecimalParser := do
  if scale ≤ 0 && !truncated then
    .ok (.integerOnly precision (← negate scale))
  else if scale < 0 then
    .ok (.integerOnlyTruncated precision (← negate scale))
  else if scale.toNat < precision && !truncated then
    .ok (.mixed precision scale.toNat)
  else if scale.toNat < precision then
    .ok (.mixedTruncated precision scale.toNat)
  else if !truncated then
    .ok (.fractionOnly precision scale.toNat)
  else
    .ok (.fractionOnlyTruncated precision scale.toNat)

/-- repaired: `scale.unsigned_abs() as usize` -/
def unsignedAbs (scale : Int) : R Nat := .ok scale.natAbs
/-- pinned: `-scale as usize` — the `i8` negation unwinds for −128 -/
def negI8Pinned (scale : Int) : R Nat :=
  if scale = -128 then panic "attempt to negate with overflow" else .ok (-scale).toNat

def DecimalParser.new := DecimalParser.newWith unsignedAbs
def DecimalParser.newPinned := DecimalParser.newWith negI8Pinned

/-- `s.iter().any(u8::is_ascii_digit)` -/
def anyAsciiDigit (s : Bytes) : Bool := s.any (fun c => c >= 48 && c <= 57)

/-- `DecimalParser::copy_digits`; `requireDigit = false` is the pinned code (no "at least one digit" check) -/
def DecimalParser.copyDigitsWith (requireDigit : Bool) (self : DecimalParser) (bufLen : Nat) (s : Bytes) : R Bytes :=
  if requireDigit && !anyAsciiDigit s then fail "Invalid decimal: no digits found" else
  match self with
  | .integerOnly p k => copyDigitsIntegerOnly bufLen s p k false
  | .integerOnlyTruncated p k => copyDigitsIntegerOnly bufLen s p k true
  | .mixed p k => copyDigitsMixed bufLen s p k false
  | .mixedTruncated p k => copyDigitsMixed bufLen s p k true
  | .fractionOnly p k => copyDigitsFractionOnly bufLen s p k false
  | .fractionOnlyTruncated p k => copyDigitsFractionOnly bufLen s p k true

def DecimalParser.copyDigits := DecimalParser.copyDigitsWith true
def DecimalParser.copyDigitsPinned := DecimalParser.copyDigitsWith false

/-- the digits of `<i128 as FromStr>`: `none` at the first byte that is not an ASCII digit -/
def digitsNat? : Bytes → Nat → Option Nat
  | [], acc => some acc
  | c :: rest, acc => if c < 48 || c > 57 then none else digitsNat? rest (acc * 10 + (c.toNat - 48))

/-- `str::parse::<i128>()`: optional sign, at least one digit, `Err` on overflow -/
def parseI128 (ds : Bytes) : R Int :=
  match ds with
  | [] => fail "ParseIntError: cannot parse integer from empty string"
  | c :: rest =>
    let (neg, body) : Bool × Bytes := if c == 43 then (false, rest) else if c == 45 then (true, rest) else (false, ds)
    if body.isEmpty then fail "ParseIntError: invalid digit found in string" else
    match digitsNat? body 0 with
    | none => fail "ParseIntError: invalid digit found in string"
    | some n =>
      let v : Int := if neg then -(n : Int) else n
      if I128_MIN ≤ v ∧ v ≤ I128_MAX then .ok v
      else fail "ParseIntError: number too large to fit in target type"

/-- `DecimalParser::parse_decimal128` (repaired: an empty digit string is the value 0) -/
def DecimalParser.parseDecimal128 (self : DecimalParser) (bufLen : Nat) (s : Bytes) : R Int := do
  let (s, sign) := parseSign s
  let digits ← self.copyDigits bufLen s
  let val ← if digits.isEmpty then .ok 0 else parseI128 digits
  sign.applyI128 val

/-- pinned `parse_decimal128`: `self.copy_digits(buffer, s)?.parse()?` -/
def DecimalParser.parseDecimal128Pinned (self : DecimalParser) (bufLen : Nat) (s : Bytes) : R Int := do
  let (s, sign) := parseSign s
  let digits ← self.copyDigitsPinned bufLen s
  let val ← parseI128 digits
  sign.applyI128 val

/-! ### the builder (`build_builder` arm, `DecimalBuilder::new`, `serialize_str`, `serialize_f32/f64`) -/

/-- creating the column builder: repaired code refuses precisions a Decimal128 cannot have -/
def builderNew (precision : Nat) (scale : Int) : R DecimalParser :=
  if ¬ (1 ≤ precision ∧ precision ≤ 38) then fail "Decimal128 only supports precisions between 1 and 38"
  else DecimalParser.new precision scale true

def builderNewPinned (precision : Nat) (scale : Int) : R DecimalParser :=
  DecimalParser.newPinned precision scale true

/-- `DecimalBuilder::serialize_str` on a fresh `Decimal128(precision, scale)` column -/
def serializeStr (precision : Nat) (scale : Int) (v : Bytes) : R Int := do
  let parser ← builderNew precision scale
  parser.parseDecimal128 BUFFER_SIZE_I128 v

def serializeStrPinned (precision : Nat) (scale : Int) (v : Bytes) : R Int := do
  let parser ← builderNewPinned precision scale
  parser.parseDecimal128Pinned BUFFER_SIZE_I128 v

/-- `scaled_float_to_decimal128`. The float product `v * 10^scale` and its conversion `as i128`
(saturating, NaN ↦ 0) are external: `finite` = the product is finite, `cast` = `(v * factor) as i128`. -/
def scaledFloatToDecimal128 (finite : Bool) (cast : Int) (precision : Nat) : R Int :=
  if !finite then fail "Invalid decimal: cannot convert non-finite float"
  else
    -- 10_u128.checked_pow(precision): `None` above u128::MAX, then there is no limit to check
    let limit : Option Nat := if 10 ^ precision < 2 ^ 128 then some (10 ^ precision) else none
    match limit with
    | some l => if cast.natAbs ≥ l then fail "Invalid decimal: not enough precision" else .ok cast
    | none => .ok cast

/-- `DecimalBuilder::serialize_f32 / serialize_f64` on a fresh column -/
def serializeFloat (precision : Nat) (scale : Int) (finite : Bool) (cast : Int) : R Int := do
  let _ ← builderNew precision scale
  scaledFloatToDecimal128 finite cast precision

/-- pinned: `push_scalar_value((v * factor) as i128)` without any check -/
def serializeFloatPinned (precision : Nat) (scale : Int) (_finite : Bool) (cast : Int) : R Int := do
  let _ ← builderNewPinned precision scale
  .ok cast

/-! ### `format_decimal` -/

def digitChar (d : Nat) : UInt8 := UInt8.ofNat (48 + d)

/-- decimal digits of `n`, most significant first (`fuel > n` is always enough) -/
def natDigitsFuel : Nat → Nat → Bytes
  | 0, _ => []
  | fuel + 1, n => if n < 10 then [digitChar n] else natDigitsFuel fuel (n / 10) ++ [digitChar (n % 10)]

def natDigits (n : Nat) : Bytes := natDigitsFuel (n + 1) n

/-- `format!("{val}")` for an integer -/
def intRepr (v : Int) : Bytes := if v < 0 then 45 :: natDigits v.natAbs else natDigits v.natAbs

/-- `write_val`: `write!(buffer, "{val}").unwrap()` into the fixed buffer -/
def writeVal (bufLen : Nat) (val : Int) : R Bytes :=
  let txt := intRepr val
  if txt.length > bufLen then panic "write!: failed to write whole buffer" else .ok txt

/-- `format_decimal(buffer, val, scale)`; `negate` models how `|scale|` is obtained -/
def formatDecimalWith (negate : Int → R Nat) (bufLen : Nat) (val : Int) (scale : Int) : R Bytes := do
  if scale = 0 then
    writeVal bufLen val
  else if scale < 0 && val == 0 then
    .ok [48]
  else if scale < 0 then
    let scale ← negate scale
    let w ← writeVal bufLen val
    -- buffer[num_bytes_written..][..scale].fill(b'0'); &buffer[..num_bytes_written + scale]
    if w.length + scale > bufLen then panic "range end index out of range for the format buffer" else
    .ok (w ++ List.replicate scale 48)
  else
    let scale := scale.toNat
    let w ← writeVal bufLen val
    let numSignBytes := if val ≥ 0 then 0 else 1
    let numDigitsWritten := w.length - numSignBytes
    if numDigitsWritten ≤ scale then
      let numMissingZeros := scale - numDigitsWritten
      -- buffer.copy_within(num_sign_bytes..num_bytes_written, num_sign_bytes + 2 + num_missing_zeros)
      if numSignBytes + 2 + numMissingZeros + numDigitsWritten > bufLen then panic "copy_within: dest is out of bounds" else
      .ok (w.take numSignBytes ++ [48, 46] ++ List.replicate numMissingZeros 48 ++ w.drop numSignBytes)
    else
      let endInteger := numSignBytes + numDigitsWritten - scale
      -- buffer.copy_within(end_integer..num_bytes_written, end_integer + 1)
      if w.length + 1 > bufLen then panic "copy_within: dest is out of bounds" else
      .ok (w.take endInteger ++ [46] ++ w.drop endInteger)

/-- `DecimalDeserializer::with_value` (repaired): 168-byte buffer, `scale.unsigned_abs()` -/
def formatDecimal (val : Int) (scale : Int) : R Bytes :=
  formatDecimalWith unsignedAbs FORMAT_BUFFER_SIZE_I128 val scale

/-- pinned: 64-byte buffer, `-scale as usize` -/
def formatDecimalPinned (val : Int) (scale : Int) : R Bytes :=
  formatDecimalWith negI8Pinned BUFFER_SIZE_I128 val scale

/-- fix 02f31f8 alone reverted (small buffer, repaired negation) and fix 3b6f086 alone reverted -/
def formatDecimalSmallBuffer (val : Int) (scale : Int) : R Bytes :=
  formatDecimalWith unsignedAbs BUFFER_SIZE_I128 val scale
def formatDecimalNegPinned (val : Int) (scale : Int) : R Bytes :=
  formatDecimalWith negI8Pinned FORMAT_BUFFER_SIZE_I128 val scale

end SaModel.Decimal
