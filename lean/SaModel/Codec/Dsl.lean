import SaModel.Basic.Outcome
import SaModel.Data.Schema
/-
Model of `serde_arrow/src/internal/utils/dsl.rs` (the term mini language: `Timestamp(Second, Some("UTC"))`),
of the data-type printer `PrettyFieldDataType` (schema/serde/serialize.rs) and of `build_data_type`
(schema/serde/deserialize.rs).  Text is `List Char`.  Function names follow the Rust code.

External functions (trusted base, compared with the crate by the `schema` suite):
* `char::is_whitespace` — the Unicode White_Space set, written out below (25 code points / ranges).
* `char::is_alphanumeric` — exact on ASCII.  Every other non-white-space character is *treated as* an
  identifier character.  This cannot change an outcome class: every identifier the grammar accepts (type
  names, units, `None`/`Some`, integer literals) is pure ASCII, so a term with a non-ASCII character outside a
  quoted string is rejected either way (as an unknown identifier here, as trailing content / missing identifier
  in Rust); only the message differs, and messages are not compared.
* `<str as Debug>::fmt` — escapes `\0 \t \r \n \\ \"` with a backslash, prints "printable" characters as they are
  and everything else (and every Grapheme_Extend character) as `\u{hex}`.  Which characters are printable is a
  Unicode table of the Rust release in use: it is the parameter `esc : Char → Bool` of the printer, supplied by
  the harness per case; the round-trip theorems hold for *every* `esc`.
* integer `Display` / `FromStr` of `u8`, `i8`, `i32` (`showInt`, `parseIntLit`).
-/
namespace SaModel.Dsl

abbrev Text := List Char

/-! ## characters -/

/-- `char::is_whitespace` (Unicode `White_Space`) -/
def isWhitespace (c : Char) : Bool :=
  let n := c.toNat
  (0x09 ≤ n && n ≤ 0x0D) || n == 0x20 || n == 0x85 || n == 0xA0 || n == 0x1680 ||
  (0x2000 ≤ n && n ≤ 0x200A) || n == 0x2028 || n == 0x2029 || n == 0x202F || n == 0x205F || n == 0x3000

/-- `char::is_alphanumeric`; exact on ASCII, over-approximated beyond (see the header) -/
def isAlphanumeric (c : Char) : Bool :=
  c.isAlphanum || (c.toNat ≥ 128 && !isWhitespace c)

/-- the characters `parse_ident_term_name` accepts -/
def isIdentChar (c : Char) : Bool :=
  isAlphanumeric c || c == '-' || c == '+'

/-- `str::trim_start` -/
def trimStart : Text → Text
  | [] => []
  | c :: r => if isWhitespace c then trimStart r else c :: r

/-! ## terms -/

mutual
inductive Term where
  | mk (name : Text) (quoted : Bool) (args : Terms)
deriving Repr, DecidableEq
inductive Terms where
  | nil
  | cons (t : Term) (r : Terms)
deriving Repr, DecidableEq
end

instance : Inhabited Term := ⟨.mk [] false .nil⟩

def Terms.toList : Terms → List Term
  | .nil => []
  | .cons t r => t :: r.toList

/-! ## quoted strings: the printer (`{:?}`) -/

def hexDigits (n : Nat) : Text := Nat.toDigits 16 n

/-- `char::escape_debug_ext` as used by `<str as Debug>` (double quote escaped, single quote not) -/
def escapeChar (esc : Char → Bool) (c : Char) : Text :=
  if c = '\x00' then ['\\', '0']
  else if c = '\t' then ['\\', 't']
  else if c = '\r' then ['\\', 'r']
  else if c = '\n' then ['\\', 'n']
  else if c = '\\' then ['\\', '\\']
  else if c = '"' then ['\\', '"']
  else if esc c then '\\' :: 'u' :: '{' :: (hexDigits c.toNat ++ ['}'])
  else [c]

def escapeStr (esc : Char → Bool) : Text → Text
  | [] => []
  | c :: r => escapeChar esc c ++ escapeStr esc r

/-- `format!("{s:?}")` -/
def showQuoted (esc : Char → Bool) (s : Text) : Text := '"' :: (escapeStr esc s ++ ['"'])

/-! ## quoted strings: the scanner `parse_quoted_term_name` (after the opening quote) -/

def hexVal (c : Char) : Option Nat :=
  if '0' ≤ c ∧ c ≤ '9' then some (c.toNat - '0'.toNat)
  else if 'a' ≤ c ∧ c ≤ 'f' then some (c.toNat - 'a'.toNat + 10)
  else if 'A' ≤ c ∧ c ≤ 'F' then some (c.toNat - 'A'.toNat + 10)
  else none

/-- `char::from_u32` -/
def charOfNat? (n : Nat) : Option Char :=
  if n.isValidChar then some (Char.ofNat n) else none

/-- `name.push(x)` seen from the end: prepend `x` to the name the rest of the loop returns -/
def pushChar (x : Char) (k : R (Text × Text)) : R (Text × Text) :=
  match k with
  | .ok (n, r) => .ok (x :: n, r)
  | .error e => .error e

/-- end of a `\u{…}` escape: `char::from_u32(code)`, then push -/
def finishUnicode (code : Nat) (k : R (Text × Text)) : R (Text × Text) :=
  match charOfNat? code with
  | some x => pushChar x k
  | none => fail "Invalid unicode escape in quoted string"

/-- state of the scanner loop: plain text, after a backslash, after `\u`, inside `\u{…` -/
inductive QMode where
  | normal | esc | uOpen
  | uHex (code digits : Nat)
deriving Repr, DecidableEq

/-- Repaired `parse_quoted_term_name`: the escapes written by `{:?}` are undone (`parse_escape`), the name ends
at the first unescaped quote.  Returns (name, rest after the closing quote). -/
def scanQuoted : QMode → Text → R (Text × Text)
  | .normal, [] => fail "Missing end quote"
  | .normal, c :: r =>
    if c = '"' then pure ([], r)
    else if c = '\\' then scanQuoted .esc r
    else pushChar c (scanQuoted .normal r)
  | .esc, [] => fail "Invalid escape sequence in quoted string"
  | .esc, c :: r =>
    let push (x : Char) : R (Text × Text) := pushChar x (scanQuoted .normal r)
    if c = '0' then push '\x00'
    else if c = 't' then push '\t'
    else if c = 'r' then push '\r'
    else if c = 'n' then push '\n'
    else if c = '\\' then push '\\'
    else if c = '"' then push '"'
    else if c = '\'' then push '\''
    else if c = 'u' then scanQuoted .uOpen r
    else fail "Invalid escape sequence in quoted string"
  | .uOpen, [] => fail "Invalid unicode escape in quoted string"
  | .uOpen, c :: r => if c = '{' then scanQuoted (.uHex 0 0) r else fail "Invalid unicode escape in quoted string"
  | .uHex _ _, [] => fail "Invalid unicode escape in quoted string"
  | .uHex code d, c :: r =>
    if c = '}' ∧ 0 < d then finishUnicode code (scanQuoted .normal r)
    else if d < 6 then
      match hexVal c with
      | some v => scanQuoted (.uHex (code * 16 + v) (d + 1)) r
      | none => fail "Invalid unicode escape in quoted string"
    else fail "Invalid unicode escape in quoted string"

/-- Pinned `parse_quoted_term_name`: `find` stops at the first backslash *or* quote (the closure returns `true`
for a backslash), the name is the text before it and the rest starts after that one character.  Nothing is
unescaped. -/
def scanQuotedPinned : Text → R (Text × Text)
  | [] => fail "Missing end quote"
  | c :: r =>
    if c = '"' ∨ c = '\\' then pure ([], r)
    else pushChar c (scanQuotedPinned r)

/-! ## the parser -/

/-- `parse_ident_term_name`: longest prefix of identifier characters -/
def spanIdent : Text → Text × Text
  | [] => ([], [])
  | c :: r => if isIdentChar c then let (a, b) := spanIdent r; (c :: a, b) else ([], c :: r)

def parseIdentTermName (s : Text) : R (Text × Text) :=
  match spanIdent s with
  | ([], _) => fail "No identifier found"
  | (ident, rest) => pure (ident, rest)

/-- `parse_term_name`; `pinned` selects the pinned quoted-string scanner -/
def startsWith (c : Char) : Text → Bool
  | [] => false
  | x :: _ => x = c

def parseTermName (pinned : Bool) (s : Text) : R (Text × Bool × Text) :=
  if startsWith '"' s then do
    let (name, rest) ← if pinned then scanQuotedPinned s.tail else scanQuoted .normal s.tail
    pure (name, true, rest)
  else do
    let (name, rest) ← parseIdentTermName s
    pure (name, false, rest)

/-
`parse_term` / `parse_arguments` are mutually recursive on ever shorter suffixes of the input.  The model recurses
on a fuel counter that is decremented at every call; `Term.fromStr` starts with `3 * length + 16`, which is never
exhausted on an input Rust accepts because every call of `parse_term` consumes at least one character of its own (fuel exhaustion is
reported as an ordinary error).  Rust recurses on the machine stack instead.
-/
mutual
def parseTerm (pinned : Bool) : Nat → Text → R (Term × Text)
  | 0, _ => fail "term too deeply nested"
  | f + 1, s => do
    let s := trimStart s
    let (name, quoted, s) ← parseTermName pinned s
    let s := trimStart s
    let (args, s) ← parseArguments pinned f s
    pure (.mk name quoted args, s)
def parseArguments (pinned : Bool) : Nat → Text → R (Terms × Text)
  | 0, _ => fail "term too deeply nested"
  | f + 1, s =>
    if startsWith '(' s then do
      let (args, s) ← parseArgLoop pinned f s.tail
      let s := trimStart s
      if startsWith ')' s then pure (args, s.tail) else fail "Missing ')'"
    else pure (.nil, s)
def parseArgLoop (pinned : Bool) : Nat → Text → R (Terms × Text)
  | 0, _ => fail "term too deeply nested"
  | f + 1, s => do
    let (t, s) ← parseTerm pinned f (trimStart s)
    let s := trimStart s
    if startsWith ',' s then do
      let (ts, s) ← parseArgLoop pinned f s.tail
      pure (.cons t ts, s)
    else pure (.cons t .nil, s)
end

mutual
/-- nesting depth of a term: 0 without arguments, one more than the deepest argument otherwise -/
def Term.depth : Term → Nat
  | .mk _ _ args => args.depth
def Terms.depth : Terms → Nat
  | .nil => 0
  | .cons t r => max (t.depth + 1) r.depth
end

/-- `MAX_TERM_DEPTH` (fix d2b4b5b: `parse_term(s, depth)` refuses `depth > MAX_TERM_DEPTH`; before it the recursive
descent exhausted the machine stack on a text nested some 50 000 levels deep — an abort, which this model cannot
exhibit) -/
def MAX_TERM_DEPTH : Nat := 32

/-- `Term::from_str`.  Rust refuses a term at nesting level 33 as soon as the descent reaches it; the model parses
first and checks the depth of the result (the same outcome class: a text with a syntax error elsewhere is an error
either way) -/
def Term.fromStrWith (pinned : Bool) (s : Text) : R Term := do
  let (t, rest) ← parseTerm pinned (3 * s.length + 16) s
  if t.depth > MAX_TERM_DEPTH then fail "Term is nested too deeply"
  else if trimStart rest = [] then pure t else fail "Trailing content in term"

def Term.fromStr (s : Text) : R Term := Term.fromStrWith false s
def Term.fromStrPinned (s : Text) : R Term := Term.fromStrWith true s

/-! ## `Display for Term` -/

mutual
def showTerm (esc : Char → Bool) : Term → Text
  | .mk name quoted args => (if quoted then showQuoted esc name else name) ++ showArgs esc args
/-- nothing for an empty argument list, else `(a, b, …)` -/
def showArgs (esc : Char → Bool) : Terms → Text
  | .nil => []
  | .cons t r => '(' :: (showTerm esc t ++ showArgsTail esc r)
def showArgsTail (esc : Char → Bool) : Terms → Text
  | .nil => [')']
  | .cons t r => ',' :: ' ' :: (showTerm esc t ++ showArgsTail esc r)
end

/-! ## accessors of `Term` -/

def Term.asIdent : Term → R Text
  | .mk name false .nil => pure name
  | .mk _ true _ => fail "Expected identifier, found quoted string"
  | .mk _ _ (.cons _ _) => fail "Expected identifier, found call"

def Term.asString : Term → R Text
  | .mk name true .nil => pure name
  | .mk _ false _ => fail "Expected string, found identifier"
  | .mk _ _ (.cons _ _) => fail "Expected identifier, found call"

def Term.asOption : Term → R (Option Term)
  | .mk name false .nil => if String.ofList name = "None" then pure none else fail "Expected Some(arg) or None"
  | .mk name false (.cons arg .nil) => if String.ofList name = "Some" then pure (some arg) else fail "Expected Some(arg) or None"
  | _ => fail "Expected Some(arg) or None"

def Term.asCall : Term → R (Text × Terms)
  | .mk name false args => pure (name, args)
  | .mk _ true _ => fail "Expected call, found quoted string"

/-! ## integers and units -/

/-- `Display` of the primitive integers -/
def showInt (n : Int) : Text :=
  if n < 0 then '-' :: Nat.toDigits 10 n.natAbs else Nat.toDigits 10 n.toNat

def parseDigits (ds : Text) : R Nat :=
  if ds = [] then fail "cannot parse integer from empty string"
  else if ds.all Char.isDigit then pure (Nat.ofDigitChars 10 ds 0)
  else fail "invalid digit found in string"

/-- `<iN/uN as FromStr>::from_str` for a type with value range `[lo, hi]` (`signed` = accepts a minus sign) -/
def parseIntLit (signed : Bool) (lo hi : Int) (s : Text) : R Int := do
  let v : Int ←
    if startsWith '+' s then do let n ← parseDigits s.tail; pure (Int.ofNat n)
    else if startsWith '-' s then
      (if signed then do let n ← parseDigits s.tail; pure (-(Int.ofNat n)) else fail "invalid digit found in string")
    else do let n ← parseDigits s; pure (Int.ofNat n)
  if lo ≤ v ∧ v ≤ hi then pure v else fail "number too large or too small to fit in target type"

def parseU8 (s : Text) : R Nat := do let v ← parseIntLit false 0 255 s; pure v.toNat
def parseI8 (s : Text) : R Int := parseIntLit true (-128) 127 s
def parseI32 (s : Text) : R Int := parseIntLit true (-2147483648) 2147483647 s

/-- `Display for TimeUnit` (marrow) -/
def showUnit : TimeUnit → Text
  | .second => "Second".toList | .millisecond => "Millisecond".toList
  | .microsecond => "Microsecond".toList | .nanosecond => "Nanosecond".toList

/-- `FromStr for TimeUnit` (marrow) -/
def parseUnit (s : Text) : R TimeUnit :=
  match String.ofList s with
  | "Second" => pure .second | "Millisecond" => pure .millisecond
  | "Microsecond" => pure .microsecond | "Nanosecond" => pure .nanosecond
  | _ => fail "Invalid TimeUnit"

/-! ## the data-type printer `PrettyFieldDataType` -/

/-- what `PrettyFieldDataType::serialize` writes; `none` for the types it rejects ("unknown marrow data type") -/
def showType? (esc : Char → Bool) : DataType → Option Text
  | .null => some "Null".toList | .boolean => some "Bool".toList
  | .int8 => some "I8".toList | .int16 => some "I16".toList | .int32 => some "I32".toList | .int64 => some "I64".toList
  | .uint8 => some "U8".toList | .uint16 => some "U16".toList | .uint32 => some "U32".toList | .uint64 => some "U64".toList
  | .float16 => some "F16".toList | .float32 => some "F32".toList | .float64 => some "F64".toList
  | .utf8 => some "Utf8".toList | .largeUtf8 => some "LargeUtf8".toList | .utf8View => some "Utf8View".toList
  | .binary => some "Binary".toList | .largeBinary => some "LargeBinary".toList | .binaryView => some "BinaryView".toList
  | .date32 => some "Date32".toList | .date64 => some "Date64".toList
  | .decimal128 p s => some ("Decimal128(".toList ++ showInt (Int.ofNat p) ++ ", ".toList ++ showInt s ++ ")".toList)
  | .duration u => some ("Duration(".toList ++ showUnit u ++ ")".toList)
  | .time32 u => some ("Time32(".toList ++ showUnit u ++ ")".toList)
  | .time64 u => some ("Time64(".toList ++ showUnit u ++ ")".toList)
  | .timestamp u tz => some ("Timestamp(".toList ++ showUnit u ++ ", ".toList ++
      (match tz with
       | none => "None".toList
       | some tz => "Some(".toList ++ showQuoted esc tz.toList ++ ")".toList) ++ ")".toList)
  | .fixedSizeBinary n => some ("FixedSizeBinary(".toList ++ showInt n ++ ")".toList)
  | .fixedSizeList _ n => some ("FixedSizeList(".toList ++ showInt n ++ ")".toList)
  | .struct _ => some "Struct".toList | .map _ _ => some "Map".toList | .union _ _ => some "Union".toList
  | .dictionary _ _ => some "Dictionary".toList | .largeList _ => some "LargeList".toList | .list _ => some "List".toList
  | .interval _ => none | .runEndEncoded _ _ => none

/-- the types `PrettyFieldDataType` can write -/
def printable : DataType → Bool
  | .interval _ => false | .runEndEncoded _ _ => false | _ => true

def showType (esc : Char → Bool) (dt : DataType) : Text := (showType? esc dt).getD "<unknown marrow data type>".toList

/-! ## `build_data_type` -/

/-- union children get the type ids 0, 1, 2, …; `idx.try_into()?` fails beyond `i8::MAX` -/
def unionChildren : Nat → List Field → R UFields
  | _, [] => pure .nil
  | idx, f :: r => do
    if idx > 127 then fail "out of range integral type conversion attempted"
    let rest ← unionChildren (idx + 1) r
    pure (.cons (Int.ofNat idx) f rest)

def buildDataTypeOfTerm (t : Term) (children : List Field) : R DataType := do
  let (name, args) ← t.asCall
  match String.ofList name, args.toList with
  | "Null", [] => pure .null
  | "Bool", [] | "Boolean", [] => pure .boolean
  | "Utf8", [] => pure .utf8
  | "LargeUtf8", [] => pure .largeUtf8
  | "Utf8View", [] => pure .utf8View
  | "U8", [] | "UInt8", [] => pure .uint8
  | "U16", [] | "UInt16", [] => pure .uint16
  | "U32", [] | "UInt32", [] => pure .uint32
  | "U64", [] | "UInt64", [] => pure .uint64
  | "I8", [] | "Int8", [] => pure .int8
  | "I16", [] | "Int16", [] => pure .int16
  | "I32", [] | "Int32", [] => pure .int32
  | "I64", [] | "Int64", [] => pure .int64
  | "F16", [] | "Float16", [] => pure .float16
  | "F32", [] | "Float32", [] => pure .float32
  | "F64", [] | "Float64", [] => pure .float64
  | "Date32", [] => pure .date32
  | "Date64", [] => pure .date64
  | "Binary", [] => pure .binary
  | "LargeBinary", [] => pure .largeBinary
  | "FixedSizeBinary", [n] => do pure (.fixedSizeBinary (← parseI32 (← n.asIdent)))
  | "BinaryView", [] => pure .binaryView
  | "Timestamp", [unit, timezone] => do
    let unit ← parseUnit (← unit.asIdent)
    match (← timezone.asOption) with
    | none => pure (.timestamp unit none)
    | some term => do pure (.timestamp unit (some (String.ofList (← term.asString))))
  | "Time32", [unit] => do pure (.time32 (← parseUnit (← unit.asIdent)))
  | "Time64", [unit] => do pure (.time64 (← parseUnit (← unit.asIdent)))
  | "Duration", [unit] => do pure (.duration (← parseUnit (← unit.asIdent)))
  | "Decimal128", [precision, scale] => do
    let p ← parseU8 (← precision.asIdent)
    let s ← parseI8 (← scale.asIdent)
    pure (.decimal128 p s)
  | "Struct", [] => pure (.struct (Fields.ofList children))
  | "List", [] =>
    match children with
    | [child] => pure (.list child)
    | _ => fail "Invalid children for List: expected one child"
  | "LargeList", [] =>
    match children with
    | [child] => pure (.largeList child)
    | _ => fail "Invalid children for List: expected one child"
  | "FixedSizeList", [n] =>
    match children with
    | [child] => do pure (.fixedSizeList child (← parseI32 (← n.asIdent)))
    | _ => fail "Invalid children for LargeList: expected one child"
  | "Dictionary", [] =>
    match children with
    | [key, value] => pure (.dictionary key.dataType value.dataType)
    | _ => fail "Invalid children for Dictionary: expected two children"
  | "Map", [] =>
    match children with
    | [child] => pure (.map child false)
    | _ => fail "Invalid children for Map: expected one child"
  | "Union", [] => do pure (.union (← unionChildren 0 children) .dense)
  | _, _ => fail "invalid data type"

/-- `build_data_type(data_type, children)` -/
def buildDataTypeWith (pinned : Bool) (dataType : Text) (children : List Field) : R DataType := do
  let t ← Term.fromStrWith pinned dataType
  buildDataTypeOfTerm t children

def buildDataType (dataType : Text) (children : List Field) : R DataType := buildDataTypeWith false dataType children
def buildDataTypePinned (dataType : Text) (children : List Field) : R DataType := buildDataTypeWith true dataType children

/-- the `readType` of the property statement -/
abbrev readType := buildDataType
abbrev readTypePinned := buildDataTypePinned

end SaModel.Dsl
