import SaModel.Codec.Dsl
/-
Model of the serde / JSON form of schemas: `schema/serde/serialize.rs` (`PrettyField`, `PrettyFieldChildren`,
`DictionaryField`, `SerdeArrowSchema::serialize`), `schema/serde/deserialize.rs` (`CustomField`, `into_field`,
`merge_strategy_with_metadata`, the two top-level forms), `schema/strategy.rs` and `validate_field` of
`schema/mod.rs`.  Values travel through `utils/value.rs` (`transmute`), which maps a `serde_json::Value` to
unit / bool / integer / string / seq / map; the abstract value type `JVal` below is that image.

Simplifications (outcome class preserving; messages are not compared):
* `#[derive(Deserialize)]` of `CustomField` and `into_field` are fused into one recursive `parseField`; Rust decodes
  the whole `CustomField` tree first and converts afterwards, so only *which* error is reported first can differ.
* A HashMap is a key-sorted association list (`Metadata` of the shared vocabulary).
-/
namespace SaModel.SchemaJson
open SaModel SaModel.Dsl

/-! ## abstract JSON-like values -/

mutual
inductive JVal where
  | null
  | bool (b : Bool)
  | num (n : Int)
  | str (s : String)
  | arr (l : JVals)
  | obj (o : JObj)
deriving Repr, DecidableEq
inductive JVals where
  | nil
  | cons (v : JVal) (r : JVals)
deriving Repr, DecidableEq
inductive JObj where
  | nil
  | cons (k : String) (v : JVal) (r : JObj)
deriving Repr, DecidableEq
end

instance : Inhabited JVal := ⟨.null⟩

def JObj.get? : JObj → String → Option JVal
  | .nil, _ => none
  | .cons k v r, key => if k = key then some v else r.get? key

def JObj.count : JObj → String → Nat
  | .nil, _ => 0
  | .cons k _ r, key => (if k = key then 1 else 0) + r.count key

def JVals.ofList : List JVal → JVals
  | [] => .nil
  | v :: r => .cons v (JVals.ofList r)

def JVals.toList : JVals → List JVal
  | .nil => []
  | .cons v r => v :: r.toList

def JObj.toList : JObj → List (String × JVal)
  | .nil => []
  | .cons k v r => (k, v) :: r.toList

def JObj.ofList : List (String × JVal) → JObj
  | [] => .nil
  | (k, v) :: r => .cons k v (JObj.ofList r)

/-! ## strategies (`schema/strategy.rs`) -/

inductive Strategy where
  | inconsistentTypes | tupleAsStruct | mapAsStruct | unknownVariant
deriving Repr, DecidableEq

def Strategy.toString : Strategy → String
  | .inconsistentTypes => "InconsistentTypes" | .tupleAsStruct => "TupleAsStruct"
  | .mapAsStruct => "MapAsStruct" | .unknownVariant => "UnknownVariant"

/-- `FromStr for Strategy` -/
def Strategy.parse (s : String) : R Strategy :=
  if s = "InconsistentTypes" then pure .inconsistentTypes
  else if s = "TupleAsStruct" then pure .tupleAsStruct
  else if s = "MapAsStruct" then pure .mapAsStruct
  else if s = "UnknownVariant" then pure .unknownVariant
  else fail "Unknown strategy"

def getStrategyFromMetadata (m : Metadata) : R (Option Strategy) :=
  match m.get? STRATEGY_KEY with
  | none => pure none
  | some s => do let st ← Strategy.parse s; pure (some st)

/-! ## `validate_field` (`schema/mod.rs`) -/

def noStrategy (m : Metadata) : R Unit := do
  match (← getStrategyFromMetadata m) with
  | none => pure ()
  | some _ => fail "invalid strategy for field"

def isIntType : DataType → Bool
  | .int8 | .int16 | .int32 | .int64 | .uint8 | .uint16 | .uint32 | .uint64 => true
  | _ => false

def isDictValueType : DataType → Bool
  | .utf8 | .largeUtf8 => true
  | _ => false

mutual
def validateField : Field → R Unit
  | .mk _ dt _ m => validateDataType m dt
/-- the body of `validate_field`, by data type; `m` is the metadata of the field that carries the type -/
def validateDataType (m : Metadata) : DataType → R Unit
  | .null => do
    match (← getStrategyFromMetadata m) with
    | none | some .inconsistentTypes | some .unknownVariant => pure ()
    | some _ => fail "invalid strategy for Null field"
  | .fixedSizeBinary n => if n < 0 then fail "Invalid FixedSizedBinary with negative number of elements" else noStrategy m
  | .time32 u => do
    noStrategy m
    match u with
    | .second | .millisecond => pure ()
    | _ => fail "Time32 field must have Second or Millisecond unit"
  | .time64 u => do
    noStrategy m
    match u with
    | .microsecond | .nanosecond => pure ()
    | _ => fail "Time64 field must have Microsecond or Nanosecond unit"
  | .struct fs => do
    match (← getStrategyFromMetadata m) with
    | none | some .mapAsStruct | some .tupleAsStruct => pure ()
    | some _ => fail "invalid strategy for Struct field"
    validateFields fs
  | .map entry _ => do
    noStrategy m
    match entry with
    -- `validate_struct_field(entry, entry_fields)`: the entries field is validated as the struct field it is (its
    -- strategy must be one a struct admits, then the key and the value field)
    | .mk _ (.struct (.cons _ (.cons _ .nil))) _ _ => validateField entry
    | _ => fail "Invalid child data type for map, expected struct with 2 fields"
  | .list f => do noStrategy m; validateField f
  | .largeList f => do noStrategy m; validateField f
  | .fixedSizeList f n =>
    if n < 0 then fail "Invalid FixedSizeList with negative number of elements"
    else do noStrategy m; validateField f
  | .union us _ => do noStrategy m; validateUFields us
  | .dictionary k v => do
    noStrategy m
    if !isIntType k then fail "invalid child for Dictionary. Expected integer keys"
    else if !isDictValueType v then fail "invalid child for Dictionary. Expected string values"
    else pure ()
  | .interval _ => fail "Unsupported data type"
  | .runEndEncoded _ _ => fail "Unsupported data type"
  | _ => noStrategy m
def validateFields : Fields → R Unit
  | .nil => pure ()
  | .cons f r => do validateField f; validateFields r
def validateUFields : UFields → R Unit
  | .nil => pure ()
  | .cons _ f r => do validateField f; validateUFields r
end

/-! ### pinned: `validate_map_field` before `fix: validate_map_field validates the entries field itself`

The same functions with the `Map` arm as it was: the key and the value field inside the entries struct are validated,
the entries field itself (its strategy) is not. -/

mutual
def validateFieldPinned : Field → R Unit
  | .mk _ dt _ m => validateDataTypePinned m dt
def validateDataTypePinned (m : Metadata) : DataType → R Unit
  | .null => do
    match (← getStrategyFromMetadata m) with
    | none | some .inconsistentTypes | some .unknownVariant => pure ()
    | some _ => fail "invalid strategy for Null field"
  | .fixedSizeBinary n => if n < 0 then fail "Invalid FixedSizedBinary with negative number of elements" else noStrategy m
  | .time32 u => do
    noStrategy m
    match u with
    | .second | .millisecond => pure ()
    | _ => fail "Time32 field must have Second or Millisecond unit"
  | .time64 u => do
    noStrategy m
    match u with
    | .microsecond | .nanosecond => pure ()
    | _ => fail "Time64 field must have Microsecond or Nanosecond unit"
  | .struct fs => do
    match (← getStrategyFromMetadata m) with
    | none | some .mapAsStruct | some .tupleAsStruct => pure ()
    | some _ => fail "invalid strategy for Struct field"
    validateFieldsPinned fs
  | .map entry _ => do
    noStrategy m
    match entry with
    | .mk _ (.struct (.cons kf (.cons vf .nil))) _ _ => do validateFieldPinned kf; validateFieldPinned vf
    | _ => fail "Invalid child data type for map, expected struct with 2 fields"
  | .list f => do noStrategy m; validateFieldPinned f
  | .largeList f => do noStrategy m; validateFieldPinned f
  | .fixedSizeList f n =>
    if n < 0 then fail "Invalid FixedSizeList with negative number of elements"
    else do noStrategy m; validateFieldPinned f
  | .union us _ => do noStrategy m; validateUFieldsPinned us
  | .dictionary k v => do
    noStrategy m
    if !isIntType k then fail "invalid child for Dictionary. Expected integer keys"
    else if !isDictValueType v then fail "invalid child for Dictionary. Expected string values"
    else pure ()
  | .interval _ => fail "Unsupported data type"
  | .runEndEncoded _ _ => fail "Unsupported data type"
  | _ => noStrategy m
def validateFieldsPinned : Fields → R Unit
  | .nil => pure ()
  | .cons f r => do validateFieldPinned f; validateFieldsPinned r
def validateUFieldsPinned : UFields → R Unit
  | .nil => pure ()
  | .cons _ f r => do validateFieldPinned f; validateUFieldsPinned r
end

/-! ## metadata as a HashMap -/

/-- `HashMap::insert` on the key-sorted representation -/
def insertMeta (k v : String) : Metadata → Metadata
  | [] => [(k, v)]
  | (k', v') :: r =>
    if k < k' then (k, v) :: (k', v') :: r
    else if k = k' then (k, v) :: r
    else (k', v') :: insertMeta k v r

def hasKey (m : Metadata) (k : String) : Bool := (m.get? k).isSome

/-- `merge_strategy_with_metadata` -/
def mergeStrategyWithMetadata (metadata : Metadata) (strategy : Option Strategy) : R Metadata :=
  if hasKey metadata STRATEGY_KEY && strategy.isSome then
    fail "Duplicate strategy: metadata map contains SERDE_ARROW:strategy and strategy given"
  else match strategy with
    | some s => pure (insertMeta STRATEGY_KEY s.toString metadata)
    | none => pure metadata

/-! ## serialisation (`PrettyField`) -/

def nonStrategy (m : Metadata) : Metadata := m.filter (fun kv => kv.1 ≠ STRATEGY_KEY)

def metaObj : Metadata → JObj
  | [] => .nil
  | (k, v) :: r => .cons k (.str v) (metaObj r)

def consIf (c : Bool) (k : String) (v : JVal) (rest : JObj) : JObj := if c then .cons k v rest else rest

def consOpt (k : String) (v : Option JVal) (rest : JObj) : JObj :=
  match v with
  | some v => .cons k v rest
  | none => rest

/-- the object `PrettyField` writes, from its parts -/
def fieldObj (name : String) (dataType : Text) (nullable : Bool) (nsm : Metadata) (strategy : Option String)
    (children : Option JVals) : JObj :=
  .cons "name" (.str name) (.cons "data_type" (.str (String.ofList dataType))
    (consIf nullable "nullable" (.bool true)
      (consIf (!nsm.isEmpty) "metadata" (.obj (metaObj nsm))
        (consOpt "strategy" (strategy.map .str)
          (consOpt "children" (children.map .arr) .nil)))))

/-- `DictionaryField` -/
def dictField (esc : Char → Bool) (name : String) (dt : DataType) : JVal :=
  .obj (.cons "name" (.str name) (.cons "data_type" (.str (String.ofList (showType esc dt))) .nil))

mutual
/-- `PrettyField::serialize` (for printable types; see `printableField`) -/
def printField (esc : Char → Bool) : Field → JVal
  | .mk name dt nullable m =>
    .obj (fieldObj name (showType esc dt) nullable (nonStrategy m) (m.get? STRATEGY_KEY) (printChildren esc dt))
/-- `PrettyFieldChildren::serialize`, present iff `is_data_type_with_children` -/
def printChildren (esc : Char → Bool) : DataType → Option JVals
  | .struct fs => some (printFields esc fs)
  | .list f => some (.cons (printField esc f) .nil)
  | .largeList f => some (.cons (printField esc f) .nil)
  | .fixedSizeList f _ => some (.cons (printField esc f) .nil)
  | .map f _ => some (.cons (printField esc f) .nil)
  | .union us _ => some (printUFields esc us)
  | .dictionary k v => some (.cons (dictField esc "key" k) (.cons (dictField esc "value" v) .nil))
  | _ => none
def printFields (esc : Char → Bool) : Fields → JVals
  | .nil => .nil
  | .cons f r => .cons (printField esc f) (printFields esc r)
def printUFields (esc : Char → Bool) : UFields → JVals
  | .nil => .nil
  | .cons _ f r => .cons (printField esc f) (printUFields esc r)
end

mutual
/-- can `PrettyFieldDataType` write every type in the field (else serialisation returns an error) -/
def printableField : Field → Bool
  | .mk _ dt _ _ => printableType dt
def printableType : DataType → Bool
  | .interval _ => false
  | .runEndEncoded _ _ => false
  | .struct fs => printableFields fs
  | .list f => printableField f
  | .largeList f => printableField f
  | .fixedSizeList f _ => printableField f
  | .map f _ => printableField f
  | .union us _ => printableUFields us
  | .dictionary k v => printable k && printable v
  | _ => true
def printableFields : Fields → Bool
  | .nil => true
  | .cons f r => printableField f && printableFields r
def printableUFields : UFields → Bool
  | .nil => true
  | .cons _ f r => printableField f && printableUFields r
end

/-- `serde_json::to_value(&SerdeArrowSchema)`: `{"fields": [...]}` -/
def printSchema (esc : Char → Bool) (fields : List Field) : R JVal :=
  if fields.all printableField then
    pure (.obj (.cons "fields" (.arr (JVals.ofList (fields.map (printField esc)))) .nil))
  else fail "unknown marrow data type"

/-! ## deserialisation (`CustomField`, `into_field`) -/

/-- `metadata: HashMap<String, String>` from a map value: string values only; a later entry wins -/
def metaOfObj : JObj → R Metadata
  | .nil => pure []
  | .cons k (.str v) r => do
    let m ← metaOfObj r
    pure (if hasKey m k then m else insertMeta k v m)
  | .cons _ _ _ => fail "Cannot extract string from non-string value"

/-- `Null` fields are always nullable -/
def normNullable (dt : DataType) (nullable : Bool) : Bool :=
  match dt with
  | .null => true
  | _ => nullable

/-- `strategy: Option<Strategy>` (`#[serde(default)]`) from the value under the key, if any -/
def parseStrategyOpt : Option JVal → R (Option Strategy)
  | none => pure none
  | some .null => pure none
  | some (.str s) => do let st ← Strategy.parse s; pure (some st)
  | some _ => fail "Cannot extract string from non-string value"

/-- `CustomField::into_field` after the children have been converted -/
def intoField (pinned : Bool) (name : String) (dataType : Text) (nullable : Bool) (strategy : Option Strategy)
    (children : List Field) (metadata : Metadata) : R Field := do
  let dt ← buildDataTypeWith pinned dataType children
  let metadata ← mergeStrategyWithMetadata metadata strategy
  let field := Field.mk name dt (normNullable dt nullable) metadata
  validateField field
  pure field

def knownKeys : List String := ["name", "data_type", "nullable", "strategy", "children", "metadata"]

mutual
/-- one field object: `CustomField::deserialize` + `into_field` -/
def parseFieldWith (pinned : Bool) : JVal → R Field
  | .obj o => do
    if knownKeys.any (fun k => o.count k > 1) then fail "duplicate field"
    let name ← match o.get? "name" with
      | some (.str s) => pure s
      | some _ => fail "Cannot extract string from non-string value"
      | none => fail "missing field `name`"
    let dataType ← match o.get? "data_type" with
      | some (.str s) => pure s.toList
      | some _ => fail "invalid type: expected string or DataType variant"
      | none => fail "missing field `data_type`"
    let nullable ← match o.get? "nullable" with
      | none => pure false
      | some (.bool b) => pure b
      | some _ => fail "Cannot deserialize bool from non-bool"
    let strategy ← parseStrategyOpt (o.get? "strategy")
    let metadata ← match o.get? "metadata" with
      | none => pure []
      | some (.obj m) => metaOfObj m
      | some _ => fail "Cannot deserialize a map from a non-map value"
    let children ← parseChildrenWith pinned o
    intoField pinned name dataType nullable strategy children metadata
  | _ => fail "Cannot deserialize struct from non-struct value"
/-- the value under the first `children` key, converted (`#[serde(default)]`: no key, no children) -/
def parseChildrenWith (pinned : Bool) : JObj → R (List Field)
  | .nil => pure []
  | .cons k v r =>
    if k = "children" then
      match v with
      | .arr vs => parseFieldListWith pinned vs
      | _ => fail "Cannot deserialize sequence from non-sequence value"
    else parseChildrenWith pinned r
def parseFieldListWith (pinned : Bool) : JVals → R (List Field)
  | .nil => pure []
  | .cons v r => do
    let f ← parseFieldWith pinned v
    let fs ← parseFieldListWith pinned r
    pure (f :: fs)
end

/-- the value under the `fields` key of the object form (a later duplicate wins; cannot arise from JSON) -/
def parseFieldsKeyWith (pinned : Bool) : JObj → R (Option (List Field))
  | .nil => pure none
  | .cons k v r =>
    if k = "fields" then do
      let fs ← match v with
        | .arr vs => parseFieldListWith pinned vs
        | _ => fail "Cannot deserialize sequence from non-sequence value"
      let later ← parseFieldsKeyWith pinned r
      pure (some (later.getD fs))
    else parseFieldsKeyWith pinned r

/-- `SerdeArrowSchema::deserialize`: a sequence of fields, or a map with key `fields` -/
def parseSchemaWith (pinned : Bool) : JVal → R (List Field)
  | .arr vs => parseFieldListWith pinned vs
  | .obj o => do
    match (← parseFieldsKeyWith pinned o) with
    | some fs => pure fs
    | none => fail "missing field `fields`"
  | _ => fail "invalid type: expected a sequence of fields or a struct with key 'fields' containing a sequence of fields"

abbrev parseField := parseFieldWith false
abbrev parseFieldPinned := parseFieldWith true
abbrev parseFieldList := parseFieldListWith false
abbrev parseChildren := parseChildrenWith false
abbrev parseSchema := parseSchemaWith false
abbrev parseSchemaPinned := parseSchemaWith true

/-! ## foreign field objects (`ArrowOrCustomDataType::Arrow`) -/

/-- a marrow / arrow `Field` passed to `from_value`: its data type is taken as it is (nested fields are not
converted), `Null` is made nullable, the field is validated -/
def acceptForeign : Field → R Field
  | .mk name dt nullable m => do
    let field := Field.mk name dt (normNullable dt nullable) m
    validateField field
    pure field

/-- `acceptForeign` with the pinned `validate_field` -/
def acceptForeignPinned : Field → R Field
  | .mk name dt nullable m => do
    let field := Field.mk name dt (normNullable dt nullable) m
    validateFieldPinned field
    pure field

def acceptForeignList : List Field → R (List Field)
  | [] => pure []
  | f :: r => do
    let f' ← acceptForeign f
    let r' ← acceptForeignList r
    pure (f' :: r')

/-! ## what `build_data_type` receives as children for a printed type -/

/-- the children value of a printed field read back (no `children` key: no children) -/
def parseChildrenOpt : Option JVals → R (List Field)
  | none => pure []
  | some cs => parseFieldListWith false cs

def childList : DataType → List Field
  | .struct fs => fs.toList
  | .list f => [f]
  | .largeList f => [f]
  | .fixedSizeList f _ => [f]
  | .map f _ => [f]
  | .union us _ => us.toList.map (·.2)
  | .dictionary k v => [.mk "key" k false [], .mk "value" v false []]
  | _ => []

end SaModel.SchemaJson
