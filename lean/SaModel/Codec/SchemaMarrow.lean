import SaModel.Codec.SchemaJson
/-
Model of the marrow-field ↔ `SerdeArrowSchema` conversions of serde_arrow (C09, "converted to … marrow fields and back").

In the crate as it is (`schema/mod.rs`) a schema IS a vector of marrow fields:

    pub struct SerdeArrowSchema { pub(crate) fields: Vec<marrow::datatypes::Field> }

there is no second field type, and the strategy of a field has no slot of its own: it is the metadata entry
`SERDE_ARROW:strategy` (`STRATEGY_KEY`) of the marrow field, read by `get_strategy_from_metadata` (`getStrategyFromMetadata`
of Codec/SchemaJson.lean).  The conversions that exist:

* schema → marrow fields: `impl SchemaLike for Vec<Field>` — `Ok(SerdeArrowSchema::from_value / from_type /
  from_samples(..)?.fields)`: the projection (`toMarrow`).
* marrow fields → schema, where a schema VALUE is accepted: `SerdeArrowSchema::from_value(&fields)`.  marrow's `Field`
  is `Serialize` (a struct `name`, `data_type` = the `DataType` enum, `nullable`, `metadata`); `utils/value.rs` hands it
  to `Deserialize for SerdeArrowSchema`, whose `CustomField` takes the enum through `ArrowOrCustomDataType::Arrow`, finds
  no `strategy` and no `children` key, and runs `into_field`: `Null` is made nullable, the strategy entry stays where it
  is — inside the metadata —, `validate_field` judges the result (`acceptForeign` of Codec/SchemaJson.lean).  `fromMarrow`.
* marrow fields → schema without a check: `ArrayBuilder::from_marrow` / `Deserializer::from_marrow`
  (`SerdeArrowSchema { fields: fields.to_vec() }`, marrow_impl.rs): `fromMarrowUnchecked`.

The arrow / arrow2 conversions (arrow_impl.rs, arrow2_impl.rs) are `fields.iter().map(ArrowField::try_from)` and back:
marrow's own `TryFrom` impls, third-party code, not modelled; the `schema` suite validates them on every case.
-/
namespace SaModel.SchemaJson
open SaModel SaModel.Dsl

/-- `SerdeArrowSchema` -/
structure Schema where
  fields : List Field
deriving DecidableEq

/-- `Vec::<marrow Field>::from_*`: `Ok(SerdeArrowSchema::from_*(..)?.fields)` -/
def toMarrow (s : Schema) : List Field := s.fields

/-- `SerdeArrowSchema::from_value(&marrow_fields)` -/
def fromMarrow (fs : List Field) : R Schema := do
  let fs' ← acceptForeignList fs
  pure ⟨fs'⟩

/-- `SerdeArrowSchema { fields: fields.to_vec() }` (`ArrayBuilder::from_marrow`, `Deserializer::from_marrow`) -/
def fromMarrowUnchecked (fs : List Field) : Schema := ⟨fs⟩

/-- what `into_field` does to a foreign field object before validating it -/
def normField : Field → Field
  | .mk name dt nullable m => .mk name dt (normNullable dt nullable) m

/-- no top-level `Null` field is marked non-nullable (what `into_field` would change) -/
def nullTop : Field → Bool
  | .mk _ .null nullable _ => nullable
  | _ => true

end SaModel.SchemaJson
