import SaModel.Basic.Outcome
/-
Model of `serde_arrow/src/internal/chrono.rs`: the span grammar (`parsing::match_span` and the
matchers it is made of), `Span::to_arrow_duration` and `format_arrow_duration_as_span`.

Strings are `List Char` (Rust `&str` is valid UTF-8 by type; every matcher works on whole chars).
The functions follow the Rust code one by one and keep its names.  The code that exists after the
`fix:` commits is modelled by the unmarked names; what the pinned code did is kept beside it as
`…Pinned` (defects #15, #16, #30 of DESIGN.md section 9).
-/
namespace SaModel.Codec

inductive TimeUnit where
  | second | millisecond | microsecond | nanosecond
deriving DecidableEq, Repr, Inhabited

/-- nanoseconds per unit -/
def TimeUnit.nsPer : TimeUnit → Nat
  | .second => 1000000000
  | .millisecond => 1000000
  | .microsecond => 1000
  | .nanosecond => 1

/-- units per second -/
def TimeUnit.perSec : TimeUnit → Nat
  | .second => 1
  | .millisecond => 1000
  | .microsecond => 1000000
  | .nanosecond => 1000000000

/-- Display of marrow's `TimeUnit` (used in messages only) -/
def TimeUnit.name : TimeUnit → String
  | .second => "Second" | .millisecond => "Millisecond" | .microsecond => "Microsecond" | .nanosecond => "Nanosecond"

def i64Min : Int := -9223372036854775808
def i64Max : Int := 9223372036854775807
def u64Max : Nat := 18446744073709551615
def i32Min : Int := -2147483648
def i32Max : Int := 2147483647

def inI64 (v : Int) : Bool := i64Min ≤ v && v ≤ i64Max
def inI32 (v : Int) : Bool := i32Min ≤ v && v ≤ i32Max

/-! ### digits -/

/-- `DIGIT`: the ten ASCII digits -/
def isDigit (c : Char) : Bool := 48 ≤ c.toNat && c.toNat ≤ 57

def digitVal (c : Char) : Nat := c.toNat - 48

/-- value of a string of ASCII digits, most significant first (what `str::parse` computes) -/
def digitsValAux : Nat → List Char → Nat
  | acc, [] => acc
  | acc, c :: cs => digitsValAux (acc * 10 + digitVal c) cs

def digitsVal (cs : List Char) : Nat := digitsValAux 0 cs

def digitChar (d : Nat) : Char := Char.ofNat (48 + d % 10)

/-- `{n:0w}` for `n < 10^w`: exactly `w` digits -/
def padDigits : Nat → Nat → List Char
  | 0, _ => []
  | w + 1, n => padDigits w (n / 10) ++ [digitChar n]

/-- decimal rendering of a natural number (`{n}`), fuel-bounded so that it is structurally recursive -/
def natDigitsF : Nat → Nat → List Char
  | 0, n => [digitChar n]
  | f + 1, n => if n < 10 then [digitChar n] else natDigitsF f (n / 10) ++ [digitChar n]

def natDigits (n : Nat) : List Char := natDigitsF n n

/-- at least `w` digits: `{n:0w}` for arbitrary `n` -/
def padDigitsMin (w n : Nat) : List Char :=
  let ds := natDigits n
  List.replicate (w - ds.length) '0' ++ ds

/-! ### the matchers of `mod parsing` (each returns `(rest, result)` or fails) -/

/-- longest prefix of ASCII digits and the rest -/
def takeDigits : List Char → List Char × List Char
  | [] => ([], [])
  | c :: cs => if isDigit c then ((takeDigits cs).1.cons c, (takeDigits cs).2) else ([], c :: cs)

/-- `match_one_or_more_digits`: `(rest, digits)` -/
def matchOneOrMoreDigits (s : List Char) : Option (List Char × List Char) :=
  match takeDigits s with
  | ([], _) => none
  | (ds, rest) => some (rest, ds)

/-- `match_one_or_two_digits` -/
def matchOneOrTwoDigits : List Char → Option (List Char × List Char)
  | a :: b :: rest => if isDigit a then (if isDigit b then some (rest, [a, b]) else some (b :: rest, [a])) else none
  | [a] => if isDigit a then some ([], [a]) else none
  | [] => none

def matchChar (s : List Char) (c : Char) : Option (List Char) :=
  match s with
  | x :: rest => if x = c then some rest else none
  | [] => none

def toAsciiLower (c : Char) : Char := if 65 ≤ c.toNat ∧ c.toNat ≤ 90 then Char.ofNat (c.toNat + 32) else c
def toAsciiUpper (c : Char) : Char := if 97 ≤ c.toNat ∧ c.toNat ≤ 122 then Char.ofNat (c.toNat - 32) else c

/-- `match_char_case_insensitive` (`c` upper case ASCII) -/
def matchCharCI (s : List Char) (c : Char) : Option (List Char) :=
  match s with
  | x :: rest => if x = c ∨ x = toAsciiLower c then some rest else none
  | [] => none

/-- `match_optional_sign` -/
def matchOptionalSign : List Char → List Char × Option Char
  | '+' :: rest => (rest, some '+')
  | '-' :: rest => (rest, some '-')
  | s => (s, none)

/-- `match_optional_span_value`: never fails, gives the input back when there is no `<digits><unit>` -/
def matchOptionalSpanValue (s : List Char) (unit : Char) : List Char × Option (List Char) :=
  match matchOneOrMoreDigits s with
  | none => (s, none)
  | some (rest, value) =>
    match matchCharCI rest unit with
    | none => (s, none)
    | some rest => (rest, some value)

/-- `match_optional_span_seconds`: `none` = `Err` (a `.` that is not followed by a digit) -/
def matchOptionalSpanSeconds (s : List Char) : Option (List Char × Option (List Char) × Option (List Char)) :=
  match matchOneOrMoreDigits s with
  | none => some (s, none, none)
  | some (rest, second) =>
    match rest with
    | '.' :: rest' =>
      match matchOneOrMoreDigits rest' with
      | none => none
      | some (rest'', subsecond) =>
        match matchCharCI rest'' 'S' with
        | none => some (s, none, none)
        | some r => some (r, some second, some subsecond)
    | _ =>
      match matchCharCI rest 'S' with
      | none => some (s, none, none)
      | some r => some (r, some second, none)

structure Span where
  sign : Option Char := none
  year : Option (List Char) := none
  month : Option (List Char) := none
  week : Option (List Char) := none
  day : Option (List Char) := none
  hour : Option (List Char) := none
  minute : Option (List Char) := none
  second : Option (List Char) := none
  subsecond : Option (List Char) := none
deriving DecidableEq, Repr, Inhabited

/-- `match_span`: `none` = `Err(unmatched)`, otherwise `(rest, span)` -/
def matchSpan (s : List Char) : Option (List Char × Span) :=
  let (s, sign) := matchOptionalSign s
  match matchCharCI s 'P' with
  | none => none
  | some s =>
    let (s, year) := matchOptionalSpanValue s 'Y'
    let (s, month) := matchOptionalSpanValue s 'M'
    let (s, week) := matchOptionalSpanValue s 'W'
    let (s, day) := matchOptionalSpanValue s 'D'
    match s with
    | c :: s' =>
      if c = 't' ∨ c = 'T' then
        let (s, hour) := matchOptionalSpanValue s' 'H'
        let (s, minute) := matchOptionalSpanValue s 'M'
        match matchOptionalSpanSeconds s with
        | none => none
        | some (s, second, subsecond) => some (s, { sign, year, month, week, day, hour, minute, second, subsecond })
      else some (c :: s', { sign, year, month, week, day })
    | [] => some ([], { sign, year, month, week, day })

/-- `parse_span`: `match_span(s).into_result("Span")` — the whole string has to be consumed -/
def parseSpan (s : List Char) : R Span :=
  match matchSpan s with
  | some ([], sp) => .ok sp
  | _ => fail "Could not parse the string as Span"

/-! ### `Span::to_arrow_duration` -/

/-- `get_optional_digit_value`: `s.parse::<u64>()` (after the fix; the strings are ASCII digits) -/
def getOptionalDigitValue : Option (List Char) → R Nat
  | none => .ok 0
  | some ds => if digitsVal ds ≤ u64Max then .ok (digitsVal ds) else fail "ParseIntError: number too large to fit in target type"

/-- `get_second_value`, accumulated as i128 (five terms below 2^64 · 604800: no overflow possible) -/
def Span.getSecondValue (sp : Span) : R Nat := do
  let w ← getOptionalDigitValue sp.week
  let d ← getOptionalDigitValue sp.day
  let h ← getOptionalDigitValue sp.hour
  let m ← getOptionalDigitValue sp.minute
  let s ← getOptionalDigitValue sp.second
  pure (w * 7 * 24 * 60 * 60 + d * 24 * 60 * 60 + h * 60 * 60 + m * 60 + s)

/-- `get_nanosecond_value`: only the first nine sub-second digits count -/
def Span.getNanosecondValue (sp : Span) : R Nat :=
  match sp.subsecond with
  | none => .ok 0
  | some ds =>
    let ds := ds.take 9
    .ok (digitsVal ds * 10 ^ (9 - ds.length))

/-- `build_duration`: sign applied in i128, then `i64::try_from` -/
def buildDuration (sign : Option Char) (secondValue nanosecondValue : Nat) (unit : TimeUnit) : R Int :=
  let unsignedDuration : Int := ((secondValue * 1000000000 + nanosecondValue) / unit.nsPer : Nat)
  let duration := if sign = some '-' then -unsignedDuration else unsignedDuration
  if inI64 duration then .ok duration else fail "Cannot represent the span with the requested resolution"

def Span.toArrowDuration (sp : Span) (unit : TimeUnit) : R Int := do
  let y ← getOptionalDigitValue sp.year
  -- `a? != 0 || b? != 0`: the month is only parsed when the year is zero
  if y ≠ 0 then fail "Cannot convert interval style spans to a duration" else
  let m ← getOptionalDigitValue sp.month
  if m ≠ 0 then fail "Cannot convert interval style spans to a duration" else
  let secondValue ← sp.getSecondValue
  let nanosecondValue ← sp.getNanosecondValue
  buildDuration sp.sign secondValue nanosecondValue unit

/-- what `DurationBuilder::serialize_str` stores -/
def durationOfString (s : List Char) (unit : TimeUnit) : R Int := do
  let sp ← parseSpan s
  sp.toArrowDuration unit

/-! ### the pinned arithmetic (debug profile: i64 `*`, `+`, unary `-` and `pow` panic on overflow) -/

def mulI64 (site : String) (a b : Int) : R Int := if inI64 (a * b) then .ok (a * b) else panic site
def addI64 (site : String) (a b : Int) : R Int := if inI64 (a + b) then .ok (a + b) else panic site
def negI64 (site : String) (a : Int) : R Int := if inI64 (-a) then .ok (-a) else panic site

def getOptionalDigitValuePinned : Option (List Char) → R Int
  | none => .ok 0
  | some ds => if (digitsVal ds : Int) ≤ i64Max then .ok (digitsVal ds) else fail "ParseIntError: number too large to fit in target type"

def Span.getSecondValuePinned (sp : Span) : R Int := do
  let w ← getOptionalDigitValuePinned sp.week
  let w ← mulI64 "chrono.rs get_second_value: week * 7" w 7
  let w ← mulI64 "chrono.rs get_second_value: week * 24" w 24
  let w ← mulI64 "chrono.rs get_second_value: week * 60" w 60
  let w ← mulI64 "chrono.rs get_second_value: week * 60" w 60
  let d ← getOptionalDigitValuePinned sp.day
  let d ← mulI64 "chrono.rs get_second_value: day * 24" d 24
  let d ← mulI64 "chrono.rs get_second_value: day * 60" d 60
  let d ← mulI64 "chrono.rs get_second_value: day * 60" d 60
  let acc ← addI64 "chrono.rs get_second_value: week + day" w d
  let h ← getOptionalDigitValuePinned sp.hour
  let h ← mulI64 "chrono.rs get_second_value: hour * 60" h 60
  let h ← mulI64 "chrono.rs get_second_value: hour * 60" h 60
  let acc ← addI64 "chrono.rs get_second_value: + hour" acc h
  let m ← getOptionalDigitValuePinned sp.minute
  let m ← mulI64 "chrono.rs get_second_value: minute * 60" m 60
  let acc ← addI64 "chrono.rs get_second_value: + minute" acc m
  let s ← getOptionalDigitValuePinned sp.second
  addI64 "chrono.rs get_second_value: + second" acc s

def Span.getNanosecondValuePinned (sp : Span) : R Int :=
  match sp.subsecond with
  | none => .ok 0
  | some ds =>
    if ¬ ((digitsVal ds : Int) ≤ i64Max) then fail "ParseIntError: number too large to fit in target type" else
    if ds.length ≤ 9 then .ok ((digitsVal ds * 10 ^ (9 - ds.length) : Nat) : Int)
    else if ds.length - 9 ≥ 19 then panic "chrono.rs get_nanosecond_value: 10_i64.pow"
    else .ok ((digitsVal ds / 10 ^ (ds.length - 9) : Nat) : Int)

def buildDurationPinned (sign : Option Char) (secondValue nanosecondValue : Int) (unit : TimeUnit) : R Int := do
  let unsignedDuration ← match unit with
    | .second => pure secondValue
    | .millisecond =>
      if inI64 (secondValue * 1000) then addI64 "chrono.rs build_duration: res + nanosecond_value / 1_000_000" (secondValue * 1000) (nanosecondValue / 1000000)
      else fail "Cannot represent the value with Millisecond resolution"
    | .microsecond =>
      if inI64 (secondValue * 1000000) then addI64 "chrono.rs build_duration: res + nanosecond_value / 1_000" (secondValue * 1000000) (nanosecondValue / 1000)
      else fail "Cannot represent the value with Microsecond resolution"
    | .nanosecond =>
      if inI64 (secondValue * 1000000000) then addI64 "chrono.rs build_duration: res + nanosecond_value" (secondValue * 1000000000) nanosecondValue
      else fail "Cannot represent the value with Nanosecond resolution"
  if sign = some '-' then negI64 "chrono.rs build_duration: -unsigned_duration" unsignedDuration else pure unsignedDuration

def Span.toArrowDurationPinned (sp : Span) (unit : TimeUnit) : R Int := do
  let y ← getOptionalDigitValuePinned sp.year
  if y ≠ 0 then fail "Cannot convert interval style spans to a duration" else
  let m ← getOptionalDigitValuePinned sp.month
  if m ≠ 0 then fail "Cannot convert interval style spans to a duration" else
  let secondValue ← sp.getSecondValuePinned
  let nanosecondValue ← sp.getNanosecondValuePinned
  buildDurationPinned sp.sign secondValue nanosecondValue unit

def durationOfStringPinned (s : List Char) (unit : TimeUnit) : R Int := do
  let sp ← parseSpan s
  sp.toArrowDurationPinned unit

/-! ### `format_arrow_duration_as_span` -/

def formatMagnitude (value : Nat) (unit : TimeUnit) : List Char :=
  match unit with
  | .second => "PT".toList ++ natDigits value ++ ['s']
  | .millisecond => "PT".toList ++ natDigits (value / 1000) ++ ['.'] ++ padDigits 3 (value % 1000) ++ ['s']
  | .microsecond => "PT".toList ++ natDigits (value / 1000000) ++ ['.'] ++ padDigits 6 (value % 1000000) ++ ['s']
  | .nanosecond => "PT".toList ++ natDigits (value / 1000000000) ++ ['.'] ++ padDigits 9 (value % 1000000000) ++ ['s']

/-- after the fix: the magnitude is `value.unsigned_abs()` -/
def formatArrowDurationAsSpan (value : Int) (unit : TimeUnit) : List Char :=
  (if value < 0 then ['-'] else []) ++ formatMagnitude value.natAbs unit

/-- pinned: `-value` in i64 -/
def formatArrowDurationAsSpanPinned (value : Int) (unit : TimeUnit) : R (List Char) :=
  if value < 0 then do
    let m ← negI64 "chrono.rs format_arrow_duration_as_span: -value" value
    pure (['-'] ++ formatMagnitude m.natAbs unit)
  else pure (formatMagnitude value.natAbs unit)

/-! ### the matchers used by date guessing (`matches_naive_date` …): shape only, no value check -/

def matchNaiveDate (s : List Char) : Option (List Char) := do
  let (s, _) := matchOptionalSign s
  let (s, _) ← matchOneOrMoreDigits s
  let s ← matchChar s '-'
  let (s, _) ← matchOneOrTwoDigits s
  let s ← matchChar s '-'
  let (s, _) ← matchOneOrTwoDigits s
  pure s

def matchNaiveTime (s : List Char) : Option (List Char) := do
  let (s, _) ← matchOneOrTwoDigits s
  let s ← matchChar s ':'
  let (s, _) ← matchOneOrTwoDigits s
  let s ← matchChar s ':'
  let (s, _) ← matchOneOrTwoDigits s
  match s with
  | '.' :: s' => do
    let (s, _) ← matchOneOrMoreDigits s'
    pure s
  | _ => pure s

def matchNaiveDatetimeWithSep (s : List Char) (sep : List Char) : Option (List Char) := do
  let s ← matchNaiveDate s
  match s with
  | c :: s' => if sep.contains c then matchNaiveTime s' else none
  | [] => none

/-- `match_utc_timezone`: `Z`, `+0000`, `+00:00` -/
def matchUtcTimezone : List Char → Option (List Char)
  | 'Z' :: rest => some rest
  | '+' :: '0' :: '0' :: '0' :: '0' :: rest => some rest
  | '+' :: '0' :: '0' :: ':' :: '0' :: '0' :: rest => some rest
  | _ => none

def matchesNaiveDate (s : List Char) : Bool := matchNaiveDate s == some []
def matchesNaiveTime (s : List Char) : Bool := matchNaiveTime s == some []
def matchesNaiveDatetime (s : List Char) : Bool := matchNaiveDatetimeWithSep s ['T'] == some []
def matchesUtcDatetime (s : List Char) : Bool :=
  match matchNaiveDatetimeWithSep s ['T', ' '] with
  | some rest => matchUtcTimezone rest == some []
  | none => false

end SaModel.Codec
