import SaModel.Codec.Calendar
/-
Time-of-day and timestamp conversions.

crate-owned: the unit arithmetic of `TimeBuilder::serialize_str`, `TimeDeserializer::get_string_repr`,
the unit dispatch of `TimestampBuilder::parse_str_to_timestamp` / `TimestampDeserializer::get_string_repr`,
the negative-year string form, `is_utc_tz` / `is_utc_timestamp`.
EXTERNAL (chrono, modelled; validated by the `temporal` suite): `NaiveTime` / `NaiveDateTime` /
`DateTime<Utc>` `FromStr`, `timestamp*()`, `DateTime::from_timestamp*`, `Debug` of `NaiveTime`.
A parsed time is `(secs, nanos)` = (`num_seconds_from_midnight()`, `nanosecond()`); chrono represents the
leap second `hh:mm:60` as `secs = …59`, `nanos ≥ 10^9`.
-/
namespace SaModel.Codec

/-! ### chrono: time items -/

/-- `scan::nanosecond`: 1–9 digits scaled to nanoseconds, further digits skipped -/
def scanNanosecond (s : List Char) : Option (List Char × Nat) :=
  match takeDigits s with
  | ([], _) => none
  | (ds, rest) => some (rest, digitsVal (ds.take 9) * 10 ^ (9 - (ds.take 9).length))

/-- `Item::Fixed(Nanosecond)`: only when the input continues with `.` -/
def itemNanosecond (s : List Char) : Option (List Char × Option Nat) :=
  match s with
  | '.' :: r => (scanNanosecond r).map fun (rest, v) => (rest, some v)
  | _ => some (s, none)

/-- hour `:` minute -/
def parseHourMinute (s : List Char) : Option (List Char × Nat × Nat) := do
  let (s, h) ← itemTwo s
  let s ← itemLit ':' (skipWs s)
  let (s, mi) ← itemTwo s
  pure (s, h, mi)

/-- `Space`, `:`, second, nanosecond, `Space` -/
def parseSecondNanos (s : List Char) : Option (List Char × Nat × Option Nat) := do
  let s ← itemLit ':' (skipWs s)
  let (s, sec) ← itemTwo s
  let (s, ns) ← itemNanosecond s
  pure (skipWs s, sec, ns)

/-- `Parsed::to_naive_time` → (`num_seconds_from_midnight`, `nanosecond`) -/
def resolveTime (h mi : Nat) (sec : Option Nat) (ns : Option Nat) : Option (Nat × Nat) :=
  if h ≤ 23 ∧ mi ≤ 59 then
    match sec with
    | none => some (h * 3600 + mi * 60, 0)
    | some s =>
      if s ≤ 59 then some (h * 3600 + mi * 60 + s, ns.getD 0)
      else if s = 60 then some (h * 3600 + mi * 60 + 59, 1000000000 + ns.getD 0)
      else none
  else none

/-- `s.parse::<NaiveTime>()`: seconds are optional -/
def parseNaiveTime (s : List Char) : R (Nat × Nat) :=
  match parseHourMinute s with
  | none => fail "chrono::ParseError: invalid"
  | some (s, h, mi) =>
    let (rest, sec, ns) := match parseSecondNanos s with
      | some (rest, sec, ns) => (rest, some sec, ns)
      | none => (s, none, none)
    match skipWs rest with
    | [] =>
      match resolveTime h mi sec ns with
      | some t => .ok t
      | none => fail "chrono::ParseError: out of range"
    | _ => fail "chrono::ParseError: trailing input"

/-! ### Time32 / Time64 -/

/-- the integer type of the column: Time32 stores `i32`, Time64 `i64` -/
inductive TimeTy where | time32 | time64
deriving DecidableEq, Repr

def TimeTy.inRange : TimeTy → Int → Bool
  | .time32 => inI32
  | .time64 => inI64

/-- `seconds * seconds_factor + nanosecond / nanoseconds_factor` -/
def timeToUnits (u : TimeUnit) (secs nanos : Nat) : Nat := secs * u.perSec + nanos / u.nsPer

/-- `TimeBuilder::serialize_str` after the fix: a leap second is an error -/
def timeOfString (ty : TimeTy) (u : TimeUnit) (s : List Char) : R Int := do
  let (secs, nanos) ← parseNaiveTime s
  if nanos ≥ 1000000000 then fail "Cannot represent the leap second as a time since midnight" else
  let v : Int := timeToUnits u secs nanos
  if ty.inRange v then .ok v else fail "TryFromIntError"

/-- pinned: the leap-second nanoseconds are added to the value (`23:59:60` ↦ 86400 s) -/
def timeOfStringPinned (ty : TimeTy) (u : TimeUnit) (s : List Char) : R Int := do
  let (secs, nanos) ← parseNaiveTime s
  let v : Int := timeToUnits u secs nanos
  if ty.inRange v then .ok v else fail "TryFromIntError"

/-- `NaiveTime`'s `Debug`/`Display` -/
def formatTime (secs nanos : Nat) : List Char :=
  let (secs, nano) := if nanos ≥ 1000000000 then (secs + 1, nanos - 1000000000) else (secs, nanos)
  let hms := padDigits 2 (secs / 3600) ++ [':'] ++ padDigits 2 (secs / 60 % 60) ++ [':'] ++ padDigits 2 (secs % 60)
  if nano = 0 then hms
  else if nano % 1000000 = 0 then hms ++ ['.'] ++ padDigits 3 (nano / 1000000)
  else if nano % 1000 = 0 then hms ++ ['.'] ++ padDigits 6 (nano / 1000)
  else hms ++ ['.'] ++ padDigits 9 nano

/-- `(secs, nano)` of a stored time value; Rust `/` and `%` truncate, negative values are refused by
`u32::try_from`, `secs ≥ 86400` by `from_num_seconds_from_midnight_opt` -/
def unitsToTime (u : TimeUnit) (ts : Int) : Option (Nat × Nat) :=
  if 0 ≤ ts ∧ ts < 86400 * (u.perSec : Int) then
    some ((ts.toNat / u.perSec), (ts.toNat % u.perSec) * u.nsPer)
  else none

/-- `TimeDeserializer::get_string_repr` -/
def timeToString (u : TimeUnit) (ts : Int) : R (List Char) :=
  match unitsToTime u ts with
  | some (secs, nano) => .ok (formatTime secs nano)
  | none => fail "Cannot convert the value into a time"

/-! ### chrono: date-times -/

/-- a parsed instant: days since the epoch, second of day, nanosecond (≥ 10^9 for a leap second) -/
structure Instant where
  days : Int
  secs : Nat
  nanos : Nat
deriving DecidableEq, Repr

/-- hour `:` minute `:` second [`.` fraction] with the `Space` items of chrono's `TIME_ITEMS` -/
def parseTimeItems (s : List Char) : Option (List Char × Nat × Nat × Nat × Option Nat) := do
  let (s, h, mi) ← parseHourMinute s
  let (s, sec, ns) ← parseSecondNanos s
  pure (s, h, mi, sec, ns)

/-- `s.parse::<NaiveDateTime>()`: upper-case `T` only, no zone -/
def parseNaiveDateTime (s : List Char) : R Instant :=
  match parseDateItems s with
  | none => fail "chrono::ParseError: invalid"
  | some (s, y, m, d) =>
    match itemLit 'T' (skipWs s) with
    | none => fail "chrono::ParseError: invalid"
    | some s =>
      match parseTimeItems s with
      | none => fail "chrono::ParseError: invalid"
      | some ([], h, mi, sec, ns) =>
        match resolveDate y m d, resolveTime h mi (some sec) ns with
        | some days, some (secs, nanos) => .ok { days, secs, nanos }
        | _, _ => fail "chrono::ParseError: out of range"
      | some _ => fail "chrono::ParseError: trailing input"

/-- `scan::colon_or_space` -/
def skipColon : List Char → List Char
  | [] => []
  | c :: cs => if c = ':' ∨ isWs c then skipColon cs else c :: cs

/-- `scan::timezone_offset(s, colon_or_space, allow_zulu, ¬allow_missing_minutes, allow_tz_minus_sign)`:
seconds east of UTC -/
def scanTimezoneOffset (s : List Char) : Option (List Char × Int) :=
  match s with
  | 'Z' :: r => some (r, 0)
  | 'z' :: r => some (r, 0)
  | sg :: h1 :: h2 :: r =>
    if (sg = '+' ∨ sg = '-' ∨ sg = '−') ∧ isDigit h1 ∧ isDigit h2 then
      match skipColon r with
      | m1 :: m2 :: r' =>
        if isDigit m1 ∧ isDigit m2 ∧ digitVal m1 ≤ 5 then
          let secs : Int := ((digitVal h1 * 10 + digitVal h2) * 3600 + (digitVal m1 * 10 + digitVal m2) * 60 : Nat)
          some (r', if sg = '+' then secs else -secs)
        else none
      | _ => none
    else none
  | _ => none

/-- `s.parse::<DateTime<Utc>>()` (`parse_rfc3339_relaxed`, then converted to UTC) -/
def parseUtcDateTime (s : List Char) : R Instant :=
  match parseDateItems s with
  | none => fail "chrono::ParseError: invalid"
  | some (s, y, m, d) =>
    match s with
    | sep :: s =>
      if sep = 't' ∨ sep = 'T' ∨ sep = ' ' then
        match parseTimeItems s with
        | none => fail "chrono::ParseError: invalid"
        | some (s, h, mi, sec, ns) =>
          let zone : Option (List Char × Int) :=
            match s with
            | a :: b :: c :: r =>
              if toAsciiUpper a = 'U' ∧ toAsciiUpper b = 'T' ∧ toAsciiUpper c = 'C' then some (r, 0) else scanTimezoneOffset s
            | _ => scanTimezoneOffset s
          match zone with
          | none => fail "chrono::ParseError: invalid"
          | some (rest, off) =>
            match skipWs rest with
            | [] =>
              match resolveDate y m d, resolveTime h mi (some sec) ns with
              | some days, some (secs, nanos) =>
                if off ≤ -86400 ∨ 86400 ≤ off then fail "chrono::ParseError: out of range" else
                -- `checked_sub_offset`: the leap-second nanoseconds stay with the time
                let t : Int := (secs : Int) - off
                let days' := days + t / 86400
                if inChronoDays days' then .ok { days := days', secs := (t % 86400).toNat, nanos }
                else fail "chrono::ParseError: no such local time"
              | _, _ => fail "chrono::ParseError: out of range"
            | _ => fail "chrono::ParseError: trailing input"
      else fail "chrono::ParseError: invalid"
    | [] => fail "chrono::ParseError: too short"

/-! ### Timestamp -/

def asciiUpper (s : List Char) : List Char := s.map toAsciiUpper
def asciiLower (s : List Char) : List Char := s.map toAsciiLower

/-- `is_utc_tz` of the builder (`tz.to_uppercase() == "UTC"`), for ASCII strings -/
def isUtcTz (tz : Option (List Char)) : R Bool :=
  match tz with
  | none => .ok false
  | some tz => if asciiUpper tz = "UTC".toList then .ok true else fail "Timezone is not supported"

/-- `is_utc_timestamp` of the reader (`tz.to_lowercase() == "utc"`), for ASCII strings -/
def isUtcTimestamp (tz : Option (List Char)) : R Bool :=
  match tz with
  | some tz => if asciiLower tz = "utc".toList then .ok true else fail "Unsupported timezone"
  | none => .ok false

/-- `DateTime::timestamp()` -/
def Instant.timestamp (t : Instant) : Int := t.days * 86400 + t.secs

/-- chrono's `timestamp()`, `timestamp_millis()`, `timestamp_micros()`, `timestamp_nanos_opt()` as exact integers -/
def instantUnitsValue (u : TimeUnit) (t : Instant) : Int :=
  match u with
  | .second => t.timestamp
  | _ => t.timestamp * u.perSec + (t.nanos / u.nsPer : Nat)

/-- the `match self.unit` of `parse_str_to_timestamp`: `timestamp()`, `timestamp_millis()`, `timestamp_micros()`
(i64 arithmetic, exact inside chrono's range) and the checked `timestamp_nanos_opt()` -/
def instantToUnits (u : TimeUnit) (t : Instant) : R Int :=
  if inI64 (instantUnitsValue u t) then .ok (instantUnitsValue u t)
  else match u with
    | .nanosecond => fail "Timestamp cannot be converted to nanoseconds"
    | _ => panic "chrono timestamp_millis / timestamp_micros overflow"

/-- `TimestampBuilder::serialize_str` -/
def timestampOfString (u : TimeUnit) (utc : Bool) (s : List Char) : R Int := do
  let t ← if utc then parseUtcDateTime s else parseNaiveDateTime s
  instantToUnits u t

/-- `DateTime::from_timestamp*`: floor division into (days, second of day, nanosecond); `none` outside
chrono's range -/
def unitsToInstant (u : TimeUnit) (ts : Int) : Option Instant :=
  let secs := ts / (u.perSec : Int)
  let nanos := (ts % (u.perSec : Int)).toNat * u.nsPer
  let days := secs / 86400
  if inChronoDays days then some { days, secs := (secs % 86400).toNat, nanos } else none

/-- `format_with_suffix`: `{:?}` of the `NaiveDateTime`, with the crate's own `-YYYYYY` branch -/
def formatInstant (t : Instant) (suffix : List Char) : List Char :=
  formatDays t.days ++ ['T'] ++ formatTime t.secs t.nanos ++ suffix

/-- `TimestampDeserializer::get_string_repr` -/
def timestampToString (u : TimeUnit) (utc : Bool) (ts : Int) : R (List Char) :=
  match unitsToInstant u ts with
  | some t => .ok (formatInstant t (if utc then ['Z'] else []))
  | none => fail "Unsupported timestamp value"

/-! ### integers pass through (which `serialize_*` calls each builder implements) -/

inductive ColTy where
  | date (ty : DateTy) | time (ty : TimeTy) | timestamp | duration
deriving DecidableEq, Repr

/-- serde integer kinds -/
inductive IntKind where | i8 | i16 | i32 | i64 | u8 | u16 | u32 | u64
deriving DecidableEq, Repr

/-- what a builder stores for an integer item: the value itself, or an error when the builder has no such
`serialize_*` method or the value does not fit the column's integer type; never anything else -/
def intOfInt (c : ColTy) (k : IntKind) (v : Int) : R Int :=
  match c, k with
  | .date ty, .i32 | .date ty, .i64 => if ty.inRange v then .ok v else fail "cannot convert the value"
  | .time ty, .i32 | .time ty, .i64 => if ty.inRange v then .ok v else fail "TryFromIntError"
  | .timestamp, .i64 => .ok v
  | .duration, .u64 => if inI64 v then .ok v else fail "TryFromIntError"
  | .duration, _ => .ok v
  | _, _ => fail "serialize_* is not supported"

/-- reading a stored value as `i32` / `i64` -/
def intToInt (c : ColTy) (as32 : Bool) (v : Int) : R Int :=
  match c, as32 with
  | _, false => .ok v
  | .date _, true | .time _, true => if inI32 v then .ok v else fail "cannot convert to i32"
  | _, true => fail "Deserializer does not implement deserialize_i32_at"

/-- `Time32` only with second / millisecond, `Time64` only with microsecond / nanosecond (builder only) -/
def timeBuilderAccepts : TimeTy → TimeUnit → Bool
  | .time32, .second | .time32, .millisecond | .time64, .microsecond | .time64, .nanosecond => true
  | _, _ => false

end SaModel.Codec
