import SaModel.Codec.SchemaJson
import SaModel.Data.TypeCtor
/-
The name tables of the schema mini language as DATA: the vocabulary of what translator/run.py emits into
`SaModel/Generated/TypeNames.lean` from `build_data_type` (schema/serde/deserialize.rs), `PrettyFieldDataType` and
`is_data_type_with_children` (schema/serde/serialize.rs), `Term::as_option` (utils/dsl.rs) and `Display` / `FromStr` of
`Strategy` (schema/strategy.rs) — and what such tables MEAN: first-match look-up (a Rust `match`) and a generic
reading of a printer arm (`"Name"` or `format!("Name({a}, {b:?})")`).
`SaModel/Props/C09Gen.lean` proves that the tables found in the source mean what the hand-written model
(`SaModel/Codec/Dsl.lean`, `SchemaJson.lean`) says.
-/
namespace SaModel.TypeNameTable
open SaModel SaModel.Dsl

/-- what an arm of `build_data_type` does with `children` -/
inductive ChildRule where
  /-- `children` is not mentioned -/
  | ignored
  /-- `<[_; n]>::try_from(children)` -/
  | exact (n : Nat)
  /-- any other use (`T::Struct(children)`, the loop of `Union`) -/
  | all
deriving Repr, DecidableEq

/-- `("A" | "B", [x, y]) => … T::Ctor(…)` -/
structure ReaderArm where
  names : List String
  termArgs : Nat
  ctor : Ctor
  children : ChildRule
deriving Repr, DecidableEq

/-- `T::Ctor(a, _, b) => format!("Head({a}, {b:?})")`: `args` = (position in the constructor, written with `{:?}`) -/
structure PrinterArm where
  ctor : Ctor
  head : String
  args : List (Nat × Bool)
deriving Repr, DecidableEq

/-- Rust `match`: the first arm that lists `name` with `n` term arguments -/
def lookupReader : List ReaderArm → String → Nat → Option ReaderArm
  | [], _, _ => none
  | a :: r, name, n => if a.names.contains name && a.termArgs == n then some a else lookupReader r name n

/-- Rust `match`: the first arm for a constructor -/
def lookupPrinter : List PrinterArm → Ctor → Option PrinterArm
  | [], _ => none
  | a :: r, k => if Ctor.beq a.ctor k then some a else lookupPrinter r k

/-- the arguments of a constructor as far as a format string can print them -/
inductive ArgVal where
  | unit (u : TimeUnit)
  | int (n : Int)
  | tz (t : Option String)
  /-- fields, nested types, flags: nothing `PrettyFieldDataType` writes -/
  | other

def ctorArgs : DataType → List ArgVal
  | .fixedSizeBinary n => [.int n]
  | .timestamp u tz => [.unit u, .tz tz]
  | .time32 u => [.unit u]
  | .time64 u => [.unit u]
  | .duration u => [.unit u]
  | .interval _ => [.other]
  | .decimal128 p s => [.int (Int.ofNat p), .int s]
  | .struct _ => [.other]
  | .list _ => [.other]
  | .largeList _ => [.other]
  | .fixedSizeList _ n => [.other, .int n]
  | .map _ _ => [.other, .other]
  | .dictionary _ _ => [.other, .other]
  | .runEndEncoded _ _ => [.other, .other]
  | .union _ _ => [.other, .other]
  | _ => []

/-- `{x}` (Display) / `{x:?}` (Debug) of one argument: integers print alike under both, a `TimeUnit` has the `Display`
of marrow (`Dsl.showUnit`), an `Option<String>` only has `Debug` (`None` / `Some("…")` with the escapes of `{:?}`).
`none` = a combination the model has no text for. -/
def showArg (esc : Char → Bool) (debug : Bool) : ArgVal → Option Text
  | .int n => some (showInt n)
  | .unit u => if debug then none else some (showUnit u)
  | .tz none => if debug then some "None".toList else none
  | .tz (some s) => if debug then some ("Some(".toList ++ showQuoted esc s.toList ++ ")".toList) else none
  | .other => none

def fmtArgs (esc : Char → Bool) (vals : List ArgVal) : List (Nat × Bool) → Option (List Text)
  | [] => some []
  | (i, dbg) :: r =>
    match vals[i]? with
    | none => none
    | some v =>
      match showArg esc dbg v, fmtArgs esc vals r with
      | some t, some ts => some (t :: ts)
      | _, _ => none

/-- `a, b, c` -/
def joinArgs : List Text → Text
  | [] => []
  | [t] => t
  | t :: r => t ++ ", ".toList ++ joinArgs r

/-- what a printer arm writes for a data type of its constructor -/
def fmtArm (esc : Char → Bool) (a : PrinterArm) (dt : DataType) : Option Text :=
  match a.args with
  | [] => some a.head.toList
  | args =>
    match fmtArgs esc (ctorArgs dt) args with
    | some ts => some (a.head.toList ++ "(".toList ++ joinArgs ts ++ ")".toList)
    | none => none

/-- `PrettyFieldDataType::serialize` read off a list of arms (`none` = the final `dt => Err(…)` arm) -/
def showTypeBy (arms : List PrinterArm) (esc : Char → Bool) (dt : DataType) : Option Text :=
  match lookupPrinter arms dt.ctorOf with
  | some a => fmtArm esc a dt
  | none => none

end SaModel.TypeNameTable
