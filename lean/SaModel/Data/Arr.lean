import SaModel.Basic.Outcome
import SaModel.Data.Schema
/-
Physical arrays: mirrors `marrow::array::Array` and `marrow::view::View` constructor for constructor
(one type for both: a bitmap carries a bit offset, which is 0 for built arrays).  Integers of every width,
dates, times, timestamps, durations and decimals are `Int`; floats are bit patterns (`Int` as well).
-/
namespace SaModel

abbrev Bytes := List UInt8

/-- `BitsWithOffset` -/
structure Bits where
  data : Bytes
  offset : Nat := 0
deriving Repr, BEq, DecidableEq, Inhabited

/-- `FieldMeta` -/
structure FieldMeta where
  name : String
  nullable : Bool
  metadata : Metadata := []
deriving Repr, BEq, DecidableEq, Inhabited

/-- `MapMeta` -/
structure MapMeta where
  entriesName : String
  sorted : Bool
  keys : FieldMeta
  values : FieldMeta
deriving Repr, BEq, DecidableEq, Inhabited

def metaOfField : Field → FieldMeta
  | .mk n _ nl m => { name := n, nullable := nl, metadata := m }

/-- element type of a `PrimitiveArray<T>` variant -/
inductive PrimTy where
  | int8 | int16 | int32 | int64 | uint8 | uint16 | uint32 | uint64
  | float16 | float32 | float64 | date32 | date64
deriving Repr, BEq, DecidableEq, Inhabited

inductive TimeTy where
  | time32 | time64 | duration
deriving Repr, BEq, DecidableEq, Inhabited

inductive BytesTy where
  | utf8 | largeUtf8 | binary | largeBinary
deriving Repr, BEq, DecidableEq, Inhabited

inductive ViewTy where
  | utf8View | binaryView
deriving Repr, BEq, DecidableEq, Inhabited

mutual
inductive Arr where
  | null (len : Nat)
  | boolean (len : Nat) (validity : Option Bits) (values : Bits)
  | prim (ty : PrimTy) (validity : Option Bits) (values : List Int)
  | time (ty : TimeTy) (unit : TimeUnit) (validity : Option Bits) (values : List Int)
  | timestamp (unit : TimeUnit) (tz : Option String) (validity : Option Bits) (values : List Int)
  | decimal128 (precision : Nat) (scale : Int) (validity : Option Bits) (values : List Int)
  | bytes (ty : BytesTy) (validity : Option Bits) (offsets : List Int) (data : Bytes)
  | bytesView (ty : ViewTy) (validity : Option Bits) (views : List Nat) (buffers : List Bytes)
  | fixedSizeBinary (n : Int) (validity : Option Bits) (data : Bytes)
  | struct (len : Nat) (validity : Option Bits) (fields : ArrFields)
  | list (large : Bool) (validity : Option Bits) (offsets : List Int) (fm : FieldMeta) (elements : Arr)
  | fixedSizeList (len : Nat) (validity : Option Bits) (n : Int) (fm : FieldMeta) (elements : Arr)
  | map (validity : Option Bits) (offsets : List Int) (mm : MapMeta) (keys : Arr) (values : Arr)
  | dictionary (keys : Arr) (values : Arr)
  | union (types : List Int) (offsets : Option (List Int)) (fields : ArrUFields)
deriving Repr, BEq, DecidableEq
inductive ArrFields where
  | nil
  | cons (fm : FieldMeta) (a : Arr) (rest : ArrFields)
deriving Repr, BEq, DecidableEq
inductive ArrUFields where
  | nil
  | cons (typeId : Int) (fm : FieldMeta) (a : Arr) (rest : ArrUFields)
deriving Repr, BEq, DecidableEq
end

instance : Inhabited Arr := ⟨.null 0⟩

def ArrFields.toList : ArrFields → List (FieldMeta × Arr)
  | .nil => []
  | .cons m a r => (m, a) :: r.toList

def ArrFields.ofList : List (FieldMeta × Arr) → ArrFields
  | [] => .nil
  | (m, a) :: r => .cons m a (ArrFields.ofList r)

def ArrUFields.toList : ArrUFields → List (Int × FieldMeta × Arr)
  | .nil => []
  | .cons i m a r => (i, m, a) :: r.toList

def ArrUFields.ofList : List (Int × FieldMeta × Arr) → ArrUFields
  | [] => .nil
  | (i, m, a) :: r => .cons i m a (ArrUFields.ofList r)

def ArrFields.get? : ArrFields → Nat → Option (FieldMeta × Arr)
  | .nil, _ => none
  | .cons m a _, 0 => some (m, a)
  | .cons _ _ r, k + 1 => r.get? k

def ArrUFields.get? : ArrUFields → Nat → Option (Int × FieldMeta × Arr)
  | .nil, _ => none
  | .cons i m a _, 0 => some (i, m, a)
  | .cons _ _ _ r, k + 1 => r.get? k

def ArrFields.length : ArrFields → Nat
  | .nil => 0
  | .cons _ _ r => r.length + 1

def ArrUFields.length : ArrUFields → Nat
  | .nil => 0
  | .cons _ _ _ r => r.length + 1

/-! ### logical values -/

mutual
/-- what a slot of an array *means* under the Arrow columnar format -/
inductive LVal where
  | null
  | bool (b : Bool)
  | int (v : Int)                 -- every integer-backed type: ints, dates, times, timestamps, durations, decimals
  | float (bits : Int)            -- bit pattern in the column's own width
  | str (utf8 : Bytes)
  | bin (b : Bytes)
  | list (items : LVals)
  | struct (fields : LFields)
  | map (entries : LEntries)
  | union (typeId : Int) (v : LVal)
deriving Repr, BEq, DecidableEq
inductive LVals where
  | nil
  | cons (v : LVal) (rest : LVals)
deriving Repr, BEq, DecidableEq
inductive LFields where
  | nil
  | cons (name : String) (v : LVal) (rest : LFields)
deriving Repr, BEq, DecidableEq
inductive LEntries where
  | nil
  | cons (k : LVal) (v : LVal) (rest : LEntries)
deriving Repr, BEq, DecidableEq
end

instance : Inhabited LVal := ⟨.null⟩

def LVals.ofList : List LVal → LVals
  | [] => .nil
  | v :: r => .cons v (LVals.ofList r)

def LVals.toList : LVals → List LVal
  | .nil => []
  | .cons v r => v :: r.toList

def LFields.ofList : List (String × LVal) → LFields
  | [] => .nil
  | (n, v) :: r => .cons n v (LFields.ofList r)

def LFields.toList : LFields → List (String × LVal)
  | .nil => []
  | .cons n v r => (n, v) :: r.toList

def LEntries.ofList : List (LVal × LVal) → LEntries
  | [] => .nil
  | (k, v) :: r => .cons k v (LEntries.ofList r)

def LEntries.toList : LEntries → List (LVal × LVal)
  | .nil => []
  | .cons k v r => (k, v) :: r.toList

@[simp] theorem LVals.toList_ofList (l : List LVal) : (LVals.ofList l).toList = l := by
  induction l with
  | nil => rfl
  | cons v r ih => simp [LVals.ofList, LVals.toList, ih]

end SaModel
