import SaModel.Data.Arr
import SaModel.Data.SVal
/-
Vocabulary of the READING direction that is neither reader model nor specification (moved here from `Read/DVal.lean`,
names unchanged: they stay in the namespace `SaModel.Read`), so that the reader-side specification `Spec/Present.lean`
imports nothing of `Read/*`:

* `DVal`   — what a visitor is handed: the self-describing value `deserialize_any` presents (integers keep the
             width of the `visit_*` call, strings / byte strings keep how they were handed over: borrowed from
             the array, transient, owned) and, for typed reads, the value of the requested Rust type rendered in
             the same shape (struct ⇒ `map` in target field order, tuple ⇒ `seq`, enum ⇒ `enum name payload`).
* `strBytes`, `f16ToF32`, `f32ToF64` — the UTF-8 bytes of a name; the exact IEEE widenings on bit patterns.
* `Target` — description of the requested Rust type: exactly the shapes `harness/src/dynde.rs` drives
             (std impls and what `#[derive(Deserialize)]` generates).
-/
namespace SaModel.Read
open SaModel

/-- how a string / byte string reached the visitor -/
inductive Own where
  | borrowed    -- visit_borrowed_str / visit_borrowed_bytes (points into the array buffers)
  | transient   -- visit_str / visit_bytes
  | owned       -- visit_string / visit_byte_buf, or an owned `String` / `Vec<u8>` result
deriving Repr, BEq, DecidableEq, Inhabited

mutual
inductive DVal where
  | none | unit | ignored
  | some (v : DVal)
  | bool (b : Bool)
  | int (ty : IntTy) (v : Int)
  | f32 (bits : Int) | f64 (bits : Int)
  | char (c : Nat)
  | str (own : Own) (utf8 : Bytes)
  | bytes (own : Own) (b : Bytes)
  | seq (items : DVals)
  | map (entries : DEntries)
  | enum (key : DVal) (payload : DVal)
deriving Repr, BEq, DecidableEq
inductive DVals where
  | nil
  | cons (v : DVal) (rest : DVals)
deriving Repr, BEq, DecidableEq
inductive DEntries where
  | nil
  | cons (k : DVal) (v : DVal) (rest : DEntries)
deriving Repr, BEq, DecidableEq
end

instance : Inhabited DVal := ⟨.none⟩

def DVals.ofList : List DVal → DVals
  | [] => .nil
  | v :: r => .cons v (DVals.ofList r)

def DVals.toList : DVals → List DVal
  | .nil => []
  | .cons v r => v :: r.toList

def DEntries.ofList : List (DVal × DVal) → DEntries
  | [] => .nil
  | (k, v) :: r => .cons k v (DEntries.ofList r)

def DEntries.toList : DEntries → List (DVal × DVal)
  | .nil => []
  | .cons k v r => (k, v) :: r.toList

mutual
inductive Target where
  | any | ignored | unit | unitStruct
  | bool | int (ty : IntTy) | f32 | f64 | char
  | string                       -- `String`
  | str                          -- `&'de str`
  | bytes                        -- `&'de [u8]`
  | byteBuf                      -- serde_bytes::ByteBuf-style owned buffer (deserialize_byte_buf; accepts bytes, strings, seq of u8)
  | option (t : Target)
  | newtype (t : Target)         -- `struct N(T);`
  | seq (t : Target)             -- `Vec<T>`
  | tuple (ts : Targets)         -- `(T0, T1, …)`
  | tupleStruct (ts : Targets)   -- `struct P(T0, T1, …);`
  | map (k : Target) (v : Target)
  | struct (fs : TFields)        -- `struct S { name0: T0, … }`
  | enum (byIndex : Bool) (vs : TVariants)
inductive Targets where
  | nil
  | cons (t : Target) (rest : Targets)
inductive TFields where
  | nil
  | cons (name : String) (t : Target) (rest : TFields)
inductive TVariants where
  | nil
  | cons (name : String) (k : VKind) (rest : TVariants)
inductive VKind where
  | unit
  | newtype (t : Target)
  | tuple (ts : Targets)
  | struct (fs : TFields)
end

instance : Inhabited Target := ⟨.any⟩

def Targets.ofList : List Target → Targets
  | [] => .nil
  | t :: r => .cons t (Targets.ofList r)

def TFields.ofList : List (String × Target) → TFields
  | [] => .nil
  | (n, t) :: r => .cons n t (TFields.ofList r)

def TVariants.ofList : List (String × VKind) → TVariants
  | [] => .nil
  | (n, k) :: r => .cons n k (TVariants.ofList r)

def Targets.length : Targets → Nat
  | .nil => 0
  | .cons _ r => r.length + 1

def Target.isOption : Target → Bool
  | .option _ => true
  | _ => false

/-- the UTF-8 bytes of a Rust `String` taken from the schema (field / variant names) -/
def strBytes (s : String) : Bytes := s.toUTF8.toList

/-! ### exact float widenings (`half::f16::to_f32`, `f32 as f64`), on bit patterns: functions of another crate / of std
(like `Basic/Float.lean`: arithmetic used by the reader model AND by the specification, NaN payloads kept as the hardware does) -/

/-- `f16::to_f32` -/
def f16ToF32 (h : Int) : Int :=
  let h := h.toNat % 65536
  let sign := h / 32768
  let exp := (h / 1024) % 32
  let man := h % 1024
  let s := sign * 2147483648
  if exp == 31 then
    if man == 0 then Int.ofNat (s + 0x7F800000) else Int.ofNat (s + 0x7FC00000 + man * 8192 % 0x400000)
  else if exp == 0 then
    if man == 0 then Int.ofNat s
    else
      let e := Nat.log2 man
      Int.ofNat (s + (e + 103) * 8388608 + (man - 2 ^ e) * 2 ^ (23 - e))
  else Int.ofNat (s + (exp + 112) * 8388608 + man * 8192)

/-- `f32 as f64` -/
def f32ToF64 (f : Int) : Int :=
  let f := f.toNat % 4294967296
  let sign := f / 2147483648
  let exp := (f / 8388608) % 256
  let man := f % 8388608
  let s := sign * 9223372036854775808
  if exp == 255 then
    if man == 0 then Int.ofNat (s + 0x7FF0000000000000)
    else Int.ofNat (s + 0x7FF8000000000000 + man * 536870912 % 0x8000000000000)
  else if exp == 0 then
    if man == 0 then Int.ofNat s
    else
      let e := Nat.log2 man
      Int.ofNat (s + (e + 874) * 4503599627370496 + (man - 2 ^ e) * 2 ^ (52 - e))
  else Int.ofNat (s + (exp + 896) * 4503599627370496 + man * 536870912)

end SaModel.Read
