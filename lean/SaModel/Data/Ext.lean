import SaModel.Basic.Outcome
import SaModel.Data.Schema
import SaModel.Data.Arr
/-
Vocabulary shared by the builder model (`SaModel/Build/*`) and the specification (`SaModel/Spec/*`) that is neither:
the functions of OTHER crates / std (`Ext`, parameters of both sides), and three pure helpers on strings, name lists
and metadata.  Moved here from `Build/Builder.lean` (names unchanged: they stay in the namespace `SaModel.Build`) so
that `Spec/Leaf.lean` and `Spec/Interp.lean` do not import the builder model.
-/
namespace SaModel.Build
open SaModel

/-- functions of other crates / std the builders call; supplied by the correspondence case (trusted base) -/
structure Ext where
  f32Str : Nat → String := fun _ => ""                   -- `f32::to_string` of a bit pattern
  f64Str : Nat → String := fun _ => ""
  parseDate : Bool → String → R Int := fun _ _ => fail "ext"   -- date string → stored value (is64 ⇒ Date64 ms, else Date32 days)
  parseTime : TimeUnit → String → R Int := fun _ _ => fail "ext"
  parseTimestamp : TimeUnit → Bool → String → R Int := fun _ _ _ => fail "ext"
  parseDuration : TimeUnit → String → R Int := fun _ _ => fail "ext"
  parseDecimal : Nat → Int → String → R Int := fun _ _ _ => fail "ext"
  floatToDecimal : Nat → Int → Bool → Nat → R Int := fun _ _ _ _ => fail "ext"

/-- the UTF-8 encoding of a string -/
def strBytes (s : String) : Bytes := s.toUTF8.toList

/-- position of the first occurrence of a name -/
def indexOfName (names : List String) (key : String) : Option Nat :=
  let rec go : List String → Nat → Option Nat
    | [], _ => none
    | n :: ns, k => if n == key then some k else go ns (k + 1)
  go names 0

/-- the `SERDE_ARROW:strategy` entry of a field's metadata -/
def strategyOf (m : Metadata) : Option String := Metadata.get? m STRATEGY_KEY

end SaModel.Build
