/-
The serde data model as serde_arrow observes it: one constructor per `Serializer` call, including the
call-level details the crate looks at (integer width of each call, none/some/unit, str/bytes/char,
seq/tuple/tuple_struct, struct fields with the *address identity* (`alias`) of their `&'static str` key,
maps as key/value streams, the four enum variant kinds with index and name).
Floats are bit patterns.  Mutual inductives with own list types ⇒ structural recursion.
-/
namespace SaModel

inductive IntTy where
  | i8 | i16 | i32 | i64 | u8 | u16 | u32 | u64
deriving Repr, BEq, DecidableEq, Inhabited

def IntTy.min : IntTy → Int
  | .i8 => -128 | .i16 => -32768 | .i32 => -2147483648 | .i64 => -9223372036854775808
  | _ => 0

def IntTy.max : IntTy → Int
  | .i8 => 127 | .i16 => 32767 | .i32 => 2147483647 | .i64 => 9223372036854775807
  | .u8 => 255 | .u16 => 65535 | .u32 => 4294967295 | .u64 => 18446744073709551615

def IntTy.inRange (t : IntTy) (v : Int) : Bool := t.min ≤ v && v ≤ t.max

def IntTy.name : IntTy → String
  | .i8 => "i8" | .i16 => "i16" | .i32 => "i32" | .i64 => "i64"
  | .u8 => "u8" | .u16 => "u16" | .u32 => "u32" | .u64 => "u64"

mutual
inductive SVal where
  | none | unit
  | some (v : SVal)
  | bool (b : Bool)
  | int (ty : IntTy) (v : Int)
  | f32 (bits : Nat) | f64 (bits : Nat)
  | char (c : Nat)
  | str (s : String)
  | bytes (b : List UInt8)
  | seq (items : SVals)
  | tuple (items : SVals)
  | tupleStruct (name : String) (items : SVals)
  | newtypeStruct (name : String) (v : SVal)
  | unitStruct (name : String)
  | record (name : String) (fields : SFields)          -- serialize_struct
  | map (entries : SEntries)                           -- serialize_map with key/value pairs
  | mapRaw (ops : SMapOps)                             -- arbitrary key/value call streams (malformed)
  | unitVariant (name : String) (idx : Nat) (variant : String)
  | newtypeVariant (name : String) (idx : Nat) (variant : String) (v : SVal)
  | tupleVariant (name : String) (idx : Nat) (variant : String) (items : SVals)
  | structVariant (name : String) (idx : Nat) (variant : String) (fields : SFields)
deriving Repr, BEq, DecidableEq
inductive SVals where
  | nil
  | cons (v : SVal) (rest : SVals)
deriving Repr, BEq, DecidableEq
inductive SFields where
  | nil
  | cons (key : String) (alias : Nat) (v : SVal) (rest : SFields)
deriving Repr, BEq, DecidableEq
inductive SEntries where
  | nil
  | cons (k : SVal) (v : SVal) (rest : SEntries)
deriving Repr, BEq, DecidableEq
inductive SMapOps where
  | nil
  | key (k : SVal) (rest : SMapOps)
  | value (v : SVal) (rest : SMapOps)
deriving Repr, BEq, DecidableEq
end

instance : Inhabited SVal := ⟨.unit⟩

def SVals.toList : SVals → List SVal
  | .nil => []
  | .cons v r => v :: r.toList

def SVals.ofList : List SVal → SVals
  | [] => .nil
  | v :: r => .cons v (SVals.ofList r)

def SVals.length : SVals → Nat
  | .nil => 0
  | .cons _ r => r.length + 1

def SFields.toList : SFields → List (String × Nat × SVal)
  | .nil => []
  | .cons k a v r => (k, a, v) :: r.toList

def SFields.ofList : List (String × Nat × SVal) → SFields
  | [] => .nil
  | (k, a, v) :: r => .cons k a v (SFields.ofList r)

def SEntries.toList : SEntries → List (SVal × SVal)
  | .nil => []
  | .cons k v r => (k, v) :: r.toList

def SEntries.ofList : List (SVal × SVal) → SEntries
  | [] => .nil
  | (k, v) :: r => .cons k v (SEntries.ofList r)

def SEntries.toOps : SEntries → SMapOps
  | .nil => .nil
  | .cons k v r => .key k (.value v r.toOps)

@[simp] theorem SVals.toList_ofList (l : List SVal) : (SVals.ofList l).toList = l := by
  induction l with
  | nil => rfl
  | cons v r ih => simp [SVals.ofList, SVals.toList, ih]

@[simp] theorem SVals.length_toList : ∀ (l : SVals), l.toList.length = l.length
  | .nil => rfl
  | .cons _ r => by simp [SVals.toList, SVals.length, SVals.length_toList r]

/-- the serde call kind, used in signatures and accept tables -/
def SVal.kind : SVal → String
  | .none => "none" | .unit => "unit" | .some _ => "some" | .bool _ => "bool"
  | .int t _ => t.name | .f32 _ => "f32" | .f64 _ => "f64" | .char _ => "char"
  | .str _ => "str" | .bytes _ => "bytes" | .seq _ => "seq" | .tuple _ => "tuple"
  | .tupleStruct _ _ => "tuple_struct" | .newtypeStruct _ _ => "newtype_struct"
  | .unitStruct _ => "unit_struct" | .record _ _ => "struct" | .map _ => "map" | .mapRaw _ => "map_raw"
  | .unitVariant _ _ _ => "unit_variant" | .newtypeVariant _ _ _ _ => "newtype_variant"
  | .tupleVariant _ _ _ _ => "tuple_variant" | .structVariant _ _ _ _ => "struct_variant"

end SaModel
