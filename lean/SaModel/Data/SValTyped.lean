import SaModel.Data.SVal
/-
The typing invariant of `SVal`: every scalar call carries a value of its Rust type.  `SVal` stores integers as `Int`,
float bit patterns and `char`s as `Nat`, variant indices as `Nat`; a Rust program can only pass an `i8` to
`serialize_i8`, an `f32` to `serialize_f32`, a Unicode scalar value to `serialize_char`, a `u32` variant index.

`SVal.typed` is the decidable form.  It is what the wire decoder of the correspondence driver checks
(`Driver/SValJson.lean`: `svalOfJson` refuses a literal outside its width, `svalOfJson_typed`), what a derived
`Serialize` produces (`Roundtrip.ser_ok`), and it implies the hypothesis `SValOK` of the C03 theorems
(`Lemmas/C03Typed.lean`: `typed_SValOK`; `SValOK` is weaker — it asks nothing of `u64`, `char` and variant indices,
which the builders only ever narrow through checked conversions).
-/
namespace SaModel

/-- a Unicode scalar value (`char`): below 0x110000 and not a surrogate -/
def isScalarValue (c : Nat) : Bool := c < 0xD800 || (0xDFFF < c && c < 0x110000)

mutual
def SVal.typed : SVal → Bool
  | .int t v => t.inRange v
  | .f32 b => decide (b < 4294967296)
  | .f64 b => decide (b < 18446744073709551616)
  | .char c => isScalarValue c
  | .some v => v.typed
  | .newtypeStruct _ v => v.typed
  | .seq xs => xs.typed
  | .tuple xs => xs.typed
  | .tupleStruct _ xs => xs.typed
  | .record _ fs => fs.typed
  | .map es => es.typed
  | .mapRaw ops => ops.typed
  | .unitVariant _ i _ => decide (i < 4294967296)
  | .newtypeVariant _ i _ v => decide (i < 4294967296) && v.typed
  | .tupleVariant _ i _ xs => decide (i < 4294967296) && xs.typed
  | .structVariant _ i _ fs => decide (i < 4294967296) && fs.typed
  | _ => true
def SVals.typed : SVals → Bool
  | .nil => true
  | .cons v r => v.typed && r.typed
def SFields.typed : SFields → Bool
  | .nil => true
  | .cons _ _ v r => v.typed && r.typed
def SEntries.typed : SEntries → Bool
  | .nil => true
  | .cons k v r => k.typed && v.typed && r.typed
def SMapOps.typed : SMapOps → Bool
  | .nil => true
  | .key k r => k.typed && r.typed
  | .value v r => v.typed && r.typed
end

end SaModel
