/-
Arrow schema vocabulary shared by every model: mirrors `marrow::datatypes::{DataType, Field, TimeUnit,
UnionMode, IntervalUnit}` constructor for constructor.  Metadata (a `HashMap<String,String>` in Rust) is an
association list sorted by key.  Mutual inductives with their own list types (`Fields`, `UFields`) so that
functions over schemas are structurally recursive and `DecidableEq` can be derived.
-/
namespace SaModel

inductive TimeUnit where
  | second | millisecond | microsecond | nanosecond
deriving Repr, BEq, DecidableEq, Inhabited

inductive UnionMode where
  | sparse | dense
deriving Repr, BEq, DecidableEq, Inhabited

inductive IntervalUnit where
  | yearMonth | dayTime | monthDayNano
deriving Repr, BEq, DecidableEq, Inhabited

abbrev Metadata := List (String × String)

mutual
inductive DataType where
  | null | boolean
  | int8 | int16 | int32 | int64 | uint8 | uint16 | uint32 | uint64
  | float16 | float32 | float64
  | utf8 | largeUtf8 | utf8View
  | binary | largeBinary | binaryView
  | fixedSizeBinary (n : Int)
  | date32 | date64
  | timestamp (unit : TimeUnit) (tz : Option String)
  | time32 (unit : TimeUnit) | time64 (unit : TimeUnit)
  | duration (unit : TimeUnit)
  | interval (unit : IntervalUnit)
  | decimal128 (precision : Nat) (scale : Int)
  | struct (fields : Fields)
  | list (item : Field) | largeList (item : Field)
  | fixedSizeList (item : Field) (n : Int)
  | map (entries : Field) (sorted : Bool)
  | dictionary (key : DataType) (value : DataType)
  | runEndEncoded (runEnds : Field) (values : Field)
  | union (fields : UFields) (mode : UnionMode)
deriving Repr, BEq, DecidableEq
inductive Field where
  | mk (name : String) (dataType : DataType) (nullable : Bool) (metadata : Metadata)
deriving Repr, BEq, DecidableEq
inductive Fields where
  | nil
  | cons (f : Field) (rest : Fields)
deriving Repr, BEq, DecidableEq
inductive UFields where
  | nil
  | cons (typeId : Int) (f : Field) (rest : UFields)
deriving Repr, BEq, DecidableEq
end

instance : Inhabited DataType := ⟨.null⟩
instance : Inhabited Field := ⟨.mk "" .null false []⟩

def Field.name : Field → String | .mk n _ _ _ => n
def Field.dataType : Field → DataType | .mk _ d _ _ => d
def Field.nullable : Field → Bool | .mk _ _ n _ => n
def Field.metadata : Field → Metadata | .mk _ _ _ m => m

def Fields.toList : Fields → List Field
  | .nil => []
  | .cons f r => f :: r.toList

def Fields.ofList : List Field → Fields
  | [] => .nil
  | f :: r => .cons f (Fields.ofList r)

def UFields.toList : UFields → List (Int × Field)
  | .nil => []
  | .cons i f r => (i, f) :: r.toList

def UFields.ofList : List (Int × Field) → UFields
  | [] => .nil
  | (i, f) :: r => .cons i f (UFields.ofList r)

@[simp] theorem Fields.toList_ofList (l : List Field) : (Fields.ofList l).toList = l := by
  induction l with
  | nil => rfl
  | cons f r ih => simp [Fields.ofList, Fields.toList, ih]

@[simp] theorem UFields.toList_ofList (l : List (Int × Field)) : (UFields.ofList l).toList = l := by
  induction l with
  | nil => rfl
  | cons f r ih => obtain ⟨i, f⟩ := f; simp [UFields.ofList, UFields.toList, ih]

/-- lookup in sorted metadata -/
def Metadata.get? (m : Metadata) (k : String) : Option String :=
  match m with
  | [] => none
  | (k', v) :: rest => if k' == k then some v else Metadata.get? rest k

/-- serde_arrow's strategy key -/
def STRATEGY_KEY : String := "SERDE_ARROW:strategy"

/-- constructor name, as used in signatures and annotation labels -/
def DataType.ctor : DataType → String
  | .null => "Null" | .boolean => "Boolean"
  | .int8 => "Int8" | .int16 => "Int16" | .int32 => "Int32" | .int64 => "Int64"
  | .uint8 => "UInt8" | .uint16 => "UInt16" | .uint32 => "UInt32" | .uint64 => "UInt64"
  | .float16 => "Float16" | .float32 => "Float32" | .float64 => "Float64"
  | .utf8 => "Utf8" | .largeUtf8 => "LargeUtf8" | .utf8View => "Utf8View"
  | .binary => "Binary" | .largeBinary => "LargeBinary" | .binaryView => "BinaryView"
  | .fixedSizeBinary _ => "FixedSizeBinary" | .date32 => "Date32" | .date64 => "Date64"
  | .timestamp _ _ => "Timestamp" | .time32 _ => "Time32" | .time64 _ => "Time64"
  | .duration _ => "Duration" | .interval _ => "Interval" | .decimal128 _ _ => "Decimal128"
  | .struct _ => "Struct" | .list _ => "List" | .largeList _ => "LargeList"
  | .fixedSizeList _ _ => "FixedSizeList" | .map _ _ => "Map" | .dictionary _ _ => "Dictionary"
  | .runEndEncoded _ _ => "RunEndEncoded" | .union _ _ => "Union"

end SaModel
