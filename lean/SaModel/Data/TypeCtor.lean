import SaModel.Data.Schema
/-
The constructors of `marrow::datatypes::DataType` as a finite enumeration, spelled exactly as in Rust so that the
translator (translator/run.py) can copy a constructor name out of a Rust pattern (`UInt8`, `T::LargeUtf8`,
`Timestamp(_, _)`) into a generated table without a renaming table of its own.  A name the enumeration does not
know makes the generated file fail to elaborate, which ./check reports as a broken obligation.
-/
namespace SaModel

inductive Ctor where
  | Null | Boolean
  | Int8 | Int16 | Int32 | Int64 | UInt8 | UInt16 | UInt32 | UInt64
  | Float16 | Float32 | Float64
  | Utf8 | LargeUtf8 | Utf8View
  | Binary | LargeBinary | BinaryView
  | FixedSizeBinary
  | Date32 | Date64
  | Timestamp
  | Time32 | Time64
  | Duration
  | Interval
  | Decimal128
  | Struct
  | List | LargeList
  | FixedSizeList
  | Map
  | Dictionary
  | RunEndEncoded
  | Union
deriving Repr, DecidableEq, Inhabited

/-- every constructor, in declaration order -/
def Ctor.all : _root_.List Ctor :=
  [.Null, .Boolean, .Int8, .Int16, .Int32, .Int64, .UInt8, .UInt16, .UInt32, .UInt64, .Float16, .Float32, .Float64,
   .Utf8, .LargeUtf8, .Utf8View, .Binary, .LargeBinary, .BinaryView, .FixedSizeBinary, .Date32, .Date64, .Timestamp,
   .Time32, .Time64, .Duration, .Interval, .Decimal128, .Struct, .List, .LargeList, .FixedSizeList, .Map, .Dictionary,
   .RunEndEncoded, .Union]

theorem Ctor.mem_all (c : Ctor) : c ∈ Ctor.all := by cases c <;> decide

/-- position in the declaration.  Written out arm by arm on purpose: in the kernel a complete `match` on an
enumeration is one `casesOn`, whereas the derived `DecidableEq` / `ctorIdx` and every `match` with a wild card go
through a chain of `Nat` comparisons that is an order of magnitude slower — too slow for tables of 10^5 rows. -/
def Ctor.toNat : Ctor → Nat
  | .Null => 0 | .Boolean => 1
  | .Int8 => 2 | .Int16 => 3 | .Int32 => 4 | .Int64 => 5 | .UInt8 => 6 | .UInt16 => 7 | .UInt32 => 8 | .UInt64 => 9
  | .Float16 => 10 | .Float32 => 11 | .Float64 => 12
  | .Utf8 => 13 | .LargeUtf8 => 14 | .Utf8View => 15
  | .Binary => 16 | .LargeBinary => 17 | .BinaryView => 18
  | .FixedSizeBinary => 19 | .Date32 => 20 | .Date64 => 21 | .Timestamp => 22 | .Time32 => 23 | .Time64 => 24
  | .Duration => 25 | .Interval => 26 | .Decimal128 => 27 | .Struct => 28 | .List => 29 | .LargeList => 30
  | .FixedSizeList => 31 | .Map => 32 | .Dictionary => 33 | .RunEndEncoded => 34 | .Union => 35

def Ctor.ofPos (n : Nat) : Ctor := Ctor.all.getD n .Null

theorem Ctor.ofPos_toNat (c : Ctor) : Ctor.ofPos c.toNat = c := by cases c <;> rfl

theorem Ctor.toNat_inj {a b : Ctor} (h : a.toNat = b.toNat) : a = b := by
  rw [← Ctor.ofPos_toNat a, ← Ctor.ofPos_toNat b, h]

/-- equality test that is fast in the kernel (`Nat.beq` on literals is a kernel primitive) -/
def Ctor.beq (a b : Ctor) : Bool := Nat.beq a.toNat b.toNat

theorem Ctor.beq_iff {a b : Ctor} : Ctor.beq a b = true ↔ a = b := by
  unfold Ctor.beq
  constructor
  · intro h; exact Ctor.toNat_inj (Nat.eq_of_beq_eq_true h)
  · intro h; subst h; exact Nat.beq_refl _

theorem Ctor.beq_eq_decide (a b : Ctor) : Ctor.beq a b = decide (a = b) := by
  cases h : Ctor.beq a b
  · symm; apply decide_eq_false; intro e; rw [Ctor.beq_iff.mpr e] at h; cases h
  · symm; exact decide_eq_true (Ctor.beq_iff.mp h)

/-- membership test built on `Ctor.beq` -/
def Ctor.elem (k : Ctor) : _root_.List Ctor → Bool
  | [] => false
  | x :: r => Ctor.beq k x || Ctor.elem k r

theorem Ctor.elem_iff {k : Ctor} {cs : _root_.List Ctor} : Ctor.elem k cs = true ↔ k ∈ cs := by
  induction cs with
  | nil => simp [Ctor.elem]
  | cons x r ih => simp [Ctor.elem, Ctor.beq_iff, ih]

/-- the constructor a data type is built with -/
def DataType.ctorOf : DataType → Ctor
  | .null => .Null | .boolean => .Boolean
  | .int8 => .Int8 | .int16 => .Int16 | .int32 => .Int32 | .int64 => .Int64
  | .uint8 => .UInt8 | .uint16 => .UInt16 | .uint32 => .UInt32 | .uint64 => .UInt64
  | .float16 => .Float16 | .float32 => .Float32 | .float64 => .Float64
  | .utf8 => .Utf8 | .largeUtf8 => .LargeUtf8 | .utf8View => .Utf8View
  | .binary => .Binary | .largeBinary => .LargeBinary | .binaryView => .BinaryView
  | .fixedSizeBinary _ => .FixedSizeBinary | .date32 => .Date32 | .date64 => .Date64
  | .timestamp _ _ => .Timestamp | .time32 _ => .Time32 | .time64 _ => .Time64
  | .duration _ => .Duration | .interval _ => .Interval | .decimal128 _ _ => .Decimal128
  | .struct _ => .Struct | .list _ => .List | .largeList _ => .LargeList
  | .fixedSizeList _ _ => .FixedSizeList | .map _ _ => .Map | .dictionary _ _ => .Dictionary
  | .runEndEncoded _ _ => .RunEndEncoded | .union _ _ => .Union

/-- the Rust spelling of a constructor -/
def Ctor.name : Ctor → String
  | .Null => "Null" | .Boolean => "Boolean"
  | .Int8 => "Int8" | .Int16 => "Int16" | .Int32 => "Int32" | .Int64 => "Int64"
  | .UInt8 => "UInt8" | .UInt16 => "UInt16" | .UInt32 => "UInt32" | .UInt64 => "UInt64"
  | .Float16 => "Float16" | .Float32 => "Float32" | .Float64 => "Float64"
  | .Utf8 => "Utf8" | .LargeUtf8 => "LargeUtf8" | .Utf8View => "Utf8View"
  | .Binary => "Binary" | .LargeBinary => "LargeBinary" | .BinaryView => "BinaryView"
  | .FixedSizeBinary => "FixedSizeBinary" | .Date32 => "Date32" | .Date64 => "Date64"
  | .Timestamp => "Timestamp" | .Time32 => "Time32" | .Time64 => "Time64"
  | .Duration => "Duration" | .Interval => "Interval" | .Decimal128 => "Decimal128"
  | .Struct => "Struct" | .List => "List" | .LargeList => "LargeList"
  | .FixedSizeList => "FixedSizeList" | .Map => "Map" | .Dictionary => "Dictionary"
  | .RunEndEncoded => "RunEndEncoded" | .Union => "Union"

/-- `Ctor.name` is the label `DataType.ctor` the drivers already use -/
theorem DataType.ctorOf_name (d : DataType) : d.ctorOf.name = d.ctor := by cases d <;> rfl

/-- the data type of a constructor without arguments (`None` for the parameterised ones) -/
def Ctor.unit? : Ctor → Option DataType
  | .Null => some .null | .Boolean => some .boolean
  | .Int8 => some .int8 | .Int16 => some .int16 | .Int32 => some .int32 | .Int64 => some .int64
  | .UInt8 => some .uint8 | .UInt16 => some .uint16 | .UInt32 => some .uint32 | .UInt64 => some .uint64
  | .Float16 => some .float16 | .Float32 => some .float32 | .Float64 => some .float64
  | .Utf8 => some .utf8 | .LargeUtf8 => some .largeUtf8 | .Utf8View => some .utf8View
  | .Binary => some .binary | .LargeBinary => some .largeBinary | .BinaryView => some .binaryView
  | .Date32 => some .date32 | .Date64 => some .date64
  | _ => none

theorem Ctor.unit?_ctorOf {c : Ctor} {d : DataType} (h : c.unit? = some d) : d.ctorOf = c := by
  cases c <;> simp [Ctor.unit?] at h <;> subst h <;> rfl

/-- a data type without arguments is determined by its constructor -/
theorem DataType.eq_of_unit? {d : DataType} {x : DataType} (h : d.ctorOf.unit? = some x) : d = x := by
  cases d <;> simp [DataType.ctorOf, Ctor.unit?] at h <;> exact h

end SaModel
