import SaModel.Ext.Utils
/-
Model of the three helper types in `serde_arrow/src/internal/schema/extensions/`:
`bool8_field.rs`, `fixed_shape_tensor_field.rs`, `variable_shape_tensor_field.rs`
(`new`, the setters, `get_ext_metadata`, `TryFrom<&Helper> for marrow::datatypes::Field`).

The element field the user supplies is opaque (`ε`): the helpers only compare its name with
`"element"` and copy it.  `transmute_field` (the schema reader) is outside this model; `new`
takes its result.
-/
namespace SaModel.Ext

/-! ### the part of `marrow::datatypes::{DataType, Field}` the helpers construct -/

mutual
inductive DataType (ε : Type) where
  | int8
  | int32
  | list (child : Field ε)
  | fixedSizeList (child : Field ε) (n : Nat)
  | struct (fields : List (Field ε))
inductive Field (ε : Type) where
  /-- the user's element field, copied unchanged -/
  | element (e : ε)
  | mk (name : String) (nullable : Bool) (dataType : DataType ε) (metadata : List (Str × Str))
end

/-- `"ARROW:extension:name"` -/
def kExtName : Str := "ARROW:extension:name".toList
/-- `"ARROW:extension:metadata"` -/
def kExtMetadata : Str := "ARROW:extension:metadata".toList

/-- `HashMap` with the two extension entries; kept sorted by key (the harness dumps maps sorted) -/
def extMetadataMap (extName extMetadata : Str) : List (Str × Str) :=
  [(kExtMetadata, extMetadata), (kExtName, extName)]

/-- `usize → i32` (`try_into()?`) -/
def usizeToI32 (n : Nat) : R Nat :=
  if n ≤ i32Max then .ok n else fail "TryFromIntError: out of range integral type conversion attempted"

/-- `usize::checked_mul` -/
def checkedMul (a b : Nat) : Option Nat := if a * b ≤ usizeMax then some (a * b) else none

/-! ### Bool8Field -/

structure Bool8Field where
  name : String
  nullable : Bool
deriving Repr, DecidableEq

def Bool8Field.new (name : String) : Bool8Field := { name, nullable := false }
def Bool8Field.setNullable (h : Bool8Field) (value : Bool) : Bool8Field := { h with nullable := value }

def Bool8Field.tryFrom {ε} (h : Bool8Field) : R (Field ε) :=
  .ok (.mk h.name h.nullable .int8 (extMetadataMap "arrow.bool8".toList []))

/-! ### FixedShapeTensorField -/

structure FixedShapeTensorField (ε : Type) where
  name : String
  nullable : Bool
  element : ε
  shape : List Nat
  dimNames : Option (List Str)
  permutation : Option (List Nat)

namespace FixedShapeTensorField
variable {ε : Type}

/-- `new(name, element, shape)` after `transmute_field(element)` gave a field named `elementName` -/
def new (name : String) (element : ε) (elementName : String) (shape : List Nat) :
    R (FixedShapeTensorField ε) :=
  if elementName ≠ "element" then
    fail "The element field of FixedShapeTensorField must be named \"element\""
  else .ok { name, shape, element, nullable := false, dimNames := none, permutation := none }

def setNullable (h : FixedShapeTensorField ε) (value : Bool) : FixedShapeTensorField ε :=
  { h with nullable := value }

def setPermutation (h : FixedShapeTensorField ε) (value : List Nat) : R (FixedShapeTensorField ε) :=
  match checkPermutation h.shape.length value with
  | .error e => .error e
  | .ok () => .ok { h with permutation := some value }

def setPermutationPinned (h : FixedShapeTensorField ε) (value : List Nat) : R (FixedShapeTensorField ε) :=
  match checkPermutationPinned h.shape.length value with
  | .error e => .error e
  | .ok () => .ok { h with permutation := some value }

def setDimNames (h : FixedShapeTensorField ε) (value : List Str) : R (FixedShapeTensorField ε) :=
  match checkDimNames h.shape.length value with
  | .error e => .error e
  | .ok () => .ok { h with dimNames := some value }

/-- `get_ext_metadata`, with the name writer as parameter (`jsonString` now, `debugReprPinned` before) -/
def getExtMetadataWith (nameRepr : Str → Str) (h : FixedShapeTensorField ε) : Str :=
  let s := ['{']
  let s := s ++ "\"shape\":".toList
  let s := s ++ writeList (h.shape.map showNat)
  let s := match h.permutation with
    | some permutation => s ++ ",\"permutation\":".toList ++ writeList (permutation.map showNat)
    | none => s
  let s := match h.dimNames with
    | some dimNames => s ++ ",\"dim_names\":".toList ++ writeList (dimNames.map nameRepr)
    | none => s
  s ++ ['}']

def getExtMetadata (h : FixedShapeTensorField ε) : Str := getExtMetadataWith jsonString h
def getExtMetadataPinned (h : FixedShapeTensorField ε) : Str := getExtMetadataWith debugReprPinned h

/-- the loop `for s in &shape { n = n.checked_mul(*s)? }` -/
def shapeProduct : Nat → List Nat → R Nat
  | n, [] => .ok n
  | n, s :: rest =>
    match checkedMul n s with
    | some next => shapeProduct next rest
    | none => fail "The number of elements of FixedShapeTensorField does not fit into i32"

/-- the pinned loop `n *= *s` (overflow checks on: unwinds) -/
def shapeProductPinned : Nat → List Nat → R Nat
  | n, [] => .ok n
  | n, s :: rest =>
    if n * s ≤ usizeMax then shapeProductPinned (n * s) rest
    else panic "attempt to multiply with overflow"

def mkField (h : FixedShapeTensorField ε) (n : Nat) : Field ε :=
  .mk h.name h.nullable (.fixedSizeList (.element h.element) n)
    (extMetadataMap "arrow.fixed_shape_tensor".toList h.getExtMetadata)

/-- `TryFrom<&FixedShapeTensorField> for Field` -/
def tryFrom (h : FixedShapeTensorField ε) : R (Field ε) :=
  match shapeProduct (if 0 ∈ h.shape then 0 else 1) h.shape with
  | .error e => .error e
  | .ok n =>
    match usizeToI32 n with
    | .error e => .error e
    | .ok n => .ok (h.mkField n)

def tryFromPinned (h : FixedShapeTensorField ε) : R (Field ε) :=
  match shapeProductPinned 1 h.shape with
  | .error e => .error e
  | .ok n =>
    match usizeToI32 n with
    | .error e => .error e
    | .ok n => .ok (h.mkField n)

end FixedShapeTensorField

/-! ### VariableShapeTensorField -/

structure VariableShapeTensorField (ε : Type) where
  name : String
  element : ε
  ndim : Nat
  nullable : Bool
  dimNames : Option (List Str)
  permutation : Option (List Nat)
  uniformShape : Option (List (Option Nat))

namespace VariableShapeTensorField
variable {ε : Type}

def new (name : String) (element : ε) (elementName : String) (ndim : Nat) :
    R (VariableShapeTensorField ε) :=
  if elementName ≠ "element" then
    fail "The element field of FixedShapeTensorField must be named \"element\""
  else .ok { name, element, ndim, nullable := false, dimNames := none, permutation := none,
             uniformShape := none }

def setNullable (h : VariableShapeTensorField ε) (value : Bool) : VariableShapeTensorField ε :=
  { h with nullable := value }

def setPermutation (h : VariableShapeTensorField ε) (value : List Nat) : R (VariableShapeTensorField ε) :=
  match checkPermutation h.ndim value with
  | .error e => .error e
  | .ok () => .ok { h with permutation := some value }

def setPermutationPinned (h : VariableShapeTensorField ε) (value : List Nat) : R (VariableShapeTensorField ε) :=
  match checkPermutationPinned h.ndim value with
  | .error e => .error e
  | .ok () => .ok { h with permutation := some value }

def setDimNames (h : VariableShapeTensorField ε) (value : List Str) : R (VariableShapeTensorField ε) :=
  match checkDimNames h.ndim value with
  | .error e => .error e
  | .ok () => .ok { h with dimNames := some value }

/-- the length check of `uniform_shape` -/
def checkUniformShape (ndim : Nat) (value : List (Option Nat)) : R Unit :=
  if value.length ≠ ndim then fail "Invalid uniform_shape value" else .ok ()

def setUniformShape (h : VariableShapeTensorField ε) (value : List (Option Nat)) :
    R (VariableShapeTensorField ε) :=
  match checkUniformShape h.ndim value with
  | .error e => .error e
  | .ok () => .ok { h with uniformShape := some value }

/-- `match val { Some(val) => format!("{val}"), None => "null" }` -/
def showOptNat : Option Nat → Str
  | some v => showNat v
  | none => ['n', 'u', 'l', 'l']

/-- the separator logic of `get_ext_metadata`: `if !first_field { "," }; first_field = false` -/
def sep (firstField : Bool) : Str := if !firstField then [','] else []

/-- the pinned separator logic: `if first_field { first_field = false; "," }` -/
def sepPinned (firstField : Bool) : Str := if firstField then [','] else []

/-- `get_ext_metadata` with separator and name writer as parameters -/
def getExtMetadataWith (sep : Bool → Str) (nameRepr : Str → Str) (h : VariableShapeTensorField ε) : Str :=
  let firstField := true
  let s := ['{']
  let (s, firstField) := match h.permutation with
    | some permutation =>
      (s ++ sep firstField ++ "\"permutation\":".toList ++ writeList (permutation.map showNat), false)
    | none => (s, firstField)
  let (s, firstField) := match h.dimNames with
    | some dimNames =>
      (s ++ sep firstField ++ "\"dim_names\":".toList ++ writeList (dimNames.map nameRepr), false)
    | none => (s, firstField)
  let (s, _) := match h.uniformShape with
    | some uniformShape =>
      (s ++ sep firstField ++ "\"uniform_shape\":".toList ++ writeList (uniformShape.map showOptNat), false)
    | none => (s, firstField)
  s ++ ['}']

def getExtMetadata (h : VariableShapeTensorField ε) : Str := getExtMetadataWith sep jsonString h
/-- both pinned defects (separator, `{:?}` names) -/
def getExtMetadataPinned (h : VariableShapeTensorField ε) : Str :=
  getExtMetadataWith sepPinned debugReprPinned h
/-- pinned separator only (to exhibit the two defects separately) -/
def getExtMetadataPinnedSep (h : VariableShapeTensorField ε) : Str :=
  getExtMetadataWith sepPinned jsonString h

/-- the storage type: `Struct[data: List(element), shape: FixedSizeList(Int32, ndim)]` -/
def storage (element : ε) (ndim : Nat) : DataType ε :=
  .struct [
    .mk "data" false (.list (.element element)) [],
    .mk "shape" false (.fixedSizeList (.mk "element" false .int32 []) ndim) []]

/-- `TryFrom<&VariableShapeTensorField> for Field` -/
def tryFrom (h : VariableShapeTensorField ε) : R (Field ε) :=
  match usizeToI32 h.ndim with
  | .error e => .error e
  | .ok ndim =>
    .ok (.mk h.name h.nullable (storage h.element ndim)
      (extMetadataMap "arrow.variable_shape_tensor".toList h.getExtMetadata))

end VariableShapeTensorField

end SaModel.Ext
