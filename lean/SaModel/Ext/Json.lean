import SaModel.Ext.Utils
/-
A small JSON reader: the *specification* side of the C20 metadata theorem ("the extension metadata is
valid JSON stating exactly …").  It reads the compact subset of RFC 8259 that is needed for
canonical-extension metadata:

  object  = '{' '}' | '{' member (',' member)* '}'          member = string ':' value
  value   = scalar | '[' ']' | '[' scalar (',' scalar)* ']'
  scalar  = 'null' | string | non-negative integer without leading zeros
  string  = '"' ( unescaped char ≥ U+0020 other than '"' '\' | '\' one of "\/bfnrt | '\u' 4 hex digits )* '"'

No insignificant whitespace, no nesting below arrays, no fractions/exponents/negative numbers, no
`true`/`false`, `\u` escapes of surrogates are refused.  Every text it accepts is valid JSON with the
value it returns (it is a sub-grammar with the standard meaning); it is cross-checked against
`serde_json` on every produced metadata string by the `ext` suite.
-/
namespace SaModel.Ext.Json
open SaModel.Ext

inductive JScalar where
  | null
  | num (n : Nat)
  | str (s : Str)
deriving Repr, DecidableEq

inductive JVal where
  | scalar (s : JScalar)
  | arr (items : List JScalar)
deriving Repr, DecidableEq

/-- members in document order -/
abbrev JObj := List (Str × JVal)

def digitVal (c : Char) : Nat := c.toNat - 48

/-- greedy run of decimal digits -/
def readDigits : Nat → Str → Nat × Str
  | acc, [] => (acc, [])
  | acc, c :: rest => if c.isDigit then readDigits (acc * 10 + digitVal c) rest else (acc, c :: rest)

def hexVal (c : Char) : Option Nat :=
  if c.isDigit then some (c.toNat - 48)
  else if 97 ≤ c.toNat ∧ c.toNat ≤ 102 then some (c.toNat - 87)
  else if 65 ≤ c.toNat ∧ c.toNat ≤ 70 then some (c.toNat - 55)
  else none

def hex4 (a b c d : Char) : Option Char :=
  match hexVal a, hexVal b, hexVal c, hexVal d with
  | some a, some b, some c, some d =>
    let n := ((a * 16 + b) * 16 + c) * 16 + d
    if 0xD800 ≤ n ∧ n < 0xE000 then none else some (Char.ofNat n)
  | _, _, _, _ => none

def unescape (e : Char) : Option Char :=
  if e = '"' then some '"'
  else if e = '\\' then some '\\'
  else if e = '/' then some '/'
  else if e = 'n' then some '\n'
  else if e = 'r' then some '\r'
  else if e = 't' then some '\t'
  else if e = 'b' then some (Char.ofNat 8)
  else if e = 'f' then some (Char.ofNat 12)
  else none

/-- after the opening quote: decoded content up to the closing quote, and the rest -/
def readStr : Str → Option (Str × Str)
  | [] => none
  | c :: rest =>
    if c = '"' then some ([], rest)
    else if c = '\\' then
      match rest with
      | [] => none
      | e :: rest₁ =>
        if e = 'u' then
          match rest₁ with
          | a :: b :: c' :: d :: rest₂ =>
            match hex4 a b c' d, readStr rest₂ with
            | some ch, some (s, r) => some (ch :: s, r)
            | _, _ => none
          | _ => none
        else
          match unescape e, readStr rest₁ with
          | some ch, some (s, r) => some (ch :: s, r)
          | _, _ => none
    else if c.toNat < 32 then none
    else
      match readStr rest with
      | some (s, r) => some (c :: s, r)
      | none => none

def readScalar : Str → Option (JScalar × Str)
  | [] => none
  | c :: rest =>
    if c.isDigit then
      if c = '0' then some (.num 0, rest)
      else some (.num (readDigits 0 (c :: rest)).1, (readDigits 0 (c :: rest)).2)
    else if c = '"' then
      match readStr rest with
      | some (s, r) => some (.str s, r)
      | none => none
    else if c = 'n' then
      if rest.take 3 = ['u', 'l', 'l'] then some (.null, rest.drop 3) else none
    else none

/-- `(',' scalar)* ']'`.  Every round consumes a character, so `length + 1` rounds always suffice. -/
def readElems : Nat → Str → Option (List JScalar × Str)
  | 0, _ => none
  | _ + 1, [] => none
  | fuel + 1, c :: rest =>
    if c = ']' then some ([], rest)
    else if c = ',' then
      match readScalar rest with
      | none => none
      | some (v, r) =>
        match readElems fuel r with
        | none => none
        | some (vs, r') => some (v :: vs, r')
    else none

def readValue : Str → Option (JVal × Str)
  | [] => none
  | c :: rest =>
    if c = '[' then
      match readScalar rest with
      | some (v, r) =>
        match readElems (r.length + 1) r with
        | some (vs, r') => some (.arr (v :: vs), r')
        | none => none
      | none =>
        match rest with
        | d :: rest' => if d = ']' then some (.arr [], rest') else none
        | [] => none
    else
      match readScalar (c :: rest) with
      | some (s, r) => some (.scalar s, r)
      | none => none

/-- `string ':' value` -/
def readMember : Str → Option ((Str × JVal) × Str)
  | [] => none
  | c :: rest =>
    if c = '"' then
      match readStr rest with
      | some (k, d :: r) =>
        if d = ':' then
          match readValue r with
          | some (v, r') => some ((k, v), r')
          | none => none
        else none
      | _ => none
    else none

/-- `(',' member)* '}'` -/
def readMembers : Nat → Str → Option (JObj × Str)
  | 0, _ => none
  | _ + 1, [] => none
  | fuel + 1, c :: rest =>
    if c = '}' then some ([], rest)
    else if c = ',' then
      match readMember rest with
      | none => none
      | some (m, r) =>
        match readMembers fuel r with
        | none => none
        | some (ms, r') => some (m :: ms, r')
    else none

def readObject : Str → Option (JObj × Str)
  | [] => none
  | c :: rest =>
    if c = '{' then
      match readMember rest with
      | some (m, r) =>
        match readMembers (r.length + 1) r with
        | some (ms, r') => some (m :: ms, r')
        | none => none
      | none =>
        match rest with
        | d :: rest' => if d = '}' then some ([], rest') else none
        | [] => none
    else none

/-- a whole text as one JSON object -/
def jsonParse (cs : Str) : Option JObj :=
  match readObject cs with
  | some (o, []) => some o
  | _ => none

end SaModel.Ext.Json
