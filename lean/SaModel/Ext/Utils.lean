import SaModel.Basic.Outcome
/-
Model of `serde_arrow/src/internal/schema/extensions/utils.rs`:
`check_dim_names`, `check_permutation`, `write_list`, `JsonString` (the JSON string writer that
replaced the `{:?}` formatting of dimension names) and `Display for usize`.

Text is `List Char` (Rust `String`/`&str` are sequences of Unicode scalar values, so is `List Char`).
`…Pinned` = the code as pinned, before the `fix:` commits (kept for the negative theorems).
-/
namespace SaModel.Ext

abbrev Str := List Char

/-- `usize::MAX` on the 64-bit targets the harness runs on -/
def usizeMax : Nat := 2 ^ 64 - 1
/-- `i32::MAX` -/
def i32Max : Nat := 2 ^ 31 - 1

/-! ### check_dim_names -/

def checkDimNames (ndim : Nat) (dimNames : List Str) : R Unit :=
  if dimNames.length ≠ ndim then
    fail "Number of dim names must be equal to the number of dimensions"
  else .ok ()

/-! ### check_permutation -/

/-- first loop of `check_permutation`: range check, duplicate check, `seen[i] = true`.
`seen[i]` is an indexing site; it is guarded by the range check just before it. -/
def markSeen : List Bool → List Nat → R (List Bool)
  | seen, [] => .ok seen
  | seen, i :: rest =>
    if i ≥ seen.length then fail "Invalid permutation: index is not in range"
    else match seen[i]? with
      | none => panic "check_permutation: seen[i]"
      | some true => fail "Invalid permutation: index found multiple times"
      | some false => markSeen (seen.set i true) rest

/-- the pinned first loop never writes `seen` -/
def markSeenPinned : List Bool → List Nat → R (List Bool)
  | seen, [] => .ok seen
  | seen, i :: rest =>
    if i ≥ seen.length then fail "Invalid permutation: index is not in range"
    else match seen[i]? with
      | none => panic "check_permutation: seen[i]"
      | some true => fail "Invalid permutation: index found multiple times"
      | some false => markSeenPinned seen rest

/-- second loop: every index must have been seen -/
def checkAllSeen : List Bool → R Unit
  | [] => .ok ()
  | true :: rest => checkAllSeen rest
  | false :: _ => fail "Invalid permutation: index is not present"

def checkPermutation (ndim : Nat) (permutation : List Nat) : R Unit :=
  if permutation.length ≠ ndim then
    fail "Number of permutation entries must be equal to the number of dimensions"
  else
    match markSeen (List.replicate permutation.length false) permutation with
    | .error e => .error e
    | .ok seen => checkAllSeen seen

def checkPermutationPinned (ndim : Nat) (permutation : List Nat) : R Unit :=
  if permutation.length ≠ ndim then
    fail "Number of permutation entries must be equal to the number of dimensions"
  else
    match markSeenPinned (List.replicate permutation.length false) permutation with
    | .error e => .error e
    | .ok seen => checkAllSeen seen

/-! ### write_list -/

/-- loop body of `write_list`: `first` is `idx == 0` -/
def writeItems : Bool → List Str → Str
  | _, [] => []
  | true, v :: rest => v ++ writeItems false rest
  | false, v :: rest => ',' :: (v ++ writeItems false rest)

def writeList (items : List Str) : Str := '[' :: (writeItems true items ++ [']'])

/-! ### `Display for usize` -/

def digitChar : Nat → Char
  | 0 => '0' | 1 => '1' | 2 => '2' | 3 => '3' | 4 => '4'
  | 5 => '5' | 6 => '6' | 7 => '7' | 8 => '8' | _ => '9'

/-- decimal digits, most significant first; the fuel only makes the recursion structural
(`showNat_eq` in the lemma file gives the fuel-free equation) -/
def showNatF : Nat → Nat → Str
  | 0, _ => []
  | fuel + 1, n => if n < 10 then [digitChar n] else showNatF fuel (n / 10) ++ [digitChar (n % 10)]

def showNat (n : Nat) : Str := showNatF (n + 1) n

/-! ### `JsonString`: a string as JSON string literal -/

def hexDigit : Nat → Char
  | 0 => '0' | 1 => '1' | 2 => '2' | 3 => '3' | 4 => '4' | 5 => '5' | 6 => '6' | 7 => '7'
  | 8 => '8' | 9 => '9' | 10 => 'a' | 11 => 'b' | 12 => 'c' | 13 => 'd' | 14 => 'e' | _ => 'f'

/-- one `match c { … }` arm of `JsonString::fmt` -/
def escapeChar (c : Char) : Str :=
  if c = '"' then ['\\', '"']
  else if c = '\\' then ['\\', '\\']
  else if c = '\n' then ['\\', 'n']
  else if c = '\r' then ['\\', 'r']
  else if c = '\t' then ['\\', 't']
  else if c.toNat < 32 then
    -- write!(f, "\\u{:04x}", c as u32) with c < 0x20
    ['\\', 'u', '0', '0', hexDigit (c.toNat / 16), hexDigit (c.toNat % 16)]
  else [c]

def escape : Str → Str
  | [] => []
  | c :: rest => escapeChar c ++ escape rest

def jsonString (s : Str) : Str := '"' :: (escape s ++ ['"'])

/-- what the pinned code wrote instead: `{:?}` of the name.  Rust's `Debug for str` escapes
`"` `\\` `\t` `\r` `\n` `\0` by backslash and every other non-printable character as `\u{…}` with
minimal lower-case hex digits.  Only the ASCII part of that table is modelled (all other
characters are copied), which is enough for the witnesses of the negative theorem. -/
def hexDigits : Nat → Nat → Str
  | 0, _ => []
  | fuel + 1, n => if n < 16 then [hexDigit n] else hexDigits fuel (n / 16) ++ [hexDigit (n % 16)]

def debugEscapeCharPinned (c : Char) : Str :=
  if c = '"' then ['\\', '"']
  else if c = '\\' then ['\\', '\\']
  else if c = '\n' then ['\\', 'n']
  else if c = '\r' then ['\\', 'r']
  else if c = '\t' then ['\\', 't']
  else if c.toNat = 0 then ['\\', '0']
  else if c.toNat < 32 ∨ c.toNat = 127 then
    ['\\', 'u', '{'] ++ hexDigits 8 c.toNat ++ ['}']
  else [c]

def debugReprPinned (s : Str) : Str := '"' :: (s.flatMap debugEscapeCharPinned ++ ['"'])

end SaModel.Ext
