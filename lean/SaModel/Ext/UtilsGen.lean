import SaModel.Ext.Utils
/-
Vocabulary and interpreters for the TRANSLATED bodies of `serde_arrow/src/internal/schema/extensions/utils.rs`
(`Generated/ConstantsExtUtils.lean`, written by `translator/constants.py: render_ext_utils`).  Hand written, not generated:
what a table of arms / a list of statements MEANS is defined here, and `Props/ConstGenExt.lean` proves that the tables
read from the source, under these interpreters, are the hand-written model of `Ext/Utils.lean` for ALL inputs.

* `EscArm`, `escapeCharGen`, `jsonStringGen`: the `match c { … }` of `JsonString::fmt` as an ordered list of arms
  (Rust semantics: the first arm whose pattern and guard hold is taken).
* `PStmt` / `PStep` / `PExpr` / `Cmp`, `runStmts`: the statements of `check_permutation` (and of `check_dim_names`).
* `WriteListBody`, `writeListGen`: the pieces of `write_list`.
-/
namespace SaModel.Ext

/-! ### `JsonString::fmt` -/

/-- one arm of `match c { … }` in `JsonString::fmt` -/
inductive EscArm where
  /-- `'c' => f.write_str("text")?` (also `write!(f, "text")`, `f.write_char('x')`, several writes in a block) -/
  | lit (c : Char) (text : String)
  /-- `c if (c as u32) < bound => write!(f, "pre{:0Wx}post", c as u32)?`: `zero` = the `0` flag, `width` = W (0 when absent),
  `upper` = `X` instead of `x` -/
  | hexBelow (bound : Nat) (pre : String) (zero : Bool) (width : Nat) (upper : Bool) (post : String)
  /-- `c => f.write_char(c)?` (also `_ =>`) -/
  | copy
deriving Repr, DecidableEq

def hexDigitUpper : Nat → Char
  | 10 => 'A' | 11 => 'B' | 12 => 'C' | 13 => 'D' | 14 => 'E' | 15 => 'F' | n => hexDigit n

/-- digits of `n` in base 16, most significant first (`fuel` ≥ number of digits; 8 is enough for a `u32`) -/
def hexDigitsWith (digit : Nat → Char) : Nat → Nat → Str
  | 0, _ => []
  | fuel + 1, n => if n < 16 then [digit n] else hexDigitsWith digit fuel (n / 16) ++ [digit (n % 16)]

/-- `format!("{:Wx}", n)` / `{:0Wx}` / `{:WX}` for `n : u32`: the digits, right-aligned to at least `width` characters with
`0` (flag `0`) or blanks (the default alignment of numbers); never truncated -/
def fmtHex (zero : Bool) (width : Nat) (upper : Bool) (n : Nat) : Str :=
  let ds := hexDigitsWith (if upper then hexDigitUpper else hexDigit) 8 n
  List.replicate (width - ds.length) (if zero then '0' else ' ') ++ ds

/-- the text the first matching arm writes for `c`; `none` = no arm matches (not a Rust program: `match` is exhaustive) -/
def escapeCharGen? : List EscArm → Char → Option Str
  | [], _ => none
  | .lit a text :: rest, c => if c = a then some text.toList else escapeCharGen? rest c
  | .hexBelow bound pre zero width upper post :: rest, c =>
    if c.toNat < bound then some (pre.toList ++ fmtHex zero width upper c.toNat ++ post.toList) else escapeCharGen? rest c
  | .copy :: _, c => some [c]

def escapeCharGen (arms : List EscArm) (c : Char) : Str := (escapeCharGen? arms c).getD []

/-- the loop `for c in self.0.as_ref().chars() { match c { arms } }` -/
def escapeGen (arms : List EscArm) : Str → Str
  | [] => []
  | c :: rest => escapeCharGen arms c ++ escapeGen arms rest

/-- `JsonString::fmt`: what is written before the loop, the loop, what is written after it -/
def jsonStringGen (opening : String) (arms : List EscArm) (closing : String) (s : Str) : Str :=
  opening.toList ++ (escapeGen arms s ++ closing.toList)

/-- a decidable criterion for "this arm list writes what `escapeChar` writes for EVERY character": literal arms and guard
bounds only concern characters below U+0080, some arm copies, and on the 128 characters below U+0080 the interpretation
equals the model (`Lemmas/C20Gen.lean: armsOk_sound`) -/
def EscArm.low : EscArm → Bool
  | .lit c _ => c.toNat < 128
  | .hexBelow bound _ _ _ _ _ => bound ≤ 128
  | .copy => true

def armsOk (arms : List EscArm) : Bool :=
  arms.all EscArm.low && arms.contains .copy &&
    (List.range 128).all (fun n => escapeCharGen? arms (Char.ofNat n) == some (escapeChar (Char.ofNat n)))

/-! ### `check_permutation`, `check_dim_names` -/

inductive Cmp where
  | lt | le | gt | ge | eq | ne
deriving Repr, DecidableEq

def Cmp.eval : Cmp → Nat → Nat → Bool
  | .lt, a, b => a < b
  | .le, a, b => a ≤ b
  | .gt, a, b => a > b
  | .ge, a, b => a ≥ b
  | .eq, a, b => a == b
  | .ne, a, b => a != b

/-- the `usize` expressions of the two functions -/
inductive PExpr where
  /-- the first parameter (`ndim`) -/
  | ndim
  /-- `.len()` of the slice parameter (`permutation` / `dim_names`) -/
  | sliceLen
  /-- `.len()` of the local vector (`seen`) -/
  | seenLen
  /-- the element the first loop is at (`i` of `for &i in permutation`) -/
  | item
  | lit (n : Nat)
deriving Repr, DecidableEq

def PExpr.eval (ndim sliceLen : Nat) (seen : List Bool) (item : Nat) : PExpr → Nat
  | .ndim => ndim
  | .sliceLen => sliceLen
  | .seenLen => seen.length
  | .item => item
  | .lit n => n

/-- a statement inside `for &i in permutation { … }` -/
inductive PStep where
  /-- `if l <op> r { fail!(…) }` -/
  | failIf (l : PExpr) (op : Cmp) (r : PExpr)
  /-- `if seen[e] { fail!(…) }` (`val = true`) / `if !seen[e] { fail!(…) }` (`val = false`) -/
  | failIfSeen (e : PExpr) (val : Bool)
  /-- `seen[e] = val;` -/
  | setSeen (e : PExpr) (val : Bool)
deriving Repr, DecidableEq

/-- a statement of the function body -/
inductive PStmt where
  | failIf (l : PExpr) (op : Cmp) (r : PExpr)
  /-- `let mut seen = vec![init; len];` -/
  | letSeen (init : Bool) (len : PExpr)
  /-- `for &i in permutation { body }` -/
  | forSlice (body : List PStep)
  /-- `for (i, seen) in seen.into_iter().enumerate() { if !seen { fail!(…) } }` (`failOn = false`; `if seen` = `true`) -/
  | forSeen (failOn : Bool)
  /-- the tail expression `Ok(())` -/
  | retOk
deriving Repr, DecidableEq

/-- message texts are not part of the translation (wording is no obligation): the interpreter fails with this text and the
obligations compare outcome classes (`R.cls`) -/
def genMsg : String := "(translated)"

def runSteps (ndim sliceLen : Nat) : List PStep → Nat → List Bool → R (List Bool)
  | [], _, seen => .ok seen
  | .failIf l op r :: rest, i, seen =>
    if op.eval (l.eval ndim sliceLen seen i) (r.eval ndim sliceLen seen i) then fail genMsg
    else runSteps ndim sliceLen rest i seen
  | .failIfSeen e val :: rest, i, seen =>
    match seen[e.eval ndim sliceLen seen i]? with
    | none => panic "seen[i]"
    | some b => if b = val then fail genMsg else runSteps ndim sliceLen rest i seen
  | .setSeen e val :: rest, i, seen =>
    if e.eval ndim sliceLen seen i < seen.length then
      runSteps ndim sliceLen rest i (seen.set (e.eval ndim sliceLen seen i) val)
    else panic "seen[i] ="

def runFor (ndim sliceLen : Nat) (body : List PStep) : List Nat → List Bool → R (List Bool)
  | [], seen => .ok seen
  | i :: rest, seen =>
    match runSteps ndim sliceLen body i seen with
    | .error e => .error e
    | .ok seen' => runFor ndim sliceLen body rest seen'

def runSeen (failOn : Bool) : List Bool → R Unit
  | [] => .ok ()
  | b :: rest => if b = failOn then fail genMsg else runSeen failOn rest

def runStmts (ndim : Nat) (slice : List Nat) : List PStmt → List Bool → R Unit
  | [], _ => panic "function body without a tail expression"
  | .retOk :: _, _ => .ok ()
  | .failIf l op r :: rest, seen =>
    if op.eval (l.eval ndim slice.length seen 0) (r.eval ndim slice.length seen 0) then fail genMsg
    else runStmts ndim slice rest seen
  | .letSeen init len :: rest, seen =>
    runStmts ndim slice rest (List.replicate (len.eval ndim slice.length seen 0) init)
  | .forSlice body :: rest, seen =>
    match runFor ndim slice.length body slice seen with
    | .error e => .error e
    | .ok seen' => runStmts ndim slice rest seen'
  | .forSeen failOn :: rest, seen =>
    match runSeen failOn seen with
    | .error e => .error e
    | .ok () => runStmts ndim slice rest seen

/-- `check_permutation(ndim, permutation)` as translated -/
def checkPermutationGen (body : List PStmt) (ndim : Nat) (permutation : List Nat) : R Unit :=
  runStmts ndim permutation body []

/-- `check_dim_names(ndim, dim_names)` as translated: only the length of the slice is read -/
def checkDimNamesGen (body : List PStmt) (ndim : Nat) (dimNames : List Str) : R Unit :=
  runStmts ndim (dimNames.map (fun _ => 0)) body []

/-! ### `write_list` -/

/-- `write!(s, OPEN)?; for (idx, val) in items.enumerate() { if idx <op> N { write!(s, THEN)?; } else { write!(s, ELSE)?; } }
write!(s, CLOSE)?; Ok(())` — the two item formats as (text before `{val}`, text after it) -/
structure WriteListBody where
  opening : String
  op : Cmp
  bound : Nat
  thenFmt : String × String
  elseFmt : String × String
  closing : String
deriving Repr

def writeItemsGen (b : WriteListBody) : Nat → List Str → Str
  | _, [] => []
  | idx, v :: rest =>
    let f := if b.op.eval idx b.bound then b.thenFmt else b.elseFmt
    f.1.toList ++ (v ++ (f.2.toList ++ writeItemsGen b (idx + 1) rest))

def writeListGen (b : WriteListBody) (items : List Str) : Str :=
  b.opening.toList ++ (writeItemsGen b 0 items ++ b.closing.toList)

end SaModel.Ext
