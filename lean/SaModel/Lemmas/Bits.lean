import SaModel.Build.Finish
import SaModel.Spec.Decode
/-
Bitmaps at two levels (DESIGN.md section 3): the builders hold abstract bits (`List Bool`), arrays hold
bytes (`packBits`, LSB first, zero padded).  The two levels are related once, here:

  getBit_packBits      i < |bs|                       → getBit ⟨packBits bs, 0⟩ i = ok bs[i]
  getBit_packBits_pad  |bs| ≤ i < 8 * |packBits bs|   → getBit ⟨packBits bs, 0⟩ i = ok false     (padding is clear)
  getBit_packBits_oob  8 * |packBits bs| ≤ i          → getBit ⟨packBits bs, 0⟩ i = error
  getBit_offset        getBit ⟨d, o + k⟩ i = getBit ⟨d, o⟩ (k + i)                              (slices, C12)
  packBits_length'     |packBits bs| = ⌈|bs| / 8⌉
-/
namespace SaModel.Lemmas.Bits
open SaModel SaModel.Build SaModel.Spec

/-! ### one byte -/

/-- little-endian value of a bit list -/
def bitsVal : List Bool → Nat
  | [] => 0
  | b :: bs => b.toNat + 2 * bitsVal bs

theorem zipIdx_sum (bs : List Bool) (k : Nat) :
    ((bs.zipIdx k).map fun (b, i) => if b then 2 ^ i else 0).sum = 2 ^ k * bitsVal bs := by
  induction bs generalizing k with
  | nil => simp [bitsVal]
  | cons b rest ih =>
    simp only [List.zipIdx_cons, List.map_cons, List.sum_cons, ih, bitsVal]
    cases b
    · simp [Nat.pow_succ, Nat.mul_assoc]
    · simp [Nat.pow_succ, Nat.mul_add, Nat.mul_assoc]

theorem bitsVal_lt (bs : List Bool) : bitsVal bs < 2 ^ bs.length := by
  induction bs with
  | nil => simp [bitsVal]
  | cons b rest ih =>
    simp only [bitsVal, List.length_cons, Nat.pow_succ]
    cases b <;> simp <;> omega

theorem testBit_bitsVal (bs : List Bool) (j : Nat) : (bitsVal bs).testBit j = bs.getD j false := by
  induction bs generalizing j with
  | nil => simp [bitsVal]
  | cons b rest ih =>
    cases j with
    | zero =>
      simp only [bitsVal, Nat.testBit_zero, List.getD_cons_zero]
      cases b <;> simp <;> omega
    | succ j =>
      simp only [bitsVal, Nat.testBit_succ, List.getD_cons_succ]
      have : (b.toNat + 2 * bitsVal rest) / 2 = bitsVal rest := by cases b <;> simp <;> omega
      rw [this, ih]

theorem packByte_toNat (bs : List Bool) (h : bs.length ≤ 8) : (packByte bs).toNat = bitsVal bs := by
  unfold packByte
  have hs := zipIdx_sum bs 0
  simp only [Nat.pow_zero, Nat.one_mul] at hs
  rw [hs]
  have h1 := bitsVal_lt bs
  have h2 : 2 ^ bs.length ≤ 2 ^ 8 := Nat.pow_le_pow_right (by omega) h
  simp only [UInt8.toNat_ofNat']
  exact Nat.mod_eq_of_lt (by omega)

/-- bit `j` of a packed chunk of at most 8 bits is the `j`-th bit of the chunk (clear beyond its end) -/
theorem testBit_packByte (bs : List Bool) (h : bs.length ≤ 8) (j : Nat) :
    (packByte bs).toNat.testBit j = bs.getD j false := by
  rw [packByte_toNat bs h, testBit_bitsVal]

/-! ### the byte list -/

theorem packBits_cons_eq (b : Bool) (bs : List Bool) :
    packBits (b :: bs) = packByte ((b :: bs).take 8) :: packBits ((b :: bs).drop 8) := by
  rw [packBits]

/-- byte `k` of the packed bitmap is the packed `k`-th chunk of 8 bits -/
theorem packBits_getElem? : ∀ (n : Nat) (bs : List Bool) (k : Nat), bs.length = n →
    (packBits bs)[k]? = if 8 * k < bs.length then some (packByte ((bs.drop (8 * k)).take 8)) else none := by
  intro n
  induction n using Nat.strongRecOn with
  | _ n ih =>
    intro bs k hn
    cases bs with
    | nil => simp [packBits]
    | cons b rest =>
      rw [packBits_cons_eq]
      cases k with
      | zero => simp
      | succ k =>
        have hlen : ((b :: rest).drop 8).length = n - 8 := by
          simp only [List.length_drop, hn]
        simp only [List.getElem?_cons_succ]
        rw [ih (n - 8) (by simp at hn; omega) _ k hlen, hlen]
        have hd : List.drop (8 * k) (List.drop 8 (b :: rest)) = List.drop (8 * (k + 1)) (b :: rest) := by
          rw [List.drop_drop]; congr 1; omega
        rw [hd, hn]
        by_cases hk : 8 * k < n - 8
        · have : 8 * (k + 1) < n := by omega
          simp [hk, this]
        · have : ¬ 8 * (k + 1) < n := by omega
          simp [hk, this]

/-- `|packBits bs| = ⌈|bs| / 8⌉` -/
theorem packBits_length' : ∀ (n : Nat) (bs : List Bool), bs.length = n → (packBits bs).length = (n + 7) / 8 := by
  intro n
  induction n using Nat.strongRecOn with
  | _ n ih =>
    intro bs hn
    cases bs with
    | nil => simp at hn; subst hn; simp [packBits]
    | cons b rest =>
      rw [packBits_cons_eq]
      simp only [List.length_cons]
      have hlen : ((b :: rest).drop 8).length = n - 8 := by simp only [List.length_drop, hn]
      rw [ih (n - 8) (by simp at hn; omega) _ hlen]
      simp at hn
      omega

theorem packBits_length (bs : List Bool) : (packBits bs).length = (bs.length + 7) / 8 :=
  packBits_length' _ bs rfl

/-! ### reading bits back -/

/-- every bit inside the packed bytes: the abstract bit, or `false` in the padding -/
theorem getBit_packBits_getD (bs : List Bool) (i : Nat) (h : i < 8 * (packBits bs).length) :
    getBit ⟨packBits bs, 0⟩ i = .ok (bs.getD i false) := by
  rw [packBits_length] at h
  have hk : 8 * (i / 8) < bs.length := by omega
  simp only [getBit, Nat.add_zero]
  rw [packBits_getElem? _ bs (i / 8) rfl]
  simp only [hk, if_true]
  congr 1
  rw [testBit_packByte _ (by simp [List.length_take]; omega)]
  have hi : i = 8 * (i / 8) + i % 8 := by omega
  have h8 : i % 8 < 8 := Nat.mod_lt _ (by omega)
  simp only [List.getD_eq_getElem?_getD, List.getElem?_take, h8, if_true, List.getElem?_drop]
  rw [← hi]

/-- **the two levels agree**: bit `i` of the packed bitmap is the abstract bit `i` -/
theorem getBit_packBits (bs : List Bool) (i : Nat) (h : i < bs.length) :
    getBit ⟨packBits bs, 0⟩ i = .ok bs[i] := by
  rw [getBit_packBits_getD bs i (by rw [packBits_length]; omega)]
  simp [List.getD_eq_getElem?_getD, h]

/-- **padding bits are clear** -/
theorem getBit_packBits_pad (bs : List Bool) (i : Nat) (h1 : bs.length ≤ i) (h2 : i < 8 * (packBits bs).length) :
    getBit ⟨packBits bs, 0⟩ i = .ok false := by
  rw [getBit_packBits_getD bs i h2]
  simp [List.getD_eq_getElem?_getD, List.getElem?_eq_none h1]

/-- reading beyond the last byte is an error (never a panic, never foreign data) -/
theorem getBit_packBits_oob (bs : List Bool) (i : Nat) (h : 8 * (packBits bs).length ≤ i) :
    getBit ⟨packBits bs, 0⟩ i = fail "Invalid access in bitset" := by
  simp only [getBit, Nat.add_zero]
  have : (packBits bs).length ≤ i / 8 := by omega
  rw [List.getElem?_eq_none this]

/-- **offset law**: a bitmap with bit offset `o + k` is the bitmap with offset `o` read `k` bits further on -/
theorem getBit_offset (d : Bytes) (o k i : Nat) : getBit ⟨d, o + k⟩ i = getBit ⟨d, o⟩ (k + i) := by
  have : i + (o + k) = k + i + o := by omega
  simp only [getBit, this]

theorem isValid_offset (d : Bytes) (o k i : Nat) : isValid (some ⟨d, o + k⟩) i = isValid (some ⟨d, o⟩) (k + i) := by
  simp only [isValid, getBit_offset]

/-! ### non-vacuity (`packBits` is defined by well-founded recursion, so it is evaluated by rewriting) -/
example : packBits [true, false, true, true, false, false, false, false, true] = [13, 1] := by
  simp [packBits, packByte, List.zipIdx]
example : getBit ⟨packBits [true, false, true, true, false, false, false, false, true], 0⟩ 8 = .ok true :=
  getBit_packBits _ 8 (by decide)
example : getBit ⟨packBits [true, false, true], 0⟩ 5 = .ok false :=
  getBit_packBits_pad _ 5 (by decide) (by rw [packBits_length]; decide)
example : getBit ⟨packBits [true, false, true], 0⟩ 8 = fail "Invalid access in bitset" :=
  getBit_packBits_oob _ 8 (by rw [packBits_length]; decide)
example : getBit ⟨[13, 1], 3⟩ 5 = getBit ⟨[13, 1], 0⟩ 8 := by decide

end SaModel.Lemmas.Bits
