import SaModel.Lemmas.C01Ops
/-
R1 for the non-recursive combinators of the push block (`seqLikeWith`, `recordWith`, `SS.start/element/
finishRow`, `endFields`, the union row), with the recursive parts abstracted as hypotheses.
-/
namespace SaModel.Build
open SaModel SaModel.Spec

/-- what every recursive sub-call is assumed (induction hypothesis) to do to a child builder -/
def StepOK (pc : B → R B) : Prop :=
  ∀ c c', WFB c → Safe c → pc c = .ok c' → WFB c' ∧ Safe c' ∧ ∃ lv, dec c' = dec c ++ [lv]

/-- a record is being written: started from the children `fs0`, child `j` holds the additional rows `adds[j]`,
exactly one iff `seen[j]` -/
structure Mid (fs0 : BL) (s : SS) (adds : List (List LVal)) : Prop where
  ext : ExtL fs0 s.fields adds
  flags : Flags s.seen adds
  cache : CacheInv s.fields.names s.cached
  safe : SafeL s.fields
  nodup : s.fields.names.Nodup

/-- the parts of a struct state no field call touches -/
def Same (s' s : SS) : Prop := s'.path = s.path ∧ s'.len = s.len ∧ s'.validity = s.validity

theorem Same.refl (s : SS) : Same s s := ⟨rfl, rfl, rfl⟩
theorem Same.trans {a b c : SS} (h1 : Same a b) (h2 : Same b c) : Same a c :=
  ⟨h1.1.trans h2.1, h1.2.1.trans h2.2.1, h1.2.2.trans h2.2.2⟩

/-- the effect of a field loop on a mid-record state -/
def FieldsOK (pf : SS → R SS) : Prop :=
  ∀ fs0 s adds s', Mid fs0 s adds → pf s = .ok s' → (∃ adds', Mid fs0 s' adds') ∧ Same s' s

theorem Mid.next {fs0 : BL} {s : SS} {adds : List (List LVal)} (h : Mid fs0 s adds) (n : Nat) :
    Mid fs0 { s with next := n } adds := ⟨h.ext, h.flags, h.cache, h.safe, h.nodup⟩

theorem Mid.cached {fs0 : BL} {s : SS} {adds : List (List LVal)} (h : Mid fs0 s adds)
    (cached' : List (Option (String × Nat))) (hc : CacheInv s.fields.names cached') :
    Mid fs0 { s with cached := cached' } adds := ⟨h.ext, h.flags, hc, h.safe, h.nodup⟩

theorem SS.element_mid {fs0 : BL} {s s' : SS} {adds : List (List LVal)} {idx : Nat} {pc : B → R B}
    (hm : Mid fs0 s adds) (hpc : StepOK pc) (h : s.element idx pc = .ok s') :
    (∃ adds', Mid fs0 s' adds') ∧ Same s' s := by
  unfold SS.element at h
  split at h
  · simp [panic] at h
  · simp [ctx_ok, fail] at h
  · rename_i hseen
    split at h
    · simp [panic] at h
    · rename_i c m hget
      obtain ⟨c', h1, h2⟩ := (bind_ok _ _ _).1 h
      cases h2
      obtain ⟨hc', hs', lv, hdec⟩ := hpc c c' (ExtL.get _ _ _ _ _ hm.ext hget) (SafeL.get _ _ _ hm.safe hget) h1
      refine ⟨⟨adds.set idx (adds.getD idx [] ++ [lv]), ?_, ?_, ?_, ?_, ?_⟩, rfl, rfl, rfl⟩
      · exact ExtL.set _ _ _ _ c c' m [lv] hm.ext hget hc' hdec
      · exact Flags.set _ _ _ lv hm.flags hseen
      · simp only [BL.names_set]; exact hm.cache
      · exact SafeL.set _ _ _ hm.safe hs'
      · simp only [BL.names_set]; exact hm.nodup

theorem endFields_appends : ∀ (fs0 fs : BL) (seen : List Bool) (adds : List (List LVal)) (fs' : BL),
    ExtL fs0 fs adds → Flags seen adds → SafeL fs → endFields fs seen = .ok fs' →
    ∃ adds', ExtL fs0 fs' adds' ∧ (∀ a ∈ adds', a.length = 1) ∧ SafeL fs'
  | .nil, .nil, _, [], fs', _, _, _, h => by
    simp [endFields] at h; subst h
    exact ⟨[], by simp [ExtL], by simp, by simp [SafeL]⟩
  | .cons b0 m0 r0, .cons b m r, [], a :: as, fs', _, hf, _, _ => by simp [Flags] at hf
  | .cons b0 m0 r0, .cons b m r, s :: ss, a :: as, fs', hext, hf, hsafe, h => by
    simp only [ExtL] at hext
    simp only [Flags] at hf
    simp only [SafeL] at hsafe
    simp only [endFields] at h
    split at h
    · rename_i hs
      obtain ⟨r', h1, h2⟩ := (bind_ok _ _ _).1 h
      cases h2
      obtain ⟨adds', he, hk, hsf⟩ := endFields_appends r0 r ss as r' hext.2.2.2 hf.2 hsafe.2 h1
      refine ⟨a :: adds', by simp only [ExtL]; exact ⟨hext.1, hext.2.1, hext.2.2.1, he⟩, ?_,
        by simp only [SafeL]; exact ⟨hsafe.1, hsf⟩⟩
      intro a' ha'
      rcases List.mem_cons.1 ha' with rfl | ha'
      · simpa [hs] using hf.1
      · exact hk a' ha'
    · rename_i hs
      split at h
      · simp [fail] at h
      · obtain ⟨b', h0, h'⟩ := (bind_ok _ _ _).1 h
        obtain ⟨r', h1, h2⟩ := (bind_ok _ _ _).1 h'
        cases h2
        obtain ⟨adds', he, hk, hsf⟩ := endFields_appends r0 r ss as r' hext.2.2.2 hf.2 hsafe.2 h1
        obtain ⟨hb', hdec⟩ := pushNone_appends b b' hext.2.1 hsafe.1 h0
        have ha : a = [] := by simpa [hs] using hf.1
        subst ha
        refine ⟨[.null] :: adds', by simp only [ExtL]; exact ⟨hext.1, hb', by rw [hdec, hext.2.2.1]; simp, he⟩, ?_,
          by simp only [SafeL]; exact ⟨Safe.of_takeRest (pushNone_takeRest b b' h0) hsafe.1, hsf⟩⟩
        intro a' ha'
        rcases List.mem_cons.1 ha' with rfl | ha'
        · rfl
        · exact hk a' ha'
  | .nil, .cons _ _ _, _, _, _, h, _, _, _ => by simp [ExtL] at h
  | .cons _ _ _, .nil, _, _, _, h, _, _, _ => by simp [ExtL] at h
  | .nil, .nil, _, _ :: _, _, h, _, _, _ => by simp [ExtL] at h
  | .cons _ _ _, .cons _ _ _, _, [], _, h, _, _, _ => by simp [ExtL] at h

/-- a whole record (`start`, fields, `end`) appends exactly one row to a struct builder -/
theorem record_appends {p len v fs cached next seen} {pf : SS → R SS} {b' : B}
    (hwf : WFB (.struct p len v fs cached next seen)) (hsafe : Safe (.struct p len v fs cached next seen))
    (hpf : FieldsOK pf)
    (h : (do
      let s ← SS.start ⟨p, len, v, fs, cached, next, seen⟩
      let s ← pf s
      let s ← s.finishRow
      pure s.toB : R B) = .ok b') :
    WFB b' ∧ ∃ lv, dec b' = dec (.struct p len v fs cached next seen) ++ [lv] := by
  obtain ⟨s1, h1, h⟩ := (bind_ok _ _ _).1 h
  obtain ⟨s2, h2, h⟩ := (bind_ok _ _ _).1 h
  obtain ⟨s3, h3, h⟩ := (bind_ok _ _ _).1 h
  cases h
  have hw' := hwf
  simp only [WFB] at hw'
  obtain ⟨hv, hwfl, hseen, hnd, hcache⟩ := hw'
  simp only [Safe] at hsafe
  -- start
  simp only [SS.start] at h1
  obtain ⟨v', hv1, h1⟩ := (bind_ok _ _ _).1 h1
  cases h1
  obtain ⟨rfl, _⟩ := setValidity_ok hv hv1
  have hmid : Mid fs ⟨p, len + 1, v.map (· ++ [true]), fs, cached, 0, List.replicate seen.length false⟩
      (List.replicate fs.length []) :=
    ⟨ExtL.refl fs len hwfl, by rw [hseen]; exact Flags.fresh _, hcache, hsafe.1, hnd⟩
  -- fields
  obtain ⟨⟨adds2, hm2⟩, hsame⟩ := hpf _ _ _ _ hmid h2
  -- end
  simp only [SS.finishRow] at h3
  obtain ⟨fs3, h3', h4⟩ := (bind_ok _ _ _).1 h3
  cases h4
  obtain ⟨adds3, hext3, hk3, _⟩ := endFields_appends _ _ _ _ _ hm2.ext hm2.flags hm2.safe h3'
  obtain ⟨hp, hl, hvv⟩ := hsame
  simp only at hp hl hvv
  have hnames : fs3.names = fs.names := ExtL.names _ _ _ hext3
  have := struct_append (cached' := s2.cached) (next' := s2.next) (seen' := s2.seen) hwf adds3 [true] hext3
    (by simpa using hk3)
    (by rw [hnames, ← ExtL.names _ _ _ hm2.ext]; exact hm2.cache)
    (by rw [(ExtL.length _ _ _ hext3).1, ← Flags.length _ _ hm2.flags, (ExtL.length _ _ _ hm2.ext).2])
  simp only [List.length_singleton, List.range_one, List.map_cons, List.map_nil, maskNull_const_one, rowOf_true] at this
  simp only [SS.toB, hp, hl, hvv]
  exact ⟨this.1, _, this.2⟩

theorem recordWith_appends {pf : SS → R SS} (hpf : FieldsOK pf) (b b' : B) (hwf : WFB b) (hsafe : Safe b)
    (h : recordWith pf b = .ok b') : WFB b' ∧ ∃ lv, dec b' = dec b ++ [lv] := by
  cases b with
  | struct p len v fs cached next seen => exact record_appends hwf hsafe hpf h
  | _ => simp [recordWith, notSupported, fail] at h

/-- list elements: the child grows by `ls`, the open offset by `|ls|` -/
def ElemsOK (pe : Bool → B → List Int → R (B × List Int)) : Prop :=
  ∀ large el base l r, WFB el → Safe el → pe large el (base ++ [l]) = .ok r →
    WFB r.1 ∧ ∃ ls, dec r.1 = dec el ++ ls ∧ r.2 = base ++ [l + (ls.length : Int)]

def CountOK (pc : B → Nat → R (B × Nat)) : Prop :=
  ∀ el c r, WFB el → Safe el → pc el c = .ok r → WFB r.1 ∧ ∃ ls, dec r.1 = dec el ++ ls ∧ r.2 = c + ls.length

theorem seqLikeWith_appends {pe : Bool → B → List Int → R (B × List Int)} {pc : B → Nat → R (B × Nat)}
    {pt : SS → R SS} {bytes : R Bytes} (hpe : ElemsOK pe) (hpc : CountOK pc) (hpt : FieldsOK pt)
    (b : B) (k : SeqKind) (b' : B) (hwf : WFB b) (hsafe : Safe b) (h : seqLikeWith pe pc pt bytes b k = .ok b') :
    WFB b' ∧ ∃ lv, dec b' = dec b ++ [lv] := by
  cases b with
  | list p large fm v offs el =>
    simp only [seqLikeWith] at h
    obtain ⟨v', h1, h⟩ := (bind_ok _ _ _).1 h
    obtain ⟨o1, h2, h⟩ := (bind_ok _ _ _).1 h
    obtain ⟨⟨el', o2⟩, h3, h⟩ := (bind_ok _ _ _).1 h
    cases h
    have hw' := hwf
    simp only [WFB] at hw'
    simp only [Safe] at hsafe
    obtain ⟨rfl, _⟩ := setValidity_ok hw'.2.1 h1
    obtain ⟨l, hl, rfl⟩ := duplicateLast_ok h2
    rw [hw'.1.2.1] at hl; cases hl
    obtain ⟨hel, ls, hdec, ho⟩ := hpe _ _ _ _ _ hw'.2.2 hsafe h3
    simp only at hel hdec ho
    subst ho
    have := list_step hwf true ls hel hdec
    rw [rowOf_true] at this
    exact ⟨this.1, _, this.2⟩
  | fixedSizeList p fm n len v cur el =>
    simp only [seqLikeWith] at h
    obtain ⟨v', h1, h⟩ := (bind_ok _ _ _).1 h
    obtain ⟨⟨el', cnt⟩, h3, h⟩ := (bind_ok _ _ _).1 h
    simp only at h
    split at h
    · simp [fail] at h
    · rename_i hcnt
      cases h
      have hw' := hwf
      simp only [WFB] at hw'
      simp only [Safe] at hsafe
      obtain ⟨rfl, _⟩ := setValidity_ok hw'.1 h1
      obtain ⟨hel, ls, hdec, hc⟩ := hpc _ _ _ hw'.2.2 hsafe.1 h3
      simp only at hel hdec hc
      have hn : ls.length = n := by simp at hcnt; omega
      have := fsl_step hwf true ls cnt hel hdec hn
      rw [rowOf_true] at this
      exact ⟨this.1, _, this.2⟩
  | bytes p ty v offs data =>
    simp only [seqLikeWith] at h
    split at h
    · obtain ⟨v', h1, h⟩ := (bind_ok _ _ _).1 h
      obtain ⟨o1, h2, h⟩ := (bind_ok _ _ _).1 h
      obtain ⟨bs, _, h⟩ := (bind_ok _ _ _).1 h
      obtain ⟨o2, h4, h⟩ := (bind_ok _ _ _).1 h
      cases h
      have hv : VLen v (offs.length - 1) := by simp only [WFB] at hwf; exact hwf.2
      obtain ⟨rfl, _⟩ := setValidity_ok hv h1
      obtain ⟨l, hl, rfl⟩ := duplicateLast_ok h2
      rw [bytes_last hwf] at hl; cases hl
      have := iter_incrementLast _ h4
      subst this
      have := bytes_step hwf true bs
      rw [rowOf_true] at this
      exact ⟨this.1, _, this.2⟩
    · simp [notSupported, fail] at h
  | bytesView p ty v views buf =>
    simp only [seqLikeWith] at h
    split at h
    · obtain ⟨v', h1, h⟩ := (bind_ok _ _ _).1 h
      obtain ⟨bs, _, h⟩ := (bind_ok _ _ _).1 h
      have hv : VLen v views.length := by simp only [WFB] at hwf; exact hwf.1
      obtain ⟨rfl, _⟩ := setValidity_ok hv h1
      obtain ⟨vp, hp, h⟩ := (bind_ok _ _ _).1 h
      obtain ⟨d, extra, rfl, hd, hlen, _⟩ := viewSeq_ok hp
      cases h
      have := view_step hwf true d extra hd (hlen (view_buf_lt hwf))
      rw [rowOf_true] at this
      exact ⟨this.1, _, this.2⟩
    · simp [notSupported, fail] at h
  | fixedSizeBinary p n len v buf cur =>
    simp only [seqLikeWith] at h
    obtain ⟨v', h1, h⟩ := (bind_ok _ _ _).1 h
    obtain ⟨bs, _, h⟩ := (bind_ok _ _ _).1 h
    split at h
    · simp [fail] at h
    · rename_i hn
      cases h
      have hv : VLen v len := by simp only [WFB] at hwf; exact hwf.1
      obtain ⟨rfl, _⟩ := setValidity_ok hv h1
      have := fsb_step hwf true bs (by simpa using hn) bs.length
      rw [rowOf_true] at this
      exact ⟨this.1, _, this.2⟩
  | struct p len v fs cached next seen =>
    cases k with
    | seq => simp [seqLikeWith, notSupported, fail] at h
    | tuple => simp only [seqLikeWith] at h; exact record_appends hwf hsafe hpt h
    | tupleStruct => simp only [seqLikeWith] at h; exact record_appends hwf hsafe hpt h
  | unknownVariant p => simp [seqLikeWith, fail] at h
  | null p len => simp [seqLikeWith, notSupported, fail] at h
  | leaf p kind v vals => simp [seqLikeWith, notSupported, fail] at h
  | map p mm v offs ks vs => simp [seqLikeWith, notSupported, fail] at h
  | dictionary p idx vals index => simp [seqLikeWith, notSupported, fail] at h
  | union p fs types offs cur => simp [seqLikeWith, notSupported, fail] at h

/-- one row of a union -/
theorem union_row_appends {p fs types offs cur} {i : Nat} {pc : B → R B} {b' : B}
    (hwf : WFB (.union p fs types offs cur)) (hsafe : Safe (.union p fs types offs cur)) (hpc : StepOK pc)
    (h : (do
      let (c, types', offs', cur') ← serializeVariant fs types offs cur i
      let c' ← pc c
      pure (.union p (fs.set i c') types' offs' cur') : R B) = .ok b') :
    WFB b' ∧ ∃ lv, dec b' = dec (.union p fs types offs cur) ++ [lv] := by
  obtain ⟨⟨c, t', o', cur'⟩, h1, h⟩ := (bind_ok _ _ _).1 h
  obtain ⟨c', h2, h⟩ := (bind_ok _ _ _).1 h
  cases h
  obtain ⟨m, co, hget, hco, _, ht, ho, hcur⟩ := serializeVariant_ok h1
  simp only at hget hco ht ho hcur
  subst ht ho hcur
  have hw' := hwf
  simp only [WFB] at hw'
  simp only [Safe] at hsafe
  obtain ⟨hco', hc⟩ := WFU_get fs cur i _ hw'.2.2.1 hget
  simp only at hco' hc
  rw [hco] at hco'; cases hco'
  obtain ⟨hc', _, lv, hdec⟩ := hpc c c' hc (SafeL.get _ _ _ hsafe hget) h2
  have := union_append hwf i c c' m hget [lv] hc' hdec
  simp only [List.length_singleton, List.replicate_one, List.range_one, List.map_cons, List.map_nil,
    Int.natCast_zero, Int.add_zero, Int.natCast_one] at this
  exact ⟨this.1, _, this.2⟩

theorem pushByteElems_appends (ext : Ext) (large : Bool) : ∀ (bs : Bytes) (el : B) (base : List Int) (l : Int) (r : B × List Int),
    WFB el → Safe el → pushByteElems ext large el (base ++ [l]) bs = .ok r →
    WFB r.1 ∧ ∃ ls, dec r.1 = dec el ++ ls ∧ r.2 = base ++ [l + (ls.length : Int)]
  | [], el, base, l, r, hwf, _, h => by
    simp [pushByteElems] at h; subst h
    exact ⟨hwf, [], by simp, by simp⟩
  | x :: rest, el, base, l, r, hwf, hs, h => by
    simp only [pushByteElems] at h
    obtain ⟨o', h1, h⟩ := (bind_ok _ _ _).1 h
    obtain ⟨el', h2, h⟩ := (bind_ok _ _ _).1 h
    have := incrementLast_snoc h1
    subst this
    obtain ⟨hel', lv, hdec, _⟩ := pushScalar_appends ext el _ el' hwf hs ((ctx_ok _ _ _).1 h2)
    have hs' := Safe.of_takeRest (pushScalar_takeRest ext el _ el' ((ctx_ok _ _ _).1 h2)) hs
    obtain ⟨hr, ls, hd, ho⟩ := pushByteElems_appends ext large rest el' base (l + 1) r hel' hs' h
    refine ⟨hr, lv :: ls, by rw [hd, hdec]; simp, ?_⟩
    rw [ho]; simp; omega

end SaModel.Build
