import SaModel.Lemmas.C01CompLoops
/-
Completeness of the builders (converse of R2, `Lemmas/C01R2.lean`): whenever the documented mapping `Spec.interpDT`
accepts a value at the builder's field, and the value fits into the head room of the builder (`vsize ≤ room`, no
capacity check can fire), `push` succeeds — and the head room shrinks by at most `vsize`.  One mutual structural
recursion over the serde value, as R1/R2.
-/
namespace SaModel.Build
open SaModel SaModel.Spec

def elen : SEntries → Nat
  | .nil => 0
  | .cons _ _ r => elen r + 1

theorem elen_le (ext : Ext) : ∀ (es : SEntries), elen es ≤ vsizee ext es
  | .nil => by simp [elen, vsizee]
  | .cons k v r => by
    have := elen_le ext r
    have := vsize_pos ext k
    simp only [elen, vsizee]; omega

def MapLoop (ext : Ext) (es : SEntries) : Prop :=
  ∀ offs (l : Int) ks vs kdt kn kmd vdt vn vmd r, Good ks kdt kn kmd → Good vs vdt vn vmd →
    vsizee ext es ≤ room ks → vsizee ext es ≤ room vs → offs.getLast? = some l → 0 ≤ l → l + elen es ≤ 2147483647 →
    interpEntries ext kdt kn kmd vdt vn vmd es = .ok r →
    ∃ r', pushMapEntries ext offs ks vs es = .ok r' ∧ room ks ≤ room r'.2.1 + vsizee ext es ∧
      room vs ≤ room r'.2.2 + vsizee ext es ∧ r'.1.getLast? = some (l + elen es)

/-! ### inversion of the specification -/

theorem interpDT_record_inv {ext : Ext} {dt : DataType} {n : Bool} {md : Metadata} {nm : String} {fields : SFields}
    {lv : LVal} (h : interpDT ext dt n md (.record nm fields) = .ok lv) :
    ∃ sfs, dt = .struct sfs ∧
      structOf sfs.toList (fun f => interpByName ext f.name f.dataType f.nullable f.metadata fields) = .ok lv := by
  simp only [interpDT] at h
  by_cases hu : isUnknownVariant dt md = true
  · simp [hu, fail] at h
  · simp only [hu, Bool.false_eq_true, if_false] at h
    cases dt
    case struct sfs => exact ⟨sfs, rfl, h⟩
    all_goals (simp only [fail] at h; cases h)

theorem interpDT_map_cases {ext : Ext} {dt : DataType} {n : Bool} {md : Metadata} {es : SEntries} {lv : LVal}
    (h : interpDT ext dt n md (.map es) = .ok lv) : (∃ sfs, dt = .struct sfs) ∨ (∃ f s, dt = .map f s) := by
  simp only [interpDT] at h
  by_cases hu : isUnknownVariant dt md = true
  · simp [hu, fail] at h
  · simp only [hu, Bool.false_eq_true, if_false] at h
    cases dt
    case struct sfs => exact Or.inl ⟨sfs, rfl⟩
    case map f s => exact Or.inr ⟨f, s, rfl⟩
    all_goals (simp only [fail] at h; cases h)

theorem interpDT_newtypeVariant_inv {ext : Ext} {dt : DataType} {n : Bool} {md : Metadata} {a : String} {i : Nat}
    {vn : String} {v : SVal} {lv : LVal} (h : interpDT ext dt n md (.newtypeVariant a i vn v) = .ok lv) :
    ∃ ufs mode tid nm cdt cn cmd lvc, dt = .union ufs mode ∧ ufs.toList[i]? = some (tid, .mk nm cdt cn cmd) ∧
      interpDT ext cdt cn cmd v = .ok lvc := by
  simp only [interpDT] at h
  cases dt
  case union ufs mode =>
    simp only at h
    cases hq : ufs.toList[i]? with
    | none => simp [hq, fail] at h
    | some q =>
      obtain ⟨tid, ⟨nm, cdt, cn, cmd⟩⟩ := q
      simp only [hq] at h
      obtain ⟨lvc, h1, _⟩ := (bind_ok _ _ _).1 h
      exact ⟨ufs, mode, tid, nm, cdt, cn, cmd, lvc, rfl, hq, h1⟩
  all_goals (simp only [fail] at h; cases h)

theorem interpDT_variant_union {ext : Ext} {dt : DataType} {n : Bool} {md : Metadata} {x : SVal} {i : Nat} {lv : LVal}
    (hx : (∃ a vn xs, x = .tupleVariant a i vn xs) ∨ (∃ a vn fs, x = .structVariant a i vn fs))
    (h : interpDT ext dt n md x = .ok lv) :
    ∃ ufs mode tid nm cdt cn cmd, dt = .union ufs mode ∧ ufs.toList[i]? = some (tid, .mk nm cdt cn cmd) := by
  rcases hx with ⟨a, vn, xs, rfl⟩ | ⟨a, vn, fs, rfl⟩
  all_goals
    simp only [interpDT] at h
    cases dt
    case union ufs mode =>
      simp only at h
      cases hq : ufs.toList[i]? with
      | none => simp [hq, fail] at h
      | some q =>
        obtain ⟨tid, ⟨nm, cdt, cn, cmd⟩⟩ := q
        exact ⟨ufs, mode, tid, nm, cdt, cn, cmd, rfl, hq⟩
    all_goals (simp only [fail] at h; cases h)

theorem interpDT_structVariant_inv {ext : Ext} {ufs : UFields} {mode : UnionMode} {n : Bool} {md : Metadata} {a : String}
    {i : Nat} {vn : String} {fields : SFields} {tid : Int} {nm : String} {cdt : DataType} {cn : Bool} {cmd : Metadata}
    {lv : LVal} (hufs : ufs.toList[i]? = some (tid, .mk nm cdt cn cmd))
    (h : interpDT ext (.union ufs mode) n md (.structVariant a i vn fields) = .ok lv) :
    ∃ cfs lvc, cdt = .struct cfs ∧
      structOf cfs.toList (fun f => interpByName ext f.name f.dataType f.nullable f.metadata fields) = .ok lvc := by
  simp only [interpDT, hufs] at h
  by_cases hu : isUnknownVariant cdt cmd = true
  · simp [hu, fail] at h
  · simp only [hu, Bool.false_eq_true, if_false] at h
    cases cdt
    case struct cfs =>
      simp only at h
      obtain ⟨lvc, h1, _⟩ := (bind_ok _ _ _).1 h
      exact ⟨cfs, lvc, rfl, h1⟩
    all_goals (simp only [fail] at h; cases h)

theorem interpDT_unitVariant_union {ext : Ext} {ufs : UFields} {mode : UnionMode} {n : Bool} {md : Metadata} {a : String}
    {i : Nat} {vn : String} {lv : LVal} (h : interpDT ext (.union ufs mode) n md (.unitVariant a i vn) = .ok lv) :
    ∃ tid nm cdt cn cmd lvc, ufs.toList[i]? = some (tid, .mk nm cdt cn cmd) ∧ interpNull cdt cn cmd = .ok lvc := by
  simp only [interpDT] at h
  cases hq : ufs.toList[i]? with
  | none => simp [hq, fail] at h
  | some q =>
    obtain ⟨tid, ⟨nm, cdt, cn, cmd⟩⟩ := q
    simp only [hq] at h
    obtain ⟨lvc, h1, _⟩ := (bind_ok _ _ _).1 h
    exact ⟨tid, nm, cdt, cn, cmd, lvc, rfl, h1⟩

theorem keyStr_opt {k : SVal} {key : String} (h : keyStr k = .ok key) (fname : String) :
    ((keyStr k).toOption == some fname) = (key == fname) := by
  rw [h]; simp [Except.toOption]

/-! ### the mutual recursion -/

mutual
theorem push_complete (ext : Ext) : ∀ (x : SVal), noRaw x = true → Comp ext x
  | .some v, hraw => by
    intro b dt n md lv hg hr hi
    simp only [vsize] at hr ⊢
    rw [interpDT] at hi
    obtain ⟨b', h1, h2⟩ := push_complete ext v (by simpa [noRaw] using hraw) b dt n md lv hg (by omega) hi
    exact ⟨b', by rw [push]; exact h1, by omega⟩
  | .newtypeStruct _ v, hraw => by
    intro b dt n md lv hg hr hi
    simp only [vsize] at hr ⊢
    rw [interpDT] at hi
    obtain ⟨b', h1, h2⟩ := push_complete ext v (by simpa [noRaw] using hraw) b dt n md lv hg (by omega) hi
    exact ⟨b', by rw [push]; exact h1, by omega⟩
  | .none, _ => by
    intro b dt n md lv hg hr hi
    rw [interpDT] at hi
    simp only [vsize] at hr ⊢
    obtain ⟨b', h1, h2⟩ := pushNone_complete b dt n md lv hg.wf hg.shape hg.tot hi hr
    exact ⟨b', by rw [push]; exact h1, h2⟩
  | .unit, _ => by
    intro b dt n md lv hg hr hi
    rw [interpDT] at hi
    simp only [vsize] at hr ⊢
    obtain ⟨b', h1, h2⟩ := pushNone_complete b dt n md lv hg.wf hg.shape hg.tot hi hr
    refine ⟨b', ?_, h2⟩
    cases b with
    | unknownVariant p => simp [pushNone, ctx_ok, fail] at h1
    | _ => simp only [push]; exact h1
  | .seq xs, hraw => by
    intro b dt n md lv hg hr hi
    have hraw' : noRaws xs = true := by simpa [noRaw] using hraw
    rw [interpDT_seq] at hi
    simp only [vsize] at hr ⊢
    obtain ⟨b', hb', hroom⟩ := seqValue_complete hraw' (pushElems_complete ext xs hraw') (pushCountElems_complete ext xs hraw')
      (pushTupleElems_complete ext xs hraw') b .seq dt n md lv hg hr
      (by rw [show (SeqKind.seq != SeqKind.seq) = false from by decide]; exact hi)
    exact ⟨b', by rw [push, ctx_ok]; exact hb', hroom⟩
  | .tuple xs, hraw => by
    intro b dt n md lv hg hr hi
    have hraw' : noRaws xs = true := by simpa [noRaw] using hraw
    rw [interpDT_tuple] at hi
    simp only [vsize] at hr ⊢
    obtain ⟨b', hb', hroom⟩ := seqValue_complete hraw' (pushElems_complete ext xs hraw') (pushCountElems_complete ext xs hraw')
      (pushTupleElems_complete ext xs hraw') b .tuple dt n md lv hg hr
      (by rw [show (SeqKind.tuple != SeqKind.seq) = true from by decide]; exact hi)
    exact ⟨b', by rw [push, ctx_ok]; exact hb', hroom⟩
  | .tupleStruct _ xs, hraw => by
    intro b dt n md lv hg hr hi
    have hraw' : noRaws xs = true := by simpa [noRaw] using hraw
    rw [interpDT_tupleStruct] at hi
    simp only [vsize] at hr ⊢
    obtain ⟨b', hb', hroom⟩ := seqValue_complete hraw' (pushElems_complete ext xs hraw') (pushCountElems_complete ext xs hraw')
      (pushTupleElems_complete ext xs hraw') b .tupleStruct dt n md lv hg hr
      (by rw [show (SeqKind.tupleStruct != SeqKind.seq) = true from by decide]; exact hi)
    exact ⟨b', by rw [push, ctx_ok]; exact hb', hroom⟩
  | .record _ fields, hraw => by
    intro b dt n md lv hg hr hi
    have hraw' : noRawf fields = true := by simpa [noRaw] using hraw
    simp only [vsize] at hr ⊢
    obtain ⟨sfs, rfl, hi⟩ := interpDT_record_inv hi
    obtain ⟨b', hb', hroom⟩ := recordValue_complete hraw' (pushFields_complete ext fields hraw') hg hr hi
    exact ⟨b', by rw [push, ctx_ok]; exact hb', hroom⟩
  | .map es, hraw => by
    intro b dt n md lv hg hr hi
    have hraw' : noRawe es = true := by simpa [noRaw] using hraw
    simp only [vsize] at hr ⊢
    rcases interpDT_map_cases hi with ⟨sfs, rfl⟩ | ⟨f, sorted, rfl⟩
    · obtain ⟨p, len, v, fs, cached, next, seen, rfl⟩ := Shape_struct_form hg.shape
      simp only [interpDT, isUnknownVariant, Bool.false_eq_true, if_false] at hi
      obtain ⟨u, hkeys, hi⟩ := (bind_ok _ _ _).1 hi
      cases u
      have ht := hg.tot
      simp only [total, Bool.and_eq_true] at ht
      simp only [room] at hr
      obtain ⟨b', hb', hroom⟩ := record_complete hg ((pushStructEntries_appends ext es).next _)
        (FieldsSkel.next (fun s1 s2 hp => pushStructEntries_takeRest ext es s1 s2 hp) _)
        ((pushStructEntries_complete ext es hraw').comp hkeys sfs ht.1) (by omega) hi
      exact ⟨b', by simp only [push, ctx_ok]; exact hb', by simp only [room]; omega⟩
    · obtain ⟨p, mm, v, offs, ks, vs, rfl⟩ := Shape_map_form hg.shape
      have hsh := hg.shape
      simp only [Shape] at hsh
      obtain ⟨_, ename, kn, kdt, knl, kmd, vn, vdt, vnl, vmd, rest, en, emd, sorted', he, hsk, hsv⟩ := hsh
      cases he
      simp only [interpDT, isUnknownVariant, Bool.false_eq_true, if_false] at hi
      obtain ⟨r, hie, _⟩ := (bind_ok _ _ _).1 hi
      have hw := hg.wf
      simp only [WFB] at hw
      have hsafe := hg.safe
      simp only [Safe] at hsafe
      have ht := hg.tot
      simp only [total, totalF, Bool.and_eq_true] at ht
      have hlast := hw.1.2.1
      have hln : lastNat offs = (dec ks).length := by simp [lastNat_of_getLast hlast]
      simp only [room, hln, LIM] at hr
      have hel := elen_le ext es
      obtain ⟨v', hv'⟩ := setValidity_true_total v (offs.length - 1)
      obtain ⟨r', hpr, hrk, hrv, hl2⟩ := pushMapEntries_complete ext es hraw' (offs ++ [((dec ks).length : Int)])
        ((dec ks).length : Int) ks vs kdt knl kmd vdt vnl vmd r ⟨hw.2.2.2.1, hsafe.1, hsk, ht.1⟩
        ⟨hw.2.2.2.2, hsafe.2, hsv, ht.2⟩ (by omega) (by omega) (by simp) (by omega) (by omega) hie
      refine ⟨.map p mm v' r'.1 r'.2.1 r'.2.2, ?_, ?_⟩
      · simp only [push, ctx_ok]
        exact (bind_ok _ _ _).2 ⟨_, hv', (bind_ok _ _ _).2 ⟨_, duplicateLast_total hlast, (bind_ok _ _ _).2 ⟨r', hpr, rfl⟩⟩⟩
      · simp only [room, hln, lastNat_of_getLast hl2, LIM]; omega
  | .mapRaw _, hraw => by simp [noRaw] at hraw
  | .unitVariant a i vn, _ => by
    intro b dt n md lv hg hr hi
    cases b with
    | union p fs types offs cur =>
      have hsh := hg.shape
      simp only [Shape] at hsh
      obtain ⟨ufs, mode, rfl, _⟩ := hsh
      obtain ⟨tid, nm, cdt, cn, cmd, lvc, hufs, hin⟩ := interpDT_unitVariant_union hi
      simp only [room] at hr
      obtain ⟨b', hb', hroom⟩ := union_row_complete (pc := fun c => match c with
          | .unknownVariant _ => ctx c.ann (fail "Unknown variant does not support serialize_unit")
          | _ => pushNone c) (cost := 1) hg hufs (by have := vsize_pos ext (.unitVariant a i vn); omega) (fun c hgc hrc => by
        have hv1 := vsize_pos ext (.unitVariant a i vn)
        obtain ⟨c', h1, h2⟩ := pushNone_complete c cdt cn cmd lvc hgc.wf hgc.shape hgc.tot hin (by omega)
        refine ⟨c', ?_, h2⟩
        cases c with
        | unknownVariant p => simp [pushNone, ctx_ok, fail] at h1
        | _ => exact h1)
      have hv1 := vsize_pos ext (.unitVariant a i vn)
      exact ⟨b', by simp only [push, ctx_ok]; exact hb', by simp only [room]; omega⟩
    | _ =>
      have hnu := Shape_not_union hg.shape (fun _ _ _ _ _ h => by cases h)
      rw [interpDT_unitVariant_nonunion ext n md a i vn hnu] at hi
      have hu := interpScalar_known md hi (fun _ h => by cases h)
      obtain ⟨b', hb', hroom⟩ := scalarValue_complete hg hr (by rw [hu]; exact hi)
      exact ⟨b', by simp only [push]; exact hb', hroom⟩
  | .newtypeVariant a i vn v, hraw => by
    intro b dt n md lv hg hr hi
    have hraw' : noRaw v = true := by simpa [noRaw] using hraw
    simp only [vsize] at hr ⊢
    obtain ⟨ufs, mode, tid, nm, cdt, cn, cmd, lvc, rfl, hufs, hiv⟩ := interpDT_newtypeVariant_inv hi
    obtain ⟨p, fs, t, o, c, rfl⟩ := Shape_union_form hg.shape
    simp only [room] at hr
    obtain ⟨b', hb', hroom⟩ := union_row_complete (pc := fun c => push ext c v) (cost := vsize ext v) hg hufs (by have := vsize_pos ext v; omega)
      (fun c hgc hrc => push_complete ext v hraw' c cdt cn cmd lvc hgc (by omega) hiv)
    exact ⟨b', by simp only [push, ctx_ok]; exact hb', by simp only [room]; omega⟩
  | .tupleVariant a i vn xs, hraw => by
    intro b dt n md lv hg hr hi
    have hraw' : noRaws xs = true := by simpa [noRaw] using hraw
    simp only [vsize] at hr ⊢
    obtain ⟨ufs, mode, tid, nm, cdt, cn, cmd, rfl, hufs⟩ := interpDT_variant_union (Or.inl ⟨a, vn, xs, rfl⟩) hi
    obtain ⟨lvc, hsq⟩ := interpDT_tupleVariant_inv hufs hi
    obtain ⟨p, fs, t, o, c, rfl⟩ := Shape_union_form hg.shape
    simp only [room] at hr
    obtain ⟨b', hb', hroom⟩ := union_row_complete (pc := fun c => ctx c.ann (seqLikeWith
        (fun large el offs => pushElems ext large el offs xs) (fun el c => pushCountElems ext el c xs)
        (fun s => pushTupleElems ext s xs) (u8All xs) c .tupleStruct)) (cost := vsizes ext xs + 1) hg hufs (by omega)
      (fun c hgc hrc => by
        obtain ⟨c', h1, h2⟩ := seqValue_complete hraw' (pushElems_complete ext xs hraw')
          (pushCountElems_complete ext xs hraw') (pushTupleElems_complete ext xs hraw') c .tupleStruct cdt cn cmd lvc hgc
          (by omega) (by rw [show (SeqKind.tupleStruct != SeqKind.seq) = true from by decide]; exact hsq)
        exact ⟨c', (ctx_ok _ _ _).2 h1, h2⟩)
    exact ⟨b', by simp only [push, ctx_ok]; exact hb', by simp only [room]; omega⟩
  | .structVariant a i vn fields, hraw => by
    intro b dt n md lv hg hr hi
    have hraw' : noRawf fields = true := by simpa [noRaw] using hraw
    simp only [vsize] at hr ⊢
    obtain ⟨ufs, mode, tid, nm, cdt, cn, cmd, rfl, hufs⟩ := interpDT_variant_union (Or.inr ⟨a, vn, fields, rfl⟩) hi
    obtain ⟨cfs, lvc, rfl, hso⟩ := interpDT_structVariant_inv hufs hi
    obtain ⟨p, fs, t, o, c, rfl⟩ := Shape_union_form hg.shape
    simp only [room] at hr
    obtain ⟨b', hb', hroom⟩ := union_row_complete (pc := fun c => ctx c.ann (recordWith (fun s => pushFields ext s fields) c))
      (cost := vsizef ext fields + 1) hg hufs (by omega) (fun c hgc hrc => by
        obtain ⟨c', h1, h2⟩ := recordValue_complete hraw' (pushFields_complete ext fields hraw') hgc (by omega) hso
        exact ⟨c', (ctx_ok _ _ _).2 h1, h2⟩)
    exact ⟨b', by simp only [push, ctx_ok]; exact hb', by simp only [room]; omega⟩
  | .bytes bs, _ => by
    intro b dt n md lv hg hr hi
    cases b with
    | list p large fm v offs el =>
      have hw := hg.wf
      simp only [WFB] at hw
      have hsafe := hg.safe
      simp only [Safe] at hsafe
      have hsh := hg.shape
      simp only [Shape] at hsh
      obtain ⟨_, cname, cdt, cn, cmd, rfl, hsel⟩ := hsh
      have ht := hg.tot
      have hlast := hw.1.2.1
      have hln : lastNat offs = (dec el).length := by simp [lastNat_of_getLast hlast]
      simp only [room, hln, LIM, vsize] at hr
      have hgel : Good el cdt cn cmd := ⟨hw.2.2, hsafe, hsel, by cases large <;> simpa [total, totalF] using ht⟩
      have hia : ∃ ls, bs.mapM (fun x => interpScalar ext cdt (.int .u8 x.toNat)) = .ok ls := by
        cases large <;> simp only [interpDT, isUnknownVariant, Bool.false_eq_true, if_false] at hi <;>
          (obtain ⟨ls, h1, _⟩ := (bind_ok _ _ _).1 hi; exact ⟨ls, h1⟩)
      obtain ⟨ls, hia⟩ := hia
      obtain ⟨v', hv'⟩ := setValidity_true_total v (offs.length - 1)
      obtain ⟨r, hpr, hroom, hl2⟩ := pushByteElems_complete ext large bs el (offs ++ [((dec el).length : Int)])
        ((dec el).length : Int) cdt cn cmd ls hgel (by omega) (by simp) (by omega) (by omega) hia
      refine ⟨.list p large fm v' r.2 r.1, ?_, ?_⟩
      · simp only [push, ctx_ok]
        exact (bind_ok _ _ _).2 ⟨_, hv', (bind_ok _ _ _).2 ⟨_, duplicateLast_total hlast, (bind_ok _ _ _).2 ⟨r, hpr, rfl⟩⟩⟩
      · simp only [room, hln, lastNat_of_getLast hl2, LIM, vsize]; omega
    | _ =>
      obtain ⟨h1, h2⟩ := Shape_not_list hg.shape (fun _ _ _ _ _ _ h => by cases h)
      rw [interpDT_bytes_nonlist ext n md bs h1 h2] at hi
      obtain ⟨b', hb', hroom⟩ := scalarValue_complete hg hr hi
      exact ⟨b', by simp only [push]; exact hb', hroom⟩
  | .bool x, _ => by
    intro b dt n md lv hg hr hi
    rw [interpDT] at hi
    obtain ⟨b', hb', hroom⟩ := scalarValue_complete hg hr hi
    exact ⟨b', by rw [push]; exact hb', hroom⟩
  | .int t x, _ => by
    intro b dt n md lv hg hr hi
    rw [interpDT] at hi
    obtain ⟨b', hb', hroom⟩ := scalarValue_complete hg hr hi
    exact ⟨b', by rw [push]; exact hb', hroom⟩
  | .f32 x, _ => by
    intro b dt n md lv hg hr hi
    rw [interpDT] at hi
    obtain ⟨b', hb', hroom⟩ := scalarValue_complete hg hr hi
    exact ⟨b', by rw [push]; exact hb', hroom⟩
  | .f64 x, _ => by
    intro b dt n md lv hg hr hi
    rw [interpDT] at hi
    obtain ⟨b', hb', hroom⟩ := scalarValue_complete hg hr hi
    exact ⟨b', by rw [push]; exact hb', hroom⟩
  | .char x, _ => by
    intro b dt n md lv hg hr hi
    rw [interpDT] at hi
    obtain ⟨b', hb', hroom⟩ := scalarValue_complete hg hr hi
    exact ⟨b', by rw [push]; exact hb', hroom⟩
  | .str x, _ => by
    intro b dt n md lv hg hr hi
    rw [interpDT] at hi
    obtain ⟨b', hb', hroom⟩ := scalarValue_complete hg hr hi
    exact ⟨b', by rw [push]; exact hb', hroom⟩
  | .unitStruct x, _ => by
    intro b dt n md lv hg hr hi
    rw [interpDT] at hi
    simp only [vsize] at hr ⊢
    obtain ⟨b', h1, h2⟩ := pushNone_complete b dt n md lv hg.wf hg.shape hg.tot hi hr
    refine ⟨b', ?_, h2⟩
    cases b with
    | unknownVariant p => simp [pushNone, ctx_ok, fail] at h1
    | _ => simp only [push]; exact h1

theorem pushElems_complete (ext : Ext) : ∀ (xs : SVals), noRaws xs = true →
    ElemsComp ext xs (fun large el offs => pushElems ext large el offs xs)
  | .nil, _ => by
    intro large el offs l cdt cn cmd ls _ _ hl _ _ _
    exact ⟨(el, offs), rfl, by simp [vsizes], by simpa [SVals.length] using hl⟩
  | .cons x rest, hraw => by
    intro large el offs l cdt cn cmd ls hg hr hl h0 hle hi
    have hraw' : noRaw x = true ∧ noRaws rest = true := by simpa [noRaws] using hraw
    simp only [interpAll] at hi
    obtain ⟨lv0, hi0, hi⟩ := (bind_ok _ _ _).1 hi
    obtain ⟨ls', hi', _⟩ := (bind_ok _ _ _).1 hi
    simp only [vsizes, SVals.length] at hr hle ⊢
    have hinc := incrementLast_total (large := large) (inc := 1) hl (by omega) h0
    obtain ⟨el', hp, hroom⟩ := push_complete ext x hraw'.1 el cdt cn cmd lv0 hg (by omega) hi0
    obtain ⟨r, hrest, hr2, hl2⟩ := pushElems_complete ext rest hraw'.2 large el' (offs.dropLast ++ [l + (1 : Nat)]) (l + (1 : Nat))
      cdt cn cmd ls' (hg.push hraw'.1 hp) (by omega) (by simp) (by omega) (by omega) hi'
    refine ⟨r, ?_, by omega, ?_⟩
    · simp only [pushElems]
      exact (bind_ok _ _ _).2 ⟨_, hinc, (bind_ok _ _ _).2 ⟨el', hp, hrest⟩⟩
    · rw [hl2]; congr 1; omega

theorem pushCountElems_complete (ext : Ext) : ∀ (xs : SVals), noRaws xs = true →
    CountComp ext xs (fun el c => pushCountElems ext el c xs)
  | .nil, _ => by
    intro el c cdt cn cmd ls _ _ _
    exact ⟨el, rfl, by simp [vsizes]⟩
  | .cons x rest, hraw => by
    intro el c cdt cn cmd ls hg hr hi
    have hraw' : noRaw x = true ∧ noRaws rest = true := by simpa [noRaws] using hraw
    simp only [interpAll] at hi
    obtain ⟨lv0, hi0, hi⟩ := (bind_ok _ _ _).1 hi
    obtain ⟨ls', hi', _⟩ := (bind_ok _ _ _).1 hi
    simp only [vsizes, SVals.length] at hr ⊢
    obtain ⟨el', hp, hroom⟩ := push_complete ext x hraw'.1 el cdt cn cmd lv0 hg (by omega) hi0
    obtain ⟨el'', hrest, hr2⟩ := pushCountElems_complete ext rest hraw'.2 el' (c + 1) cdt cn cmd ls' (hg.push hraw'.1 hp)
      (by omega) hi'
    refine ⟨el'', ?_, by omega⟩
    simp only [pushCountElems]
    have e : c + 1 + rest.length = c + (rest.length + 1) := by omega
    rw [e] at hrest
    exact (bind_ok _ _ _).2 ⟨el', hp, hrest⟩

theorem pushTupleElems_complete (ext : Ext) : ∀ (xs : SVals), noRaws xs = true → TupleLoop ext xs
  | .nil, _ => by
    intro fs0 s adds sfs _ _ _ _ hp
    exact ⟨s, rfl, hp.endOK, by simp [vsizes]⟩
  | .cons x rest, hraw => by
    intro fs0 s adds sfs hm hsl ht hr hp
    have hraw' : noRaw x = true ∧ noRaws rest = true := by simpa [noRaws] using hraw
    simp only [vsizes] at hr ⊢
    by_cases hlt : s.next < s.fields.length
    · obtain ⟨c, m, f, hget, hj, _, hgc, hrc, hls⟩ := field_child hm hsl ht hlt
      obtain ⟨hseen, ⟨lv, hlv⟩, hp'⟩ := hp.hit hj hls
      obtain ⟨c', hpc, hroomc⟩ := push_complete ext x hraw'.1 c _ _ _ lv hgc (by omega) hlv
      obtain ⟨s1, adds1, he, hm1, hsl1, hseen1, hnext1, hfs1, _⟩ := field_after hraw'.1 hm hsl hget hseen hpc
      have hroom1 : roomL s.fields ≤ roomL s1.fields + vsize ext x := by
        rw [hfs1]; exact roomL_set _ _ _ _ _ _ hget hroomc
      obtain ⟨s', hrest, hend, hroom⟩ := pushTupleElems_complete ext rest hraw'.2 fs0 s1 adds1 sfs hm1 hsl1 ht (by omega)
        (by rw [hnext1, hseen1]; exact hp')
      refine ⟨s', ?_, hend, by omega⟩
      simp only [pushTupleElems, hlt, if_true]
      exact (bind_ok _ _ _).2 ⟨s1, he, hrest⟩
    · obtain ⟨s', hrest, hend, hroom⟩ := pushTupleElems_complete ext rest hraw'.2 fs0 s adds sfs hm hsl ht (by omega)
        (hp.skip (by rw [hsl.length]; omega))
      refine ⟨s', ?_, hend, by omega⟩
      simp only [pushTupleElems, hlt, if_false]
      exact hrest

theorem pushFields_complete (ext : Ext) : ∀ (fields : SFields), noRawf fields = true → FieldsLoop ext fields
  | .nil, _ => by
    intro fs0 s adds sfs _ _ _ _ hp
    exact ⟨s, rfl, hp.endOK (fun f => by simp [interpByName]), by simp [vsizef]⟩
  | .cons key al x rest, hraw => by
    intro fs0 s adds sfs hm hsl ht hr hp
    have hraw' : noRaw x = true ∧ noRawf rest = true := by simpa [noRawf] using hraw
    simp only [vsizef] at hr ⊢
    have hls := SaModel.Props.C11Front.lookup_sound s.fields.names s.cached s.next (key, al) hm.nodup hm.cache
    cases hlk : lookup s.fields.names s.cached s.next (key, al) with
    | mk res cached' =>
      rw [hlk] at hls
      simp only at hls
      have hmc := hm.cached cached' hls.2
      cases res with
      | none =>
        have hnone : indexOfName s.fields.names key = none := hls.1.symm
        obtain ⟨s', hrest, hend, hroom⟩ := pushFields_complete ext rest hraw'.2 fs0 { s with cached := cached' } adds sfs hmc
          hsl ht (by simp only; omega) (hp.congr (fun j f hj =>
            interpByName_cons_ne (key_none hm.nodup hnone (names_at hsl hj))))
        refine ⟨s', ?_, hend, by simp only at hroom; omega⟩
        simp only [pushFields, hlk]
        exact hrest
      | some idx =>
        have hidx : indexOfName s.fields.names key = some idx := hls.1.symm
        have hlt : idx < s.fields.length := by rw [← BL.names_length]; exact indexOfName_lt hidx
        obtain ⟨c, m, f, hget, hj, hnm, hgc, hrc, hlseen⟩ := field_child hmc hsl ht hlt
        simp only at hget hnm hrc hlseen
        have hfn : f.name = key := by
          have := SaModel.Props.C11Front.indexOfName_some _ _ _ hidx
          rw [this] at hnm; cases hnm; rfl
        obtain ⟨hseen, ⟨lv, hlv⟩, hp'⟩ := PendN.hit
          (c2 := fun f => interpByName ext f.name f.dataType f.nullable f.metadata rest)
          (P := fun lv => interpDT ext f.dataType f.nullable f.metadata x = .ok lv) hp hj hlseen
          (fun j f' hj' hne => interpByName_cons_ne (by
            rw [key_at hm.nodup hidx (names_at hsl hj')]; simp; exact fun h => hne h.symm))
          (fun found hf => interpByName_cons_eq (by rw [hfn]; simp) hf)
        obtain ⟨c', hpc, hroomc⟩ := push_complete ext x hraw'.1 c _ _ _ lv hgc (by omega) hlv
        obtain ⟨s1, adds1, he, hm1, hsl1, hseen1, _, hfs1, _⟩ := field_after hraw'.1 hmc hsl hget hseen hpc
        have hroom1 : roomL s.fields ≤ roomL s1.fields + vsize ext x := by
          rw [hfs1]; exact roomL_set _ _ _ _ _ _ hget hroomc
        obtain ⟨s', hrest, hend, hroom⟩ := pushFields_complete ext rest hraw'.2 fs0 s1 adds1 sfs hm1 hsl1 ht (by omega)
          (by rw [hseen1]; exact hp')
        refine ⟨s', ?_, hend, by omega⟩
        simp only [pushFields, hlk]
        exact (bind_ok _ _ _).2 ⟨s1, he, hrest⟩

theorem pushStructEntries_complete (ext : Ext) : ∀ (es : SEntries), noRawe es = true → EntriesLoop ext es
  | .nil, _ => by
    intro fs0 s adds sfs _ _ _ _ _ hp
    exact ⟨s, rfl, hp.endOK (fun f => by simp [interpByKey, keyOf_eq]), by simp [vsizee]⟩
  | .cons k x rest, hraw => by
    intro fs0 s adds sfs hm hsl ht hr hkeys hp
    have hraw' : (noRaw k = true ∧ noRaw x = true) ∧ noRawe rest = true := by simpa [noRawe] using hraw
    simp only [vsizee] at hr ⊢
    simp only [keysAreStrings, specKey_eq, normErr_ok, normErr_error] at hkeys
    obtain ⟨key, hkey, hkeys'⟩ := (bind_ok _ _ _).1 hkeys
    rw [normErr_ok_iff] at hkey
    have hopt := keyStr_opt hkey
    cases hidx : indexOfName s.fields.names key with
    | none =>
      obtain ⟨s', hrest, hend, hroom⟩ := pushStructEntries_complete ext rest hraw'.2 fs0 { s with next := UNKNOWN_KEY } adds sfs
        (hm.next _) hsl ht (by simp only; omega) hkeys' (hp.congr (fun j f hj =>
          interpByKey_cons_ne (by rw [hopt]; exact key_none hm.nodup hidx (names_at hsl hj))))
      refine ⟨s', ?_, hend, by simp only at hroom; omega⟩
      simp only [pushStructEntries]
      exact (bind_ok _ _ _).2 ⟨key, hkey, by simp only [hidx]; exact hrest⟩
    | some idx =>
      have hlt : idx < s.fields.length := by rw [← BL.names_length]; exact indexOfName_lt hidx
      obtain ⟨c, m, f, hget, hj, hnm, hgc, hrc, hlseen⟩ := field_child hm hsl ht hlt
      have hfn : f.name = key := by
        have := SaModel.Props.C11Front.indexOfName_some _ _ _ hidx
        rw [this] at hnm; cases hnm; rfl
      obtain ⟨hseen, ⟨lv, hlv⟩, hp'⟩ := PendN.hit
        (c2 := fun f => interpByKey ext f.name f.dataType f.nullable f.metadata rest)
        (P := fun lv => interpDT ext f.dataType f.nullable f.metadata x = .ok lv) hp hj hlseen
        (fun j f' hj' hne => interpByKey_cons_ne (by
          rw [hopt, key_at hm.nodup hidx (names_at hsl hj')]; simp; exact fun h => hne h.symm))
        (fun found hf => interpByKey_cons_eq (by rw [hopt, hfn]; simp) hf)
      obtain ⟨c', hpc, hroomc⟩ := push_complete ext x hraw'.1.2 c _ _ _ lv hgc (by omega) hlv
      obtain ⟨s1, adds1, he, hm1, hsl1, hseen1, _, hfs1, _⟩ := field_after hraw'.1.2 hm hsl hget hseen hpc
      have hroom1 : roomL s.fields ≤ roomL s1.fields + vsize ext x := by
        rw [hfs1]; exact roomL_set _ _ _ _ _ _ hget hroomc
      obtain ⟨s', hrest, hend, hroom⟩ := pushStructEntries_complete ext rest hraw'.2 fs0 { s1 with next := UNKNOWN_KEY } adds1 sfs
        (hm1.next _) hsl1 ht (by simp only; omega) hkeys' (by simp only; rw [hseen1]; exact hp')
      refine ⟨s', ?_, hend, by simp only at hroom; omega⟩
      simp only [pushStructEntries]
      exact (bind_ok _ _ _).2 ⟨key, hkey, by simp only [hidx]; exact (bind_ok _ _ _).2 ⟨s1, he, hrest⟩⟩

theorem pushMapEntries_complete (ext : Ext) : ∀ (es : SEntries), noRawe es = true → MapLoop ext es
  | .nil, _ => by
    intro offs l ks vs kdt kn kmd vdt vn vmd r _ _ _ _ hl _ _ _
    exact ⟨(offs, ks, vs), rfl, by simp [vsizee], by simp [vsizee], by simpa [elen] using hl⟩
  | .cons k x rest, hraw => by
    intro offs l ks vs kdt kn kmd vdt vn vmd r hgk hgv hrk hrv hl h0 hle hi
    have hraw' : (noRaw k = true ∧ noRaw x = true) ∧ noRawe rest = true := by simpa [noRawe] using hraw
    simp only [interpEntries] at hi
    obtain ⟨kv, hik, hi⟩ := (bind_ok _ _ _).1 hi
    obtain ⟨vv, hiv, hi⟩ := (bind_ok _ _ _).1 hi
    obtain ⟨r0, hir, _⟩ := (bind_ok _ _ _).1 hi
    simp only [vsizee, elen] at hrk hrv hle ⊢
    have hinc := incrementLast_total (large := false) (inc := 1) hl (by omega) h0
    obtain ⟨ks', hpk, hroomk⟩ := push_complete ext k hraw'.1.1 ks kdt kn kmd kv hgk (by omega) hik
    obtain ⟨vs', hpv, hroomv⟩ := push_complete ext x hraw'.1.2 vs vdt vn vmd vv hgv (by omega) hiv
    obtain ⟨r', hrest, hr1, hr2, hl2⟩ := pushMapEntries_complete ext rest hraw'.2 (offs.dropLast ++ [l + (1 : Nat)]) (l + (1 : Nat))
      ks' vs' kdt kn kmd vdt vn vmd r0 (hgk.push hraw'.1.1 hpk) (hgv.push hraw'.1.2 hpv) (by omega) (by omega) (by simp)
      (by omega) (by omega) hir
    refine ⟨r', ?_, by omega, by omega, ?_⟩
    · simp only [pushMapEntries]
      exact (bind_ok _ _ _).2 ⟨_, hinc, (bind_ok _ _ _).2 ⟨ks', hpk, (bind_ok _ _ _).2 ⟨vs', hpv, hrest⟩⟩⟩
    · rw [hl2]; congr 1; omega
end

end SaModel.Build
