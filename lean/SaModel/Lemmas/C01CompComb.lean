import SaModel.Lemmas.C01CompScalar
/-
Completeness, the non-recursive combinators of the push block (`seqLikeWith`, records, `endFields`, union rows,
bytes into lists), with the recursive parts abstracted as hypotheses.
-/
namespace SaModel.Build
open SaModel SaModel.Spec

/-- everything the completeness recursion knows about a builder: state invariant, schema, exclusions -/
structure Good (b : B) (dt : DataType) (n : Bool) (md : Metadata) : Prop where
  wf : WFB b
  safe : Safe b
  shape : Shape b dt n md
  tot : total dt n md = true

theorem Good.push {ext : Ext} {x : SVal} {b b' : B} {dt n md} (hg : Good b dt n md) (hraw : noRaw x = true)
    (h : push ext b x = .ok b') : Good b' dt n md :=
  have ht := push_takeRest ext x b b' h
  ⟨(push_appends ext x b b' hg.wf hg.safe h).1, Safe.of_takeRest ht hg.safe,
    Shape.of_takeRest ht hg.shape, hg.tot⟩

theorem Good.pushScalar {ext : Ext} {x : SVal} {b b' : B} {dt n md} (hg : Good b dt n md)
    (h : pushScalar ext b x = .ok b') : Good b' dt n md :=
  have ht := pushScalar_takeRest ext b x b' h
  ⟨(pushScalar_appends ext b x b' hg.wf hg.safe h).1, Safe.of_takeRest ht hg.safe,
    Shape.of_takeRest ht hg.shape, hg.tot⟩

/-! ### head room of children -/

theorem roomL_get : ∀ (fs : BL) (i : Nat) (c : B) (m : FieldMeta), fs.get? i = some (c, m) → roomL fs ≤ room c
  | .nil, _, _, _, h => by simp [BL.get?] at h
  | .cons b m r, 0, c, m', h => by
    simp [BL.get?] at h; obtain ⟨rfl, rfl⟩ := h
    simp only [roomL]; omega
  | .cons b m r, i + 1, c, m', h => by
    simp only [BL.get?] at h
    have := roomL_get r i c m' h
    simp only [roomL]; omega

theorem roomL_set : ∀ (fs : BL) (i : Nat) (c c' : B) (m : FieldMeta) (k : Nat), fs.get? i = some (c, m) →
    room c ≤ room c' + k → roomL fs ≤ roomL (fs.set i c') + k
  | .nil, _, _, _, _, _, h, _ => by simp [BL.get?] at h
  | .cons b m r, 0, c, c', m', k, h, hr => by
    simp [BL.get?] at h; obtain ⟨rfl, rfl⟩ := h
    simp only [roomL, BL.set]; omega
  | .cons b m r, i + 1, c, c', m', k, h, hr => by
    simp only [BL.get?] at h
    have := roomL_set r i c c' m' k h hr
    simp only [roomL, BL.set]; omega

/-! ### schema exclusions of children -/

theorem totalFs_get : ∀ (sfs : Fields) (j : Nat) (f : Field), totalFs sfs = true → sfs.toList[j]? = some f →
    total f.dataType f.nullable f.metadata = true
  | .nil, _, _, _, h => by simp [Fields.toList] at h
  | .cons (.mk a b c d) r, 0, f, ht, h => by
    simp [Fields.toList] at h; subst h
    simp only [totalFs, totalF, Bool.and_eq_true] at ht
    exact ht.1
  | .cons (.mk a b c d) r, j + 1, f, ht, h => by
    simp only [totalFs, Bool.and_eq_true] at ht
    exact totalFs_get r j f ht.2 (by simpa [Fields.toList] using h)

theorem totalUs_get : ∀ (ufs : UFields) (j : Nat) (tid : Int) (f : Field), totalUs ufs = true →
    ufs.toList[j]? = some (tid, f) → total f.dataType f.nullable f.metadata = true
  | .nil, _, _, _, _, h => by simp [UFields.toList] at h
  | .cons t (.mk a b c d) r, 0, tid, f, ht, h => by
    simp [UFields.toList] at h; obtain ⟨_, rfl⟩ := h
    simp only [totalUs, totalF, Bool.and_eq_true] at ht
    exact ht.1
  | .cons t (.mk a b c d) r, j + 1, tid, f, ht, h => by
    simp only [totalUs, Bool.and_eq_true] at ht
    exact totalUs_get r j tid f ht.2 (by simpa [UFields.toList] using h)

theorem UFields.length_toList : ∀ (ufs : UFields), ufs.toList.length = UFields.length ufs
  | .nil => rfl
  | .cons _ _ r => by simp [UFields.toList, UFields.length, UFields.length_toList r]

theorem ShapeU.get' : ∀ (fs : BL) (ufs : UFields) (k i : Nat) (tid : Int) (nm : String) (cdt : DataType) (cn : Bool)
    (cmd : Metadata), ShapeU fs ufs k → ufs.toList[i]? = some (tid, .mk nm cdt cn cmd) →
    ∃ c m, fs.get? i = some (c, m) ∧ Shape c cdt cn cmd
  | .nil, .nil, _, _, _, _, _, _, _, _, h => by simp [UFields.toList] at h
  | .cons b m r, .cons t (.mk fname fdt fn fmd) rest, k, 0, tid, nm, cdt, cn, cmd, hs, h => by
    simp only [ShapeU] at hs
    simp [UFields.toList] at h
    obtain ⟨_, _, rfl, rfl, rfl⟩ := h
    exact ⟨b, m, rfl, hs.2.1⟩
  | .cons b m r, .cons t (.mk fname fdt fn fmd) rest, k, i + 1, tid, nm, cdt, cn, cmd, hs, h => by
    simp only [ShapeU] at hs
    simp only [BL.get?]
    exact ShapeU.get' r rest (k + 1) i tid nm cdt cn cmd hs.2.2 (by simpa [UFields.toList] using h)
  | .nil, .cons _ _ _, _, _, _, _, _, _, _, hs, _ => by simp [ShapeU] at hs
  | .cons _ _ _, .nil, _, _, _, _, _, _, _, hs, _ => by simp [ShapeU] at hs

/-! ### bytes into a list builder -/

theorem interpScalar_int_known {ext : Ext} {dt : DataType} {t : IntTy} {v : Int} {lv : LVal} (md : Metadata)
    (h : interpScalar ext dt (.int t v) = .ok lv) : isUnknownVariant dt md = false := by
  cases dt <;> simp only [isUnknownVariant]
  simp [interpScalar_eq_old, normErr_ok_iff, interpScalarOld, fail] at h

theorem pushByteElems_complete (ext : Ext) (large : Bool) : ∀ (bs : Bytes) (el : B) (offs : List Int) (l : Int)
    (cdt : DataType) (cn : Bool) (cmd : Metadata) (ls : List LVal), Good el cdt cn cmd →
    (bs.map fun x => strLen ext (.int .u8 x.toNat) + 1).sum ≤ room el →
    offs.getLast? = some l → 0 ≤ l → l + bs.length ≤ 2147483647 →
    bs.mapM (fun x => interpScalar ext cdt (.int .u8 x.toNat)) = .ok ls →
    ∃ r, pushByteElems ext large el offs bs = .ok r ∧
      room el ≤ room r.1 + (bs.map fun x => strLen ext (.int .u8 x.toNat) + 1).sum ∧
      r.2.getLast? = some (l + bs.length)
  | [], el, offs, l, _, _, _, _, _, _, hl, _, _, _ => ⟨(el, offs), rfl, by simp, by simpa using hl⟩
  | x :: rest, el, offs, l, cdt, cn, cmd, ls, hg, hr, hl, h0, hle, hi => by
    rw [List.mapM_cons] at hi
    obtain ⟨lv0, hi0, hi⟩ := (bind_ok _ _ _).1 hi
    obtain ⟨ls', hi', _⟩ := (bind_ok _ _ _).1 hi
    simp only [List.map_cons, List.sum_cons, List.length_cons] at hr hle
    have hinc := incrementLast_total (large := large) (inc := 1) hl (by omega) h0
    obtain ⟨el', hp, hroom⟩ := pushScalar_complete ext el (.int .u8 x.toNat) cdt cn cmd lv0 hg.wf hg.shape
      (interpScalar_int_known cmd hi0) (by simp only [vsize]; omega) hi0
    simp only [vsize] at hroom
    obtain ⟨r, hrest, hr2, hl2⟩ := pushByteElems_complete ext large rest el' (offs.dropLast ++ [l + (1 : Nat)]) (l + (1 : Nat))
      cdt cn cmd ls' (hg.pushScalar hp) (by omega) (by simp) (by omega) (by omega) hi'
    refine ⟨r, ?_, ?_, ?_⟩
    · simp only [pushByteElems]
      exact (bind_ok _ _ _).2 ⟨_, hinc, (bind_ok _ _ _).2 ⟨el', (ctx_ok _ _ _).2 hp, hrest⟩⟩
    · simp only [List.map_cons, List.sum_cons]; omega
    · rw [hl2]; simp only [List.length_cons]; congr 1; omega

/-! ### records -/

theorem pickOne_nil_inv {name : String} {nullable : Bool} {dt : DataType} {md : Metadata} {lv : LVal}
    (h : pickOne name nullable dt md [] = .ok lv) : nullable = true ∧ interpNull dt nullable md = .ok lv := by
  simp only [pickOne] at h
  cases nullable
  · simp [fail] at h
  · exact ⟨rfl, by simpa using h⟩

theorem pickOne_cons_inv {name : String} {nullable : Bool} {dt : DataType} {md : Metadata} {lv a : LVal} {vs : List LVal}
    (h : pickOne name nullable dt md (a :: vs) = .ok lv) : vs = [] := by
  cases vs with
  | nil => rfl
  | cons _ _ => simp [pickOne, fail] at h

theorem mapM_ok_get {α β} (g : α → R β) : ∀ (l : List α) (r : List β), l.mapM g = .ok r →
    ∀ (j : Nat) a, l[j]? = some a → ∃ b, g a = .ok b
  | [], _, _, _, _, h => by simp at h
  | a :: l, r, h, j, a', hj => by
    rw [List.mapM_cons] at h
    obtain ⟨b, hb, h⟩ := (bind_ok _ _ _).1 h
    obtain ⟨bs, hbs, _⟩ := (bind_ok _ _ _).1 h
    cases j with
    | zero => simp at hj; subst hj; exact ⟨b, hb⟩
    | succ j => exact mapM_ok_get g l bs hbs j a' (by simpa using hj)

theorem structOf_inv {fields : List Field} {collect : Field → R (List LVal)} {lv : LVal}
    (h : structOf fields collect = .ok lv) : ∀ (j : Nat) f, fields[j]? = some f →
    ∃ found v, collect f = .ok found ∧ pickOne f.name f.nullable f.dataType f.metadata found = .ok v := by
  unfold structOf at h
  obtain ⟨vals, hv, _⟩ := (bind_ok _ _ _).1 h
  intro j f hj
  obtain ⟨b, hb⟩ := mapM_ok_get _ _ _ hv j f hj
  obtain ⟨found, h1, hb⟩ := (bind_ok _ _ _).1 hb
  obtain ⟨v, h2, _⟩ := (bind_ok _ _ _).1 hb
  exact ⟨found, v, h1, h2⟩

/-- at `end`: every field has been seen, or is nullable and may take a null -/
def EndOK (seen : List Bool) (sfs : Fields) : Prop :=
  ∀ (j : Nat) f, sfs.toList[j]? = some f → seen.getD j false = true ∨
    (f.nullable = true ∧ ∃ lv, interpNull f.dataType f.nullable f.metadata = .ok lv)

theorem endFields_complete : ∀ (fs : BL) (seen : List Bool) (sfs : Fields),
    (∀ j c m, fs.get? j = some (c, m) → WFB c) → ShapeL fs sfs → totalFs sfs = true → seen.length = fs.length →
    EndOK seen sfs → 1 ≤ roomL fs → ∃ fs', endFields fs seen = .ok fs' ∧ roomL fs ≤ roomL fs' + 1
  | .nil, _, _, _, _, _, _, _, _ => ⟨.nil, by simp [endFields], Nat.le_add_right _ _⟩
  | .cons b m r, [], _, _, _, _, hl, _, _ => by simp [BL.length] at hl
  | .cons b m r, s :: ss, .nil, _, hs, _, _, _, _ => by simp [ShapeL] at hs
  | .cons b m r, s :: ss, .cons (.mk fname fdt fn fmd) rest, hw, hs, ht, hl, he, hk => by
    simp only [roomL] at hk
    simp only [ShapeL] at hs
    simp only [totalFs, totalF, Bool.and_eq_true] at ht
    obtain ⟨r', hr', hroom⟩ := endFields_complete r ss rest (fun j c m' h => hw (j + 1) c m' (by simpa [BL.get?] using h))
      hs.2.2.2 ht.2 (by simpa [BL.length] using hl) (fun j f hj => by simpa [Fields.toList] using he (j + 1) f (by simpa [Fields.toList] using hj)) (by omega)
    cases s with
    | true =>
      refine ⟨.cons b m r', ?_, by simp only [roomL]; omega⟩
      simp only [endFields, if_true]
      exact (bind_ok _ _ _).2 ⟨_, hr', rfl⟩
    | false =>
      have h0 := he 0 (.mk fname fdt fn fmd) (by simp [Fields.toList])
      simp only [List.getD_cons_zero, Bool.false_eq_true, false_or, Field.nullable, Field.dataType, Field.metadata] at h0
      obtain ⟨hn, lv, hlv⟩ := h0
      obtain ⟨b', hb', hrb⟩ := pushNone_complete b fdt fn fmd lv (hw 0 b m rfl) hs.2.2.1 ht.1 hlv (by omega)
      have hmn : (!m.nullable) = false := by rw [hs.2.1, hn]; rfl
      refine ⟨.cons b' m r', ?_, by simp only [roomL]; omega⟩
      simp only [endFields, Bool.false_eq_true, if_false, hmn]
      exact (bind_ok _ _ _).2 ⟨_, hb', (bind_ok _ _ _).2 ⟨_, hr', rfl⟩⟩

theorem SS.element_total {s : SS} {idx : Nat} {pc : B → R B} {c c' : B} {m : FieldMeta}
    (hget : s.fields.get? idx = some (c, m)) (hseen : s.seen[idx]? = some false) (hpc : pc c = .ok c') :
    s.element idx pc = .ok { s with fields := s.fields.set idx c', seen := s.seen.set idx true, next := idx + 1 } := by
  unfold SS.element
  simp only [hseen, hget]
  exact (bind_ok _ _ _).2 ⟨_, hpc, rfl⟩

/-- what the completeness induction hypothesis provides for a field loop `pf` collecting candidates by `collect` -/
def FieldsComp (sfs : Fields) (collect : Field → R (List LVal)) (cost : Nat) (pf : SS → R SS) : Prop :=
  ∀ fs0 s adds, Mid fs0 s adds → ShapeL s.fields sfs → s.next = 0 → s.seen = List.replicate s.fields.length false →
    cost ≤ roomL s.fields →
    (∀ (j : Nat) f, sfs.toList[j]? = some f → ∃ found lv, collect f = .ok found ∧
      pickOne f.name f.nullable f.dataType f.metadata found = .ok lv) →
    ∃ s', pf s = .ok s' ∧ EndOK s'.seen sfs ∧ roomL s.fields ≤ roomL s'.fields + cost

theorem record_complete {p len v fs cached next seen} {pf : SS → R SS} {sfs : Fields} {n : Bool}
    {md : Metadata} {collect : Field → R (List LVal)} {cost : Nat} {lv : LVal}
    (hg : Good (.struct p len v fs cached next seen) (.struct sfs) n md)
    (hpf1 : FieldsOK pf) (hskel : ∀ s1 s2, pf s1 = .ok s2 → SSkel s2 s1)
    (hpf : FieldsComp sfs collect cost pf) (hr : cost + 1 ≤ roomL fs)
    (hi : structOf sfs.toList collect = .ok lv) :
    ∃ b', (do
      let s ← SS.start ⟨p, len, v, fs, cached, next, seen⟩
      let s ← pf s
      let s ← s.finishRow
      pure s.toB : R B) = .ok b' ∧ roomL fs ≤ room b' + (cost + 1) := by
  have hw := hg.wf
  simp only [WFB] at hw
  obtain ⟨hv, hwfl, hseen, hnd, hcache⟩ := hw
  have hsafe := hg.safe
  simp only [Safe] at hsafe
  have hsh := hg.shape
  simp only [Shape] at hsh
  obtain ⟨_, sfs', he, hsl⟩ := hsh
  cases he
  have ht := hg.tot
  simp only [total, Bool.and_eq_true] at ht
  obtain ⟨v', hv'⟩ := setValidity_true_total v len
  have hmid : Mid fs ⟨p, len + 1, v', fs, cached, 0, List.replicate seen.length false⟩ (List.replicate fs.length []) :=
    ⟨ExtL.refl fs len hwfl, by rw [hseen]; exact Flags.fresh _, hcache, hsafe.1, hnd⟩
  obtain ⟨s2, h2, hend, hroom⟩ := hpf fs _ _ hmid hsl rfl (by simp [hseen]) (show cost ≤ roomL fs by omega) (fun j f hj => structOf_inv hi j f hj)
  obtain ⟨⟨adds2, hm2⟩, _⟩ := hpf1 _ _ _ _ hmid h2
  have hsl2 : ShapeL s2.fields sfs := ShapeL.of_takeRest (hskel _ s2 h2).2.2.1 hsl
  obtain ⟨fs3, h3, hr3⟩ := endFields_complete s2.fields s2.seen sfs
    (fun j c m h => ExtL.get _ _ _ j (c, m) hm2.ext h) hsl2 ht.1 hm2.adds_length.2.1 hend (by simp only at hroom; omega)
  refine ⟨SS.toB { s2 with fields := fs3 }, ?_, ?_⟩
  · refine (bind_ok _ _ _).2 ⟨_, ?_, (bind_ok _ _ _).2 ⟨s2, h2, (bind_ok _ _ _).2 ⟨{ s2 with fields := fs3 }, ?_, rfl⟩⟩⟩
    · simp only [SS.start]
      exact (bind_ok _ _ _).2 ⟨v', hv', rfl⟩
    · simp only [SS.finishRow]
      exact (bind_ok _ _ _).2 ⟨fs3, h3, rfl⟩
  · simp only [SS.toB, room]
    simp only at hroom
    omega

end SaModel.Build
