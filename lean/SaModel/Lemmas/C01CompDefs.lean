import SaModel.Lemmas.C01R2
/-
Completeness of the builders (converse of R2): vocabulary.

* `vsize ext x`   — an explicit size of a serde value: one unit per call plus the bytes every scalar can contribute
                    to a data buffer (its `to_string` form for the scalars string builders accept).
* `room b`        — the head room of a builder state: the minimum, over every capacity-limited counter in the
                    builder tree, of `limit - current` (last offset of every offsets vector, the length of
                    every view buffer and every per-variant row counter `current_offset[v]` of a union against
                    `i32::MAX`; number of dictionary values against the key type).
* `NoCap ext b x` — `vsize ext x ≤ room b`: no capacity check (`increment_last`, view `pack_extern`, dictionary key
                    conversion, the checked `current_offset[v] + 1` of `UnionBuilder::serialize_variant`) can
                    refuse the value.
* `total dt n md` — the schema-level exclusion found while proving completeness: a nullable struct /
                    fixed-size list whose children cannot take `serialize_default` (an `UnknownVariant`
                    placeholder, a union without variants or with placeholder variants only) refuses `None`
                    although the documented mapping says `null`; unions have at most 128 variants (type ids are
                    `i8`).  Since repo fix 837fa53 a union takes `serialize_default` through its first variant
                    that is not a placeholder (`defOKFirst`); before, through variant 0 whatever it was.
                    With repo fix 217d612 (checked row counters of unions) a default is one ROW of that variant:
                    a `None` of a `FixedSizeList(_, m)` (size 1) sends `m` defaults to its child, which would
                    take `m` units of the head room of a union reachable by defaults below it (through structs /
                    fixed-size lists) — `defOK` of a fixed-size list of size `m > 1` therefore also requires
                    `noDefUF` of its child: no union below it receives defaults.  (Unions below lists, maps, dictionaries, or as
                    variants / struct fields outside nullable fixed-size lists are not restricted.)
-/
namespace SaModel.Build
open SaModel SaModel.Spec

def LIM : Nat := 2147483647

/-- bytes a scalar call can contribute to a string buffer -/
def strLen (ext : Ext) (x : SVal) : Nat :=
  match scalarToString ext x with
  | some s => (strBytes s).length
  | none => 0

mutual
/-- an explicit size of a serde value -/
def vsize (ext : Ext) : SVal → Nat
  | .none => 1
  | .unit => 1
  | .some v => vsize ext v + 1
  | .newtypeStruct _ v => vsize ext v + 1
  | .bool b => strLen ext (.bool b) + 1
  | .int t v => strLen ext (.int t v) + 1
  | .f32 b => strLen ext (.f32 b) + 1
  | .f64 b => strLen ext (.f64 b) + 1
  | .char c => strLen ext (.char c) + 1
  | .str s => strLen ext (.str s) + 1
  | .unitVariant a i vn => strLen ext (.unitVariant a i vn) + 1
  | .unitStruct _ => 1
  | .bytes bs => bs.length + (bs.map fun x => strLen ext (.int .u8 x.toNat) + 1).sum + 1
  | .seq xs => vsizes ext xs + 1
  | .tuple xs => vsizes ext xs + 1
  | .tupleStruct _ xs => vsizes ext xs + 1
  | .record _ fs => vsizef ext fs + 1
  | .map es => vsizee ext es + 1
  | .mapRaw _ => 1
  | .newtypeVariant _ _ _ v => vsize ext v + 1
  | .tupleVariant _ _ _ xs => vsizes ext xs + 1
  | .structVariant _ _ _ fs => vsizef ext fs + 1
def vsizes (ext : Ext) : SVals → Nat
  | .nil => 0
  | .cons v r => vsize ext v + vsizes ext r
def vsizef (ext : Ext) : SFields → Nat
  | .nil => 0
  | .cons _ _ v r => vsize ext v + vsizef ext r
def vsizee (ext : Ext) : SEntries → Nat
  | .nil => 0
  | .cons k v r => vsize ext k + vsize ext v + vsizee ext r
end

theorem vsize_pos (ext : Ext) (x : SVal) : 1 ≤ vsize ext x := by
  cases x <;> simp only [vsize] <;> omega

theorem vsizes_length (ext : Ext) : ∀ (xs : SVals), xs.length ≤ vsizes ext xs
  | .nil => by simp [SVals.length, vsizes]
  | .cons v r => by
    have := vsizes_length ext r
    have := vsize_pos ext v
    simp only [SVals.length, vsizes]; omega

/-- the last offset, as a natural number -/
def lastNat (offs : List Int) : Nat :=
  match offs.getLast? with
  | some l => l.toNat
  | none => 0

/-- how many more values a dictionary with `n` values can take before the key type overflows -/
def keyRoom (idx : B) (n : Nat) : Nat :=
  match idx with
  | .leaf _ (.int t) _ _ => t.max.toNat + 1 - n
  | _ => 0

/-- head room of the per-variant row counters of a union (`current_offset: Vec<i32>`, checked `+ 1` per row) -/
def curRoom : List Int → Nat
  | [] => LIM
  | co :: r => min (LIM - co.toNat) (curRoom r)

theorem curRoom_le_LIM : ∀ (cur : List Int), curRoom cur ≤ LIM
  | [] => Nat.le_refl _
  | co :: r => by simp only [curRoom]; have := curRoom_le_LIM r; omega

theorem curRoom_get : ∀ (cur : List Int) (i : Nat) (co : Int), cur[i]? = some co → curRoom cur ≤ LIM - co.toNat
  | [], i, co, h => by simp at h
  | c :: r, 0, co, h => by
    simp only [List.getElem?_cons_zero, Option.some.injEq] at h
    subst h; simp only [curRoom]; omega
  | c :: r, i + 1, co, h => by
    simp only [List.getElem?_cons_succ] at h
    have := curRoom_get r i co h
    simp only [curRoom]; omega

/-- a union row may be pushed: the counter of the variant is below `i32::MAX` -/
theorem curRoom_pos_get {cur : List Int} {i : Nat} {co : Int} (h : cur[i]? = some co) (hr : 1 ≤ curRoom cur) :
    ¬ (co + 1 > 2147483647) := by
  have := curRoom_get cur i co h
  simp only [LIM] at this
  omega

/-- one row of one variant takes one unit of the counters' head room -/
theorem curRoom_set : ∀ (cur : List Int) (i : Nat) (co : Int), cur[i]? = some co →
    curRoom cur ≤ curRoom (cur.set i (co + 1)) + 1
  | [], i, co, h => by simp at h
  | c :: r, 0, co, h => by
    simp only [List.getElem?_cons_zero, Option.some.injEq] at h
    subst h; simp only [List.set_cons_zero, curRoom]; omega
  | c :: r, i + 1, co, h => by
    simp only [List.getElem?_cons_succ] at h
    have := curRoom_set r i co h
    simp only [List.set_cons_succ, curRoom]; omega

/-- the row counter and the variant's builder are different counters: a row costs the larger of the two -/
theorem min_le_min_max {a b a' b' c : Nat} (h1 : b ≤ b' + c) (h2 : a ≤ a' + 1) : min a b ≤ min a' b' + max c 1 := by
  omega

/-- `k` rows of one variant take `k` units of the counters' head room -/
theorem curRoom_setK : ∀ (cur : List Int) (i : Nat) (co : Int) (k : Nat), cur[i]? = some co →
    curRoom cur ≤ curRoom (cur.set i (co + (k : Int))) + k
  | [], i, co, k, h => by simp at h
  | c :: r, 0, co, k, h => by
    simp only [List.getElem?_cons_zero, Option.some.injEq] at h
    subst h; simp only [List.set_cons_zero, curRoom]; omega
  | c :: r, i + 1, co, k, h => by
    simp only [List.getElem?_cons_succ] at h
    have := curRoom_setK r i co k h
    simp only [List.set_cons_succ, curRoom]; omega

/-- `k` union rows of one variant may be pushed: the counter stays within `i32` -/
theorem curRoom_le_get {cur : List Int} {i : Nat} {co : Int} {k : Nat} (h : cur[i]? = some co) (hr : k ≤ curRoom cur)
    (hk : k ≠ 0) : ¬ (co + (k : Int) > 2147483647) := by
  have := curRoom_get cur i co h
  simp only [LIM] at this
  omega

mutual
/-- head room: the minimum of `limit - current` over every capacity-limited counter in the builder tree -/
def room : B → Nat
  | .null _ _ => LIM
  | .unknownVariant _ => LIM
  | .leaf _ _ _ _ => LIM
  | .bytes _ _ _ offs _ => LIM - lastNat offs
  | .bytesView _ _ _ _ buf => LIM - buf.length
  | .fixedSizeBinary _ _ _ _ _ _ => LIM
  | .list _ _ _ _ offs el => min (LIM - lastNat offs) (room el)
  | .fixedSizeList _ _ _ _ _ _ el => room el
  | .map _ _ _ offs ks vs => min (LIM - lastNat offs) (min (room ks) (room vs))
  | .struct _ _ _ fs _ _ _ => roomL fs
  | .dictionary _ idx vals index => min (keyRoom idx index.length) (room vals)
  | .union _ fs _ _ cur => min (curRoom cur) (roomL fs)
def roomL : BL → Nat
  | .nil => LIM
  | .cons b _ r => min (room b) (roomL r)
end

/-- no capacity check can refuse the value: it fits into the head room of the builder -/
def NoCap (ext : Ext) (b : B) (x : SVal) : Prop := vsize ext x ≤ room b

instance (ext : Ext) (b : B) (x : SVal) : Decidable (NoCap ext b x) := by unfold NoCap; infer_instance

/-! ### the schema-level exclusion -/

def UFields.length : UFields → Nat
  | .nil => 0
  | .cons _ _ r => UFields.length r + 1

/-- the field `build_builder` turns into an `UnknownVariant` placeholder -/
def isPlaceholderF : Field → Bool
  | .mk _ dt _ md => isUnknownVariant dt md

mutual
/-- no union receives `serialize_default` when the builder of this type does (`serialize_default` / `serialize_none`
are forwarded to children by structs and fixed-size lists only; a union takes a default as one ROW of its first real
variant, which costs one unit of that variant's row counter) -/
def noDefU : DataType → Bool
  | .union _ _ => false
  | .struct fs => noDefUFs fs
  | .fixedSizeList f _ => noDefUF f
  | _ => true
def noDefUF : Field → Bool
  | .mk _ dt _ _ => noDefU dt
def noDefUFs : Fields → Bool
  | .nil => true
  | .cons f r => noDefUF f && noDefUFs r
end

mutual
/-- `serialize_default` is supported by the builder of this type (all of its parts that receive it), at the price of
at most one unit of head room per call: one default / `None` of a `FixedSizeList(_, m)` sends `m` defaults to the
child, so no union may be reachable by defaults below a fixed-size list of size `m > 1` (`noDefUF`; repo fix 217d612:
every default row of a union counts against `i32::MAX` rows of its first real variant) -/
def defOK : DataType → Metadata → Bool
  | .null, md => !isUnknownVariant .null md
  | .fixedSizeList f m, _ => defOKF f && (decide (m ≤ 1) || noDefUF f)
  | .struct fs, _ => defOKFs fs
  | .union ufs _, _ => decide (UFields.length ufs ≤ 128) && defOKFirst ufs
  | _, _ => true
def defOKF : Field → Bool
  | .mk _ dt _ md => defOK dt md
def defOKFs : Fields → Bool
  | .nil => true
  | .cons f r => defOKF f && defOKFs r
/-- `UnionBuilder::serialize_default` (after repo fix 837fa53) delegates to the first variant that is not an
`UnknownVariant` placeholder: SOME variant is not a placeholder, and the first such supports `serialize_default` -/
def defOKFirst : UFields → Bool
  | .nil => false
  | .cons _ f r => if isPlaceholderF f then defOKFirst r else defOKF f
end

mutual
/-- every nullable struct / fixed-size list in the type has children that support `serialize_default`, and
unions have at most 128 variants -/
def total : DataType → Bool → Metadata → Bool
  | .list f, _, _ => totalF f
  | .largeList f, _, _ => totalF f
  | .fixedSizeList f m, n, _ => totalF f && (!n || (defOKF f && (decide (m ≤ 1) || noDefUF f)))
  | .map (.mk _ (.struct (.cons kf (.cons vf _))) _ _) _, _, _ => totalF kf && totalF vf
  | .struct fs, n, _ => totalFs fs && (!n || defOKFs fs)
  | .union ufs _, _, _ => decide (UFields.length ufs ≤ 128) && totalUs ufs
  | _, _, _ => true
def totalF : Field → Bool
  | .mk _ dt n md => total dt n md
def totalFs : Fields → Bool
  | .nil => true
  | .cons f r => totalF f && totalFs r
def totalUs : UFields → Bool
  | .nil => true
  | .cons _ f r => totalF f && totalUs r
end

end SaModel.Build
