import SaModel.Lemmas.C01CompSeq
/-
Completeness, the record disciplines: the invariant relating the unprocessed part of a record presentation
(specification side: the candidates `collect` still gathers per schema field) to the `seen` flags of the struct
builder, and one step of a field loop.
-/
namespace SaModel.Build
open SaModel SaModel.Spec

/-- name-keyed disciplines: what the rest of the presentation still gathers for field `j`: nothing more if `j` has
been seen, otherwise something `pickOne` accepts -/
def PendN (collect : Field → R (List LVal)) (seen : List Bool) (sfs : Fields) : Prop :=
  ∀ (j : Nat) f, sfs.toList[j]? = some f → ∃ found, collect f = .ok found ∧
    (seen.getD j false = true → found = []) ∧
    (seen.getD j false = false → ∃ lv, pickOne f.name f.nullable f.dataType f.metadata found = .ok lv)

theorem getD_replicate_false (n j : Nat) : (List.replicate n false).getD j false = false := by
  simp only [List.getD_eq_getElem?_getD, List.getElem?_replicate]
  split <;> rfl

theorem PendN.fresh {collect : Field → R (List LVal)} {sfs : Fields} {k : Nat}
    (h : ∀ (j : Nat) f, sfs.toList[j]? = some f → ∃ found lv, collect f = .ok found ∧
      pickOne f.name f.nullable f.dataType f.metadata found = .ok lv) : PendN collect (List.replicate k false) sfs := by
  intro j f hj
  obtain ⟨found, lv, h1, h2⟩ := h j f hj
  refine ⟨found, h1, ?_, fun _ => ⟨lv, h2⟩⟩
  rw [getD_replicate_false]; intro h; cases h

theorem PendN.endOK {collect : Field → R (List LVal)} {seen : List Bool} {sfs : Fields}
    (h : PendN collect seen sfs) (hnil : ∀ f, collect f = .ok []) : EndOK seen sfs := by
  intro j f hj
  obtain ⟨found, h1, _, h3⟩ := h j f hj
  rw [hnil f] at h1; cases h1
  cases hs : seen.getD j false with
  | true => exact Or.inl rfl
  | false =>
    obtain ⟨lv, hlv⟩ := h3 hs
    obtain ⟨hn, hi⟩ := pickOne_nil_inv hlv
    exact Or.inr ⟨hn, lv, hi⟩

theorem PendN.congr {c1 c2 : Field → R (List LVal)} {seen : List Bool} {sfs : Fields}
    (h : PendN c1 seen sfs) (he : ∀ (j : Nat) f, sfs.toList[j]? = some f → c1 f = c2 f) : PendN c2 seen sfs := by
  intro j f hj
  obtain ⟨found, h1, h2, h3⟩ := h j f hj
  exact ⟨found, by rw [← he j f hj]; exact h1, h2, h3⟩

theorem PendN.hit {c1 c2 : Field → R (List LVal)} {seen : List Bool} {sfs : Fields} {idx : Nat} {fi : Field}
    {P : LVal → Prop}
    (hp : PendN c1 seen sfs) (hidx : sfs.toList[idx]? = some fi) (hlt : idx < seen.length)
    (hother : ∀ (j : Nat) f, sfs.toList[j]? = some f → j ≠ idx → c1 f = c2 f)
    (hhit : ∀ found, c1 fi = .ok found → ∃ lv vs, c2 fi = .ok vs ∧ P lv ∧ found = lv :: vs) :
    seen[idx]? = some false ∧ (∃ lv, P lv) ∧ PendN c2 (seen.set idx true) sfs := by
  obtain ⟨found, h1, h2, h3⟩ := hp idx fi hidx
  obtain ⟨lv, vs, hc2, hP, rfl⟩ := hhit found h1
  have hs : seen.getD idx false = false := by
    cases hs : seen.getD idx false with
    | false => rfl
    | true => cases h2 hs
  obtain ⟨lv', hpick⟩ := h3 hs
  have hvs := pickOne_cons_inv hpick
  subst hvs
  refine ⟨?_, ⟨lv, hP⟩, ?_⟩
  · rw [List.getD_eq_getElem?_getD, List.getElem?_eq_getElem hlt] at hs
    rw [List.getElem?_eq_getElem hlt]
    simpa using hs
  · intro j f hj
    by_cases hji : j = idx
    · subst hji
      rw [hidx] at hj; cases hj
      exact ⟨[], hc2, fun _ => rfl, by rw [getD_set _ _ _ _ _ hlt, if_pos rfl]; intro h; cases h⟩
    · obtain ⟨found', g1, g2, g3⟩ := hp j f hj
      refine ⟨found', by rw [← hother j f hj hji]; exact g1, ?_, ?_⟩
      · rw [getD_set _ _ _ _ _ hlt, if_neg (Ne.symm hji)]; exact g2
      · rw [getD_set _ _ _ _ _ hlt, if_neg (Ne.symm hji)]; exact g3

/-! ### by name / by key -/

theorem interpByName_cons_ne {ext : Ext} {name key : String} {al : Nat} {dt n md} {x : SVal} {rest : SFields}
    (h : (key == name) = false) :
    interpByName ext name dt n md (.cons key al x rest) = interpByName ext name dt n md rest := by
  simp only [interpByName, h, Bool.false_eq_true, if_false]
  cases interpByName ext name dt n md rest <;> rfl

theorem interpByName_cons_eq {ext : Ext} {name key : String} {al : Nat} {dt n md} {x : SVal} {rest : SFields}
    {found : List LVal} (h : (key == name) = true)
    (hf : interpByName ext name dt n md (.cons key al x rest) = .ok found) :
    ∃ lv vs, interpByName ext name dt n md rest = .ok vs ∧ interpDT ext dt n md x = .ok lv ∧ found = lv :: vs := by
  simp only [interpByName, h, if_true] at hf
  obtain ⟨vs, h1, hf⟩ := (bind_ok _ _ _).1 hf
  obtain ⟨lv, h2, hf⟩ := (bind_ok _ _ _).1 hf
  cases hf
  exact ⟨lv, vs, h1, h2, rfl⟩

theorem interpByKey_cons_ne {ext : Ext} {name : String} {k : SVal} {dt n md} {x : SVal} {rest : SEntries}
    (h : ((keyStr k).toOption == some name) = false) :
    interpByKey ext name dt n md (.cons k x rest) = interpByKey ext name dt n md rest := by
  simp only [interpByKey, keyOf_eq, h, Bool.false_eq_true, if_false]
  cases interpByKey ext name dt n md rest <;> rfl

theorem interpByKey_cons_eq {ext : Ext} {name : String} {k : SVal} {dt n md} {x : SVal} {rest : SEntries}
    {found : List LVal} (h : ((keyStr k).toOption == some name) = true)
    (hf : interpByKey ext name dt n md (.cons k x rest) = .ok found) :
    ∃ lv vs, interpByKey ext name dt n md rest = .ok vs ∧ interpDT ext dt n md x = .ok lv ∧ found = lv :: vs := by
  simp only [interpByKey, keyOf_eq, h, if_true] at hf
  obtain ⟨vs, h1, hf⟩ := (bind_ok _ _ _).1 hf
  obtain ⟨lv, h2, hf⟩ := (bind_ok _ _ _).1 hf
  cases hf
  exact ⟨lv, vs, h1, h2, rfl⟩

/-! ### one step of a field loop -/

/-- the child a key designates: it exists, is the builder of the schema field of that name, and is `Good` -/
theorem field_child {fs0 : BL} {s : SS} {adds : List (List LVal)} {sfs : Fields} {idx : Nat}
    (hm : Mid fs0 s adds) (hsl : ShapeL s.fields sfs) (ht : totalFs sfs = true) (hlt : idx < s.fields.length) :
    ∃ c m f, s.fields.get? idx = some (c, m) ∧ sfs.toList[idx]? = some f ∧ s.fields.names[idx]? = some f.name ∧
      Good c f.dataType f.nullable f.metadata ∧ roomL s.fields ≤ room c ∧ idx < s.seen.length := by
  obtain ⟨⟨c, m⟩, hget⟩ := BL.get?_of_lt s.fields idx hlt
  obtain ⟨f, hj, hsh, _, _⟩ := ShapeL.get _ _ _ _ _ hsl hget
  refine ⟨c, m, f, hget, hj, names_at hsl hj, ⟨ExtL.get _ _ _ _ _ hm.ext hget, SafeL.get _ _ _ hm.safe hget, hsh,
    totalFs_get sfs idx f ht hj⟩, roomL_get _ _ _ _ hget, by rw [hm.adds_length.2.1]; exact hlt⟩

/-- after the child push: the struct state moves on -/
theorem field_after {ext : Ext} {x : SVal} {fs0 : BL} {s : SS} {adds : List (List LVal)} {sfs : Fields} {idx : Nat}
    {c c' : B} {m : FieldMeta} (hraw : noRaw x = true)
    (hm : Mid fs0 s adds) (hsl : ShapeL s.fields sfs) (hget : s.fields.get? idx = some (c, m))
    (hseen : s.seen[idx]? = some false) (hpc : push ext c x = .ok c') :
    ∃ s' adds', s.element idx (fun c => push ext c x) = .ok s' ∧ Mid fs0 s' adds' ∧ ShapeL s'.fields sfs ∧
      s'.seen = s.seen.set idx true ∧ s'.next = idx + 1 ∧ s'.fields = s.fields.set idx c' ∧ s'.cached = s.cached := by
  have h := SS.element_total (pc := fun c => push ext c x) hget hseen hpc
  obtain ⟨⟨adds', hm'⟩, _⟩ := SS.element_mid hm
    (StepOK.of_push (fun c c' => push_appends ext x c c')) h
  exact ⟨_, adds', h, hm', ShapeL.set_push hsl hget (push_takeRest ext x c c' hpc), rfl, rfl, rfl, rfl⟩

/-! ### positional records -/

def PendT (ext : Ext) (xs : SVals) (k : Nat) (seen : List Bool) (sfs : Fields) : Prop :=
  ∀ (j : Nat) f, sfs.toList[j]? = some f → (j < k → seen.getD j false = true) ∧
    (k ≤ j → seen.getD j false = false ∧ ∃ found lv,
      interpNth ext f.dataType f.nullable f.metadata (j - k) xs = .ok found ∧
      pickOne f.name f.nullable f.dataType f.metadata found = .ok lv)

theorem PendT.endOK {ext : Ext} {k : Nat} {seen : List Bool} {sfs : Fields} (h : PendT ext .nil k seen sfs) :
    EndOK seen sfs := by
  intro j f hj
  obtain ⟨h1, h2⟩ := h j f hj
  rcases Nat.lt_or_ge j k with hlt | hge
  · exact Or.inl (h1 hlt)
  · obtain ⟨_, found, lv, hf, hp⟩ := h2 hge
    simp only [interpNth] at hf; cases hf
    obtain ⟨hn, hi⟩ := pickOne_nil_inv hp
    exact Or.inr ⟨hn, lv, hi⟩

theorem PendT.skip {ext : Ext} {x : SVal} {rest : SVals} {k : Nat} {seen : List Bool} {sfs : Fields}
    (h : PendT ext (.cons x rest) k seen sfs) (hk : sfs.toList.length ≤ k) : PendT ext rest k seen sfs := by
  intro j f hj
  have hjlt : j < sfs.toList.length := by
    rcases Nat.lt_or_ge j sfs.toList.length with h | h
    · exact h
    · rw [List.getElem?_eq_none_iff.mpr h] at hj; cases hj
  exact ⟨(h j f hj).1, fun hle => absurd hjlt (by omega)⟩

theorem PendT.hit {ext : Ext} {x : SVal} {rest : SVals} {k : Nat} {seen : List Bool} {sfs : Fields} {fk : Field}
    (h : PendT ext (.cons x rest) k seen sfs) (hk : sfs.toList[k]? = some fk) (hlt : k < seen.length) :
    seen[k]? = some false ∧ (∃ lv, interpDT ext fk.dataType fk.nullable fk.metadata x = .ok lv) ∧
      PendT ext rest (k + 1) (seen.set k true) sfs := by
  obtain ⟨_, h2⟩ := h k fk hk
  obtain ⟨hs, found, lv, hf, _⟩ := h2 (Nat.le_refl _)
  simp only [Nat.sub_self, interpNth] at hf
  obtain ⟨lv0, hlv0, _⟩ := (bind_ok _ _ _).1 hf
  refine ⟨?_, ⟨lv0, hlv0⟩, ?_⟩
  · rw [List.getD_eq_getElem?_getD, List.getElem?_eq_getElem hlt] at hs
    rw [List.getElem?_eq_getElem hlt]
    simpa using hs
  · intro j f hj
    obtain ⟨g1, g2⟩ := h j f hj
    refine ⟨?_, ?_⟩
    · intro hjk
      rw [getD_set _ _ _ _ _ hlt]
      by_cases e : k = j
      · rw [if_pos e]
      · rw [if_neg e]; exact g1 (by omega)
    · intro hjk
      obtain ⟨gs, found', lv', gf, gp⟩ := g2 (by omega)
      rw [getD_set _ _ _ _ _ hlt, if_neg (by omega)]
      refine ⟨gs, found', lv', ?_, gp⟩
      have e : j - k = (j - (k + 1)) + 1 := by omega
      rw [e] at gf
      simpa only [interpNth] using gf

theorem PendT.fresh {ext : Ext} {xs : SVals} {sfs : Fields} {n : Nat} (hnd : (sfs.toList.map Field.name).Nodup)
    (h : ∀ (j : Nat) f, sfs.toList[j]? = some f → ∃ found lv,
      interpNth ext f.dataType f.nullable f.metadata (indexOfName (sfs.toList.map Field.name) f.name |>.getD 0) xs = .ok found ∧
      pickOne f.name f.nullable f.dataType f.metadata found = .ok lv) : PendT ext xs 0 (List.replicate n false) sfs := by
  intro j f hj
  refine ⟨fun h => absurd h (by omega), fun _ => ⟨getD_replicate_false _ _, ?_⟩⟩
  obtain ⟨found, lv, h1, h2⟩ := h j f hj
  have : indexOfName (sfs.toList.map Field.name) f.name = some j :=
    SaModel.Props.C11Front.indexOfName_of_get _ hnd f.name j (by simp [hj])
  rw [this] at h1
  exact ⟨found, lv, by simpa using h1, h2⟩

end SaModel.Build
