import SaModel.Lemmas.C01CompDefs
import SaModel.Lemmas.C01DefaultAt
/-
Completeness, non-recursive operations: `serialize_default` (k placeholders) and `serialize_none` succeed on every
builder whose schema supports them, at the cost of at most one unit of head room per call (none unless a union
receives the default: one row of its first real variant, repo fix 217d612).
-/
namespace SaModel.Build
open SaModel SaModel.Spec

theorem iter_total {α} (P : α → Prop) (f : α → R α) (hstep : ∀ a, P a → ∃ a', f a = .ok a' ∧ P a') :
    ∀ (k : Nat) (a : α), P a → ∃ a', iter k f a = .ok a' ∧ P a'
  | 0, a, h => ⟨a, rfl, h⟩
  | k + 1, a, h => by
    obtain ⟨a1, h1, hp1⟩ := hstep a h
    obtain ⟨a2, h2, hp2⟩ := iter_total P f hstep k a1 hp1
    refine ⟨a2, ?_, hp2⟩
    simp only [iter, h1, bind, Except.bind]
    exact h2

theorem lastNat_snoc (offs : List Int) (l : Int) : lastNat (offs ++ [l]) = l.toNat := by
  simp [lastNat]

theorem duplicateLast_total {offs : List Int} {l : Int} (h : offs.getLast? = some l) :
    duplicateLast offs = .ok (offs ++ [l]) := by
  simp [duplicateLast, h]

theorem lastNat_of_getLast {offs : List Int} {l : Int} (h : offs.getLast? = some l) : lastNat offs = l.toNat := by
  simp [lastNat, h]

/-- `k` times `duplicate_last` + validity default: succeeds on non-empty offsets and keeps the last offset -/
theorem iter_dup_total (k : Nat) (v : Validity) (offs : List Int) (hne : offs ≠ []) :
    ∃ v' offs', iter k (fun (s : Validity × List Int) => do
      let o ← duplicateLast s.2
      pure (setValidityDefault s.1 (s.2.length - 1), o)) (v, offs) = .ok (v', offs') ∧
      offs' ≠ [] ∧ lastNat offs' = lastNat offs := by
  have := iter_total (fun (s : Validity × List Int) => s.2 ≠ [] ∧ lastNat s.2 = lastNat offs)
    (fun (s : Validity × List Int) => do
      let o ← duplicateLast s.2
      pure (setValidityDefault s.1 (s.2.length - 1), o)) (by
    intro a ha
    obtain ⟨l, hl⟩ : ∃ l, a.2.getLast? = some l := by
      cases h : a.2.getLast? with
      | none => exact absurd (List.getLast?_eq_none_iff.1 h) ha.1
      | some l => exact ⟨l, rfl⟩
    refine ⟨(setValidityDefault a.1 (a.2.length - 1), a.2 ++ [l]), ?_, List.append_ne_nil_of_right_ne_nil _ (by simp), ?_⟩
    · exact (bind_ok _ _ _).2 ⟨a.2 ++ [l], duplicateLast_total hl, rfl⟩
    · show lastNat (a.2 ++ [l]) = lastNat offs
      rw [lastNat_snoc, ← ha.2, lastNat_of_getLast hl]) k (v, offs) ⟨hne, rfl⟩
  obtain ⟨⟨v', offs'⟩, h1, h2, h3⟩ := this
  exact ⟨v', offs', h1, h2, h3⟩

theorem iter_pure_total {α} (g : α → α) (k : Nat) (a : α) : ∃ a', iter k (fun s => (.ok (g s) : R α)) a = .ok a' := by
  obtain ⟨a', h, _⟩ := iter_total (fun _ => True) (fun s => (.ok (g s) : R α)) (fun a _ => ⟨g a, rfl, trivial⟩) k a trivial
  exact ⟨a', h⟩

theorem pushDefaultK_leaf (p : String) (kd : LeafKind) (v : Validity) (vals : List Int) (k : Nat) :
    ∃ v' vals', pushDefaultK (.leaf p kd v vals) k = .ok (.leaf p kd v' vals') := by
  obtain ⟨⟨v', vals'⟩, h⟩ := iter_pure_total (fun (s : Validity × List Int) => (setValidityDefault s.1 s.2.length, s.2 ++ [0])) k (v, vals)
  refine ⟨v', vals', ?_⟩
  simp only [pushDefaultK, h, bind, Except.bind]; rfl

theorem isIntLeaf_form {idx : B} (h : idx.isIntLeaf = true) : ∃ p t v vals, idx = .leaf p (.int t) v vals := by
  cases idx with
  | leaf p k v vals =>
    cases k with
    | int t => exact ⟨p, t, v, vals, rfl⟩
    | _ => simp [B.isIntLeaf] at h
  | _ => simp [B.isIntLeaf] at h

theorem OffsOK.ne_nil' {offs : List Int} {n : Nat} (h : OffsOK offs n) : offs ≠ [] := h.ne_nil

theorem ShapeU_length : ∀ (fs : BL) (ufs : UFields) (i : Nat), ShapeU fs ufs i → fs.length = UFields.length ufs
  | .nil, .nil, _, _ => rfl
  | .nil, .cons _ _ _, _, h => by simp [ShapeU] at h
  | .cons _ _ _, .nil, _, h => by simp [ShapeU] at h
  | .cons b m r, .cons tid (.mk _ _ _ _) rest, i, h => by
    simp only [ShapeU] at h
    simp only [BL.length, UFields.length, ShapeU_length r rest (i + 1) h.2.2]

/-- a builder is the `UnknownVariant` placeholder exactly when its field says so -/
theorem Shape_placeholder {b : B} {dt : DataType} {n : Bool} {md : Metadata} (h : Shape b dt n md) :
    b.isPlaceholder = isUnknownVariant dt md := by
  cases b with
  | null p len => simp only [Shape] at h; rw [h.1, h.2]; rfl
  | unknownVariant p => simp only [Shape] at h; rw [h.1, h.2]; rfl
  | leaf p k v vals =>
    simp only [Shape] at h
    cases dt <;> simp [kindOf] at h <;> rfl
  | bytes p ty v offs data => simp only [Shape] at h; rw [h.1]; cases ty <;> rfl
  | bytesView p ty v views buf => simp only [Shape] at h; rw [h.1]; cases ty <;> rfl
  | fixedSizeBinary p k len v buf cur => simp only [Shape] at h; rw [h.1]; rfl
  | list p large fm v offs el =>
    simp only [Shape] at h
    obtain ⟨_, cname, cdt, cn, cmd, rfl, _⟩ := h
    cases large <;> rfl
  | fixedSizeList p fm k len v cur el =>
    simp only [Shape] at h
    obtain ⟨_, cname, cdt, cn, cmd, rfl, _⟩ := h
    rfl
  | map p mm v offs ks vs =>
    simp only [Shape] at h
    obtain ⟨_, ename, kn, kdt, knl, kmd, vn, vdt, vnl, vmd, rest, en, emd, sorted, rfl, _⟩ := h
    rfl
  | struct p len v fs cached next seen =>
    simp only [Shape] at h
    obtain ⟨_, sfs, rfl, _⟩ := h
    rfl
  | dictionary p idx vals index =>
    simp only [Shape] at h
    obtain ⟨⟨kdt, vdt, rfl, hsv⟩, _⟩ := h
    rfl
  | union p fs types offs cur =>
    simp only [Shape] at h
    obtain ⟨ufs, mode, rfl, _⟩ := h
    rfl

/-- an unchanged head room, in the two forms the default lemmas return -/
theorem room_both {r r' k : Nat} {P : Prop} (h : r' = r) : r ≤ r' + k ∧ (P → r' = r) := ⟨by omega, fun _ => h⟩

theorem room_le1 {r r' : Nat} (h : r' = r) : r ≤ r' + 1 := by omega

/-- the first real variant has a row counter -/
theorem firstReal?_cur {fs : BL} {cur : List Int} {j : Nat} (hw : WFU fs cur) (hj : firstReal? fs = some j) :
    ∃ cj, cur[j]? = some cj := by
  obtain ⟨c, m, hg, _⟩ := firstReal?_get fs j hj
  exact ⟨_, (WFU_get fs cur j _ hw hg).1⟩

/-- the union step of `k` defaults, given the children -/
theorem pushDefaultK_union_ok {p : String} {c : B} {m : FieldMeta} {rest : BL} {types offs cur : List Int} {k j : Nat}
    {fs' : BL} {cj : Int} (hj : firstReal? (.cons c m rest) = some j) (hj127 : j ≤ 127) (hcj : cur[j]? = some cj)
    (hat : pushDefaultKAt (.cons c m rest) j k = .ok fs') (hk : k ≤ curRoom cur) :
    pushDefaultK (.union p (.cons c m rest) types offs cur) k = .ok (.union p fs' (types ++ List.replicate k (j : Int))
      (offs ++ (List.range k).map (fun (i : Nat) => cj + (i : Int))) (cur.set j (cj + k))) := by
  have hfr : firstReal (.cons c m rest) = j := by simp only [firstReal, hj, Option.getD_some]
  have hgd : cur.getD j 0 = cj := by simp only [List.getD_eq_getElem?_getD, hcj, Option.getD_some]
  have h1 : ¬ (k ≠ 0 ∧ cj + 1 > 2147483647) := by
    intro ⟨hk0, h⟩
    exact curRoom_pos_get hcj (by omega) h
  have h2 : ¬ (k ≠ 0 ∧ j > 127) := by omega
  have h3 : ¬ (k ≠ 0 ∧ cj + (k : Int) > 2147483647) := by
    intro ⟨hk0, h⟩
    exact curRoom_le_get hcj hk hk0 h
  rw [pushDefaultK]
  simp only [ctx_ok, hfr, hgd, if_neg h1, if_neg h2]
  exact (bind_ok _ _ _).2 ⟨_, hat, by simp only [if_neg h3]; rfl⟩

mutual
/-- `k` defaults succeed on a builder whose type supports them and cost at most `k` units of head room — none when no
union receives them (`noDefU`); otherwise the `k` rows must fit (`k ≤ room b`) -/
theorem pushDefaultK_total : ∀ (b : B) (k : Nat) (dt : DataType) (n : Bool) (md : Metadata), WFB b → Shape b dt n md →
    defOK dt md = true → (noDefU dt = false → k ≤ room b) →
    ∃ b', pushDefaultK b k = .ok b' ∧ room b ≤ room b' + k ∧ (noDefU dt = true → room b' = room b)
  | .null p len, k, _, _, _, _, _, _, _ => ⟨_, rfl, room_both rfl⟩
  | .unknownVariant p, k, dt, n, md, _, hs, hd, _ => by
    simp only [Shape] at hs
    obtain ⟨rfl, hu⟩ := hs
    simp [defOK, hu] at hd
  | .leaf p kd v vals, k, _, _, _, _, _, _, _ => by
    obtain ⟨v', vals', h⟩ := pushDefaultK_leaf p kd v vals k
    exact ⟨_, h, room_both rfl⟩
  | .bytes p ty v offs data, k, _, _, _, hwf, _, _, _ => by
    simp only [WFB] at hwf
    obtain ⟨v', offs', h, _, hl⟩ := iter_dup_total k v offs hwf.1.ne_nil
    refine ⟨.bytes p ty v' offs' data, ?_, room_both (by simp only [room, hl])⟩
    simp only [pushDefaultK, ctx_ok]
    exact (bind_ok _ _ _).2 ⟨(v', offs'), h, rfl⟩
  | .bytesView p ty v views buf, k, _, _, _, _, _, _, _ => by
    obtain ⟨⟨v', views'⟩, h⟩ := iter_pure_total (fun (s : Validity × List Nat) => (setValidityDefault s.1 s.2.length, s.2 ++ [packInline []])) k (v, views)
    refine ⟨.bytesView p ty v' views' buf, ?_, room_both rfl⟩
    simp only [pushDefaultK, h, bind, Except.bind]; rfl
  | .fixedSizeBinary p m len v buf cur, k, _, _, _, _, _, _, _ => by
    obtain ⟨⟨len', v', buf'⟩, h⟩ := iter_pure_total (fun (s : Nat × Validity × Bytes) =>
      (s.1 + 1, setValidityDefault s.2.1 s.1, s.2.2 ++ List.replicate m 0)) k (len, v, buf)
    refine ⟨.fixedSizeBinary p m len' v' buf' cur, ?_, room_both rfl⟩
    simp only [pushDefaultK, h, bind, Except.bind]; rfl
  | .list p large fm v offs el, k, _, _, _, hwf, _, _, _ => by
    simp only [WFB] at hwf
    obtain ⟨v', offs', h, _, hl⟩ := iter_dup_total k v offs hwf.1.ne_nil
    refine ⟨.list p large fm v' offs' el, ?_, room_both (by simp only [room, hl])⟩
    simp only [pushDefaultK, ctx_ok]
    exact (bind_ok _ _ _).2 ⟨(v', offs'), h, rfl⟩
  | .fixedSizeList p fm m len v cur el, k, dt, n, md, hwf, hs, hd, hk => by
    simp only [WFB] at hwf
    simp only [Shape] at hs
    obtain ⟨_, cname, cdt, cn, cmd, rfl, hsel⟩ := hs
    simp only [defOK, defOKF, noDefUF, Bool.and_eq_true, Bool.or_eq_true, decide_eq_true_eq] at hd
    simp only [noDefU, noDefUF, room] at hk
    obtain ⟨⟨len', v'⟩, h⟩ := iter_pure_total (fun (s : Nat × Validity) => (s.1 + 1, setValidityDefault s.2 s.1)) k (len, v)
    cases hnd : noDefU cdt with
    | true =>
      obtain ⟨el', hel, _, hr⟩ := pushDefaultK_total el (k * m) cdt cn cmd hwf.2.2 hsel hd.1
        (fun h => by rw [hnd] at h; cases h)
      have hr := hr hnd
      refine ⟨.fixedSizeList p fm m len' v' cur el', ?_, room_both (by simp only [room, hr])⟩
      simp only [pushDefaultK, ctx_ok, h, hel, bind, Except.bind]; rfl
    | false =>
      -- a union below receives the defaults: the list has at most one element per row
      have hm : m ≤ 1 := by
        rcases hd.2 with h' | h'
        · omega
        · rw [hnd] at h'; cases h'
      have hkm : k * m ≤ k := by
        calc k * m ≤ k * 1 := Nat.mul_le_mul_left k hm
          _ = k := Nat.mul_one k
      have hk' := hk hnd
      obtain ⟨el', hel, hr, _⟩ := pushDefaultK_total el (k * m) cdt cn cmd hwf.2.2 hsel hd.1 (fun _ => by omega)
      refine ⟨.fixedSizeList p fm m len' v' cur el', ?_, by simp only [room]; omega,
        fun h' => by simp only [noDefU, noDefUF, hnd] at h'; cases h'⟩
      simp only [pushDefaultK, ctx_ok, h, hel, bind, Except.bind]; rfl
  | .map p mm v offs ks vs, k, _, _, _, hwf, _, _, _ => by
    simp only [WFB] at hwf
    obtain ⟨v', offs', h, _, hl⟩ := iter_dup_total k v offs hwf.1.ne_nil
    refine ⟨.map p mm v' offs' ks vs, ?_, room_both (by simp only [room, hl])⟩
    simp only [pushDefaultK, ctx_ok]
    exact (bind_ok _ _ _).2 ⟨(v', offs'), h, rfl⟩
  | .struct p len v fs cached next seen, k, dt, n, md, hwf, hs, hd, hk => by
    simp only [WFB] at hwf
    simp only [Shape] at hs
    obtain ⟨_, sfs, rfl, hsl⟩ := hs
    simp only [defOK] at hd
    simp only [noDefU, room] at hk
    obtain ⟨fs', hfs, hr, hr'⟩ := pushDefaultKAll_total fs k sfs len hwf.2.1 hsl hd hk
    obtain ⟨⟨len', v'⟩, h⟩ := iter_pure_total (fun (s : Nat × Validity) => (s.1 + 1, setValidityDefault s.2 s.1)) k (len, v)
    refine ⟨.struct p len' v' fs' cached next seen, ?_, by simp only [room]; exact hr, by simp only [room, noDefU]; exact hr'⟩
    simp only [pushDefaultK, ctx_ok, h, hfs, bind, Except.bind]; rfl
  | .dictionary p idx vals index, k, dt, n, md, _, hs, _, _ => by
    simp only [Shape] at hs
    obtain ⟨_, hil, _, _⟩ := hs
    obtain ⟨p', t, v, vals', rfl⟩ := isIntLeaf_form hil
    obtain ⟨v', vals'', h⟩ := pushDefaultK_leaf p' (.int t) v vals' k
    refine ⟨.dictionary p (.leaf p' (.int t) v' vals'') vals index, ?_, room_both (by simp only [room, keyRoom])⟩
    rw [pushDefaultK]
    simp only [ctx_ok]
    exact (bind_ok _ _ _).2 ⟨_, h, rfl⟩
  | .union p .nil types offs cur, k, dt, n, md, _, hs, hd, _ => by
    simp only [Shape] at hs
    obtain ⟨ufs, mode, rfl, hsu⟩ := hs
    cases ufs with
    | nil => simp [defOK, defOKFirst] at hd
    | cons _ _ _ => simp [ShapeU] at hsu
  | .union p (.cons c m rest) types offs cur, k, dt, n, md, hwf, hs, hd, hk => by
    simp only [WFB] at hwf
    simp only [Shape] at hs
    obtain ⟨ufs, mode, rfl, hsu⟩ := hs
    simp only [defOK, Bool.and_eq_true, decide_eq_true_eq] at hd
    have hk := hk rfl
    simp only [room] at hk
    obtain ⟨j, fs', hj, hat, hroom⟩ := pushDefaultK_total_first (.cons c m rest) k ufs 0 cur hwf.2.2.1 hsu hd.2 (by omega)
    have hj127 : j ≤ 127 := by
      obtain ⟨cj, mj, hg, _⟩ := firstReal?_get _ j hj
      have h1 := BL.get?_lt _ _ _ hg
      have h2 := ShapeU_length _ _ _ hsu
      omega
    obtain ⟨cj, hcj⟩ := firstReal?_cur hwf.2.2.1 hj
    refine ⟨_, pushDefaultK_union_ok hj hj127 hcj hat (by omega), ?_, fun h => by simp [noDefU] at h⟩
    have := curRoom_setK cur j cj k hcj
    simp only [room]
    omega
theorem pushDefaultKAll_total : ∀ (fs : BL) (k : Nat) (sfs : Fields) (len : Nat), WFL fs len → ShapeL fs sfs →
    defOKFs sfs = true → (noDefUFs sfs = false → k ≤ roomL fs) →
    ∃ fs', pushDefaultKAll fs k = .ok fs' ∧ roomL fs ≤ roomL fs' + k ∧ (noDefUFs sfs = true → roomL fs' = roomL fs)
  | .nil, _, _, _, _, _, _, _ => ⟨.nil, rfl, room_both rfl⟩
  | .cons b m r, k, .cons (.mk fname fdt fn fmd) rest, len, hwf, hs, hd, hk => by
    simp only [WFL] at hwf
    simp only [ShapeL] at hs
    simp only [defOKFs, defOKF, Bool.and_eq_true] at hd
    simp only [noDefUFs, noDefUF, roomL, Bool.and_eq_false_iff] at hk
    obtain ⟨b', hb, hr, hre⟩ := pushDefaultK_total b k fdt fn fmd hwf.1 hs.2.2.1 hd.1 (fun h => by have := hk (.inl h); omega)
    obtain ⟨r', hrest, hr', hre'⟩ := pushDefaultKAll_total r k rest len hwf.2.2 hs.2.2.2 hd.2 (fun h => by have := hk (.inr h); omega)
    refine ⟨.cons b' m r', ?_, by simp only [roomL]; omega, fun h => ?_⟩
    · simp only [pushDefaultKAll, hb, hrest, bind, Except.bind]; rfl
    · simp only [noDefUFs, noDefUF, Bool.and_eq_true] at h
      simp only [roomL, hre h.1, hre' h.2]
  | .cons _ _ _, _, .nil, _, _, hs, _, _ => by simp [ShapeL] at hs
/-- the union step: some variant is not a placeholder, and `k` placeholders go into the first such -/
theorem pushDefaultK_total_first : ∀ (fs : BL) (k : Nat) (ufs : UFields) (i : Nat) (cur : List Int), WFU fs cur →
    ShapeU fs ufs i → defOKFirst ufs = true → k ≤ roomL fs →
    ∃ j fs', firstReal? fs = some j ∧ pushDefaultKAt fs j k = .ok fs' ∧ roomL fs ≤ roomL fs' + k
  | .nil, _, .nil, _, _, _, _, hd, _ => by simp [defOKFirst] at hd
  | .nil, _, .cons _ _ _, _, _, _, hs, _, _ => by simp [ShapeU] at hs
  | .cons _ _ _, _, .nil, _, _, _, hs, _, _ => by simp [ShapeU] at hs
  | .cons b m r, k, .cons tid (.mk fname fdt fn fmd) rest, i, cur, hwf, hs, hd, hk => by
    simp only [WFU] at hwf
    simp only [ShapeU] at hs
    simp only [roomL] at hk
    have hp := Shape_placeholder hs.2.1
    simp only [defOKFirst, isPlaceholderF, ← hp] at hd
    cases hb : b.isPlaceholder with
    | true =>
      rw [hb] at hd; simp only [if_true] at hd
      obtain ⟨j, r', hj, hr, hroom⟩ := pushDefaultK_total_first r k rest (i + 1) cur.tail hwf.2.2 hs.2.2 hd (by omega)
      refine ⟨j + 1, .cons b m r', by simp [firstReal?, hb, hj], ?_, by simp only [roomL]; omega⟩
      simp only [pushDefaultKAt, hr, bind, Except.bind]; rfl
    | false =>
      rw [hb] at hd; simp only [Bool.false_eq_true, if_false, defOKF] at hd
      obtain ⟨b', hb', hr, _⟩ := pushDefaultK_total b k fdt fn fmd hwf.1 hs.2.1 hd (fun _ => by omega)
      refine ⟨0, .cons b' m r, by simp [firstReal?, hb], ?_, by simp only [roomL]; omega⟩
      simp only [pushDefaultKAt, hb', bind, Except.bind]; rfl
end

/-! ### `serialize_none` -/

theorem interpNull_nullable {dt : DataType} {n : Bool} {md : Metadata} {lv : LVal} (h : interpNull dt n md = .ok lv)
    (hd : dt ≠ .null) : n = true := by
  unfold interpNull at h
  split at h
  · simp [fail] at h
  · cases n
    · cases dt <;> simp [fail] at h <;> exact absurd rfl hd
    · rfl

theorem setValidity_false_total {v : Validity} (h : v.isSome = true) (i : Nat) : ∃ v', setValidity v i false = .ok v' := by
  cases v with
  | none => simp at h
  | some bits => exact ⟨_, rfl⟩

theorem bytesDT_ne_null (ty : BytesTy) : bytesDT ty ≠ .null := by cases ty <;> simp [bytesDT]
theorem viewDT_ne_null (ty : ViewTy) : viewDT ty ≠ .null := by cases ty <;> simp [viewDT]
theorem kindOf_ne_null {dt : DataType} {k : LeafKind} (h : kindOf dt = some k) : dt ≠ .null := by
  intro hd; subst hd; simp [kindOf] at h

theorem pushNone_complete : ∀ (b : B) (dt : DataType) (n : Bool) (md : Metadata) (lv : LVal), WFB b → Shape b dt n md →
    total dt n md = true → interpNull dt n md = .ok lv → 1 ≤ room b → ∃ b', pushNone b = .ok b' ∧ room b ≤ room b' + 1
  | .null p len, _, _, _, _, _, _, _, _, _ => ⟨_, rfl, room_le1 rfl⟩
  | .unknownVariant p, dt, n, md, lv, _, hs, _, hi, hk => by
    simp only [Shape] at hs
    obtain ⟨rfl, hu⟩ := hs
    simp [interpNull, hu, fail] at hi
  | .leaf p k v vals, dt, n, md, lv, _, hs, _, hi, hk => by
    simp only [Shape] at hs
    have hn := interpNull_nullable hi (kindOf_ne_null hs.1)
    obtain ⟨v', hv⟩ := setValidity_false_total (hs.2.trans hn) vals.length
    refine ⟨.leaf p k v' (vals ++ [0]), ?_, room_le1 rfl⟩
    simp only [pushNone, ctx_ok]
    exact (bind_ok _ _ _).2 ⟨_, hv, rfl⟩
  | .bytes p ty v offs data, dt, n, md, lv, hwf, hs, _, hi, hk => by
    simp only [Shape] at hs
    simp only [WFB] at hwf
    have hn := interpNull_nullable hi (hs.1 ▸ bytesDT_ne_null ty)
    obtain ⟨v', hv⟩ := setValidity_false_total (hs.2.trans hn) (offs.length - 1)
    refine ⟨.bytes p ty v' (offs ++ [(data.length : Int)]) data, ?_, room_le1 (by simp only [room, lastNat_snoc, lastNat_of_getLast hwf.1.2.1])⟩
    simp only [pushNone, ctx_ok]
    exact (bind_ok _ _ _).2 ⟨_, hv, (bind_ok _ _ _).2 ⟨_, duplicateLast_total hwf.1.2.1, rfl⟩⟩
  | .bytesView p ty v views buf, dt, n, md, lv, _, hs, _, hi, hk => by
    simp only [Shape] at hs
    have hn := interpNull_nullable hi (hs.1 ▸ viewDT_ne_null ty)
    obtain ⟨v', hv⟩ := setValidity_false_total (hs.2.trans hn) views.length
    refine ⟨.bytesView p ty v' (views ++ [packInline []]) buf, ?_, room_le1 rfl⟩
    simp only [pushNone, ctx_ok]
    exact (bind_ok _ _ _).2 ⟨_, hv, rfl⟩
  | .fixedSizeBinary p m len v buf cur, dt, n, md, lv, _, hs, _, hi, hk => by
    simp only [Shape] at hs
    have hn := interpNull_nullable hi (by rw [hs.1]; simp)
    obtain ⟨v', hv⟩ := setValidity_false_total (hs.2.trans hn) len
    refine ⟨.fixedSizeBinary p m (len + 1) v' (buf ++ List.replicate m 0) cur, ?_, room_le1 rfl⟩
    simp only [pushNone, ctx_ok]
    exact (bind_ok _ _ _).2 ⟨_, hv, rfl⟩
  | .list p large fm v offs el, dt, n, md, lv, hwf, hs, _, hi, hk => by
    simp only [Shape] at hs
    simp only [WFB] at hwf
    obtain ⟨hv0, cname, cdt, cn, cmd, rfl, _⟩ := hs
    have hn := interpNull_nullable hi (by cases large <;> simp)
    obtain ⟨v', hv⟩ := setValidity_false_total (hv0.trans hn) (offs.length - 1)
    refine ⟨.list p large fm v' (offs ++ [((dec el).length : Int)]) el, ?_, room_le1 (by simp only [room, lastNat_snoc, lastNat_of_getLast hwf.1.2.1])⟩
    simp only [pushNone, ctx_ok]
    exact (bind_ok _ _ _).2 ⟨_, hv, (bind_ok _ _ _).2 ⟨_, duplicateLast_total hwf.1.2.1, rfl⟩⟩
  | .fixedSizeList p fm m len v cur el, dt, n, md, lv, hwf, hs, ht, hi, hk => by
    simp only [Shape] at hs
    simp only [WFB] at hwf
    obtain ⟨hv0, cname, cdt, cn, cmd, rfl, hsel⟩ := hs
    have hn := interpNull_nullable hi (by simp)
    subst hn
    obtain ⟨v', hv⟩ := setValidity_false_total hv0 len
    simp only [total, totalF, defOKF, noDefUF, Bool.and_eq_true, Bool.not_true, Bool.false_or, Bool.or_eq_true,
      decide_eq_true_eq] at ht
    simp only [room] at hk
    have hm : noDefU cdt = false → m ≤ room el := by
      intro hnd
      rcases ht.2.2 with h' | h'
      · omega
      · rw [hnd] at h'; cases h'
    obtain ⟨el', hel, hr1, hr2⟩ := pushDefaultK_total el m cdt cn cmd hwf.2.2 hsel ht.2.1 hm
    have hr : room el ≤ room el' + 1 := by
      cases hnd : noDefU cdt with
      | true => rw [hr2 hnd]; omega
      | false =>
        rcases ht.2.2 with h' | h'
        · omega
        · rw [hnd] at h'; cases h'
    refine ⟨.fixedSizeList p fm m (len + 1) v' cur el', ?_, by simp only [room]; exact hr⟩
    simp only [pushNone, ctx_ok]
    exact (bind_ok _ _ _).2 ⟨_, hv, (bind_ok _ _ _).2 ⟨_, hel, rfl⟩⟩
  | .map p mm v offs ks vs, dt, n, md, lv, hwf, hs, _, hi, hk => by
    simp only [Shape] at hs
    simp only [WFB] at hwf
    obtain ⟨hv0, ename, kn, kdt, knl, kmd, vn, vdt, vnl, vmd, rest, en, emd, sorted, rfl, _, _⟩ := hs
    have hn := interpNull_nullable hi (by simp)
    obtain ⟨v', hv⟩ := setValidity_false_total (hv0.trans hn) (offs.length - 1)
    refine ⟨.map p mm v' (offs ++ [((dec ks).length : Int)]) ks vs, ?_, room_le1 (by simp only [room, lastNat_snoc, lastNat_of_getLast hwf.1.2.1])⟩
    simp only [pushNone, ctx_ok]
    exact (bind_ok _ _ _).2 ⟨_, hv, (bind_ok _ _ _).2 ⟨_, duplicateLast_total hwf.1.2.1, rfl⟩⟩
  | .struct p len v fs cached next seen, dt, n, md, lv, hwf, hs, ht, hi, hk => by
    simp only [Shape] at hs
    simp only [WFB] at hwf
    obtain ⟨hv0, sfs, rfl, hsl⟩ := hs
    have hn := interpNull_nullable hi (by simp)
    subst hn
    obtain ⟨v', hv⟩ := setValidity_false_total hv0 len
    simp only [total, Bool.and_eq_true, Bool.not_true, Bool.false_or] at ht
    simp only [room] at hk
    obtain ⟨fs', hfs, hr, _⟩ := pushDefaultKAll_total fs 1 sfs len hwf.2.1 hsl ht.2 (fun _ => hk)
    refine ⟨.struct p (len + 1) v' fs' cached next seen, ?_, by simp only [room]; exact hr⟩
    simp only [pushNone, ctx_ok]
    exact (bind_ok _ _ _).2 ⟨_, hv, (bind_ok _ _ _).2 ⟨_, hfs, rfl⟩⟩
  | .dictionary p idx vals index, dt, n, md, lv, _, hs, _, hi, hk => by
    simp only [Shape] at hs
    obtain ⟨⟨kdt, vdt, rfl, hsv⟩, hil, hnl, _⟩ := hs
    have hn := interpNull_nullable hi (by simp)
    obtain ⟨p', t, v, vals', rfl⟩ := isIntLeaf_form hil
    simp only [B.isNullable] at hnl
    obtain ⟨v', hv⟩ := setValidity_false_total (hnl.trans hn) vals'.length
    refine ⟨.dictionary p (.leaf p' (.int t) v' (vals' ++ [0])) vals index, ?_, room_le1 (by simp only [room, keyRoom])⟩
    rw [pushNone]
    simp only [ctx_ok]
    rw [if_neg (by simp only [B.isNullable, hnl.trans hn]; decide)]
    refine (bind_ok _ _ _).2 ⟨_, ?_, rfl⟩
    simp only [pushNone, ctx_ok]
    exact (bind_ok _ _ _).2 ⟨_, hv, rfl⟩
  | .union p fs types offs cur, dt, n, md, lv, _, hs, _, hi, hk => by
    simp only [Shape] at hs
    obtain ⟨ufs, mode, rfl, _⟩ := hs
    simp [interpNull, isUnknownVariant, fail] at hi

end SaModel.Build
