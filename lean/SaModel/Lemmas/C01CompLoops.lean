import SaModel.Lemmas.C01CompFields
/-
Completeness: what the mutual recursion proves for each element / field loop (`…Loop`), and the value-level
consequences that do not need the recursion any more (sequences, records, union variants).
-/
namespace SaModel.Build
open SaModel SaModel.Spec

/-- the statement of completeness for one value -/
def Comp (ext : Ext) (x : SVal) : Prop :=
  ∀ b dt n md lv, Good b dt n md → vsize ext x ≤ room b → interpDT ext dt n md x = .ok lv →
    ∃ b', push ext b x = .ok b' ∧ room b ≤ room b' + vsize ext x

def TupleLoop (ext : Ext) (xs : SVals) : Prop :=
  ∀ fs0 s adds sfs, Mid fs0 s adds → ShapeL s.fields sfs → totalFs sfs = true → vsizes ext xs ≤ roomL s.fields →
    PendT ext xs s.next s.seen sfs →
    ∃ s', pushTupleElems ext s xs = .ok s' ∧ EndOK s'.seen sfs ∧ roomL s.fields ≤ roomL s'.fields + vsizes ext xs

def FieldsLoop (ext : Ext) (fields : SFields) : Prop :=
  ∀ fs0 s adds sfs, Mid fs0 s adds → ShapeL s.fields sfs → totalFs sfs = true → vsizef ext fields ≤ roomL s.fields →
    PendN (fun f => interpByName ext f.name f.dataType f.nullable f.metadata fields) s.seen sfs →
    ∃ s', pushFields ext s fields = .ok s' ∧ EndOK s'.seen sfs ∧ roomL s.fields ≤ roomL s'.fields + vsizef ext fields

def EntriesLoop (ext : Ext) (es : SEntries) : Prop :=
  ∀ fs0 s adds sfs, Mid fs0 s adds → ShapeL s.fields sfs → totalFs sfs = true → vsizee ext es ≤ roomL s.fields →
    keysAreStrings es = .ok () →
    PendN (fun f => interpByKey ext f.name f.dataType f.nullable f.metadata es) s.seen sfs →
    ∃ s', pushStructEntries ext s es = .ok s' ∧ EndOK s'.seen sfs ∧ roomL s.fields ≤ roomL s'.fields + vsizee ext es

theorem TupleLoop.comp {ext : Ext} {xs : SVals} (h : TupleLoop ext xs) : ∀ sfs, totalFs sfs = true →
    FieldsComp sfs (fun f => interpNth ext f.dataType f.nullable f.metadata
      (indexOfName (sfs.toList.map Field.name) f.name |>.getD 0) xs) (vsizes ext xs) (fun s => pushTupleElems ext s xs) := by
  intro sfs ht fs0 s adds hm hsl hn0 hseen hcost hcol
  have hnd : (sfs.toList.map Field.name).Nodup := by rw [← ShapeL.names _ _ hsl]; exact hm.nodup
  exact h fs0 s adds sfs hm hsl ht hcost (by rw [hn0, hseen]; exact PendT.fresh hnd hcol)

theorem FieldsLoop.comp {ext : Ext} {fields : SFields} (h : FieldsLoop ext fields) : ∀ sfs, totalFs sfs = true →
    FieldsComp sfs (fun f => interpByName ext f.name f.dataType f.nullable f.metadata fields) (vsizef ext fields)
      (fun s => pushFields ext s fields) := by
  intro sfs ht fs0 s adds hm hsl _ hseen hcost hcol
  exact h fs0 s adds sfs hm hsl ht hcost (by rw [hseen]; exact PendN.fresh hcol)

theorem EntriesLoop.comp {ext : Ext} {es : SEntries} (h : EntriesLoop ext es) (hk : keysAreStrings es = .ok ()) :
    ∀ sfs, totalFs sfs = true →
    FieldsComp sfs (fun f => interpByKey ext f.name f.dataType f.nullable f.metadata es) (vsizee ext es)
      (fun s => pushStructEntries ext { s with next := UNKNOWN_KEY } es) := by
  intro sfs ht fs0 s adds hm hsl _ hseen hcost hcol
  exact h fs0 _ adds sfs (hm.next UNKNOWN_KEY) hsl ht hcost hk (by simp only; rw [hseen]; exact PendN.fresh hcol)

/-! ### builders of a given type -/

theorem Shape_struct_form {b : B} {sfs : Fields} {n : Bool} {md : Metadata} (h : Shape b (.struct sfs) n md) :
    ∃ p len v fs cached next seen, b = .struct p len v fs cached next seen := by
  cases b with
  | struct p len v fs cached next seen => exact ⟨_, _, _, _, _, _, _, rfl⟩
  | bytes _ ty _ _ _ => cases ty <;> simp [Shape, bytesDT] at h
  | bytesView _ ty _ _ _ => cases ty <;> simp [Shape, viewDT] at h
  | list _ large _ _ _ _ => cases large <;> simp [Shape] at h
  | _ => simp [Shape, kindOf] at h

theorem Shape_union_form {b : B} {ufs : UFields} {mode : UnionMode} {n : Bool} {md : Metadata}
    (h : Shape b (.union ufs mode) n md) : ∃ p fs t o c, b = .union p fs t o c := by
  cases b with
  | union p fs t o c => exact ⟨_, _, _, _, _, rfl⟩
  | bytes _ ty _ _ _ => cases ty <;> simp [Shape, bytesDT] at h
  | bytesView _ ty _ _ _ => cases ty <;> simp [Shape, viewDT] at h
  | list _ large _ _ _ _ => cases large <;> simp [Shape] at h
  | _ => simp [Shape, kindOf] at h

theorem Shape_map_form {b : B} {f : Field} {sorted : Bool} {n : Bool} {md : Metadata}
    (h : Shape b (.map f sorted) n md) : ∃ p mm v offs ks vs, b = .map p mm v offs ks vs := by
  cases b with
  | map p mm v offs ks vs => exact ⟨_, _, _, _, _, _, rfl⟩
  | bytes _ ty _ _ _ => cases ty <;> simp [Shape, bytesDT] at h
  | bytesView _ ty _ _ _ => cases ty <;> simp [Shape, viewDT] at h
  | list _ large _ _ _ _ => cases large <;> simp [Shape] at h
  | _ => simp [Shape, kindOf] at h

theorem Shape_list_form {b : B} {f : Field} {n : Bool} {md : Metadata}
    (h : Shape b (.list f) n md ∨ Shape b (.largeList f) n md) : ∃ p large fm v offs el, b = .list p large fm v offs el := by
  cases b with
  | list p large fm v offs el => exact ⟨_, _, _, _, _, _, rfl⟩
  | bytes _ ty _ _ _ => cases ty <;> simp [Shape, bytesDT] at h
  | bytesView _ ty _ _ _ => cases ty <;> simp [Shape, viewDT] at h
  | _ => simp [Shape, kindOf] at h

theorem Shape_not_list {b : B} {dt : DataType} {n : Bool} {md : Metadata} (h : Shape b dt n md)
    (hb : ∀ p large fm v offs el, b ≠ .list p large fm v offs el) : (∀ f, dt ≠ .list f) ∧ (∀ f, dt ≠ .largeList f) := by
  refine ⟨fun f hd => ?_, fun f hd => ?_⟩ <;> subst hd
  · obtain ⟨p, large, fm, v, offs, el, rfl⟩ := Shape_list_form (Or.inl h); exact hb _ _ _ _ _ _ rfl
  · obtain ⟨p, large, fm, v, offs, el, rfl⟩ := Shape_list_form (Or.inr h); exact hb _ _ _ _ _ _ rfl

theorem Shape_not_union {b : B} {dt : DataType} {n : Bool} {md : Metadata} (h : Shape b dt n md)
    (hb : ∀ p fs t o c, b ≠ .union p fs t o c) : ∀ ufs mode, dt ≠ .union ufs mode := by
  intro ufs mode hd; subst hd
  obtain ⟨p, fs, t, o, c, rfl⟩ := Shape_union_form h
  exact hb _ _ _ _ _ rfl

/-! ### the specification at scalar-like values -/

theorem interpDT_bytes_nonlist (ext : Ext) {dt : DataType} (n : Bool) (md : Metadata) (bs : Bytes)
    (h1 : ∀ f, dt ≠ .list f) (h2 : ∀ f, dt ≠ .largeList f) :
    interpDT ext dt n md (.bytes bs) =
      if isUnknownVariant dt md then fail "unknown variant" else interpScalar ext dt (.bytes bs) := by
  cases dt <;> simp only [interpDT]
  · exact absurd rfl (h1 _)
  · exact absurd rfl (h2 _)

theorem interpDT_unitVariant_nonunion (ext : Ext) {dt : DataType} (n : Bool) (md : Metadata) (a : String) (i : Nat)
    (vn : String) (h : ∀ ufs mode, dt ≠ .union ufs mode) :
    interpDT ext dt n md (.unitVariant a i vn) = interpScalar ext dt (.unitVariant a i vn) := by
  cases dt <;> simp only [interpDT]
  exact absurd rfl (h _ _)

theorem interpScalar_known {ext : Ext} {dt : DataType} {x : SVal} {lv : LVal} (md : Metadata)
    (h : interpScalar ext dt x = .ok lv) (hx : ∀ nm, x ≠ .unitStruct nm) : isUnknownVariant dt md = false := by
  cases dt <;> simp only [isUnknownVariant]
  cases x <;> simp [interpScalar_eq_old, normErr_ok_iff, interpScalarOld, fail] at h
  exact absurd rfl (hx _)

theorem scalarValue_complete {ext : Ext} {x : SVal} {b : B} {dt : DataType} {n : Bool} {md : Metadata} {lv : LVal}
    (hg : Good b dt n md) (hr : vsize ext x ≤ room b)
    (hi : (if isUnknownVariant dt md then fail "unknown variant" else interpScalar ext dt x) = .ok lv) :
    ∃ b', ctx b.ann (pushScalar ext b x) = .ok b' ∧ room b ≤ room b' + vsize ext x := by
  by_cases hu : isUnknownVariant dt md = true
  · simp [hu, fail] at hi
  · simp only [hu, Bool.false_eq_true, if_false] at hi
    obtain ⟨b', h1, h2⟩ := pushScalar_complete ext b x dt n md lv hg.wf hg.shape (by simpa using hu) hr hi
    exact ⟨b', (ctx_ok _ _ _).2 h1, h2⟩

/-! ### sequences and records as values -/

theorem seqValue_complete {ext : Ext} {xs : SVals} (hraw : noRaws xs = true)
    (hpe : ElemsComp ext xs (fun large el offs => pushElems ext large el offs xs))
    (hpc : CountComp ext xs (fun el c => pushCountElems ext el c xs)) (hpt : TupleLoop ext xs)
    (b : B) (k : SeqKind) (dt : DataType) (n : Bool) (md : Metadata) (lv : LVal)
    (hg : Good b dt n md) (hr : vsizes ext xs + 1 ≤ room b) (hi : seqSpec ext (k != .seq) dt md xs = .ok lv) :
    ∃ b', seqLikeWith (fun large el offs => pushElems ext large el offs xs) (fun el c => pushCountElems ext el c xs)
      (fun s => pushTupleElems ext s xs) (u8All xs) b k = .ok b' ∧ room b ≤ room b' + (vsizes ext xs + 1) :=
  seqLike_complete hpe hpc (pushTupleElems_appends ext xs)
    (fun s1 s2 hp => pushTupleElems_takeRest ext xs s1 s2 hp) hpt.comp b k dt n md lv hg hr hi

theorem recordValue_complete {ext : Ext} {fields : SFields} (hraw : noRawf fields = true) (hpf : FieldsLoop ext fields)
    {b : B} {sfs : Fields} {n : Bool} {md : Metadata} {lv : LVal}
    (hg : Good b (.struct sfs) n md) (hr : vsizef ext fields + 1 ≤ room b)
    (hi : structOf sfs.toList (fun f => interpByName ext f.name f.dataType f.nullable f.metadata fields) = .ok lv) :
    ∃ b', recordWith (fun s => pushFields ext s fields) b = .ok b' ∧ room b ≤ room b' + (vsizef ext fields + 1) := by
  obtain ⟨p, len, v, fs, cached, next, seen, rfl⟩ := Shape_struct_form hg.shape
  have ht := hg.tot
  simp only [total, Bool.and_eq_true] at ht
  simp only [room] at hr
  obtain ⟨b', hb', hroom⟩ := record_complete hg (pushFields_appends ext fields)
    (fun s1 s2 hp => pushFields_takeRest ext fields s1 s2 hp) (hpf.comp sfs ht.1) (by omega) hi
  exact ⟨b', by simpa only [recordWith] using hb', by simp only [room]; omega⟩

/-- a tuple variant's payload at the variant's field: the specification is `seqSpec` of that field -/
theorem interpDT_tupleVariant_inv {ext : Ext} {ufs : UFields} {mode : UnionMode} {n : Bool} {md : Metadata} {a : String}
    {i : Nat} {vn : String} {xs : SVals} {tid : Int} {nm : String} {cdt : DataType} {cn : Bool} {cmd : Metadata} {lv : LVal}
    (hufs : ufs.toList[i]? = some (tid, .mk nm cdt cn cmd))
    (h : interpDT ext (.union ufs mode) n md (.tupleVariant a i vn xs) = .ok lv) :
    ∃ lvc, seqSpec ext true cdt cmd xs = .ok lvc := by
  simp only [interpDT, hufs] at h
  unfold seqSpec
  by_cases hu : isUnknownVariant cdt cmd = true
  · simp [hu, fail] at h
  · simp only [hu, Bool.false_eq_true, if_false] at h ⊢
    cases cdt
    case struct cfs =>
      simp only [if_true] at h ⊢
      obtain ⟨lvc, h1, _⟩ := (bind_ok _ _ _).1 h
      exact ⟨lvc, h1⟩
    case list f =>
      cases f
      simp only at h ⊢
      obtain ⟨ls, h1, _⟩ := (bind_ok _ _ _).1 h
      exact ⟨_, (bind_ok _ _ _).2 ⟨ls, h1, rfl⟩⟩
    case largeList f =>
      cases f
      simp only at h ⊢
      obtain ⟨ls, h1, _⟩ := (bind_ok _ _ _).1 h
      exact ⟨_, (bind_ok _ _ _).2 ⟨ls, h1, rfl⟩⟩
    case fixedSizeList f k =>
      cases f
      simp only at h ⊢
      obtain ⟨ls, h1, h⟩ := (bind_ok _ _ _).1 h
      by_cases hk : (ls.length : Int) = k
      · exact ⟨_, (bind_ok _ _ _).2 ⟨ls, h1, by simp [hk]; rfl⟩⟩
      · simp [hk, fail] at h
    case binary =>
      simp only at h ⊢
      obtain ⟨bs, h1, _⟩ := (bind_ok _ _ _).1 h
      exact ⟨_, (bind_ok _ _ _).2 ⟨bs, h1, rfl⟩⟩
    case largeBinary =>
      simp only at h ⊢
      obtain ⟨bs, h1, _⟩ := (bind_ok _ _ _).1 h
      exact ⟨_, (bind_ok _ _ _).2 ⟨bs, h1, rfl⟩⟩
    case binaryView =>
      simp only at h ⊢
      obtain ⟨bs, h1, _⟩ := (bind_ok _ _ _).1 h
      exact ⟨_, (bind_ok _ _ _).2 ⟨bs, h1, rfl⟩⟩
    case fixedSizeBinary k =>
      simp only at h ⊢
      obtain ⟨bs, h1, h⟩ := (bind_ok _ _ _).1 h
      by_cases hk : (bs.length : Int) = k
      · exact ⟨_, (bind_ok _ _ _).2 ⟨bs, h1, by simp [hk]; rfl⟩⟩
      · simp [hk, fail] at h
    all_goals (simp only [fail] at h; cases h)

end SaModel.Build
