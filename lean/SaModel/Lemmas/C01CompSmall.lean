import SaModel.Lemmas.C01Comp
/-
`small_NoCap`: the head room in closed form.  `used b` is the largest capacity-limited counter of the builder tree
(last offsets, view-buffer lengths, per-variant row counters of unions), `keysRoom b` the least number of free dictionary keys; `room b` is exactly
`min (2^31 - 1 - used b) (keysRoom b)`.
-/
namespace SaModel.Build
open SaModel SaModel.Spec

/-- the largest per-variant row counter of a union (`current_offset`) -/
def curUsed : List Int → Nat
  | [] => 0
  | co :: r => max co.toNat (curUsed r)

theorem curRoom_eq : ∀ (cur : List Int), curRoom cur = LIM - curUsed cur
  | [] => rfl
  | co :: r => by simp only [curRoom, curUsed, curRoom_eq r]; omega

theorem curUsed_zeros : ∀ (n : Nat), curUsed (List.replicate n 0) = 0
  | 0 => rfl
  | n + 1 => by simp only [List.replicate_succ, curUsed, curUsed_zeros n]; rfl

mutual
/-- the largest counter a capacity check looks at (offsets: bytes / list / map; view buffers; union row counters) -/
def used : B → Nat
  | .bytes _ _ _ offs _ => lastNat offs
  | .bytesView _ _ _ _ buf => buf.length
  | .list _ _ _ _ offs el => max (lastNat offs) (used el)
  | .fixedSizeList _ _ _ _ _ _ el => used el
  | .map _ _ _ offs ks vs => max (lastNat offs) (max (used ks) (used vs))
  | .struct _ _ _ fs _ _ _ => usedL fs
  | .dictionary _ _ vals _ => used vals
  | .union _ fs _ _ cur => max (curUsed cur) (usedL fs)
  | _ => 0
def usedL : BL → Nat
  | .nil => 0
  | .cons b _ r => max (used b) (usedL r)
end

mutual
/-- the least number of values a dictionary in the builder tree can still take before its key type overflows -/
def keysRoom : B → Nat
  | .list _ _ _ _ _ el => keysRoom el
  | .fixedSizeList _ _ _ _ _ _ el => keysRoom el
  | .map _ _ _ _ ks vs => min (keysRoom ks) (keysRoom vs)
  | .struct _ _ _ fs _ _ _ => keysRoomL fs
  | .dictionary _ idx vals index => min (keyRoom idx index.length) (keysRoom vals)
  | .union _ fs _ _ _ => keysRoomL fs
  | _ => LIM
def keysRoomL : BL → Nat
  | .nil => LIM
  | .cons b _ r => min (keysRoom b) (keysRoomL r)
end

mutual
theorem room_eq : ∀ (b : B), room b = min (LIM - used b) (keysRoom b)
  | .null _ _ => by simp [room, used, keysRoom]
  | .unknownVariant _ => by simp [room, used, keysRoom]
  | .leaf _ _ _ _ => by simp [room, used, keysRoom]
  | .bytes _ _ _ _ _ => by simp only [room, used, keysRoom]; omega
  | .bytesView _ _ _ _ _ => by simp only [room, used, keysRoom]; omega
  | .fixedSizeBinary _ _ _ _ _ _ => by simp [room, used, keysRoom]
  | .list _ _ _ _ _ el => by simp only [room, used, keysRoom, room_eq el]; omega
  | .fixedSizeList _ _ _ _ _ _ el => by simp only [room, used, keysRoom, room_eq el]
  | .map _ _ _ _ ks vs => by simp only [room, used, keysRoom, room_eq ks, room_eq vs]; omega
  | .struct _ _ _ fs _ _ _ => by simp only [room, used, keysRoom, roomL_eq fs]
  | .dictionary _ _ vals _ => by simp only [room, used, keysRoom, room_eq vals]; omega
  | .union _ fs _ _ cur => by simp only [room, used, keysRoom, roomL_eq fs, curRoom_eq cur]; omega
theorem roomL_eq : ∀ (fs : BL), roomL fs = min (LIM - usedL fs) (keysRoomL fs)
  | .nil => by simp [roomL, usedL, keysRoomL]
  | .cons b _ r => by simp only [roomL, usedL, keysRoomL, room_eq b, roomL_eq r]; omega
end

/-- every capacity-limited counter of the builder plus the size of the value stays within `i32::MAX`, and every
dictionary has that many free keys ⇒ no capacity check can refuse the value -/
theorem small_NoCap (ext : Ext) (b : B) (x : SVal) (h1 : used b + vsize ext x ≤ 2147483647)
    (h2 : vsize ext x ≤ keysRoom b) : NoCap ext b x := by
  unfold NoCap
  rw [room_eq]
  simp only [LIM]
  omega

end SaModel.Build
