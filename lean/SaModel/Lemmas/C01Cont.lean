import SaModel.Lemmas.C01Leaf
/-
Step lemmas of the container families with the children abstract: the child moved from `el` to `el'`
(`dec el' = dec el ++ ls`), the container's own bookkeeping (bit, offset, counters) moved accordingly —
then the container is well formed again and shows exactly the expected additional rows.
-/
namespace SaModel.Build
open SaModel SaModel.Spec

theorem maskNull_const_false (v : Validity) (k : Nat) (ys : List LVal) (hy : ys.length = k) :
    maskNull (v.map fun _ => List.replicate k false) ys = if v.isSome then List.replicate k LVal.null else ys := by
  cases v with
  | none => simp [maskNull]
  | some bits =>
    simp only [maskNull, Option.map_some, Option.isSome_some, if_true]
    subst hy
    induction ys with
    | nil => rfl
    | cons y ys ih => simp [List.replicate_succ, ih]

theorem maskNull_const_length (v : Validity) (bs : List Bool) (ys : List LVal) (hy : ys.length = bs.length) :
    (maskNull (v.map fun _ => bs) ys).length = ys.length := by
  cases v with
  | none => simp [maskNull]
  | some bits => simp [maskNull, hy]

theorem maskNull_const_one (v : Validity) (b : Bool) (y : LVal) :
    maskNull (v.map fun _ => [b]) [y] = [rowOf v b y] := by
  cases v with
  | none => simp [maskNull]
  | some bits => cases b <;> simp [maskNull, rowOf]

/-! ### list / large list -/

theorem list_step {p : String} {large : Bool} {fm : FieldMeta} {v : Validity} {offs : List Int} {el el' : B}
    (hwf : WFB (.list p large fm v offs el)) (b : Bool) (ls : List LVal) (hel : WFB el') (hdec : dec el' = dec el ++ ls) :
    WFB (.list p large fm (v.map (· ++ [b])) (offs ++ [((dec el).length : Int) + ls.length]) el') ∧
    dec (.list p large fm (v.map (· ++ [b])) (offs ++ [((dec el).length : Int) + ls.length]) el') =
      dec (.list p large fm v offs el) ++ [rowOf v b (.list (LVals.ofList ls))] := by
  simp only [WFB] at hwf
  obtain ⟨hoffs, hv, _⟩ := hwf
  have hpos := hoffs.length_pos
  have e : ((dec el).length : Int) + ls.length = (((dec el).length + ls.length : Nat) : Int) := by simp
  refine ⟨?_, ?_⟩
  · simp only [WFB, List.length_append, List.length_singleton, hdec]
    refine ⟨?_, ?_, hel⟩
    · rw [e]; exact hoffs.snoc ls.length
    · have := hv.snoc b
      have e2 : offs.length + 1 - 1 = offs.length - 1 + 1 := by omega
      rw [e2]; exact this
  · simp only [dec, hdec]
    rw [pairs_snoc hoffs.2.1, List.map_append, List.map_cons, List.map_nil]
    rw [map_pairs_stable hoffs (dec el) ls rfl (fun l => LVal.list (LVals.ofList l))]
    rw [e, sliceL_append_right (dec el) ls _ _ rfl rfl]
    exact maskNull_snoc (by simpa [pairs_length] using hv) b _

/-! ### fixed-size list -/

theorem fsl_append {p : String} {fm : FieldMeta} {n len : Nat} {v : Validity} {cur : Nat} {el el' : B}
    (hwf : WFB (.fixedSizeList p fm n len v cur el)) (bs : List Bool) (ls : List LVal) (cur' : Nat)
    (hel : WFB el') (hdec : dec el' = dec el ++ ls) (hls : ls.length = bs.length * n) :
    WFB (.fixedSizeList p fm n (len + bs.length) (v.map (· ++ bs)) cur' el') ∧
    dec (.fixedSizeList p fm n (len + bs.length) (v.map (· ++ bs)) cur' el') =
      dec (.fixedSizeList p fm n len v cur el) ++
        maskNull (v.map fun _ => bs) ((List.range bs.length).map fun i => .list (LVals.ofList ((ls.drop (i * n)).take n))) := by
  simp only [WFB] at hwf
  obtain ⟨hv, hlen, _⟩ := hwf
  refine ⟨?_, ?_⟩
  · simp only [WFB, hdec, List.length_append]
    exact ⟨hv.map_append bs, by rw [hlen, hls, Nat.add_mul], hel⟩
  · simp only [dec, hdec]
    rw [List.range_add, List.map_append, List.map_map]
    rw [range_map_stable (dec el) ls n len hlen (fun l => LVal.list (LVals.ofList l))]
    have : (List.range bs.length).map ((fun i => LVal.list (LVals.ofList (((dec el ++ ls).drop (i * n)).take n))) ∘ fun x => len + x)
        = (List.range bs.length).map fun i => LVal.list (LVals.ofList ((ls.drop (i * n)).take n)) := by
      apply List.map_congr_left
      intro i _
      simp only [Function.comp]
      have : (len + i) * n = (dec el).length + i * n := by rw [Nat.add_mul, hlen]
      rw [this, List.drop_append, List.drop_eq_nil_of_le (by omega)]
      simp
    rw [this]
    exact maskNull_append (by simpa using hv) bs _

theorem fsl_step {p : String} {fm : FieldMeta} {n len : Nat} {v : Validity} {cur : Nat} {el el' : B}
    (hwf : WFB (.fixedSizeList p fm n len v cur el)) (b : Bool) (ls : List LVal) (cur' : Nat)
    (hel : WFB el') (hdec : dec el' = dec el ++ ls) (hls : ls.length = n) :
    WFB (.fixedSizeList p fm n (len + 1) (v.map (· ++ [b])) cur' el') ∧
    dec (.fixedSizeList p fm n (len + 1) (v.map (· ++ [b])) cur' el') =
      dec (.fixedSizeList p fm n len v cur el) ++ [rowOf v b (.list (LVals.ofList ls))] := by
  subst hls
  have := fsl_append hwf [b] ls cur' hel hdec (by simp)
  simp only [List.length_singleton, List.range_one, List.map_cons, List.map_nil, Nat.zero_mul, List.drop_zero,
    maskNull_const_one, List.take_length] at this
  exact this

/-! ### map -/

theorem zip_sliceL_stable {offs : List Int} {n : Nat} (h : OffsOK offs n) (ks ws lk lw : List LVal)
    (hk : ks.length = n) (hw : ws.length = n) :
    (pairs offs).map (fun se => LVal.map (LEntries.ofList ((sliceL (ks ++ lk) se.1 se.2).zip (sliceL (ws ++ lw) se.1 se.2)))) =
    (pairs offs).map (fun se => LVal.map (LEntries.ofList ((sliceL ks se.1 se.2).zip (sliceL ws se.1 se.2)))) := by
  apply List.map_congr_left
  intro se hse
  have := h.le se.2 (mem_pairs hse).2
  rw [sliceL_append_left _ _ _ _ (by omega), sliceL_append_left _ _ _ _ (by omega)]

theorem map_step {p : String} {mm : MapMeta} {v : Validity} {offs : List Int} {ks vs ks' vs' : B}
    (hwf : WFB (.map p mm v offs ks vs)) (b : Bool) (lk lw : List LVal) (hks : WFB ks') (hvs : WFB vs')
    (hdk : dec ks' = dec ks ++ lk) (hdv : dec vs' = dec vs ++ lw) (hl : lw.length = lk.length) :
    WFB (.map p mm (v.map (· ++ [b])) (offs ++ [((dec ks).length : Int) + lk.length]) ks' vs') ∧
    dec (.map p mm (v.map (· ++ [b])) (offs ++ [((dec ks).length : Int) + lk.length]) ks' vs') =
      dec (.map p mm v offs ks vs) ++ [rowOf v b (.map (LEntries.ofList (lk.zip lw)))] := by
  simp only [WFB] at hwf
  obtain ⟨hoffs, hvk, hv, _, _⟩ := hwf
  have hpos := hoffs.length_pos
  have e : ((dec ks).length : Int) + lk.length = (((dec ks).length + lk.length : Nat) : Int) := by simp
  refine ⟨?_, ?_⟩
  · simp only [WFB, List.length_append, List.length_singleton, hdk, hdv]
    refine ⟨?_, by omega, ?_, hks, hvs⟩
    · rw [e]; exact hoffs.snoc lk.length
    · have := hv.snoc b
      have e2 : offs.length + 1 - 1 = offs.length - 1 + 1 := by omega
      rw [e2]; exact this
  · simp only [dec, hdk, hdv]
    rw [pairs_snoc hoffs.2.1, List.map_append, List.map_cons, List.map_nil]
    rw [zip_sliceL_stable hoffs (dec ks) (dec vs) lk lw rfl hvk]
    rw [e, sliceL_append_right (dec ks) lk _ _ rfl rfl]
    have : sliceL (dec vs ++ lw) ((dec ks).length : Int) (((dec ks).length + lk.length : Nat) : Int) = lw :=
      sliceL_append_right (dec vs) lw _ _ hvk hl
    rw [this]
    exact maskNull_snoc (by simpa [pairs_length] using hv) b _

/-! ### dictionary -/

def dictRow (vs : List LVal) (k : LVal) : LVal :=
  match k with
  | .int j => vs.getD j.toNat .null
  | _ => .null

theorem dec_dictionary (p : String) (idx vals : B) (index : List String) :
    dec (.dictionary p idx vals index) = (dec idx).map (dictRow (dec vals)) := by
  simp only [dec]
  apply List.map_congr_left
  intro k _
  cases k <;> rfl

theorem dictRow_append {vs : List LVal} (ws : List LVal) {k : LVal}
    (hk : ∀ j : Int, k = .int j → 0 ≤ j ∧ j.toNat < vs.length) : dictRow (vs ++ ws) k = dictRow vs k := by
  cases k with
  | int j =>
    have := (hk j rfl).2
    simp only [dictRow, List.getD_eq_getElem?_getD]
    rw [List.getElem?_append_left this]
  | _ => rfl

/-- a dictionary row: the keys grew by `lk`, the values by `lw`, the index by as many entries as the values -/
theorem dict_append {p : String} {idx vals idx' vals' : B} {index : List String}
    (hwf : WFB (.dictionary p idx vals index)) (lk lw : List LVal) (index' : List String)
    (hi : WFB idx') (hv : WFB vals') (hdi : dec idx' = dec idx ++ lk) (hdv : dec vals' = dec vals ++ lw)
    (hnd : (index ++ index').Nodup) (hlen : index'.length = lw.length)
    (hkeys : ∀ k ∈ lk, ∀ j : Int, k = .int j → 0 ≤ j ∧ j.toNat < index.length + index'.length)
    (hvals : DictVals vals' (index ++ index')) :
    WFB (.dictionary p idx' vals' (index ++ index')) ∧
    dec (.dictionary p idx' vals' (index ++ index')) =
      dec (.dictionary p idx vals index) ++ lk.map (dictRow (dec vals ++ lw)) := by
  simp only [WFB] at hwf
  obtain ⟨_, _, _, hvl, hk, _⟩ := hwf
  refine ⟨?_, ?_⟩
  · simp only [WFB, hdi, hdv, List.length_append]
    refine ⟨hi, hv, hnd, by omega, ?_, hvals⟩
    intro k hk' j hj
    rcases List.mem_append.1 hk' with h | h
    · have := hk k h j hj; omega
    · exact hkeys k h j hj
  · rw [dec_dictionary, dec_dictionary, hdi, hdv, List.map_append]
    congr 1
    apply List.map_congr_left
    intro k hk'
    exact dictRow_append lw (by intro j hj; have := hk k hk' j hj; omega)

theorem DictVals.of_wf {p : String} {idx vals : B} {index : List String} (h : WFB (.dictionary p idx vals index)) :
    DictVals vals index := by
  simp only [WFB] at h; exact h.2.2.2.2.2

/-! ### builder lists -/

theorem BL.length_set : ∀ (fs : BL) (i : Nat) (c : B), (fs.set i c).length = fs.length
  | .nil, _, _ => rfl
  | .cons _ _ r, 0, _ => rfl
  | .cons _ _ r, i + 1, c => by simp [BL.set, BL.length, BL.length_set r i c]

theorem BL.names_set : ∀ (fs : BL) (i : Nat) (c : B), (fs.set i c).names = fs.names
  | .nil, _, _ => rfl
  | .cons _ _ r, 0, _ => rfl
  | .cons _ _ r, i + 1, c => by simp [BL.set, BL.names, BL.names_set r i c]

theorem BL.names_length : ∀ (fs : BL), fs.names.length = fs.length
  | .nil => rfl
  | .cons _ _ r => by simp [BL.names, BL.length, BL.names_length r]

theorem BL.get?_set_eq : ∀ (fs : BL) (i : Nat) (c : B) (x : B × FieldMeta), fs.get? i = some x →
    (fs.set i c).get? i = some (c, x.2)
  | .nil, _, _, _, h => by simp [BL.get?] at h
  | .cons _ _ r, 0, _, x, h => by simp [BL.get?] at h; subst h; rfl
  | .cons _ _ r, i + 1, c, x, h => by simp only [BL.get?, BL.set] at h ⊢; exact BL.get?_set_eq r i c x h

theorem BL.get?_set_ne : ∀ (fs : BL) (i j : Nat) (c : B), i ≠ j → (fs.set i c).get? j = fs.get? j
  | .nil, _, _, _, _ => rfl
  | .cons _ _ r, 0, 0, _, h => absurd rfl h
  | .cons _ _ r, 0, j + 1, _, _ => rfl
  | .cons _ _ r, i + 1, 0, _, _ => rfl
  | .cons _ _ r, i + 1, j + 1, c, h => by
    simp only [BL.get?, BL.set]; exact BL.get?_set_ne r i j c (by omega)

theorem BL.get?_lt : ∀ (fs : BL) (i : Nat) (x : B × FieldMeta), fs.get? i = some x → i < fs.length
  | .nil, _, _, h => by simp [BL.get?] at h
  | .cons _ _ r, 0, _, _ => by simp [BL.length]
  | .cons _ _ r, i + 1, x, h => by
    simp only [BL.get?] at h; have := BL.get?_lt r i x h; simp [BL.length]; omega

theorem BL.get?_of_lt : ∀ (fs : BL) (i : Nat), i < fs.length → ∃ x, fs.get? i = some x
  | .nil, _, h => by simp [BL.length] at h
  | .cons b m r, 0, _ => ⟨(b, m), rfl⟩
  | .cons _ _ r, i + 1, h => by
    simp only [BL.get?]; exact BL.get?_of_lt r i (by simp [BL.length] at h; omega)

/-- the decoded column of child `j` (empty when there is no such child) -/
def colAt (fs : BL) (j : Nat) : List LVal := ((decCols fs).getD j ("", [])).2

theorem colAt_get : ∀ (fs : BL) (j : Nat) (x : B × FieldMeta), fs.get? j = some x → colAt fs j = dec x.1
  | .nil, _, _, h => by simp [BL.get?] at h
  | .cons b m r, 0, x, h => by simp [BL.get?] at h; subst h; simp [colAt, decCols]
  | .cons b m r, j + 1, x, h => by
    simp only [BL.get?] at h
    have := colAt_get r j x h
    simpa [colAt, decCols] using this

theorem colAt_set_ne : ∀ (fs : BL) (i j : Nat) (c : B), i ≠ j → colAt (fs.set i c) j = colAt fs j
  | .nil, _, _, _, _ => rfl
  | .cons _ _ r, 0, 0, _, h => absurd rfl h
  | .cons _ _ r, 0, j + 1, _, _ => by simp [colAt, decCols, BL.set]
  | .cons _ _ r, i + 1, 0, _, _ => by simp [colAt, decCols, BL.set]
  | .cons _ _ r, i + 1, j + 1, c, h => by
    have := colAt_set_ne r i j c (by omega)
    simpa [colAt, decCols, BL.set] using this

/-! ### union -/

theorem zipWith_replicate_left {α β γ} (f : α → β → γ) (a : α) :
    ∀ (l : List β), List.zipWith f (List.replicate l.length a) l = l.map (f a)
  | [] => rfl
  | x :: l => by simp [List.replicate_succ, zipWith_replicate_left f a l]

theorem map_range_getD {α β} (g : α → β) (d : α) (ls : List α) :
    (List.range ls.length).map (fun r => g (ls.getD r d)) = ls.map g := by
  apply List.ext_getElem?
  intro j
  simp only [List.getElem?_map]
  by_cases h : j < ls.length
  · simp [List.getD_eq_getElem?_getD, h]
  · simp at h
    simp [List.getElem?_eq_none h]
    omega

theorem zipWith_congr_zip {α β γ} (f g : α → β → γ) (l1 : List α) (l2 : List β)
    (h : ∀ p ∈ l1.zip l2, f p.1 p.2 = g p.1 p.2) : List.zipWith f l1 l2 = List.zipWith g l1 l2 := by
  rw [← List.map_uncurry_zip_eq_zipWith, ← List.map_uncurry_zip_eq_zipWith]
  apply List.map_congr_left
  intro p hp
  exact h p hp

theorem dec_union (p : String) (fs : BL) (types offs cur : List Int) :
    dec (.union p fs types offs cur) =
      List.zipWith (fun t o => LVal.union t ((colAt fs t.toNat).getD o.toNat .null)) types offs := by
  simp only [dec, colAt]

theorem WFU_get : ∀ (fs : BL) (cur : List Int) (i : Nat) (x : B × FieldMeta), WFU fs cur → fs.get? i = some x →
    cur[i]? = some ((dec x.1).length : Int) ∧ WFB x.1
  | .nil, _, _, _, _, h => by simp [BL.get?] at h
  | .cons b m r, cur, 0, x, hw, h => by
    simp [BL.get?] at h; subst h
    simp only [WFU] at hw
    cases cur with
    | nil => simp at hw
    | cons a t => simp at hw ⊢; exact ⟨hw.2.1, hw.1⟩
  | .cons b m r, cur, i + 1, x, hw, h => by
    simp only [BL.get?] at h
    simp only [WFU] at hw
    cases cur with
    | nil => simp at hw
    | cons a t => simpa using WFU_get r t i x hw.2.2 h

theorem WFU_set : ∀ (fs : BL) (cur : List Int) (i : Nat) (c' : B), WFU fs cur → WFB c' → i < fs.length →
    WFU (fs.set i c') (cur.set i ((dec c').length : Int))
  | .nil, _, _, _, _, _, h => by simp [BL.length] at h
  | .cons b m r, cur, 0, c', hw, hc, _ => by
    simp only [WFU] at hw
    cases cur with
    | nil => simp at hw
    | cons a t => simp only [BL.set, WFU, List.set_cons_zero, List.head?_cons, List.tail_cons]; exact ⟨hc, trivial, hw.2.2⟩
  | .cons b m r, cur, i + 1, c', hw, hc, h => by
    simp only [WFU] at hw
    cases cur with
    | nil => simp at hw
    | cons a t =>
      simp only [BL.set, WFU, List.set_cons_succ, List.head?_cons, List.tail_cons] at hw ⊢
      exact ⟨hw.1, hw.2.1, WFU_set r t i c' hw.2.2 hc (by simp [BL.length] at h; omega)⟩

/-- `k` rows of variant `i`: the variant's child grew by `ls`, type ids / dense offsets / counter accordingly -/
theorem union_append {p : String} {fs : BL} {types offs cur : List Int} (hwf : WFB (.union p fs types offs cur))
    (i : Nat) (c c' : B) (m : FieldMeta) (hget : fs.get? i = some (c, m)) (ls : List LVal)
    (hc : WFB c') (hdec : dec c' = dec c ++ ls) :
    WFB (.union p (fs.set i c') (types ++ List.replicate ls.length (i : Int))
      (offs ++ (List.range ls.length).map (fun (r : Nat) => ((dec c).length : Int) + (r : Int)))
      (cur.set i (((dec c).length : Int) + ls.length))) ∧
    dec (.union p (fs.set i c') (types ++ List.replicate ls.length (i : Int))
      (offs ++ (List.range ls.length).map (fun (r : Nat) => ((dec c).length : Int) + (r : Int)))
      (cur.set i (((dec c).length : Int) + ls.length))) =
      dec (.union p fs types offs cur) ++ ls.map (LVal.union (i : Int)) := by
  simp only [WFB] at hwf
  obtain ⟨htl, hcl, hwu, hz⟩ := hwf
  have hilt := BL.get?_lt fs i _ hget
  have hget' : (fs.set i c').get? i = some (c', m) := BL.get?_set_eq fs i c' _ hget
  have hcol' : colAt (fs.set i c') i = dec c ++ ls := by rw [colAt_get _ _ _ hget', hdec]
  -- old rows keep their meaning
  have hold : ∀ to ∈ types.zip offs,
      (colAt (fs.set i c') to.1.toNat).getD to.2.toNat .null = (colAt fs to.1.toNat).getD to.2.toNat .null := by
    intro to hto
    obtain ⟨_, _, x, hx, hlt⟩ := hz to hto
    by_cases hi : i = to.1.toNat
    · subst hi
      rw [hx] at hget; cases hget
      rw [hcol', colAt_get _ _ _ hx]
      simp only [List.getD_eq_getElem?_getD]
      rw [List.getElem?_append_left hlt]
    · rw [colAt_set_ne _ _ _ _ hi]
  have hzl : (List.replicate ls.length (i : Int)).length =
      ((List.range ls.length).map (fun (r : Nat) => ((dec c).length : Int) + (r : Int))).length := by simp
  refine ⟨?_, ?_⟩
  · simp only [WFB]
    refine ⟨by simp [htl], by simp [hcl, BL.length_set], ?_, ?_⟩
    · have := WFU_set fs cur i c' hwu hc hilt
      rw [hdec] at this
      simpa using this
    · intro to hto
      rw [List.zip_append htl] at hto
      rcases List.mem_append.1 hto with h | h
      · obtain ⟨h1, h2, x, hx, hlt⟩ := hz to h
        refine ⟨h1, h2, ?_⟩
        by_cases hi : i = to.1.toNat
        · subst hi
          rw [hx] at hget; cases hget
          refine ⟨(c', m), hget', ?_⟩
          have hlt' : to.2.toNat < (dec c).length := hlt
          simp [hdec]; omega
        · exact ⟨x, by rw [BL.get?_set_ne _ _ _ _ hi]; exact hx, hlt⟩
      · obtain ⟨t, o⟩ := to
        have hm := List.of_mem_zip h
        have ht : t = (i : Int) := by simpa using (List.mem_replicate.1 hm.1).2
        obtain ⟨r, hr, ho⟩ := List.mem_map.1 hm.2
        have hr := List.mem_range.1 hr
        subst ht ho
        refine ⟨Int.natCast_nonneg _, by show (0 : Int) ≤ ((dec c).length : Int) + (r : Int); omega,
          (c', m), by simpa using hget', ?_⟩
        show (((dec c).length : Int) + (r : Int)).toNat < (dec c').length
        simp [hdec]; omega
  · rw [dec_union, dec_union, List.zipWith_append htl]
    congr 1
    · exact zipWith_congr_zip _ _ _ _ (by intro to hto; rw [hold to hto])
    · -- the new rows
      have e : (List.replicate ls.length (i : Int)) =
          List.replicate ((List.range ls.length).map (fun (r : Nat) => ((dec c).length : Int) + (r : Int))).length (i : Int) := by
        simp
      rw [e, zipWith_replicate_left, List.map_map, ← map_range_getD (LVal.union (i : Int)) .null ls]
      apply List.map_congr_left
      intro r hr
      have hr := List.mem_range.1 hr
      simp only [Function.comp, Int.toNat_natCast, hcol', List.getD_eq_getElem?_getD]
      have : (((dec c).length : Int) + (r : Int)).toNat = (dec c).length + r := by omega
      rw [this, List.getElem?_append_right (by omega)]
      simp

end SaModel.Build
