import SaModel.Build.Inv
/-
`UnionBuilder::serialize_default` after repo fix 837fa53: the child it delegates to (`firstReal`) and the
list-level step `pushDefaultKAt` (generic facts shared by every proof about `pushDefaultK`).
-/
namespace SaModel.Build
open SaModel

theorem firstReal?_get : ∀ (fs : BL) (j : Nat), firstReal? fs = some j →
    ∃ c m, fs.get? j = some (c, m) ∧ c.isPlaceholder = false
  | .nil, _, h => by simp [firstReal?] at h
  | .cons b m rest, j, h => by
    simp only [firstReal?] at h
    cases hb : b.isPlaceholder with
    | false =>
      rw [hb] at h
      simp only [Bool.false_eq_true, if_false, Option.some.injEq] at h
      subst h
      exact ⟨b, m, rfl, hb⟩
    | true =>
      rw [hb] at h
      simp only [if_true, Option.map_eq_some_iff] at h
      obtain ⟨j', hj', rfl⟩ := h
      obtain ⟨c, m', hg, hc⟩ := firstReal?_get rest j' hj'
      exact ⟨c, m', by simpa [BL.get?] using hg, hc⟩

theorem firstReal?_none : ∀ (fs : BL), firstReal? fs = none →
    ∀ j c m, fs.get? j = some (c, m) → c.isPlaceholder = true
  | .nil, _, j, c, m, hg => by simp [BL.get?] at hg
  | .cons b m rest, h, j, c, m', hg => by
    simp only [firstReal?] at h
    cases hb : b.isPlaceholder with
    | false => rw [hb] at h; simp at h
    | true =>
      rw [hb] at h
      simp only [if_true, Option.map_eq_none_iff] at h
      cases j with
      | zero => simp only [BL.get?, Option.some.injEq, Prod.mk.injEq] at hg; rw [← hg.1]; exact hb
      | succ j => exact firstReal?_none rest h j c m' (by simpa [BL.get?] using hg)

/-- a union with at least one variant has the child `serialize_default` delegates to -/
theorem firstReal_get (b : B) (m : FieldMeta) (rest : BL) :
    ∃ c mc, (BL.cons b m rest).get? (firstReal (.cons b m rest)) = some (c, mc) := by
  unfold firstReal
  cases h : firstReal? (.cons b m rest) with
  | none => exact ⟨b, m, rfl⟩
  | some j =>
    obtain ⟨c, mc, hg, _⟩ := firstReal?_get _ j h
    exact ⟨c, mc, hg⟩

/-- the child chosen is not a placeholder unless every child is one -/
theorem firstReal_real (fs : BL) (c : B) (m : FieldMeta) (hg : fs.get? (firstReal fs) = some (c, m))
    (hc : c.isPlaceholder = true) : ∀ j c' m', fs.get? j = some (c', m') → c'.isPlaceholder = true := by
  unfold firstReal at hg
  cases h : firstReal? fs with
  | none => exact firstReal?_none fs h
  | some j =>
    rw [h] at hg
    obtain ⟨c2, m2, hg2, hc2⟩ := firstReal?_get fs j h
    simp only [Option.getD_some] at hg
    rw [hg] at hg2
    cases hg2
    rw [hc] at hc2; cases hc2

/-- the list-level step is: step child `j`, leave the others -/
theorem pushDefaultKAt_eq : ∀ (fs : BL) (j k : Nat) (c : B) (m : FieldMeta), fs.get? j = some (c, m) →
    pushDefaultKAt fs j k = (do let c' ← pushDefaultK c k; pure (fs.set j c'))
  | .nil, _, _, _, _, h => by simp [BL.get?] at h
  | .cons b m rest, 0, k, c, m', h => by
    simp only [BL.get?, Option.some.injEq, Prod.mk.injEq] at h
    obtain ⟨rfl, rfl⟩ := h
    simp only [pushDefaultKAt, BL.set]
  | .cons b m rest, j + 1, k, c, m', h => by
    simp only [BL.get?] at h
    simp only [pushDefaultKAt, BL.set, pushDefaultKAt_eq rest j k c m' h]
    cases pushDefaultK c k <;> rfl

theorem pushDefaultKAt_none : ∀ (fs : BL) (j k : Nat), fs.get? j = none → pushDefaultKAt fs j k = .ok fs
  | .nil, _, _, _ => rfl
  | .cons b m rest, 0, k, h => by simp [BL.get?] at h
  | .cons b m rest, j + 1, k, h => by
    simp only [BL.get?] at h
    simp only [pushDefaultKAt, pushDefaultKAt_none rest j k h]; rfl

/-- `DefSafe` of a union is `DefSafe` of the child `serialize_default` delegates to -/
theorem DefSafeFirst_get : ∀ (fs : BL) (c : B) (m : FieldMeta), DefSafeFirst fs →
    fs.get? (firstReal fs) = some (c, m) → DefSafe c
  | .nil, _, _, _, h => by simp [BL.get?] at h
  | .cons b mb rest, c, m, hs, hg => by
    by_cases hp : c.isPlaceholder = true
    · cases c <;> simp [B.isPlaceholder] at hp
      simp [DefSafe]
    · simp only [Bool.not_eq_true] at hp
      unfold firstReal at hg
      simp only [DefSafeFirst] at hs
      simp only [firstReal?] at hg
      cases hb : b.isPlaceholder with
      | false =>
        rw [hb] at hg
        simp only [Bool.false_eq_true, if_false, Option.getD_some, BL.get?, Option.some.injEq, Prod.mk.injEq] at hg
        rw [← hg.1]; exact hs.2 hb
      | true =>
        rw [hb] at hg
        simp only [if_true] at hg
        cases hr : firstReal? rest with
        | none =>
          rw [hr] at hg
          simp only [Option.map_none, Option.getD_none, BL.get?, Option.some.injEq, Prod.mk.injEq] at hg
          rw [← hg.1, hb] at hp; cases hp
        | some j =>
          rw [hr] at hg
          simp only [Option.map_some, Option.getD_some, BL.get?] at hg
          exact DefSafeFirst_get rest c m (hs.1 hb) (by unfold firstReal; rw [hr]; exact hg)

end SaModel.Build
