import SaModel.Lemmas.C04Safe
/-
C01 / C04: totality of `finish` (`into_array`) on builders of schemas without FixedSizeBinary, FixedSizeList, Dictionary
and Union (`finDT`) — the only places where `finish` can refuse (a width / length beyond `i32::MAX`, the `""` a
non-nullable empty dictionary appends, a union type id beyond `i8`).  Every traced schema of an enum-free type is such a
schema when `string_dictionary_encoding` is off (`mapping_fin`).  With C03's shape invariant `BuiltFor` (preserved by
`push`: `Build.push_takeRest`) this gives `build_arrays = ok` after any accepted sequence of rows.
-/
namespace SaModel.Roundtrip
open SaModel SaModel.Spec SaModel.Build SaModel.Lemmas.C03

mutual
def finDT : DataType → Bool
  | .fixedSizeBinary _ | .fixedSizeList _ _ | .dictionary _ _ | .union _ _ | .runEndEncoded _ _ => false
  | .list f | .largeList f | .map f _ => finF f
  | .struct fs => finFs fs
  | _ => true
def finF : Field → Bool
  | .mk _ dt _ _ => finDT dt
def finFs : Fields → Bool
  | .nil => true
  | .cons f r => finF f && finFs r
end

theorem finF_dt (f : Field) : finF f = finDT f.dataType := by cases f; simp [finF, Field.dataType]

mutual
theorem finish_total (ext : Ext) : ∀ (b : B) (dt : DataType) (nl : Bool), BuiltFor dt nl b → finDT dt = true →
    ∃ a, finish ext b = .ok a
  | .null _ _, _, _, _, _ | .unknownVariant _, _, _, _, _ | .leaf _ _ _ _, _, _, _, _ | .bytes _ _ _ _ _, _, _, _, _
  | .bytesView _ _ _ _ _, _, _, _, _ => ⟨_, rfl⟩
  | .fixedSizeBinary _ _ _ _ _ _, dt, nl, hb, hf => by
    simp only [BuiltFor] at hb; rw [hb.1] at hf; simp [finDT] at hf
  | .list _ large fm v offs el, dt, nl, hb, hf => by
    simp only [BuiltFor] at hb
    obtain ⟨f, rfl, _, _, hel⟩ := hb
    have hf' : finDT f.dataType = true := by
      cases large <;> simpa [finDT, finF_dt] using hf
    obtain ⟨a, ha⟩ := finish_total ext el _ _ hel hf'
    exact ⟨_, by simp only [finish, ha, bind, Except.bind, pure, Except.pure]; rfl⟩
  | .fixedSizeList _ _ _ _ _ _ _, dt, nl, hb, hf => by
    simp only [BuiltFor] at hb
    obtain ⟨f, rfl, _⟩ := hb
    simp [finDT] at hf
  | .map _ mm v offs ks vs, dt, nl, hb, hf => by
    simp only [BuiltFor] at hb
    obtain ⟨ename, kf, vf, sorted, enl, emd, rfl, _, _, hk, hv⟩ := hb
    simp only [finDT, finF, finFs, finF_dt, Bool.and_eq_true, Bool.and_true] at hf
    obtain ⟨ka, hka⟩ := finish_total ext ks _ _ hk hf.1
    obtain ⟨va, hva⟩ := finish_total ext vs _ _ hv hf.2
    exact ⟨_, by simp only [finish, hka, hva, bind, Except.bind, pure, Except.pure]; rfl⟩
  | .struct _ len v fs _ _ _, dt, nl, hb, hf => by
    simp only [BuiltFor] at hb
    obtain ⟨fields, rfl, _, hl⟩ := hb
    obtain ⟨as, has⟩ := finishFields_total ext fs fields hl (by simpa [finDT] using hf)
    exact ⟨_, by simp only [finish, has, bind, Except.bind, pure, Except.pure]; rfl⟩
  | .dictionary _ _ _ _, dt, nl, hb, hf => by
    simp only [BuiltFor] at hb
    obtain ⟨k, vdt, rfl, _⟩ := hb
    simp [finDT] at hf
  | .union _ _ _ _ _, dt, nl, hb, hf => by
    simp only [BuiltFor] at hb
    obtain ⟨ufs, mode, rfl, _⟩ := hb
    simp [finDT] at hf
theorem finishFields_total (ext : Ext) : ∀ (bl : BL) (fs : Fields), BuiltForL fs bl → finFs fs = true →
    ∃ as, finishFields ext bl = .ok as
  | .nil, _, _, _ => ⟨_, rfl⟩
  | .cons b m r, .nil, hb, _ => by simp [BuiltForL] at hb
  | .cons b m r, .cons f fr, hb, hf => by
    simp only [BuiltForL] at hb
    simp only [finFs, finF_dt, Bool.and_eq_true] at hf
    obtain ⟨a, ha⟩ := finish_total ext b _ _ hb.2.1 hf.1
    obtain ⟨as, has⟩ := finishFields_total ext r fr hb.2.2 hf.2
    exact ⟨_, by simp only [finishFields, ha, has, bind, Except.bind, pure, Except.pure]; rfl⟩
end

theorem fin_prim (o : TraceOpts) (hd : o.stringDictionaryEncoding = false) (p : Prim) : finDT (primDT o p) = true := by
  cases p with
  | int t => cases t <;> rfl
  | str => simp only [primDT, hd, strDT, Bool.false_eq_true, if_false]; split <;> rfl
  | _ => rfl

mutual
theorem mapping_fin (o : TraceOpts) (hd : o.stringDictionaryEncoding = false) :
    ∀ (t : Ty) (dt : DataType) (nb : Bool) (md : Metadata), noEnum t = true → mappingDT o t = (dt, nb, md) → finDT dt = true
  | .prim p, dt, nb, md, _, hm => by
    simp only [mappingDT, Prod.mk.injEq] at hm; obtain ⟨rfl, rfl, rfl⟩ := hm; exact fin_prim o hd p
  | .unit, dt, nb, md, _, hm | .unitStruct _, dt, nb, md, _, hm => by
    simp only [mappingDT, Prod.mk.injEq] at hm; obtain ⟨rfl, rfl, rfl⟩ := hm; rfl
  | .option t, dt, nb, md, hn, hm => by
    rcases hm' : mappingDT o t with ⟨dt', nb', md'⟩
    simp only [mappingDT, hm', Prod.mk.injEq] at hm; obtain ⟨rfl, rfl, rfl⟩ := hm
    exact mapping_fin o hd t _ _ _ (by simpa [noEnum] using hn) hm'
  | .newtype _ t, dt, nb, md, hn, hm => by
    simp only [mappingDT] at hm
    exact mapping_fin o hd t _ _ _ (by simpa [noEnum] using hn) hm
  | .vec t, dt, nb, md, hn, hm => by
    rcases hm' : mappingDT o t with ⟨dt', nb', md'⟩
    simp only [mappingDT, hm', Prod.mk.injEq] at hm; obtain ⟨rfl, rfl, rfl⟩ := hm
    have ih := mapping_fin o hd t _ _ _ (by simpa [noEnum] using hn) hm'
    split <;> simpa [finDT, finF] using ih
  | .tuple ts, dt, nb, md, hn, hm | .tupleStruct _ ts, dt, nb, md, hn, hm => by
    simp only [mappingDT, Prod.mk.injEq] at hm; obtain ⟨rfl, rfl, rfl⟩ := hm
    simpa [finDT] using mappingPos_fin o hd ts 0 (by simpa [noEnum] using hn)
  | .struct _ fs, dt, nb, md, hn, hm => by
    simp only [mappingDT, Prod.mk.injEq] at hm; obtain ⟨rfl, rfl, rfl⟩ := hm
    simpa [finDT] using mappingFields_fin o hd fs (by simpa [noEnum] using hn)
  | .map k v, dt, nb, md, hn, hm => by
    rcases hk : mappingDT o k with ⟨kdt, knb, kmd⟩
    rcases hv : mappingDT o v with ⟨vdt, vnb, vmd⟩
    simp only [mappingDT, hk, hv, Prod.mk.injEq] at hm; obtain ⟨rfl, rfl, rfl⟩ := hm
    simp only [noEnum, Bool.and_eq_true] at hn
    simp [finDT, finF, finFs, mapping_fin o hd k _ _ _ hn.1 hk, mapping_fin o hd v _ _ _ hn.2 hv]
  | .enum _ _, _, _, _, hn, _ => by simp [noEnum] at hn
theorem mappingPos_fin (o : TraceOpts) (hd : o.stringDictionaryEncoding = false) :
    ∀ (ts : Tys) (i : Nat), noEnumTys ts = true → finFs (mappingPos o i ts) = true
  | .nil, _, _ => rfl
  | .cons t r, i, hn => by
    rcases hm : mappingDT o t with ⟨dt, nb, md⟩
    simp only [noEnumTys, Bool.and_eq_true] at hn
    simp [mappingPos, hm, finFs, finF, mapping_fin o hd t _ _ _ hn.1 hm, mappingPos_fin o hd r (i + 1) hn.2]
theorem mappingFields_fin (o : TraceOpts) (hd : o.stringDictionaryEncoding = false) :
    ∀ (fs : TFields), noEnumFields fs = true → finFs (mappingFields o fs) = true
  | .nil, _ => rfl
  | .cons n s t r, hn => by
    rcases hm : mappingDT o t with ⟨dt, nb, md⟩
    simp only [noEnumFields, Bool.and_eq_true] at hn
    simp [mappingFields, hm, finFs, finF, mapping_fin o hd t _ _ _ hn.1 hm, mappingFields_fin o hd r hn.2]
end


/-- **`build_arrays` succeeds** on every state reached from the fresh root of a traced schema (enum-free type,
`string_dictionary_encoding` off) by accepted pushes -/
theorem buildArrays_traced (ext : Ext) (o : TraceOpts) (hd : o.stringDictionaryEncoding = false) (fs : TFields)
    (hn : noEnumFields fs = true) (rows : List SVal) (root : B)
    (h : runRows ext (mappingFields o fs).toList rows = .ok root) :
    ∃ arrs rest, buildArrays ext root = .ok (arrs, rest) := by
  have hside := sideFs_toList (mappingFields o fs) (mappingFields_side o fs hn)
  have hb := Props.C03.runRows_builtFor ext _ rows root (Build.push_takeRest ext) (fun f hf => (hside f hf).1) h
  rw [ofList_toList'] at hb
  cases root with
  | struct p len v bl c nx sn =>
    simp only [BuiltFor] at hb
    obtain ⟨fields, hfe, _, hl⟩ := hb
    cases hfe
    obtain ⟨as, has⟩ := finishFields_total ext bl _ hl (mappingFields_fin o hd fs hn)
    exact ⟨_, _, by simp only [buildArrays, has, bind, Except.bind, pure, Except.pure]; rfl⟩
  | null _ _ => simp [BuiltFor] at hb
  | unknownVariant _ => simp [BuiltFor] at hb
  | leaf _ k _ _ => simp only [BuiltFor] at hb; exact absurd hb.1 (by cases k <;> simp [Lemmas.C03.leafDT] <;> (rename_i t; cases t <;> simp [Lemmas.C03.intDT]))
  | bytes _ ty _ _ _ => simp only [BuiltFor] at hb; exact absurd hb.1 (by cases ty <;> simp [Lemmas.C03.bytesDT])
  | bytesView _ ty _ _ _ => simp only [BuiltFor] at hb; exact absurd hb.1 (by cases ty <;> simp [Lemmas.C03.viewDT])
  | fixedSizeBinary _ _ _ _ _ _ => simp [BuiltFor] at hb
  | list _ large _ _ _ _ =>
    simp only [BuiltFor] at hb
    obtain ⟨f, hf, _⟩ := hb
    cases large <;> simp at hf
  | fixedSizeList _ _ _ _ _ _ _ => simp [BuiltFor] at hb
  | map _ _ _ _ _ _ => simp [BuiltFor] at hb
  | dictionary _ _ _ _ => simp [BuiltFor] at hb
  | union _ _ _ _ _ => simp [BuiltFor] at hb

end SaModel.Roundtrip
