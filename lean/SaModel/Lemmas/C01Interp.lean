import SaModel.Lemmas.C01Shape
import SaModel.Lemmas.C01Small
/-
R2, non-recursive part: the row a scalar call / a null appends is the row the specification (`Spec.interpScalar`,
`Spec.interpNull`) assigns.
-/
namespace SaModel.Build
open SaModel SaModel.Spec
open SaModel.Lemmas.C03 (ViewSmall ViewSmallL)

theorem row_unique {xs : List LVal} {ys : List LVal} {a b : LVal} (h1 : ys = xs ++ [a]) (h2 : ys = xs ++ [b]) : a = b := by
  rw [h1] at h2
  have := List.append_cancel_left h2
  simpa using this

theorem rows_unique {xs ys as bs : List LVal} (h1 : ys = xs ++ as) (h2 : ys = xs ++ bs) : as = bs := by
  rw [h1] at h2
  exact List.append_cancel_left h2

theorem isSome_of_setValidity_false' {v v' : Validity} {n : Nat} (h : setValidity v n false = .ok v') : v.isSome = true := by
  cases v with
  | none => simp [setValidity, fail] at h
  | some _ => rfl

/-- a null is accepted only where the specification allows one -/
theorem pushNone_interp : ∀ (b b' : B) (dt : DataType) (n : Bool) (md : Metadata), Shape b dt n md →
    pushNone b = .ok b' → interpNull dt n md = .ok .null
  | .null _ _, _, dt, n, md, hs, _ => by
    simp only [Shape] at hs
    obtain ⟨rfl, h2⟩ := hs
    simp [interpNull, h2]
  | .unknownVariant _, _, _, _, _, _, h => by simp [pushNone, ctx_ok, fail] at h
  | .leaf _ _ v _, b', dt, n, md, hs, h => by
    simp only [pushNone, ctx_ok] at h
    obtain ⟨v', h1, _⟩ := (bind_ok _ _ _).1 h
    simp only [Shape] at hs
    have hn : n = true := by rw [← hs.2]; exact isSome_of_setValidity_false' h1
    subst hn
    refine interpNull_of_nullable (kindOf_not_unknown hs.1 md) ?_
    intro ufs mode he; rw [he] at hs; simp [kindOf] at hs
  | .bytes _ ty v _ _, b', dt, n, md, hs, h => by
    simp only [pushNone, ctx_ok] at h
    obtain ⟨v', h1, _⟩ := (bind_ok _ _ _).1 h
    simp only [Shape] at hs
    have hn : n = true := by rw [← hs.2]; exact isSome_of_setValidity_false' h1
    subst hn
    obtain ⟨rfl, _⟩ := hs
    cases ty <;> rfl
  | .bytesView _ ty v _ _, b', dt, n, md, hs, h => by
    simp only [pushNone, ctx_ok] at h
    obtain ⟨v', h1, _⟩ := (bind_ok _ _ _).1 h
    simp only [Shape] at hs
    have hn : n = true := by rw [← hs.2]; exact isSome_of_setValidity_false' h1
    subst hn
    obtain ⟨rfl, _⟩ := hs
    cases ty <;> rfl
  | .fixedSizeBinary _ _ _ v _ _, b', dt, n, md, hs, h => by
    simp only [pushNone, ctx_ok] at h
    obtain ⟨v', h1, _⟩ := (bind_ok _ _ _).1 h
    simp only [Shape] at hs
    have hn : n = true := by rw [← hs.2]; exact isSome_of_setValidity_false' h1
    subst hn
    obtain ⟨rfl, _⟩ := hs
    rfl
  | .list _ large _ v _ _, b', dt, n, md, hs, h => by
    simp only [pushNone, ctx_ok] at h
    obtain ⟨v', h1, _⟩ := (bind_ok _ _ _).1 h
    simp only [Shape] at hs
    have hn : n = true := by rw [← hs.1]; exact isSome_of_setValidity_false' h1
    subst hn
    obtain ⟨_, a, b, c, d, rfl, _⟩ := hs
    cases large <;> rfl
  | .fixedSizeList _ _ _ _ v _ _, b', dt, n, md, hs, h => by
    simp only [pushNone, ctx_ok] at h
    obtain ⟨v', h1, _⟩ := (bind_ok _ _ _).1 h
    simp only [Shape] at hs
    have hn : n = true := by rw [← hs.1]; exact isSome_of_setValidity_false' h1
    subst hn
    obtain ⟨_, a, b, c, d, rfl, _⟩ := hs
    rfl
  | .map _ _ v _ _ _, b', dt, n, md, hs, h => by
    simp only [pushNone, ctx_ok] at h
    obtain ⟨v', h1, _⟩ := (bind_ok _ _ _).1 h
    simp only [Shape] at hs
    have hn : n = true := by rw [← hs.1]; exact isSome_of_setValidity_false' h1
    subst hn
    obtain ⟨_, a1, a2, a3, a4, a5, a6, a7, a8, a9, a10, a11, a12, a13, rfl, _⟩ := hs
    rfl
  | .struct _ _ v _ _ _ _, b', dt, n, md, hs, h => by
    simp only [pushNone, ctx_ok] at h
    obtain ⟨v', h1, _⟩ := (bind_ok _ _ _).1 h
    simp only [Shape] at hs
    have hn : n = true := by rw [← hs.1]; exact isSome_of_setValidity_false' h1
    subst hn
    obtain ⟨_, sfs, rfl, _⟩ := hs
    rfl
  | .dictionary _ idx vals _, b', dt, n, md, hs, h => by
    simp only [pushNone, ctx_ok] at h
    split at h
    · simp [fail] at h
    obtain ⟨idx', h1, _⟩ := (bind_ok _ _ _).1 h
    simp only [Shape] at hs
    obtain ⟨⟨kdt, vdt, rfl, _⟩, hint, hnl, _⟩ := hs
    cases idx with
    | leaf p k v vals' =>
      simp only [pushNone, ctx_ok] at h1
      obtain ⟨v', h2, _⟩ := (bind_ok _ _ _).1 h1
      have hv : v.isSome = true := isSome_of_setValidity_false' h2
      have hn : n = true := by rw [← hnl]; simpa [B.isNullable] using hv
      subst hn; rfl
    | _ => simp [B.isIntLeaf] at hint
  | .union _ _ _ _ _, _, _, _, _, _, h => by simp [pushNone, ctx_ok, fail] at h

/-- the `u64` index a dictionary pushes into its (integer leaf) key builder shows up as exactly that key -/
theorem intLeaf_push (ext : Ext) {idx idx' : B} {i : Nat} (hil : idx.isIntLeaf = true) (hw : WFB idx)
    (h : pushScalar ext idx (.int .u64 i) = .ok idx') : dec idx' = dec idx ++ [.int i] := by
  cases idx with
  | leaf p k v vals =>
    cases k with
    | int t =>
      simp only [pushScalar] at h
      obtain ⟨val, hc, h2⟩ := (bind_ok _ _ _).1 h
      obtain ⟨v', h3, h4⟩ := (bind_ok _ _ _).1 h2
      cases h4
      have hv : VLen v vals.length := by simpa [WFB] using hw
      obtain ⟨rfl, _⟩ := setValidity_ok hv h3
      obtain ⟨_, g2⟩ := leaf_step hw true val
      rw [rowOf_true] at g2
      simp only [convLeaf] at hc
      have := tryInto_ok hc
      subst this
      rw [g2]; rfl
    | _ => simp [B.isIntLeaf] at hil
  | _ => simp [B.isIntLeaf] at hil

theorem last_of_append_eq {xs ys : List LVal} {a b : LVal} (h : xs ++ [a] = ys ++ [b]) (hl : xs.length = ys.length) :
    a = b := by
  have := (List.append_inj h hl).2
  simpa using this

/-- the row a string-like scalar appends to a `Dictionary(integer, Utf8/LargeUtf8)` builder is that string:
`values[index[s]] = s` (invariant `DictVals`) and the pushed key is `index[s]` -/
theorem dict_push_row (ext : Ext) {p : String} {idx vals : B} {index : List String} {x : SVal} {b' : B} {lv : LVal}
    (hwf : WFB (.dictionary p idx vals index)) (hil : idx.isIntLeaf = true) (hu : vals.isUtf8B = true)
    (h : pushScalar ext (.dictionary p idx vals index) x = .ok b')
    (hd : dec b' = dec (.dictionary p idx vals index) ++ [lv]) :
    ∃ s, scalarToString ext x = some s ∧ lv = .str (strBytes s) := by
  unfold pushScalar at h
  simp only at h
  have hw' := hwf
  simp only [WFB] at hw'
  have hdv := hw'.2.2.2.2.2.1 hu
  split at h
  · rename_i s hs'
    refine ⟨s, hs', ?_⟩
    split at h
    · rename_i i hi
      obtain ⟨idx', h1, h2⟩ := (bind_ok _ _ _).1 h
      cases h2
      rw [ctx_eq_ok] at h1
      have hk := intLeaf_push ext hil hw'.1 h1
      rw [dec_dictionary, dec_dictionary, hk, List.map_append] at hd
      have := last_of_append_eq hd (by simp)
      rw [← this]
      have hget := SaModel.Props.C11Front.indexOfName_some index s i hi
      simp only [dictRow, Int.toNat_natCast, hdv, List.getD_eq_getElem?_getD, List.getElem?_map, hget]
      rfl
    · obtain ⟨vals', h1, h2⟩ := (bind_ok _ _ _).1 h
      obtain ⟨idx', h3, h4⟩ := (bind_ok _ _ _).1 h2
      cases h4
      rw [ctx_eq_ok] at h1 h3
      have hk := intLeaf_push ext hil hw'.1 h3
      have hv := pushScalar_utf8_str ext hw'.2.1 hu h1
      rw [dec_dictionary, dec_dictionary, hk, List.map_append] at hd
      have := last_of_append_eq hd (by simp)
      rw [← this, hv]
      have hl : (dec vals).length = index.length := hw'.2.2.2.1
      simp only [dictRow, Int.toNat_natCast, List.getD_eq_getElem?_getD, ← hl, List.getElem?_append_right (Nat.le_refl _),
        Nat.sub_self]
      rfl
  · simp [notSupported, fail] at h

/-- a dictionary whose value builder refuses strings refuses every scalar (its index is empty: `DictVals`) -/
theorem dict_push_refused (ext : Ext) {p : String} {idx vals : B} {index : List String} {x : SVal} {b' : B}
    (hidx : vals.refusesStr = true → index = []) (hr : vals.refusesStr = true)
    (h : pushScalar ext (.dictionary p idx vals index) x = .ok b') : False := by
  have hi := hidx hr
  subst hi
  unfold pushScalar at h
  simp only at h
  split at h
  · simp only [indexOfName, indexOfName.go] at h
    obtain ⟨vals', h1, _⟩ := (bind_ok _ _ _).1 h
    rw [ctx_eq_ok] at h1
    exact pushScalar_refusesStr ext hr h1
  · simp [notSupported, fail] at h

/-- the row a scalar call appends is the specified one (`ViewSmall b'`: only looked at by bytes-view builders) -/
theorem pushScalar_interp (ext : Ext) : ∀ (b : B) (x : SVal) (b' : B) (dt : DataType) (n : Bool) (md : Metadata) (lv : LVal),
    WFB b → Shape b dt n md → pushScalar ext b x = .ok b' → dec b' = dec b ++ [lv] → ViewSmall b' →
    interpScalar ext dt x = .ok lv ∧ isUnknownVariant dt md = false
  | .null p len, x, b', dt, n, md, lv, _, hs, h, hd, _ => by
    simp only [Shape] at hs
    obtain ⟨rfl, h2⟩ := hs
    unfold pushScalar at h
    split at h
    · cases h
      have := row_unique hd (null_step p len 1)
      subst this
      exact ⟨by simp [interpScalar_eq_old, normErr_ok_iff, interpScalarOld], h2⟩
    · simp [notSupported, fail] at h
  | .unknownVariant p, x, b', _, _, _, _, _, _, h, _, _ => by simp [pushScalar, fail] at h
  | .leaf p k v vals, x, b', dt, n, md, lv, hwf, hs, h, hd, _ => by
    simp only [Shape] at hs
    simp only [pushScalar] at h
    obtain ⟨val, hc, h2⟩ := (bind_ok _ _ _).1 h
    obtain ⟨v', h3, h4⟩ := (bind_ok _ _ _).1 h2
    cases h4
    have hv : VLen v vals.length := by simpa [WFB] using hwf
    obtain ⟨rfl, _⟩ := setValidity_ok hv h3
    obtain ⟨_, g2⟩ := leaf_step hwf true val
    rw [rowOf_true] at g2
    have := row_unique hd g2
    subst this
    refine ⟨?_, kindOf_not_unknown hs.1 md⟩
    rw [interpScalar_kind hs.1, hc]; rfl
  | .bytes p ty v offs data, x, b', dt, n, md, lv, hwf, hs, h, hd, _ => by
    simp only [Shape] at hs
    obtain ⟨rfl, _⟩ := hs
    simp only [pushScalar] at h
    obtain ⟨bs, hval, h2⟩ := (bind_ok _ _ _).1 h
    obtain ⟨v', h3, h4⟩ := (bind_ok _ _ _).1 h2
    obtain ⟨o1, h5, h6⟩ := (bind_ok _ _ _).1 h4
    obtain ⟨o2, h7, h8⟩ := (bind_ok _ _ _).1 h6
    cases h8
    have hv : VLen v (offs.length - 1) := by simp only [WFB] at hwf; exact hwf.2
    obtain ⟨rfl, _⟩ := setValidity_ok hv h3
    obtain ⟨l, hl, rfl⟩ := duplicateLast_ok h5
    rw [bytes_last hwf] at hl; cases hl
    have := incrementLast_snoc h7
    subst this
    obtain ⟨_, g2⟩ := bytes_step hwf true bs
    rw [rowOf_true] at g2
    have := row_unique hd g2
    subst this
    cases ty <;> simp only [isUtf8Ty, if_true, Bool.false_eq_true, if_false] at hval <;>
      simp only [bytesDT, interpScalar_eq_old, normErr_ok_iff, interpScalarOld, bytesVal, isUtf8Ty, isUnknownVariant, and_true] <;>
      (split at hval <;> first | (cases hval; simp_all) | simp [notSupported, fail] at hval)
  | .bytesView p ty v views buf, x, b', dt, n, md, lv, hwf, hs, h, hd, hsm => by
    simp only [Shape] at hs
    obtain ⟨rfl, _⟩ := hs
    simp only [pushScalar] at h
    obtain ⟨bs, hval, h2⟩ := (bind_ok _ _ _).1 h
    obtain ⟨vp, hp, h2⟩ := (bind_ok _ _ _).1 h2
    obtain ⟨v', h3, h4⟩ := (bind_ok _ _ _).1 h2
    have hv : VLen v views.length := by simp only [WFB] at hwf; exact hwf.1
    obtain ⟨rfl, _⟩ := setValidity_ok hv h3
    obtain ⟨d, extra, rfl, hok, hex⟩ := viewPushValue_exact hp
    cases h4
    have := row_unique hd (view_push_row hwf bs hok hex hsm)
    subst this
    cases ty
    · have e : (ViewTy.utf8View == ViewTy.utf8View) = true := by decide
      rw [if_pos e] at hval
      simp only [viewDT, interpScalar_eq_old, normErr_ok_iff, interpScalarOld, bytesVal, isUnknownVariant, and_true, e, if_true]
      split at hval
      · rename_i heq; cases hval; rw [heq]
      · simp [notSupported, fail] at hval
    · have e : (ViewTy.binaryView == ViewTy.utf8View) = false := by decide
      rw [if_neg (by rw [e]; decide)] at hval
      simp only [viewDT, interpScalar_eq_old, normErr_ok_iff, interpScalarOld, bytesVal, isUnknownVariant, and_true, e, Bool.false_eq_true, if_false]
      split at hval
      · cases hval; rfl
      · simp [notSupported, fail] at hval
  | .fixedSizeBinary p k len v buf cur, x, b', dt, n, md, lv, hwf, hs, h, hd, _ => by
    simp only [Shape] at hs
    obtain ⟨rfl, _⟩ := hs
    unfold pushScalar at h
    split at h
    · split at h
      · simp [fail] at h
      · rename_i bs hn
        obtain ⟨v', h3, h4⟩ := (bind_ok _ _ _).1 h
        cases h4
        have hv : VLen v len := by simp only [WFB] at hwf; exact hwf.1
        obtain ⟨rfl, _⟩ := setValidity_ok hv h3
        have hn' : bs.length = k := by simpa using hn
        obtain ⟨_, g2⟩ := fsb_step hwf true bs hn' cur
        rw [rowOf_true] at g2
        have := row_unique hd g2
        subst this
        simp [interpScalar_eq_old, normErr_ok_iff, interpScalarOld, hn', isUnknownVariant]
    · simp [notSupported, fail] at h
  | .dictionary p idx vals index, x, b', dt, n, md, lv, hwf, hs, h, hd, _ => by
    simp only [Shape] at hs
    obtain ⟨⟨kdt, vdt, rfl, hsv⟩, hil, _, hu⟩ := hs
    rcases hu with hu | hr
    · obtain ⟨s, hs', rfl⟩ := dict_push_row ext hwf hil hu h hd
      exact ⟨by simp only [interpScalar_eq_old, normErr_ok_iff, interpScalarOld, hs', interpDictStr_utf8 ext s hsv hu], rfl⟩
    · exact (dict_push_refused ext (DictVals.of_wf hwf).2 hr h).elim
  | .list _ _ _ _ _ _, x, b', _, _, _, _, _, _, h, _, _ => by simp [pushScalar, notSupported, fail] at h
  | .fixedSizeList _ _ _ _ _ _ _, x, b', _, _, _, _, _, _, h, _, _ => by simp [pushScalar, notSupported, fail] at h
  | .map _ _ _ _ _ _, x, b', _, _, _, _, _, _, h, _, _ => by simp [pushScalar, notSupported, fail] at h
  | .struct _ _ _ _ _ _ _, x, b', _, _, _, _, _, _, h, _, _ => by simp [pushScalar, notSupported, fail] at h
  | .union _ _ _ _ _, x, b', _, _, _, _, _, _, h, _, _ => by simp [pushScalar, notSupported, fail] at h

end SaModel.Build
