import SaModel.Lemmas.C01List
/-
Step lemmas of the non-recursive builder families: what ONE more row (validity bit `b`, payload) does to the
well-formedness invariant and to the decoded rows.  Stated on the raw state so that `push`, `pushNone` and
`pushDefaultK` can all use them.
-/
namespace SaModel.Build
open SaModel SaModel.Spec

/-- the row a masked container shows for a new slot: null iff there is a bitmap and the bit is clear -/
def rowOf (v : Validity) (b : Bool) (x : LVal) : LVal := if v.isSome && !b then LVal.null else x

@[simp] theorem rowOf_true (v : Validity) (x : LVal) : rowOf v true x = x := by simp [rowOf]
@[simp] theorem rowOf_none (b : Bool) (x : LVal) : rowOf none b x = x := by simp [rowOf]
@[simp] theorem rowOf_some_false (bits : List Bool) (x : LVal) : rowOf (some bits) false x = .null := by simp [rowOf]

theorem rowOf_false_of_isSome {v : Validity} (h : v.isSome = true) (x : LVal) : rowOf v false x = .null := by
  simp [rowOf, h]

/-! ### offsets operations -/

theorem duplicateLast_ok {offs offs' : List Int} (h : duplicateLast offs = .ok offs') :
    ∃ l, offs.getLast? = some l ∧ offs' = offs ++ [l] := by
  unfold duplicateLast at h
  split at h
  · cases h
  · rename_i l hl; cases h; exact ⟨l, hl, rfl⟩

theorem incrementLast_snoc {c large : Bool} {base : List Int} {l : Int} {inc : Nat} {offs' : List Int}
    (h : incrementLast c large (base ++ [l]) inc = .ok offs') : offs' = base ++ [l + inc] := by
  unfold incrementLast at h
  simp only [List.getLast?_append, List.getLast?_singleton, Option.some_or] at h
  split at h
  · cases h
  · split at h
    · cases c <;> cases h
    · simp at h; exact h.symm

theorem iter_incrementLast {c large : Bool} : ∀ (n : Nat) {base : List Int} {l : Int} {offs' : List Int},
    iter n (fun o => incrementLast c large o 1) (base ++ [l]) = .ok offs' → offs' = base ++ [l + n]
  | 0, base, l, offs', h => by simp [iter] at h; simp [← h]
  | n + 1, base, l, offs', h => by
    simp only [iter] at h
    obtain ⟨o1, h1, h2⟩ := (bind_ok _ _ _).1 h
    have := incrementLast_snoc h1
    subst this
    have := iter_incrementLast n h2
    rw [this]
    simp; omega

/-- invariant-style reasoning about `iter` -/
theorem iter_inv {α} (P : Nat → α → Prop) (f : α → R α)
    (hstep : ∀ i a a', P i a → f a = .ok a' → P (i + 1) a') :
    ∀ (k : Nat) (i : Nat) (a a' : α), P i a → iter k f a = .ok a' → P (i + k) a'
  | 0, i, a, a', h0, h => by simp [iter] at h; subst h; exact h0
  | k + 1, i, a, a', h0, h => by
    simp only [iter] at h
    obtain ⟨a1, h1, h2⟩ := (bind_ok _ _ _).1 h
    have := iter_inv P f hstep k (i + 1) a1 a' (hstep i a a1 h0 h1) h2
    have e : i + (k + 1) = i + 1 + k := by omega
    rw [e]; exact this

/-! ### leaf (`PrimitiveArray` / `BooleanArray`) -/

theorem leaf_step {p : String} {k : LeafKind} {v : Validity} {vals : List Int} (hwf : WFB (.leaf p k v vals))
    (b : Bool) (val : Int) :
    WFB (.leaf p k (v.map (· ++ [b])) (vals ++ [val])) ∧
    dec (.leaf p k (v.map (· ++ [b])) (vals ++ [val])) = dec (.leaf p k v vals) ++ [rowOf v b (leafVal k val)] := by
  simp only [WFB] at hwf
  refine ⟨?_, ?_⟩
  · simp only [WFB, List.length_append, List.length_singleton]; exact hwf.snoc b
  · simp only [dec, List.map_append, List.map_cons, List.map_nil]
    exact maskNull_snoc (by simpa using hwf) b _

/-! ### bytes (`BytesArray<O>`) -/

theorem bytes_last {p ty v offs data} (hwf : WFB (.bytes p ty v offs data)) :
    offs.getLast? = some (data.length : Int) := by
  simp only [WFB] at hwf; exact hwf.1.2.1

theorem bytes_step {p : String} {ty : BytesTy} {v : Validity} {offs : List Int} {data : Bytes}
    (hwf : WFB (.bytes p ty v offs data)) (b : Bool) (bs : Bytes) :
    WFB (.bytes p ty (v.map (· ++ [b])) (offs ++ [(data.length : Int) + bs.length]) (data ++ bs)) ∧
    dec (.bytes p ty (v.map (· ++ [b])) (offs ++ [(data.length : Int) + bs.length]) (data ++ bs)) =
      dec (.bytes p ty v offs data) ++ [rowOf v b (bytesVal (isUtf8Ty ty) bs)] := by
  simp only [WFB] at hwf
  obtain ⟨hoffs, hv⟩ := hwf
  have hpos := hoffs.length_pos
  have e : (data.length : Int) + bs.length = ((data.length + bs.length : Nat) : Int) := by simp
  refine ⟨?_, ?_⟩
  · simp only [WFB, List.length_append, List.length_singleton]
    refine ⟨?_, ?_⟩
    · rw [e]; exact hoffs.snoc bs.length
    · have := hv.snoc b
      have e2 : offs.length + 1 - 1 = offs.length - 1 + 1 := by omega
      rw [e2]; exact this
  · simp only [dec]
    rw [pairs_snoc hoffs.2.1, List.map_append, List.map_cons, List.map_nil]
    rw [map_pairs_stable hoffs data bs rfl (fun l => bytesVal (isUtf8Ty ty) l)]
    rw [e, sliceL_append_right data bs _ _ rfl rfl]
    exact maskNull_snoc (by simpa [pairs_length] using hv) b _

/-! ### bytes view -/

theorem leBytes_lt : ∀ (b : Bytes), leBytes b < 256 ^ b.length
  | [] => by simp [leBytes]
  | x :: r => by
    have ih := leBytes_lt r
    have hx : x.toNat < 256 := x.toNat_lt
    have : leBytes (x :: r) = x.toNat + 256 * leBytes r := by simp [leBytes]
    rw [this, List.length_cons, Nat.pow_succ]
    have : 256 * leBytes r + 256 ≤ 256 * 256 ^ r.length := by
      have := Nat.mul_le_mul_left 256 (Nat.succ_le_of_lt ih)
      simpa [Nat.mul_succ] using this
    omega

theorem decodeView_inline_isOk (bufs : List Bytes) (data : Bytes) (h : data.length ≤ 12) :
    (decodeView bufs (packInline data)).isOk = true := by
  unfold decodeView packInline
  have : (data.length + 2 ^ 32 * leBytes data) % 4294967296 = data.length := by omega
  simp only [this, h, if_true, R.isOk]

theorem decodeView_extern_isOk (buf data : Bytes) :
    (decodeView [buf ++ data] (packExtern data 0 buf.length)).isOk = true := by
  unfold decodeView packExtern
  have h4 : leBytes (data.take 4) < 2 ^ 32 := by
    have := leBytes_lt (data.take 4)
    have hl : (data.take 4).length ≤ 4 := by simp; omega
    have : (256 : Nat) ^ (data.take 4).length ≤ 256 ^ 4 := Nat.pow_le_pow_right (by omega) hl
    omega
  generalize leBytes (data.take 4) = pre at h4
  generalize hd : data.length % 2 ^ 32 = dl
  generalize ho : buf.length % 2 ^ 32 = off
  have hdl : dl < 2 ^ 32 := by rw [← hd]; exact Nat.mod_lt _ (by omega)
  have hoff : off < 2 ^ 32 := by rw [← ho]; exact Nat.mod_lt _ (by omega)
  have hdle : dl ≤ data.length := by rw [← hd]; exact Nat.mod_le _ _
  have hole : off ≤ buf.length := by rw [← ho]; exact Nat.mod_le _ _
  simp only [Nat.shiftRight_eq_div_pow]
  have e1 : (dl + 2 ^ 32 * pre + 2 ^ 64 * (0 % 2 ^ 32) + 2 ^ 96 * off) % 4294967296 = dl := by omega
  have e2 : (dl + 2 ^ 32 * pre + 2 ^ 64 * (0 % 2 ^ 32) + 2 ^ 96 * off) / 2 ^ 64 % 4294967296 = 0 := by omega
  have e3 : (dl + 2 ^ 32 * pre + 2 ^ 64 * (0 % 2 ^ 32) + 2 ^ 96 * off) / 2 ^ 96 % 4294967296 = off := by omega
  rw [e1, e2, e3]
  split
  · rfl
  · simp only [List.getElem?_cons_zero, List.length_append]
    rw [if_pos (by omega)]
    rfl

theorem decodeView_append_of_isOk (buf extra : Bytes) (d : Nat) (h : (decodeView [buf] d).isOk = true) :
    decodeView [buf ++ extra] d = decodeView [buf] d := by
  unfold decodeView at h ⊢
  simp only at h ⊢
  split
  · rfl
  · rename_i hlen
    simp only [hlen, if_false] at h
    cases hb : (d >>> 64) % 4294967296 with
    | zero =>
      simp only [hb, List.getElem?_cons_zero] at h ⊢
      split at h
      · rename_i hle
        rw [if_pos (by simp; omega)]
        rw [List.drop_append_of_le_length (by omega), List.take_append_of_le_length (by simp; omega)]
        rw [if_pos hle]
      · simp [R.isOk, fail] at h
    | succ n =>
      simp only [hb] at h ⊢
      simp [R.isOk, fail] at h

theorem view_step {p : String} {ty : ViewTy} {v : Validity} {views : List Nat} {buf : Bytes}
    (hwf : WFB (.bytesView p ty v views buf)) (b : Bool) (d : Nat) (extra : Bytes)
    (hd : (decodeView [buf ++ extra] d).isOk = true) (hlen : (buf ++ extra).length < 2 ^ 32) :
    WFB (.bytesView p ty (v.map (· ++ [b])) (views ++ [d]) (buf ++ extra)) ∧
    dec (.bytesView p ty (v.map (· ++ [b])) (views ++ [d]) (buf ++ extra)) =
      dec (.bytesView p ty v views buf) ++ [rowOf v b (bytesVal (ty == .utf8View) (viewBytes (buf ++ extra) d))] := by
  simp only [WFB] at hwf
  obtain ⟨hv, hviews, _⟩ := hwf
  refine ⟨?_, ?_⟩
  · simp only [WFB, List.length_singleton]
    refine ⟨by rw [List.length_append]; exact hv.snoc b, ?_, hlen⟩
    intro d' hd'
    rcases List.mem_append.1 hd' with h | h
    · rw [decodeView_append_of_isOk buf extra d' (hviews d' h)]; exact hviews d' h
    · simp at h; subst h; exact hd
  · simp only [dec, List.map_append, List.map_cons, List.map_nil]
    have : views.map (fun d => bytesVal (ty == .utf8View) (viewBytes (buf ++ extra) d)) =
        views.map (fun d => bytesVal (ty == .utf8View) (viewBytes buf d)) := by
      apply List.map_congr_left
      intro d' hd'
      simp only [viewBytes]
      rw [decodeView_append_of_isOk buf extra d' (hviews d' hd')]
    rw [this]
    exact maskNull_snoc (by simpa using hv) b _

theorem view_buf_lt {p ty v views buf} (hwf : WFB (.bytesView p ty v views buf)) : buf.length < 2 ^ 32 := by
  simp only [WFB] at hwf; exact hwf.2.2

/-- a successful `push_scalar_value`: one more descriptor designating bytes of the (possibly extended) buffer; the
buffer stays below 4 GiB (an out-of-line value is refused when its length or its offset exceeds `i32::MAX`) -/
theorem viewPushValue_ok {views : List Nat} {buf value : Bytes} {r : List Nat × Bytes}
    (h : viewPushValue views buf value = .ok r) :
    ∃ d extra, r = (views ++ [d], buf ++ extra) ∧ (decodeView [buf ++ extra] d).isOk = true ∧
      (buf.length < 2 ^ 32 → (buf ++ extra).length < 2 ^ 32) ∧
      ((d = packInline value ∧ extra = [] ∧ value.length ≤ 12) ∨
       (d = packExtern value 0 buf.length ∧ extra = value ∧ 12 < value.length ∧ (buf ++ value).length < 2 ^ 32)) := by
  unfold viewPushValue at h
  split at h
  · rename_i hle
    cases h
    exact ⟨packInline value, [], by simp, decodeView_inline_isOk _ _ hle, by simp, .inl ⟨rfl, rfl, hle⟩⟩
  · rename_i hgt
    split at h
    · simp [fail] at h
    · rename_i hmax
      cases h
      have hb : (buf ++ value).length < 2 ^ 32 := by
        simp only [I32_MAX] at hmax; rw [List.length_append]; omega
      exact ⟨packExtern value 0 buf.length, value, rfl, decodeView_extern_isOk _ _, fun _ => hb,
        .inr ⟨rfl, rfl, by omega, hb⟩⟩

/-- the same for the sequence path (`start_seq` … `end_seq`) -/
theorem viewSeq_ok {views : List Nat} {buf value : Bytes} {r : List Nat × Bytes}
    (h : viewSeq views buf value = .ok r) :
    ∃ d extra, r = (views ++ [d], buf ++ extra) ∧ (decodeView [buf ++ extra] d).isOk = true ∧
      (buf.length < 2 ^ 32 → (buf ++ extra).length < 2 ^ 32) ∧
      ((d = packInline value ∧ extra = [] ∧ value.length ≤ 12) ∨
       (d = packExtern value 0 buf.length ∧ extra = value ∧ 12 < value.length ∧ (buf ++ value).length < 2 ^ 32)) := by
  unfold viewSeq at h
  split at h
  · simp [fail] at h
  · rename_i hlen
    split at h
    · rename_i hle
      cases h
      exact ⟨packInline value, [], by simp, decodeView_inline_isOk _ _ hle, by simp, .inl ⟨rfl, rfl, hle⟩⟩
    · rename_i hgt
      split at h
      · simp [fail] at h
      · rename_i hmax
        cases h
        have hb : (buf ++ value).length < 2 ^ 32 := by
          simp only [I32_MAX] at hmax hlen; rw [List.length_append]; omega
        exact ⟨packExtern value 0 buf.length, value, rfl, decodeView_extern_isOk _ _, fun _ => hb,
          .inr ⟨rfl, rfl, by omega, hb⟩⟩

/-! ### fixed-size binary -/

theorem fsb_step {p : String} {n len : Nat} {v : Validity} {buf : Bytes} {cur : Nat}
    (hwf : WFB (.fixedSizeBinary p n len v buf cur)) (b : Bool) (bs : Bytes) (hn : bs.length = n) (cur' : Nat) :
    WFB (.fixedSizeBinary p n (len + 1) (v.map (· ++ [b])) (buf ++ bs) cur') ∧
    dec (.fixedSizeBinary p n (len + 1) (v.map (· ++ [b])) (buf ++ bs) cur') =
      dec (.fixedSizeBinary p n len v buf cur) ++ [rowOf v b (.bin bs)] := by
  simp only [WFB] at hwf
  obtain ⟨hv, hbuf⟩ := hwf
  refine ⟨?_, ?_⟩
  · simp only [WFB, List.length_append]
    exact ⟨hv.snoc b, by rw [hbuf, hn, Nat.add_mul]; simp⟩
  · simp only [dec]
    rw [List.range_succ, List.map_append, List.map_cons, List.map_nil]
    rw [range_map_stable buf bs n len hbuf (fun l => LVal.bin l), chunk_append_right buf bs n len hbuf hn]
    exact maskNull_snoc (by simpa using hv) b _

/-! ### null -/

theorem null_step (p : String) (len k : Nat) :
    dec (.null p (len + k)) = dec (.null p len) ++ List.replicate k .null := by
  simp [dec, List.replicate_append_replicate]

end SaModel.Build
