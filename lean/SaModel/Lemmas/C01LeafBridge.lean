import SaModel.Build.Dec
import SaModel.Spec.Interp
/-
THE BRIDGE between the leaf semantics of the specification (`Spec/Leaf.lean`: `specLeaf`, `dictValue`, `textOf`,
`bytesOf`, `keyOf` — written from the documentation, no import of `Build/*`) and the builder model's scalar conversions
(`convLeaf`, `scalarToString`, `u8All`, `keyStr`, `tryInto`, Build/Builder.lean) — proved ONCE, for every call kind and
every data type:

  convLeaf_eq_specLeaf   kindOf dt = some k → specLeaf ext dt x = ((convLeaf ext k x).toOption).map (leafVal k)
  textOf_eq              textOf ext x = scalarToString ext x
  fits_eq                fits t v = (tryInto t v).toOption
  bytesOf_eq / keyOf_eq  bytesOf xs = (u8All xs).toOption,  keyOf k = (keyStr k).toOption
  interpScalar_eq_old    Spec.interpScalar ext dt x = normErr (interpScalarOld ext dt x)
  interpDictStr_eq_old   Spec.interpDictStr ext dt s = normErr (interpDictStrOld ext dt s)
  specBytes_eq / specKey_eq

`interpScalarOld` / `interpDictStrOld` are the definitions of the same functions THROUGH THE MODEL (`convLeaf`,
`scalarToString`, `tryInto`; what Spec/Interp.lean said before it was written over Spec/Leaf.lean), kept here because
the proofs of the refinement theorems unfold that text: they go through after one rewrite with the bridge.  `normErr` forgets which
error: the specification has ONE undefined outcome (`Spec.undefinedLeaf`), the model's conversions return messages;
no theorem observes the message of a specification error.
-/
namespace SaModel.Build
open SaModel SaModel.Spec

/-- forget which error (the specification's leaves have one undefined outcome) -/
def normErr {α} : R α → R α
  | .ok a => .ok a
  | .error _ => undefinedLeaf

@[simp] theorem normErr_ok {α} (a : α) : normErr (.ok a : R α) = .ok a := rfl
@[simp] theorem normErr_error {α} (e : Fail) : normErr (.error e : R α) = undefinedLeaf := rfl
@[simp] theorem normErr_fail {α} (m : String) : normErr (fail m : R α) = undefinedLeaf := rfl
@[simp] theorem normErr_pure {α} (a : α) : normErr (pure a : R α) = .ok a := rfl
/-- simp unfolds the one undefined outcome to the error it is -/
@[simp] theorem undefinedLeaf_eq {α} :
    (undefinedLeaf : R α) = .error (.err "the value has no representation in the column") := rfl

@[simp] theorem normErr_ok_iff {α} (r : R α) (a : α) : normErr r = .ok a ↔ r = .ok a := by
  cases r <;> simp [normErr, undefinedLeaf, fail]

@[simp] theorem normErr_isOk {α} (r : R α) : (normErr r).isOk = r.isOk := by
  cases r <;> rfl

theorem normErr_error_iff {α} (r : R α) : (∃ e, normErr r = .error e) ↔ ∃ e, r = .error e := by
  cases r <;> simp [normErr, undefinedLeaf, fail]

/-- `mapM` commutes with forgetting the error -/
theorem mapM_normErr {α β} (f : α → R β) : ∀ xs : List α, xs.mapM (fun x => normErr (f x)) = normErr (xs.mapM f)
  | [] => rfl
  | x :: xs => by
    rw [List.mapM_cons, List.mapM_cons, mapM_normErr f xs]
    cases f x <;> simp [normErr, bind, Except.bind, undefinedLeaf, fail]
    cases xs.mapM f <;> simp [pure, Except.pure]

theorem liftO_toOption {α} (r : R α) : liftO r.toOption = normErr r := by
  cases r <;> rfl

theorem liftO_toOption_map {α β} (r : R α) (f : α → β) :
    liftO (r.toOption.map f) = normErr (r >>= fun v => pure (f v)) := by
  cases r <;> rfl

theorem fits_eq (t : IntTy) (v : Int) : fits t v = (tryInto t v).toOption := by
  unfold fits tryInto IntTy.inRange
  by_cases h1 : t.min ≤ v <;> by_cases h2 : v ≤ t.max <;> simp [h1, h2, Except.toOption, fail]

theorem liftO_toOption_fits {β} (r : R Int) (t : IntTy) (f : Int → β) :
    liftO ((r.toOption.bind (fits t)).map f) = normErr (do let a ← r; let b ← tryInto t a; pure (f b)) := by
  cases r with
  | error e => rfl
  | ok a =>
    simp only [Except.toOption, Option.bind, bind, Except.bind, fits_eq]
    cases tryInto t a <;> rfl

/-- the leaf kind of a data type (moved here from Lemmas/C01Shape.lean) -/
def kindOf (dt : DataType) : Option LeafKind :=
  match dt with
  | .boolean => some .bool
  | .int8 => some (.int .i8) | .int16 => some (.int .i16) | .int32 => some (.int .i32) | .int64 => some (.int .i64)
  | .uint8 => some (.int .u8) | .uint16 => some (.int .u16) | .uint32 => some (.int .u32) | .uint64 => some (.int .u64)
  | .float16 => some .f16 | .float32 => some .f32 | .float64 => some .f64
  | .date32 => some .date32 | .date64 => some .date64
  | .time32 u => some (.time32 u) | .time64 u => some (.time64 u) | .duration u => some (.duration u)
  | .timestamp u tz => some (.timestamp u tz (match tz with | some t => t.toUpper == "UTC" | none => false))
  | .decimal128 p s => some (.decimal p s)
  | _ => none

/-! ### the definitions through the model -/

/-- `Spec.interpDictStr` defined through `Ext` and the model's `tryInto`.  `build_builder` takes ANY value type for a
`Dictionary`; the value builder receives every distinct string once, through `serialize_str`: the string types keep the
string, the temporal and decimal types store the PARSED value (`Dictionary(Int8, Date32)` holds dates), a nested
dictionary hands the string on to its own value type, every other type refuses strings. -/
def interpDictStrOld (ext : Ext) : DataType → String → R LVal
  | .utf8, s | .largeUtf8, s | .utf8View, s => .ok (.str (strBytes s))
  | .date32, s => do pure (.int (← ext.parseDate false s))
  | .date64, s => do pure (.int (← ext.parseDate true s))
  | .time32 u, s => do pure (.int (← tryInto .i32 (← ext.parseTime u s)))
  | .time64 u, s => do pure (.int (← ext.parseTime u s))
  | .timestamp u tz, s => do
    pure (.int (← ext.parseTimestamp u (match tz with | some t => t.toUpper == "UTC" | none => false) s))
  | .duration u, s => do pure (.int (← ext.parseDuration u s))
  | .decimal128 p sc, s => do pure (.int (← ext.parseDecimal p sc s))
  | .dictionary _ v, s => interpDictStrOld ext v s
  | _, _ => fail "the value type of the dictionary takes no strings"

/-- `Spec.interpScalar` defined through the model's `convLeaf` / `scalarToString` -/
def interpScalarOld (ext : Ext) (dt : DataType) (x : SVal) : R LVal :=
  let kind : Option LeafKind :=
    match dt with
    | .boolean => some .bool
    | .int8 => some (.int .i8) | .int16 => some (.int .i16) | .int32 => some (.int .i32) | .int64 => some (.int .i64)
    | .uint8 => some (.int .u8) | .uint16 => some (.int .u16) | .uint32 => some (.int .u32) | .uint64 => some (.int .u64)
    | .float16 => some .f16 | .float32 => some .f32 | .float64 => some .f64
    | .date32 => some .date32 | .date64 => some .date64
    | .time32 u => some (.time32 u) | .time64 u => some (.time64 u) | .duration u => some (.duration u)
    | .timestamp u tz => some (.timestamp u tz (match tz with | some t => t.toUpper == "UTC" | none => false))
    | .decimal128 p s => some (.decimal p s)
    | _ => none
  match kind with
  | some k => do
    let v ← convLeaf ext k x
    match k with
    | .bool => pure (.bool (v != 0))
    | .f16 | .f32 | .f64 => pure (.float v)
    | _ => pure (.int v)
  | none =>
    match dt with
    | .utf8 | .largeUtf8 | .utf8View =>
      match scalarToString ext x with
      | some s => .ok (.str (strBytes s))
      | none => fail "not a string"
    | .binary | .largeBinary | .binaryView =>
      match x with
      | .bytes b => .ok (.bin b)
      | _ => fail "not bytes"
    | .fixedSizeBinary n =>
      match x with
      | .bytes b => if (b.length : Int) = n then .ok (.bin b) else fail "wrong length"
      | _ => fail "not bytes"
    | .dictionary _ v =>
      -- the scalars a string column accepts, as strings, at the VALUE type of the dictionary
      match scalarToString ext x with
      | some s => interpDictStr ext v s   -- the CURRENT one (`interpDictStr_eq_old` relates it to the former)
      | none => fail "not a string"
    | .null =>
      match x with
      | .unitStruct _ => .ok .null
      | _ => fail "not a unit"
    | _ => fail "not representable"

/-! ### the pieces -/

theorem textOf_eq (ext : Ext) (x : SVal) : textOf ext x = scalarToString ext x := by
  cases x <;> try rfl
  case bool b => cases b <;> rfl

theorem isUtc_eq (tz : Option String) : isUtc tz = (match tz with | some t => t.toUpper == "UTC" | none => false) := by
  cases tz <;> rfl

theorem byteOf_eq : ∀ x : SVal, byteOf x = (u8Of x).toOption
  | .int _ v => by
    unfold byteOf u8Of IntTy.inRange
    by_cases h1 : 0 ≤ v <;> by_cases h2 : v ≤ 255 <;> simp [h1, h2, IntTy.min, IntTy.max, Except.toOption, fail]
  | .some v => by unfold byteOf u8Of; exact byteOf_eq v
  | .newtypeStruct _ v => by unfold byteOf u8Of; exact byteOf_eq v
  | .none | .unit | .bool _ | .f32 _ | .f64 _ | .char _ | .str _ | .bytes _ | .seq _ | .tuple _ | .tupleStruct _ _
  | .unitStruct _ | .record _ _ | .map _ | .mapRaw _ | .unitVariant _ _ _ | .newtypeVariant _ _ _ _
  | .tupleVariant _ _ _ _ | .structVariant _ _ _ _ => rfl

/-- **bytes given element by element**: the model's `U8Serializer` loop computes `Spec.bytesOf` -/
theorem bytesOf_eq : ∀ xs : SVals, bytesOf xs = (u8All xs).toOption
  | .nil => rfl
  | .cons v r => by
    unfold bytesOf u8All
    rw [byteOf_eq v, bytesOf_eq r]
    cases u8Of v <;> cases u8All r <;> rfl

/-- **map keys of a struct column**: the model's `KeyLookupSerializer` computes `Spec.keyOf` -/
theorem keyOf_eq : ∀ k : SVal, keyOf k = (keyStr k).toOption
  | .str _ => rfl
  | .some v => by unfold keyOf keyStr; exact keyOf_eq v
  | .newtypeStruct _ v => by unfold keyOf keyStr; exact keyOf_eq v
  | .none | .unit | .bool _ | .int _ _ | .f32 _ | .f64 _ | .char _ | .bytes _ | .seq _ | .tuple _ | .tupleStruct _ _
  | .unitStruct _ | .record _ _ | .map _ | .mapRaw _ | .unitVariant _ _ _ | .newtypeVariant _ _ _ _
  | .tupleVariant _ _ _ _ | .structVariant _ _ _ _ => rfl

theorem specBytes_eq (xs : SVals) : specBytes xs = normErr (u8All xs) := by
  unfold specBytes; rw [bytesOf_eq, liftO_toOption]

theorem specKey_eq (k : SVal) : specKey k = normErr (keyStr k) := by
  unfold specKey; rw [keyOf_eq, liftO_toOption]

theorem specBytes_ok_iff (xs : SVals) (b : Bytes) : specBytes xs = .ok b ↔ u8All xs = .ok b := by
  rw [specBytes_eq, normErr_ok_iff]

theorem specKey_ok_iff (k : SVal) (s : String) : specKey k = .ok s ↔ keyStr k = .ok s := by
  rw [specKey_eq, normErr_ok_iff]

/-! ### the leaf table -/

/-- **convLeaf = specLeaf**: at every column type with a primitive-array builder (`kindOf dt = some k`) and for EVERY
serde call, the specification's leaf value is what the model's `convLeaf` stores, read as a logical value (`leafVal`:
Boolean columns as bools, float columns as bit patterns, all others as integers); undefined exactly where `convLeaf`
is an error. -/
theorem convLeaf_eq_specLeaf (ext : Ext) {dt : DataType} {k : LeafKind} (hk : kindOf dt = some k) (x : SVal) :
    specLeaf ext dt x = ((convLeaf ext k x).toOption).map (leafVal k) := by
  cases dt <;> simp only [kindOf, Option.some.injEq, reduceCtorEq] at hk <;> subst hk
  case boolean => cases x <;> try rfl
                  case bool b => cases b <;> rfl
  case int8 | int16 | int32 | int64 | uint8 | uint16 | uint32 | uint64 =>
    cases x <;> try rfl
    all_goals
      simp only [specLeaf, intCell, numberOf, convLeaf, boolInt, fits_eq, bind, Option.bind, pure]
      first
        | (cases tryInto _ _ <;> rfl)
        | (rename_i b; cases b <;> simp only [if_true, if_false, Bool.false_eq_true] <;> cases tryInto _ _ <;> rfl)
  case float16 | float32 | float64 => cases x <;> rfl
  case date32 | date64 =>
    cases x <;> try rfl
    case int t v => cases t <;> (try rfl) <;> simp only [specLeaf, i32Stored, i64Stored, convLeaf, fits_eq, tryInto] <;> split <;> rfl
  case time32 u | time64 u =>
    cases x <;> try rfl
    all_goals first
      | (rename_i t v; cases t <;> (try rfl) <;> simp only [specLeaf, i32Stored, i64Stored, convLeaf, fits_eq] <;> cases tryInto _ _ <;> rfl)
      | (simp only [specLeaf, i32Stored, i64Stored, textValue, convLeaf]
         cases ext.parseTime u _ <;> try rfl
         all_goals (simp only [Except.toOption, Option.bind, bind, Except.bind, fits_eq]; cases tryInto _ _ <;> rfl))
  case timestamp u tz =>
    cases x <;> try rfl
    all_goals first
      | (rename_i t v; cases t <;> rfl)
      | (simp only [specLeaf, timestampCell, textValue, convLeaf, isUtc_eq]; cases ext.parseTimestamp u _ _ <;> rfl)
  case duration u =>
    cases x <;> try rfl
    case int t v => cases t <;> (try rfl) <;> simp only [specLeaf, durationCell, convLeaf, fits_eq] <;> (try rfl) <;> cases tryInto _ _ <;> rfl
  case decimal128 p sc => cases x <;> rfl

/-- `interpScalarOld` at a column with a primitive-array builder -/
theorem interpScalarOld_kind {ext : Ext} {dt : DataType} {k : LeafKind} (hk : kindOf dt = some k) (x : SVal) :
    interpScalarOld ext dt x = (do
      let v ← convLeaf ext k x
      pure (leafVal k v)) := by
  cases dt <;> simp [kindOf] at hk <;> subst hk <;> simp only [interpScalarOld, leafVal] <;> rfl

/-- **dictionary value types**: `Spec.dictValue` (lifted: `interpDictStr`) equals `interpDictStrOld`, the definition through `Ext` and `tryInto`, up to which error -/
theorem interpDictStr_eq_old (ext : Ext) : ∀ (dt : DataType) (s : String),
    interpDictStr ext dt s = normErr (interpDictStrOld ext dt s) := by
  intro dt s
  fun_induction interpDictStrOld ext dt s
  all_goals first
    | rfl
    | assumption
    | (simp only [interpDictStr, dictValue, textValue, isUtc_eq]
       first
         | rfl
         | exact liftO_toOption_map _ _
         | exact liftO_toOption_fits _ _ _)

/-- **interpScalar_eq_old**: the specification's leaf table (`Spec.specLeaf`, Spec/Leaf.lean) IS the former definition
through the model's conversions, up to which error — for every data type and every serde call.  This is the one place
where the two sides meet; every older proof unfolds the right-hand side. -/
theorem interpScalar_eq_old (ext : Ext) (dt : DataType) (x : SVal) :
    interpScalar ext dt x = normErr (interpScalarOld ext dt x) := by
  cases hk : kindOf dt with
  | some k => rw [interpScalarOld_kind hk, interpScalar, convLeaf_eq_specLeaf ext hk, liftO_toOption_map]
  | none =>
    cases dt <;> simp only [kindOf, reduceCtorEq] at hk
    all_goals simp only [interpScalar, specLeaf, interpScalarOld, textOf_eq]
    case utf8 | largeUtf8 | utf8View => cases scalarToString ext x <;> rfl
    case binary | largeBinary | binaryView => cases x <;> rfl
    case fixedSizeBinary n => cases x <;> try rfl
                              case bytes b => by_cases h : (b.length : Int) = n <;> simp [h, liftO, undefinedLeaf, fail]
    case dictionary kt vt =>
      cases scalarToString ext x with
      | none => rfl
      | some s => simp only [Option.bind, interpDictStr]; cases dictValue ext vt s <;> rfl
    case null => cases x <;> rfl
    all_goals rfl

theorem interpScalar_ok_iff (ext : Ext) (dt : DataType) (x : SVal) (lv : LVal) :
    interpScalar ext dt x = .ok lv ↔ interpScalarOld ext dt x = .ok lv := by
  rw [interpScalar_eq_old, normErr_ok_iff]

theorem interpScalar_isOk (ext : Ext) (dt : DataType) (x : SVal) :
    (interpScalar ext dt x).isOk = (interpScalarOld ext dt x).isOk := by
  rw [interpScalar_eq_old, normErr_isOk]

theorem interpDictStr_ok_iff (ext : Ext) (dt : DataType) (s : String) (lv : LVal) :
    interpDictStr ext dt s = .ok lv ↔ interpDictStrOld ext dt s = .ok lv := by
  rw [interpDictStr_eq_old, normErr_ok_iff]

end SaModel.Build
