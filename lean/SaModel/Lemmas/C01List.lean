import SaModel.Build.Inv
/-
List-level facts the refinement proofs (C01/C03/C10) rest on: validity masks, offset pairs, slices, and
what one more offset / one more bit / one more child row does to them.  No builder recursion here.
-/
namespace SaModel.Build
open SaModel SaModel.Spec

/-! ### outcome monad plumbing -/

theorem ctx_ok {α} (ann : List (String × String)) (r : R α) (v : α) : ctx ann r = .ok v ↔ r = .ok v := by
  cases r with
  | ok a => simp [ctx]
  | error e =>
    cases e <;> simp [ctx]
    split <;> simp

theorem bind_ok {α β} (r : R α) (f : α → R β) (v : β) :
    (r >>= f) = .ok v ↔ ∃ a, r = .ok a ∧ f a = .ok v := by
  cases r with
  | ok a => simp [bind, Except.bind]
  | error e => simp [bind, Except.bind]

/-! ### pointwise relation between two lists (core Lean has no `Forall₂`) -/

inductive All2 {α β} (R : α → β → Prop) : List α → List β → Prop
  | nil : All2 R [] []
  | cons {a b l1 l2} : R a b → All2 R l1 l2 → All2 R (a :: l1) (b :: l2)

theorem All2.append {α β} {R : α → β → Prop} : ∀ {l1 : List α} {l2 : List β} {l1' : List α} {l2' : List β},
    All2 R l1 l2 → All2 R l1' l2' → All2 R (l1 ++ l1') (l2 ++ l2')
  | [], [], _, _, _, h => h
  | _ :: _, _ :: _, _, _, .cons h t, h' => .cons h (All2.append t h')

theorem All2.length {α β} {R : α → β → Prop} : ∀ {l1 : List α} {l2 : List β}, All2 R l1 l2 → l1.length = l2.length
  | [], [], _ => rfl
  | _ :: _, _ :: _, .cons _ t => by simp [All2.length t]

theorem All2.imp {α β} {R S : α → β → Prop} (himp : ∀ a b, R a b → S a b) :
    ∀ {l1 : List α} {l2 : List β}, All2 R l1 l2 → All2 S l1 l2
  | [], [], _ => .nil
  | _ :: _, _ :: _, .cons h t => .cons (himp _ _ h) (All2.imp himp t)

/-! ### validity -/

theorem setBit_append (bits : List Bool) (value : Bool) : setBit bits bits.length value = bits ++ [value] := by
  unfold setBit
  have : ¬ bits.length < bits.length := by omega
  simp only [this, if_false]
  have : bits.length + 1 - bits.length = 1 := by omega
  rw [this]
  simp [List.replicate]

theorem VLen.none (n : Nat) : VLen none n := by intro b h; cases h

theorem setValidity_ok {v v' : Validity} {n : Nat} {b : Bool} (hv : VLen v n) (h : setValidity v n b = .ok v') :
    v' = v.map (· ++ [b]) ∧ (v = none → b = true) := by
  cases v with
  | none =>
    cases b with
    | true => simp [setValidity] at h; simp [← h]
    | false => simp [setValidity, fail] at h
  | some bits =>
    have hl : bits.length = n := hv bits rfl
    simp only [setValidity] at h
    cases h
    subst hl
    simp [setBit_append]

theorem setValidityDefault_eq {v : Validity} {n : Nat} (hv : VLen v n) :
    setValidityDefault v n = v.map (· ++ [false]) := by
  cases v with
  | none => rfl
  | some bits =>
    have hl : bits.length = n := hv bits rfl
    subst hl
    simp [setValidityDefault, setBit_append]

theorem VLen.map_append {v : Validity} {n : Nat} (hv : VLen v n) (bs : List Bool) :
    VLen (v.map (· ++ bs)) (n + bs.length) := by
  intro bits hb
  cases v with
  | none => cases hb
  | some b0 =>
    simp at hb; subst hb
    simp [hv b0 rfl]

theorem VLen.snoc {v : Validity} {n : Nat} (hv : VLen v n) (b : Bool) : VLen (v.map (· ++ [b])) (n + 1) :=
  hv.map_append [b]

theorem maskNull_length {v : Validity} {xs : List LVal} (hv : VLen v xs.length) : (maskNull v xs).length = xs.length := by
  cases v with
  | none => rfl
  | some bits => simp [maskNull, hv bits rfl]

/-- masks distribute over appended rows -/
theorem maskNull_append {v : Validity} {xs : List LVal} (hv : VLen v xs.length) (bs : List Bool) (ys : List LVal) :
    maskNull (v.map (· ++ bs)) (xs ++ ys) = maskNull v xs ++ maskNull (v.map fun _ => bs) ys := by
  cases v with
  | none => simp [maskNull]
  | some bits =>
    have hl : bits.length = xs.length := hv bits rfl
    simp only [maskNull, Option.map_some]
    rw [List.zipWith_append hl]

/-- one more row: valid ⇒ the row itself, a cleared bit ⇒ null -/
theorem maskNull_snoc {v : Validity} {xs : List LVal} (hv : VLen v xs.length) (b : Bool) (x : LVal) :
    maskNull (v.map (· ++ [b])) (xs ++ [x]) = maskNull v xs ++ [if v.isSome && !b then LVal.null else x] := by
  rw [maskNull_append hv]
  cases v with
  | none => simp [maskNull]
  | some bits => cases b <;> simp [maskNull]

theorem maskNull_snoc_true {v : Validity} {xs : List LVal} (hv : VLen v xs.length) (x : LVal) :
    maskNull (v.map (· ++ [true])) (xs ++ [x]) = maskNull v xs ++ [x] := by
  rw [maskNull_snoc hv]; simp

theorem maskNull_snoc_null {bits : List Bool} {xs : List LVal} (hv : VLen (some bits) xs.length) (x : LVal) :
    maskNull (some (bits ++ [false])) (xs ++ [x]) = maskNull (some bits) xs ++ [LVal.null] := by
  have := maskNull_snoc hv false x
  simpa using this

/-- `k` placeholder rows: nulls when there is a bitmap, the raw rows otherwise -/
theorem maskNull_defaults {v : Validity} {xs : List LVal} (hv : VLen v xs.length) (k : Nat) (ys : List LVal)
    (hy : ys.length = k) :
    maskNull (v.map (· ++ List.replicate k false)) (xs ++ ys) =
      maskNull v xs ++ (if v.isSome then List.replicate k LVal.null else ys) := by
  rw [maskNull_append hv]
  cases v with
  | none => simp [maskNull]
  | some bits =>
    simp only [maskNull, Option.map_some, Option.isSome_some, if_true]
    congr 1
    subst hy
    induction ys with
    | nil => rfl
    | cons y ys ih => simp [List.replicate_succ, ih]

/-! ### offsets -/

theorem pairs_snoc {offs : List Int} {last : Int} (h : offs.getLast? = some last) (l : Int) :
    pairs (offs ++ [l]) = pairs offs ++ [(last, l)] := by
  induction offs with
  | nil => simp at h
  | cons a t ih =>
    cases t with
    | nil => simp at h; subst h; simp [pairs]
    | cons b t' =>
      have h' : (b :: t').getLast? = some last := by simpa [List.getLast?_cons_cons] using h
      have := ih h'
      simp only [pairs, List.cons_append, List.tail_cons, List.zip_cons_cons] at this ⊢
      rw [this]

theorem pairs_length (offs : List Int) : (pairs offs).length = offs.length - 1 := by
  simp [pairs]

theorem le_getLast_of_pairwise {l : List Int} {m : Int} (hp : l.Pairwise (· ≤ ·)) (hl : l.getLast? = some m) :
    ∀ x ∈ l, x ≤ m := by
  intro x hx
  obtain ⟨ys, rfl⟩ := List.getLast?_eq_some_iff.1 hl
  rw [List.pairwise_append] at hp
  rcases List.mem_append.1 hx with hx | hx
  · exact hp.2.2 x hx m (by simp)
  · simp at hx; omega

theorem OffsOK.ne_nil {offs : List Int} {n : Nat} (h : OffsOK offs n) : offs ≠ [] := by
  intro hn; subst hn; simp [OffsOK] at h

theorem OffsOK.nonneg {offs : List Int} {n : Nat} (h : OffsOK offs n) : ∀ x ∈ offs, 0 ≤ x := by
  obtain ⟨hh, _, hp⟩ := h
  intro x hx
  cases offs with
  | nil => simp at hx
  | cons a t =>
    simp at hh; subst hh
    rcases List.mem_cons.1 hx with rfl | hx
    · omega
    · exact (List.pairwise_cons.1 hp).1 x hx

theorem OffsOK.le {offs : List Int} {n : Nat} (h : OffsOK offs n) : ∀ x ∈ offs, x ≤ (n : Int) :=
  le_getLast_of_pairwise h.2.2 h.2.1

theorem mem_pairs {offs : List Int} {se : Int × Int} (h : se ∈ pairs offs) : se.1 ∈ offs ∧ se.2 ∈ offs := by
  obtain ⟨s, e⟩ := se
  have := List.of_mem_zip h
  exact ⟨this.1, List.mem_of_mem_tail this.2⟩

/-- appending an offset `n + k` (k more child rows) keeps the offsets well formed -/
theorem OffsOK.snoc {offs : List Int} {n : Nat} (h : OffsOK offs n) (k : Nat) :
    OffsOK (offs ++ [((n + k : Nat) : Int)]) (n + k) := by
  have hne := h.ne_nil
  refine ⟨?_, by simp, ?_⟩
  · cases offs with
    | nil => exact absurd rfl hne
    | cons a t => simpa using h.1
  · rw [List.pairwise_append]
    refine ⟨h.2.2, by simp, ?_⟩
    intro a ha b hb
    simp at hb; subst hb
    have := h.le a ha
    omega

/-- the same offsets describe a longer child (the last offset is replaced) -/
theorem OffsOK.length_pos {offs : List Int} {n : Nat} (h : OffsOK offs n) : 0 < offs.length := by
  have := h.ne_nil
  cases offs with
  | nil => exact absurd rfl this
  | cons _ _ => simp

/-! ### slices -/

theorem sliceL_append_left {α} (xs ys : List α) (s e : Int) (he : e.toNat ≤ xs.length) :
    sliceL (xs ++ ys) s e = sliceL xs s e := by
  unfold sliceL
  by_cases hs : s.toNat ≤ xs.length
  · rw [List.drop_append_of_le_length hs, List.take_append_of_le_length]
    simp; omega
  · have : e.toNat - s.toNat = 0 := by omega
    simp [this]

theorem sliceL_append_right {α} (xs ys : List α) (n k : Nat) (hn : xs.length = n) (hk : ys.length = k) :
    sliceL (xs ++ ys) (n : Int) ((n + k : Nat) : Int) = ys := by
  unfold sliceL
  subst hn hk
  have : ((xs.length + ys.length : Nat) : Int).toNat - ((xs.length : Nat) : Int).toNat = ys.length := by omega
  rw [this]
  simp

/-- old rows of an offsets-based container do not see rows appended to the child -/
theorem map_pairs_stable {α β} {offs : List Int} {n : Nat} (h : OffsOK offs n) (xs ys : List α) (hx : xs.length = n)
    (f : List α → β) :
    (pairs offs).map (fun se => f (sliceL (xs ++ ys) se.1 se.2)) = (pairs offs).map (fun se => f (sliceL xs se.1 se.2)) := by
  apply List.map_congr_left
  intro se hse
  have := h.le se.2 (mem_pairs hse).2
  rw [sliceL_append_left]
  omega

/-! ### fixed-size rows -/

theorem chunk_append_left {α} (xs ys : List α) (i n len : Nat) (hx : xs.length = len * n) (hi : i < len) :
    ((xs ++ ys).drop (i * n)).take n = (xs.drop (i * n)).take n := by
  have h1 : (i + 1) * n ≤ len * n := Nat.mul_le_mul_right n hi
  have h2 : (i + 1) * n = i * n + n := by rw [Nat.add_mul]; simp
  rw [List.drop_append_of_le_length (by omega), List.take_append_of_le_length]
  simp; omega

theorem chunk_append_right {α} (xs ys : List α) (n len : Nat) (hx : xs.length = len * n) (hy : ys.length = n) :
    ((xs ++ ys).drop (len * n)).take n = ys := by
  rw [← hx, List.drop_left]
  subst hy; simp

theorem range_map_stable {α β} (xs ys : List α) (n len : Nat) (hx : xs.length = len * n) (f : List α → β) :
    (List.range len).map (fun i => f (((xs ++ ys).drop (i * n)).take n)) =
      (List.range len).map (fun i => f ((xs.drop (i * n)).take n)) := by
  apply List.map_congr_left
  intro i hi
  rw [chunk_append_left xs ys i n len hx (List.mem_range.1 hi)]

end SaModel.Build
