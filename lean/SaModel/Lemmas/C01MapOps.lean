import SaModel.Build.Push
/-
Inversion lemmas for `pushMapOps` (a raw `serialize_key` / `serialize_value` stream into a `MapBuilder`, with the
`key_pending` flag of repo fix bcc3416): what a SUCCESSFUL step says about the flag and the sub-steps.  Shared by the
mutual recursions of C01 / C03 / C10 / C16 / C18 over the serde value, so that they do not unfold the flag tests.
-/
namespace SaModel.Build
open SaModel

theorem pushMapOps_nil_ok {ext : Ext} {pd : Bool} {offs : List Int} {ks vs : B} {r : List Int × B × B}
    (h : pushMapOps ext pd offs ks vs .nil = .ok r) : pd = false ∧ r = (offs, ks, vs) := by
  cases pd
  · simp only [pushMapOps, Bool.false_eq_true, if_false] at h; cases h; exact ⟨rfl, rfl⟩
  · simp [pushMapOps, fail] at h

theorem pushMapOps_key_ok {ext : Ext} {pd : Bool} {offs : List Int} {ks vs : B} {k : SVal} {rest : SMapOps}
    {r : List Int × B × B} (h : pushMapOps ext pd offs ks vs (.key k rest) = .ok r) :
    pd = false ∧ ∃ o' ks', incrementLast true false offs 1 = .ok o' ∧ push ext ks k = .ok ks' ∧
      pushMapOps ext true o' ks' vs rest = .ok r := by
  cases pd
  · refine ⟨rfl, ?_⟩
    simp only [pushMapOps, Bool.false_eq_true, if_false] at h
    cases h1 : incrementLast true false offs 1 with
    | error e => rw [h1] at h; cases h
    | ok o' =>
      rw [h1] at h
      cases h2 : push ext ks k with
      | error e => simp only [bind, Except.bind, h2] at h; cases h
      | ok ks' => simp only [bind, Except.bind, h2] at h; exact ⟨o', ks', rfl, rfl, h⟩
  · simp [pushMapOps, fail] at h

theorem pushMapOps_value_ok {ext : Ext} {pd : Bool} {offs : List Int} {ks vs : B} {x : SVal} {rest : SMapOps}
    {r : List Int × B × B} (h : pushMapOps ext pd offs ks vs (.value x rest) = .ok r) :
    pd = true ∧ ∃ vs', push ext vs x = .ok vs' ∧ pushMapOps ext false offs ks vs' rest = .ok r := by
  cases pd
  · simp [pushMapOps, fail] at h
  · refine ⟨rfl, ?_⟩
    simp only [pushMapOps, Bool.not_true, Bool.false_eq_true, if_false] at h
    cases h2 : push ext vs x with
    | error e => simp only [bind, Except.bind, h2] at h; cases h
    | ok vs' => simp only [bind, Except.bind, h2] at h; exact ⟨vs', rfl, h⟩

/-- the three refusals, as equations (used for the panic-freedom and the error-class statements) -/
theorem pushMapOps_nil_pending (ext : Ext) (offs : List Int) (ks vs : B) :
    pushMapOps ext true offs ks vs .nil = fail "Invalid map: the last key has no value" := by
  simp [pushMapOps]

theorem pushMapOps_key_pending (ext : Ext) (offs : List Int) (ks vs : B) (k : SVal) (rest : SMapOps) :
    pushMapOps ext true offs ks vs (.key k rest) =
      fail "Invalid map: a key was serialized before the value of the previous key" := by
  simp [pushMapOps]

theorem pushMapOps_value_not_pending (ext : Ext) (offs : List Int) (ks vs : B) (x : SVal) (rest : SMapOps) :
    pushMapOps ext false offs ks vs (.value x rest) = fail "Invalid map: a value was serialized without a key" := by
  simp [pushMapOps]

end SaModel.Build
