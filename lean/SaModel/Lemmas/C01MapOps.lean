import SaModel.Build.Push
import SaModel.Spec.Interp
import SaModel.Lemmas.C01LeafBridge
/-
Inversion lemmas for `pushMapOps` (a raw `serialize_key` / `serialize_value` stream into a `MapBuilder`, with the
`key_pending` flag of repo fix eafdf15): what a SUCCESSFUL step says about the flag and the sub-steps.  Shared by the
mutual recursions of C01 / C03 / C10 / C16 / C18 over the serde value, so that they do not unfold the flag tests.
-/
namespace SaModel.Build
open SaModel SaModel.Spec

theorem pushMapOps_nil_ok {ext : Ext} {pd : Bool} {offs : List Int} {ks vs : B} {r : List Int × B × B}
    (h : pushMapOps ext pd offs ks vs .nil = .ok r) : pd = false ∧ r = (offs, ks, vs) := by
  cases pd
  · simp only [pushMapOps, Bool.false_eq_true, if_false] at h; cases h; exact ⟨rfl, rfl⟩
  · simp [pushMapOps, fail] at h

theorem pushMapOps_key_ok {ext : Ext} {pd : Bool} {offs : List Int} {ks vs : B} {k : SVal} {rest : SMapOps}
    {r : List Int × B × B} (h : pushMapOps ext pd offs ks vs (.key k rest) = .ok r) :
    pd = false ∧ ∃ o' ks', incrementLast true false offs 1 = .ok o' ∧ push ext ks k = .ok ks' ∧
      pushMapOps ext true o' ks' vs rest = .ok r := by
  cases pd
  · refine ⟨rfl, ?_⟩
    simp only [pushMapOps, Bool.false_eq_true, if_false] at h
    cases h1 : incrementLast true false offs 1 with
    | error e => rw [h1] at h; cases h
    | ok o' =>
      rw [h1] at h
      cases h2 : push ext ks k with
      | error e => simp only [bind, Except.bind, h2] at h; cases h
      | ok ks' => simp only [bind, Except.bind, h2] at h; exact ⟨o', ks', rfl, rfl, h⟩
  · simp [pushMapOps, fail] at h

theorem pushMapOps_value_ok {ext : Ext} {pd : Bool} {offs : List Int} {ks vs : B} {x : SVal} {rest : SMapOps}
    {r : List Int × B × B} (h : pushMapOps ext pd offs ks vs (.value x rest) = .ok r) :
    pd = true ∧ ∃ vs', push ext vs x = .ok vs' ∧ pushMapOps ext false offs ks vs' rest = .ok r := by
  cases pd
  · simp [pushMapOps, fail] at h
  · refine ⟨rfl, ?_⟩
    simp only [pushMapOps, Bool.not_true, Bool.false_eq_true, if_false] at h
    cases h2 : push ext vs x with
    | error e => simp only [bind, Except.bind, h2] at h; cases h
    | ok vs' => simp only [bind, Except.bind, h2] at h; exact ⟨vs', rfl, h⟩

/-- the three refusals, as equations (used for the panic-freedom and the error-class statements) -/
theorem pushMapOps_nil_pending (ext : Ext) (offs : List Int) (ks vs : B) :
    pushMapOps ext true offs ks vs .nil = fail "Invalid map: the last key has no value" := by
  simp [pushMapOps]

theorem pushMapOps_key_pending (ext : Ext) (offs : List Int) (ks vs : B) (k : SVal) (rest : SMapOps) :
    pushMapOps ext true offs ks vs (.key k rest) =
      fail "Invalid map: a key was serialized before the value of the previous key" := by
  simp [pushMapOps]

theorem pushMapOps_value_not_pending (ext : Ext) (offs : List Int) (ks vs : B) (x : SVal) (rest : SMapOps) :
    pushMapOps ext false offs ks vs (.value x rest) = fail "Invalid map: a value was serialized without a key" := by
  simp [pushMapOps]

/-- what an accepted raw stream looks like, from either state of the flag: alternating, starting with a value
exactly if a key is pending -/
theorem pushMapOps_ok_alternating (ext : Ext) : ∀ (ops : SMapOps) (pd : Bool) (offs : List Int) (ks vs : B)
    (r : List Int × B × B), pushMapOps ext pd offs ks vs ops = .ok r →
    if pd then ∃ x rest, ops = .value x rest ∧ isAlternating rest = true else isAlternating ops = true
  | .nil, pd, offs, ks, vs, r, h => by
    obtain ⟨rfl, _⟩ := pushMapOps_nil_ok h; simp [isAlternating]
  | .key k rest, pd, offs, ks, vs, r, h => by
    obtain ⟨rfl, o', ks', _, _, h⟩ := pushMapOps_key_ok h
    have := pushMapOps_ok_alternating ext rest true o' ks' vs r h
    simp only [if_true] at this
    obtain ⟨x, rest', rfl, ha⟩ := this
    simpa [isAlternating] using ha
  | .value x rest, pd, offs, ks, vs, r, h => by
    obtain ⟨rfl, vs', _, h⟩ := pushMapOps_value_ok h
    have := pushMapOps_ok_alternating ext rest false offs ks vs' r h
    simp only [Bool.false_eq_true, if_false] at this
    simp only [if_true]
    exact ⟨x, rest, rfl, this⟩

/-- a Map builder accepts a raw key/value call stream only if it alternates -/
theorem push_map_raw_ok_alternating {ext : Ext} {p : String} {mm : MapMeta} {v : Validity} {offs : List Int}
    {ks vs : B} {ops : SMapOps} {b' : B} (h : push ext (.map p mm v offs ks vs) (.mapRaw ops) = .ok b') :
    isAlternating ops = true := by
  simp only [push] at h
  have h : (do
      let v' ← setValidity v (offs.length - 1) true
      let offs' ← duplicateLast offs
      let (offs'', ks', vs') ← pushMapOps ext false offs' ks vs ops
      pure (.map p mm v' offs'' ks' vs') : R B) = .ok b' := by
    revert h
    generalize (do
      let v' ← setValidity v (offs.length - 1) true
      let offs' ← duplicateLast offs
      let (offs'', ks', vs') ← pushMapOps ext false offs' ks vs ops
      pure (.map p mm v' offs'' ks' vs') : R B) = r
    intro h
    cases r with
    | ok x => exact h
    | error e => cases e <;> simp [ctx] at h <;> (try split at h) <;> cases h
  cases h1 : setValidity v (offs.length - 1) true with
  | error e => simp only [h1, bind, Except.bind] at h; cases h
  | ok v' =>
    cases h2 : duplicateLast offs with
    | error e => simp only [h1, h2, bind, Except.bind] at h; cases h
    | ok o1 =>
      cases h3 : pushMapOps ext false o1 ks vs ops with
      | error e => simp only [h1, h2, h3, bind, Except.bind] at h; cases h
      | ok r =>
        have := pushMapOps_ok_alternating ext ops false _ _ _ _ h3
        simpa using this

end SaModel.Build
