import SaModel.Lemmas.C01Push
/-
A freshly built builder (`build_builder`) is well formed, holds no rows and is a fixed point of `take`.
-/
namespace SaModel.Build
open SaModel SaModel.Spec

theorem hasDup_false_nodup : ∀ (l : List String), hasDup l = false → l.Nodup
  | [], _ => List.nodup_nil
  | n :: ns, h => by
    simp only [hasDup, Bool.or_eq_false_iff] at h
    rw [List.nodup_cons]
    refine ⟨?_, hasDup_false_nodup ns h.2⟩
    intro hm
    have : ns.contains n = true := by simpa using hm
    rw [this] at h; exact absurd h.1 (by simp)

/-- the three facts about a fresh builder -/
def Fresh (b : B) : Prop := WFB b ∧ dec b = [] ∧ takeRest b = b

theorem VLen_new (nullable : Bool) : VLen (newValidity nullable) 0 := by
  intro bits h
  cases nullable <;> simp [newValidity] at h
  subst h; rfl

theorem map_new (nullable : Bool) : ((newValidity nullable).map fun _ => ([] : List Bool)) = newValidity nullable := by
  cases nullable <;> rfl

theorem maskNull_new (nullable : Bool) : maskNull (newValidity nullable) [] = [] := by
  cases nullable <;> rfl

theorem fresh_leaf (p : String) (k : LeafKind) (nullable : Bool) : Fresh (.leaf p k (newValidity nullable) []) :=
  ⟨by simp only [WFB]; exact VLen_new nullable, by simp [dec, maskNull_new], by simp [takeRest, map_new]⟩

theorem OffsOK_zero : OffsOK [0] 0 := ⟨rfl, rfl, by simp⟩

theorem fresh_bytes (p : String) (ty : BytesTy) (nullable : Bool) : Fresh (.bytes p ty (newValidity nullable) [0] []) :=
  ⟨by simp only [WFB]; exact ⟨OffsOK_zero, VLen_new nullable⟩, by simp [dec, pairs, maskNull_new],
    by simp [takeRest, map_new]⟩

theorem fresh_view (p : String) (ty : ViewTy) (nullable : Bool) : Fresh (.bytesView p ty (newValidity nullable) [] []) :=
  ⟨by simp only [WFB]; exact ⟨VLen_new nullable, by simp⟩, by simp [dec, maskNull_new], by simp [takeRest, map_new]⟩

theorem mkStruct_fresh {path : String} {bl : BL} {nullable : Bool} {b : B} (hwfl : WFL bl 0)
    (htr : takeRestAll bl = bl) (h : mkStruct path bl nullable = .ok b) : Fresh b := by
  unfold mkStruct at h
  split at h
  · simp [fail] at h
  · rename_i hd
    cases h
    refine ⟨?_, ?_, ?_⟩
    · simp only [WFB]
      refine ⟨VLen_new nullable, hwfl, by simp, hasDup_false_nodup _ (by simpa using hd), ?_⟩
      rw [← BL.names_length]
      exact SaModel.Props.C11Front.cacheInv_fresh _
    · simp [dec, maskNull_new]
    · simp [takeRest, map_new, htr]

theorem WFU_fresh_cons {b : B} {m : FieldMeta} {r : BL} (hb : Fresh b) (hr : WFU r (List.replicate r.length 0)) :
    WFU (.cons b m r) (List.replicate (BL.cons b m r).length 0) := by
  simp only [BL.length, List.replicate_succ, WFU, List.head?_cons, List.tail_cons]
  exact ⟨hb.1, by rw [hb.2.1]; rfl, hr⟩

mutual
theorem newDT_fresh : ∀ (dt : DataType) (path : String) (nullable : Bool) (md : Metadata) (b : B),
    newDT path dt nullable md = .ok b → Fresh b
  | .null, path, nullable, md, b, h => by
    simp only [newDT] at h
    split at h <;> cases h
    · exact ⟨by simp [WFB], by simp [dec], by simp [takeRest]⟩
    · exact ⟨by simp [WFB], by simp [dec], by simp [takeRest]⟩
  | .boolean, path, nullable, md, b, h => by simp only [newDT] at h; cases h; exact fresh_leaf _ _ _
  | .int8, path, nullable, md, b, h => by simp only [newDT] at h; cases h; exact fresh_leaf _ _ _
  | .int16, path, nullable, md, b, h => by simp only [newDT] at h; cases h; exact fresh_leaf _ _ _
  | .int32, path, nullable, md, b, h => by simp only [newDT] at h; cases h; exact fresh_leaf _ _ _
  | .int64, path, nullable, md, b, h => by simp only [newDT] at h; cases h; exact fresh_leaf _ _ _
  | .uint8, path, nullable, md, b, h => by simp only [newDT] at h; cases h; exact fresh_leaf _ _ _
  | .uint16, path, nullable, md, b, h => by simp only [newDT] at h; cases h; exact fresh_leaf _ _ _
  | .uint32, path, nullable, md, b, h => by simp only [newDT] at h; cases h; exact fresh_leaf _ _ _
  | .uint64, path, nullable, md, b, h => by simp only [newDT] at h; cases h; exact fresh_leaf _ _ _
  | .float16, path, nullable, md, b, h => by simp only [newDT] at h; cases h; exact fresh_leaf _ _ _
  | .float32, path, nullable, md, b, h => by simp only [newDT] at h; cases h; exact fresh_leaf _ _ _
  | .float64, path, nullable, md, b, h => by simp only [newDT] at h; cases h; exact fresh_leaf _ _ _
  | .date32, path, nullable, md, b, h => by simp only [newDT] at h; cases h; exact fresh_leaf _ _ _
  | .date64, path, nullable, md, b, h => by simp only [newDT] at h; cases h; exact fresh_leaf _ _ _
  | .timestamp u tz, path, nullable, md, b, h => by
    simp only [newDT] at h
    obtain ⟨utc, _, h⟩ := (bind_ok _ _ _).1 h
    cases h; exact fresh_leaf _ _ _
  | .time32 u, path, nullable, md, b, h => by
    simp only [newDT] at h
    split at h
    · cases h; exact fresh_leaf _ _ _
    · simp [ctx_ok, fail] at h
  | .time64 u, path, nullable, md, b, h => by
    simp only [newDT] at h
    split at h
    · cases h; exact fresh_leaf _ _ _
    · simp [ctx_ok, fail] at h
  | .duration u, path, nullable, md, b, h => by simp only [newDT] at h; cases h; exact fresh_leaf _ _ _
  | .decimal128 p s, path, nullable, md, b, h => by
    simp only [newDT] at h
    split at h
    · cases h; exact fresh_leaf _ _ _
    · simp [ctx_ok, fail] at h
  | .utf8, path, nullable, md, b, h => by simp only [newDT] at h; cases h; exact fresh_bytes _ _ _
  | .largeUtf8, path, nullable, md, b, h => by simp only [newDT] at h; cases h; exact fresh_bytes _ _ _
  | .binary, path, nullable, md, b, h => by simp only [newDT] at h; cases h; exact fresh_bytes _ _ _
  | .largeBinary, path, nullable, md, b, h => by simp only [newDT] at h; cases h; exact fresh_bytes _ _ _
  | .utf8View, path, nullable, md, b, h => by simp only [newDT] at h; cases h; exact fresh_view _ _ _
  | .binaryView, path, nullable, md, b, h => by simp only [newDT] at h; cases h; exact fresh_view _ _ _
  | .fixedSizeBinary n, path, nullable, md, b, h => by
    simp only [newDT] at h
    split at h
    · simp [ctx_ok, fail] at h
    · cases h
      exact ⟨by simp only [WFB]; exact ⟨VLen_new nullable, by simp⟩, by simp [dec, maskNull_new],
        by simp [takeRest, map_new]⟩
  | .list child, path, nullable, md, b, h => by
    simp only [newDT] at h
    obtain ⟨el, h1, h⟩ := (bind_ok _ _ _).1 h
    cases h
    obtain ⟨hw, hd, ht⟩ := newB_fresh child _ el h1
    exact ⟨by simp only [WFB, hd]; exact ⟨OffsOK_zero, VLen_new nullable, hw⟩, by simp [dec, pairs, maskNull_new],
      by simp [takeRest, map_new, ht]⟩
  | .largeList child, path, nullable, md, b, h => by
    simp only [newDT] at h
    obtain ⟨el, h1, h⟩ := (bind_ok _ _ _).1 h
    cases h
    obtain ⟨hw, hd, ht⟩ := newB_fresh child _ el h1
    exact ⟨by simp only [WFB, hd]; exact ⟨OffsOK_zero, VLen_new nullable, hw⟩, by simp [dec, pairs, maskNull_new],
      by simp [takeRest, map_new, ht]⟩
  | .fixedSizeList child n, path, nullable, md, b, h => by
    simp only [newDT] at h
    split at h
    · simp [ctx_ok, fail] at h
    · obtain ⟨el, h1, h⟩ := (bind_ok _ _ _).1 h
      cases h
      obtain ⟨hw, hd, ht⟩ := newB_fresh child _ el h1
      exact ⟨by simp only [WFB, hd]; exact ⟨VLen_new nullable, by simp, hw⟩, by simp [dec, maskNull_new],
        by simp [takeRest, map_new, ht]⟩
  | .map (.mk _ (.struct (.cons _ (.cons _ (.cons _ _)))) _ _) _, path, nullable, md, b, h => by simp [newDT, fail] at h
  | .map (.mk _ (.struct (.cons _ (.cons _ .nil))) true _) _, path, nullable, md, b, h => by simp [newDT, ctx_ok, fail] at h
  | .map (.mk ename (.struct (.cons kf (.cons vf .nil))) false emd) sorted, path, nullable, md, b, h => by
    simp only [newDT] at h
    obtain ⟨kb, h1, h⟩ := (bind_ok _ _ _).1 h
    obtain ⟨vb, h2, h⟩ := (bind_ok _ _ _).1 h
    cases h
    obtain ⟨hw, hd, ht⟩ := newB_fresh kf _ kb h1
    obtain ⟨hw2, hd2, ht2⟩ := newB_fresh vf _ vb h2
    exact ⟨by simp only [WFB, hd, hd2]; exact ⟨OffsOK_zero, trivial, VLen_new nullable, hw, hw2⟩,
      by simp [dec, pairs, maskNull_new], by simp [takeRest, map_new, ht, ht2]⟩
  | .map (.mk _ (.struct .nil) _ _) _, path, nullable, md, b, h => by simp [newDT, fail] at h
  | .map (.mk _ (.struct (.cons _ .nil)) _ _) _, path, nullable, md, b, h => by simp [newDT, fail] at h
  | .map (.mk _ .null _ _) _, _, _, _, _, h => by simp [newDT, fail] at h
  | .map (.mk _ .boolean _ _) _, _, _, _, _, h => by simp [newDT, fail] at h
  | .map (.mk _ .int8 _ _) _, _, _, _, _, h => by simp [newDT, fail] at h
  | .map (.mk _ .int16 _ _) _, _, _, _, _, h => by simp [newDT, fail] at h
  | .map (.mk _ .int32 _ _) _, _, _, _, _, h => by simp [newDT, fail] at h
  | .map (.mk _ .int64 _ _) _, _, _, _, _, h => by simp [newDT, fail] at h
  | .map (.mk _ .uint8 _ _) _, _, _, _, _, h => by simp [newDT, fail] at h
  | .map (.mk _ .uint16 _ _) _, _, _, _, _, h => by simp [newDT, fail] at h
  | .map (.mk _ .uint32 _ _) _, _, _, _, _, h => by simp [newDT, fail] at h
  | .map (.mk _ .uint64 _ _) _, _, _, _, _, h => by simp [newDT, fail] at h
  | .map (.mk _ .float16 _ _) _, _, _, _, _, h => by simp [newDT, fail] at h
  | .map (.mk _ .float32 _ _) _, _, _, _, _, h => by simp [newDT, fail] at h
  | .map (.mk _ .float64 _ _) _, _, _, _, _, h => by simp [newDT, fail] at h
  | .map (.mk _ .utf8 _ _) _, _, _, _, _, h => by simp [newDT, fail] at h
  | .map (.mk _ .largeUtf8 _ _) _, _, _, _, _, h => by simp [newDT, fail] at h
  | .map (.mk _ .utf8View _ _) _, _, _, _, _, h => by simp [newDT, fail] at h
  | .map (.mk _ .binary _ _) _, _, _, _, _, h => by simp [newDT, fail] at h
  | .map (.mk _ .largeBinary _ _) _, _, _, _, _, h => by simp [newDT, fail] at h
  | .map (.mk _ .binaryView _ _) _, _, _, _, _, h => by simp [newDT, fail] at h
  | .map (.mk _ (.fixedSizeBinary _) _ _) _, _, _, _, _, h => by simp [newDT, fail] at h
  | .map (.mk _ .date32 _ _) _, _, _, _, _, h => by simp [newDT, fail] at h
  | .map (.mk _ .date64 _ _) _, _, _, _, _, h => by simp [newDT, fail] at h
  | .map (.mk _ (.timestamp _ _) _ _) _, _, _, _, _, h => by simp [newDT, fail] at h
  | .map (.mk _ (.time32 _) _ _) _, _, _, _, _, h => by simp [newDT, fail] at h
  | .map (.mk _ (.time64 _) _ _) _, _, _, _, _, h => by simp [newDT, fail] at h
  | .map (.mk _ (.duration _) _ _) _, _, _, _, _, h => by simp [newDT, fail] at h
  | .map (.mk _ (.interval _) _ _) _, _, _, _, _, h => by simp [newDT, fail] at h
  | .map (.mk _ (.decimal128 _ _) _ _) _, _, _, _, _, h => by simp [newDT, fail] at h
  | .map (.mk _ (.list _) _ _) _, _, _, _, _, h => by simp [newDT, fail] at h
  | .map (.mk _ (.largeList _) _ _) _, _, _, _, _, h => by simp [newDT, fail] at h
  | .map (.mk _ (.fixedSizeList _ _) _ _) _, _, _, _, _, h => by simp [newDT, fail] at h
  | .map (.mk _ (.map _ _) _ _) _, _, _, _, _, h => by simp [newDT, fail] at h
  | .map (.mk _ (.dictionary _ _) _ _) _, _, _, _, _, h => by simp [newDT, fail] at h
  | .map (.mk _ (.runEndEncoded _ _) _ _) _, _, _, _, _, h => by simp [newDT, fail] at h
  | .map (.mk _ (.union _ _) _ _) _, _, _, _, _, h => by simp [newDT, fail] at h
  | .struct fs, path, nullable, md, b, h => by
    simp only [newDT] at h
    obtain ⟨bl, h1, h⟩ := (bind_ok _ _ _).1 h
    obtain ⟨hw, ht⟩ := newFields_fresh fs path bl h1
    exact mkStruct_fresh hw ht h
  | .dictionary k v, path, nullable, md, b, h => by
    simp only [newDT] at h
    split at h
    case isFalse => simp [ctx_ok, fail] at h
    obtain ⟨kb, h1, h⟩ := (bind_ok _ _ _).1 h
    obtain ⟨vb, h2, h⟩ := (bind_ok _ _ _).1 h
    cases h
    obtain ⟨hw, hd, ht⟩ := newDT_fresh k _ _ _ kb h1
    obtain ⟨hw2, hd2, ht2⟩ := newDT_fresh v _ _ _ vb h2
    exact ⟨by simp only [WFB, hd, hd2]; exact ⟨hw, hw2, List.nodup_nil, rfl, by simp, ⟨fun _ => by simp [hd2], fun _ => rfl⟩⟩, by simp [dec, hd],
      by simp [takeRest, ht, ht2]⟩
  | .union _ .sparse, path, nullable, md, b, h => by simp [newDT, ctx_ok, fail] at h
  | .union fs .dense, path, nullable, md, b, h => by
    simp only [newDT] at h
    obtain ⟨bl, h1, h⟩ := (bind_ok _ _ _).1 h
    cases h
    obtain ⟨hw, ht⟩ := newUnionFields_fresh fs path 0 bl h1
    exact ⟨by simp only [WFB]; exact ⟨trivial, by simp, hw, by simp⟩, by simp [dec], by simp [takeRest, ht]⟩
  | .interval _, path, nullable, md, b, h => by simp [newDT, fail] at h
  | .runEndEncoded _ _, path, nullable, md, b, h => by simp [newDT, fail] at h
theorem newB_fresh : ∀ (f : Field) (path : String) (b : B), newB path f = .ok b → Fresh b
  | .mk _ dt nullable md, path, b, h => by simp only [newB] at h; exact newDT_fresh dt path nullable md b h
theorem newFields_fresh : ∀ (fs : Fields) (path : String) (bl : BL), newFields path fs = .ok bl →
    WFL bl 0 ∧ takeRestAll bl = bl
  | .nil, path, bl, h => by simp only [newFields] at h; cases h; exact ⟨by simp [WFL], rfl⟩
  | .cons f rest, path, bl, h => by
    simp only [newFields] at h
    obtain ⟨b, h1, h⟩ := (bind_ok _ _ _).1 h
    obtain ⟨r, h2, h⟩ := (bind_ok _ _ _).1 h
    cases h
    obtain ⟨hw, hd, ht⟩ := newB_fresh f _ b h1
    obtain ⟨hw2, ht2⟩ := newFields_fresh rest path r h2
    exact ⟨by simp only [WFL]; exact ⟨hw, by rw [hd]; rfl, hw2⟩, by simp [takeRestAll, ht, ht2]⟩
theorem newUnionFields_fresh : ∀ (fs : UFields) (path : String) (idx : Nat) (bl : BL),
    newUnionFields path fs idx = .ok bl → WFU bl (List.replicate bl.length 0) ∧ takeRestAll bl = bl
  | .nil, path, idx, bl, h => by simp only [newUnionFields] at h; cases h; exact ⟨by simp [WFU], rfl⟩
  | .cons tid f rest, path, idx, bl, h => by
    simp only [newUnionFields] at h
    split at h
    · simp [ctx_ok, fail] at h
    · obtain ⟨b, h1, h⟩ := (bind_ok _ _ _).1 h
      obtain ⟨r, h2, h⟩ := (bind_ok _ _ _).1 h
      cases h
      have hb := newB_fresh f _ b h1
      obtain ⟨hw2, ht2⟩ := newUnionFields_fresh rest path (idx + 1) r h2
      exact ⟨WFU_fresh_cons hb hw2, by simp [takeRestAll, hb.2.2, ht2]⟩
end

theorem newRoot_fresh {fields : List Field} {root : B} (h : newRoot fields = .ok root) : Fresh root := by
  simp only [newRoot] at h
  obtain ⟨bl, h1, h⟩ := (bind_ok _ _ _).1 h
  obtain ⟨hw, ht⟩ := newFields_fresh _ _ bl h1
  exact mkStruct_fresh hw ht h

end SaModel.Build
