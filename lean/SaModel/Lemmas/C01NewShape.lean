import SaModel.Lemmas.C01R2
/-
`build_builder` establishes `Shape` for the data types R2 covers: everything `build_builder` accepts except dictionaries
other than `Dictionary(integer key, Utf8 | LargeUtf8)` (`build_builder` takes ANY key/value type for a dictionary —
`Dictionary(Int8, Date32)` stores parsed dates, `Dictionary(Utf8, …)` gets string keys; R1 covers those, R2 does not).
-/
namespace SaModel.Build
open SaModel SaModel.Spec

/-- the value types `DictionaryUtf8Builder` is meant for -/
def isStrDT : DataType → Bool
  | .utf8 | .largeUtf8 => true
  | _ => false

mutual
/-- data types covered by R2 -/
def covered : DataType → Bool
  | .dictionary k v => isIntDT k && isStrDT v
  | .list f | .largeList f => coveredF f
  | .fixedSizeList f _ => coveredF f
  | .map f _ => coveredF f
  | .struct fs => coveredFs fs
  | .union ufs _ => coveredU ufs
  | .runEndEncoded _ _ => false
  | _ => true
def coveredF : Field → Bool
  | .mk _ dt _ _ => covered dt
def coveredFs : Fields → Bool
  | .nil => true
  | .cons f r => coveredF f && coveredFs r
def coveredU : UFields → Bool
  | .nil => true
  | .cons _ f r => coveredF f && coveredU r
end

theorem isSome_newValidity (n : Bool) : (newValidity n).isSome = n := by cases n <;> rfl

theorem shape_leaf {p : String} {k : LeafKind} {dt : DataType} {n : Bool} {md : Metadata} (hk : kindOf dt = some k) :
    Shape (.leaf p k (newValidity n) []) dt n md := by
  simp only [Shape]; exact ⟨hk, isSome_newValidity n⟩

mutual
theorem newDT_shape : ∀ (dt : DataType) (path : String) (n : Bool) (md : Metadata) (b : B), covered dt = true →
    newDT path dt n md = .ok b → Shape b dt n md
  | .null, path, n, md, b, _, h => by
    simp only [newDT] at h
    split at h <;> cases h
    · rename_i hs; simp only [Shape, isUnknownVariant]; exact ⟨trivial, hs⟩
    · rename_i hs; simp only [Shape, isUnknownVariant]; exact ⟨trivial, by simpa using hs⟩
  | .boolean, path, n, md, b, _, h => by simp only [newDT] at h; cases h; exact shape_leaf rfl
  | .int8, path, n, md, b, _, h => by simp only [newDT] at h; cases h; exact shape_leaf rfl
  | .int16, path, n, md, b, _, h => by simp only [newDT] at h; cases h; exact shape_leaf rfl
  | .int32, path, n, md, b, _, h => by simp only [newDT] at h; cases h; exact shape_leaf rfl
  | .int64, path, n, md, b, _, h => by simp only [newDT] at h; cases h; exact shape_leaf rfl
  | .uint8, path, n, md, b, _, h => by simp only [newDT] at h; cases h; exact shape_leaf rfl
  | .uint16, path, n, md, b, _, h => by simp only [newDT] at h; cases h; exact shape_leaf rfl
  | .uint32, path, n, md, b, _, h => by simp only [newDT] at h; cases h; exact shape_leaf rfl
  | .uint64, path, n, md, b, _, h => by simp only [newDT] at h; cases h; exact shape_leaf rfl
  | .float16, path, n, md, b, _, h => by simp only [newDT] at h; cases h; exact shape_leaf rfl
  | .float32, path, n, md, b, _, h => by simp only [newDT] at h; cases h; exact shape_leaf rfl
  | .float64, path, n, md, b, _, h => by simp only [newDT] at h; cases h; exact shape_leaf rfl
  | .date32, path, n, md, b, _, h => by simp only [newDT] at h; cases h; exact shape_leaf rfl
  | .date64, path, n, md, b, _, h => by simp only [newDT] at h; cases h; exact shape_leaf rfl
  | .timestamp u tz, path, n, md, b, _, h => by
    simp only [newDT] at h
    obtain ⟨utc, hu, h⟩ := (bind_ok _ _ _).1 h
    cases h
    apply shape_leaf
    cases tz with
    | none => simp [isUtcTz] at hu; subst hu; rfl
    | some t =>
      simp only [isUtcTz] at hu
      split at hu
      · rename_i ht; cases hu; simp [kindOf, ht]
      · simp [fail] at hu
  | .time32 u, path, n, md, b, _, h => by
    simp only [newDT] at h
    split at h
    · cases h; exact shape_leaf rfl
    · simp [ctx_ok, fail] at h
  | .time64 u, path, n, md, b, _, h => by
    simp only [newDT] at h
    split at h
    · cases h; exact shape_leaf rfl
    · simp [ctx_ok, fail] at h
  | .duration u, path, n, md, b, _, h => by simp only [newDT] at h; cases h; exact shape_leaf rfl
  | .decimal128 p s, path, n, md, b, _, h => by
    simp only [newDT] at h
    split at h
    · cases h; exact shape_leaf rfl
    · simp [ctx_ok, fail] at h
  | .utf8, path, n, md, b, _, h => by
    simp only [newDT] at h; cases h; simp only [Shape]; exact ⟨rfl, isSome_newValidity n⟩
  | .largeUtf8, path, n, md, b, _, h => by
    simp only [newDT] at h; cases h; simp only [Shape]; exact ⟨rfl, isSome_newValidity n⟩
  | .binary, path, n, md, b, _, h => by
    simp only [newDT] at h; cases h; simp only [Shape]; exact ⟨rfl, isSome_newValidity n⟩
  | .largeBinary, path, n, md, b, _, h => by
    simp only [newDT] at h; cases h; simp only [Shape]; exact ⟨rfl, isSome_newValidity n⟩
  | .utf8View, path, n, md, b, _, h => by
    simp only [newDT] at h; cases h; simp only [Shape]; exact ⟨rfl, isSome_newValidity n⟩
  | .binaryView, path, n, md, b, _, h => by
    simp only [newDT] at h; cases h; simp only [Shape]; exact ⟨rfl, isSome_newValidity n⟩
  | .fixedSizeBinary k, path, n, md, b, _, h => by
    simp only [newDT] at h
    split at h
    · simp [ctx_ok, fail] at h
    · rename_i hk
      cases h
      simp only [Shape]
      exact ⟨by rw [Int.toNat_of_nonneg (by omega)], isSome_newValidity n⟩
  | .list (.mk cname cdt cn cmd), path, n, md, b, hc, h => by
    simp only [newDT] at h
    obtain ⟨el, h1, h⟩ := (bind_ok _ _ _).1 h
    cases h
    simp only [newB] at h1
    have := newDT_shape cdt _ cn cmd el (by simpa [covered, coveredF] using hc) h1
    simp only [Shape]
    exact ⟨isSome_newValidity n, cname, cdt, cn, cmd, by simp, this⟩
  | .largeList (.mk cname cdt cn cmd), path, n, md, b, hc, h => by
    simp only [newDT] at h
    obtain ⟨el, h1, h⟩ := (bind_ok _ _ _).1 h
    cases h
    simp only [newB] at h1
    have := newDT_shape cdt _ cn cmd el (by simpa [covered, coveredF] using hc) h1
    simp only [Shape]
    exact ⟨isSome_newValidity n, cname, cdt, cn, cmd, by simp, this⟩
  | .fixedSizeList (.mk cname cdt cn cmd) k, path, n, md, b, hc, h => by
    simp only [newDT] at h
    split at h
    · simp [ctx_ok, fail] at h
    · rename_i hk
      obtain ⟨el, h1, h⟩ := (bind_ok _ _ _).1 h
      cases h
      simp only [newB] at h1
      have := newDT_shape cdt _ cn cmd el (by simpa [covered, coveredF] using hc) h1
      simp only [Shape]
      exact ⟨isSome_newValidity n, cname, cdt, cn, cmd, by rw [Int.toNat_of_nonneg (by omega)], this⟩
  | .map (.mk _ (.struct (.cons _ (.cons _ (.cons _ _)))) _ _) _, _, _, _, _, _, h => by simp [newDT, fail] at h
  | .map (.mk _ (.struct (.cons _ (.cons _ .nil))) true _) _, _, _, _, _, _, h => by simp [newDT, ctx_ok, fail] at h
  | .map (.mk ename (.struct (.cons (.mk kn kdt knl kmd) (.cons (.mk vn vdt vnl vmd) .nil))) false emd) sorted, path, n, md, b, hc, h => by
    simp only [newDT] at h
    obtain ⟨kb, h1, h⟩ := (bind_ok _ _ _).1 h
    obtain ⟨vb, h2, h⟩ := (bind_ok _ _ _).1 h
    cases h
    simp only [newB] at h1 h2
    have hc' : covered kdt = true ∧ covered vdt = true ∧ coveredFs .nil = true := by
      simpa [covered, coveredF, coveredFs, Bool.and_assoc] using hc
    have hk := newDT_shape kdt _ knl kmd kb hc'.1 h1
    have hv := newDT_shape vdt _ vnl vmd vb hc'.2.1 h2
    simp only [Shape]
    exact ⟨isSome_newValidity n, ename, kn, kdt, knl, kmd, vn, vdt, vnl, vmd, .nil, false, emd, sorted, rfl, hk, hv⟩
  | .map (.mk _ (.struct .nil) _ _) _, _, _, _, _, _, h => by simp [newDT, fail] at h
  | .map (.mk _ (.struct (.cons _ .nil)) _ _) _, _, _, _, _, _, h => by simp [newDT, fail] at h
  | .map (.mk _ .null _ _) _, _, _, _, _, _, h => by simp [newDT, fail] at h
  | .map (.mk _ .boolean _ _) _, _, _, _, _, _, h => by simp [newDT, fail] at h
  | .map (.mk _ .int8 _ _) _, _, _, _, _, _, h => by simp [newDT, fail] at h
  | .map (.mk _ .int16 _ _) _, _, _, _, _, _, h => by simp [newDT, fail] at h
  | .map (.mk _ .int32 _ _) _, _, _, _, _, _, h => by simp [newDT, fail] at h
  | .map (.mk _ .int64 _ _) _, _, _, _, _, _, h => by simp [newDT, fail] at h
  | .map (.mk _ .uint8 _ _) _, _, _, _, _, _, h => by simp [newDT, fail] at h
  | .map (.mk _ .uint16 _ _) _, _, _, _, _, _, h => by simp [newDT, fail] at h
  | .map (.mk _ .uint32 _ _) _, _, _, _, _, _, h => by simp [newDT, fail] at h
  | .map (.mk _ .uint64 _ _) _, _, _, _, _, _, h => by simp [newDT, fail] at h
  | .map (.mk _ .float16 _ _) _, _, _, _, _, _, h => by simp [newDT, fail] at h
  | .map (.mk _ .float32 _ _) _, _, _, _, _, _, h => by simp [newDT, fail] at h
  | .map (.mk _ .float64 _ _) _, _, _, _, _, _, h => by simp [newDT, fail] at h
  | .map (.mk _ .utf8 _ _) _, _, _, _, _, _, h => by simp [newDT, fail] at h
  | .map (.mk _ .largeUtf8 _ _) _, _, _, _, _, _, h => by simp [newDT, fail] at h
  | .map (.mk _ .utf8View _ _) _, _, _, _, _, _, h => by simp [newDT, fail] at h
  | .map (.mk _ .binary _ _) _, _, _, _, _, _, h => by simp [newDT, fail] at h
  | .map (.mk _ .largeBinary _ _) _, _, _, _, _, _, h => by simp [newDT, fail] at h
  | .map (.mk _ .binaryView _ _) _, _, _, _, _, _, h => by simp [newDT, fail] at h
  | .map (.mk _ (.fixedSizeBinary _) _ _) _, _, _, _, _, _, h => by simp [newDT, fail] at h
  | .map (.mk _ .date32 _ _) _, _, _, _, _, _, h => by simp [newDT, fail] at h
  | .map (.mk _ .date64 _ _) _, _, _, _, _, _, h => by simp [newDT, fail] at h
  | .map (.mk _ (.timestamp _ _) _ _) _, _, _, _, _, _, h => by simp [newDT, fail] at h
  | .map (.mk _ (.time32 _) _ _) _, _, _, _, _, _, h => by simp [newDT, fail] at h
  | .map (.mk _ (.time64 _) _ _) _, _, _, _, _, _, h => by simp [newDT, fail] at h
  | .map (.mk _ (.duration _) _ _) _, _, _, _, _, _, h => by simp [newDT, fail] at h
  | .map (.mk _ (.interval _) _ _) _, _, _, _, _, _, h => by simp [newDT, fail] at h
  | .map (.mk _ (.decimal128 _ _) _ _) _, _, _, _, _, _, h => by simp [newDT, fail] at h
  | .map (.mk _ (.list _) _ _) _, _, _, _, _, _, h => by simp [newDT, fail] at h
  | .map (.mk _ (.largeList _) _ _) _, _, _, _, _, _, h => by simp [newDT, fail] at h
  | .map (.mk _ (.fixedSizeList _ _) _ _) _, _, _, _, _, _, h => by simp [newDT, fail] at h
  | .map (.mk _ (.map _ _) _ _) _, _, _, _, _, _, h => by simp [newDT, fail] at h
  | .map (.mk _ (.dictionary _ _) _ _) _, _, _, _, _, _, h => by simp [newDT, fail] at h
  | .map (.mk _ (.runEndEncoded _ _) _ _) _, _, _, _, _, _, h => by simp [newDT, fail] at h
  | .map (.mk _ (.union _ _) _ _) _, _, _, _, _, _, h => by simp [newDT, fail] at h
  | .struct fs, path, n, md, b, hc, h => by
    simp only [newDT] at h
    obtain ⟨bl, h1, h⟩ := (bind_ok _ _ _).1 h
    have hsl := newFields_shape fs path bl (by simpa [covered] using hc) h1
    unfold mkStruct at h
    split at h
    · simp [fail] at h
    · cases h
      simp only [Shape]
      exact ⟨isSome_newValidity n, fs, rfl, hsl⟩
  | .dictionary k v, path, n, md, b, hc, h => by
    simp only [newDT] at h
    split at h
    case isFalse => simp [ctx_ok, fail] at h
    obtain ⟨kb, h1, h⟩ := (bind_ok _ _ _).1 h
    obtain ⟨vb, h2, h⟩ := (bind_ok _ _ _).1 h
    cases h
    simp only [covered, Bool.and_eq_true] at hc
    simp only [Shape]
    refine ⟨⟨k, v, rfl⟩, ?_, ?_, ?_⟩
    · cases k <;> simp [isIntDT] at hc <;> (simp only [newDT] at h1; cases h1; rfl)
    · cases k <;> simp [isIntDT] at hc <;> (simp only [newDT] at h1; cases h1; exact isSome_newValidity n)
    · cases v <;> simp [isStrDT] at hc <;> (simp only [newDT] at h2; cases h2; rfl)
  | .union _ .sparse, _, _, _, _, _, h => by simp [newDT, ctx_ok, fail] at h
  | .union ufs .dense, path, n, md, b, hc, h => by
    simp only [newDT] at h
    obtain ⟨bl, h1, h⟩ := (bind_ok _ _ _).1 h
    cases h
    have := newUnionFields_shape ufs path 0 bl (by simpa [covered] using hc) h1
    simp only [Shape]
    exact ⟨ufs, .dense, rfl, this⟩
  | .interval _, _, _, _, _, _, h => by simp [newDT, fail] at h
  | .runEndEncoded _ _, _, _, _, _, _, h => by simp [newDT, fail] at h
theorem newFields_shape : ∀ (fs : Fields) (path : String) (bl : BL), coveredFs fs = true →
    newFields path fs = .ok bl → ShapeL bl fs
  | .nil, path, bl, _, h => by simp only [newFields] at h; cases h; simp [ShapeL]
  | .cons (.mk fname fdt fn fmd) rest, path, bl, hc, h => by
    simp only [newFields] at h
    obtain ⟨b, h1, h⟩ := (bind_ok _ _ _).1 h
    obtain ⟨r, h2, h⟩ := (bind_ok _ _ _).1 h
    cases h
    simp only [newB] at h1
    have hc' : covered fdt = true ∧ coveredFs rest = true := by simpa [coveredFs, coveredF] using hc
    have hb := newDT_shape fdt _ fn fmd b hc'.1 h1
    have hr := newFields_shape rest path r hc'.2 h2
    simp only [ShapeL, metaOfField]
    exact ⟨trivial, trivial, hb, hr⟩
theorem newUnionFields_shape : ∀ (ufs : UFields) (path : String) (idx : Nat) (bl : BL), coveredU ufs = true →
    newUnionFields path ufs idx = .ok bl → ShapeU bl ufs idx
  | .nil, path, idx, bl, _, h => by simp only [newUnionFields] at h; cases h; simp [ShapeU]
  | .cons tid (.mk fname fdt fn fmd) rest, path, idx, bl, hc, h => by
    simp only [newUnionFields] at h
    split at h
    · simp [ctx_ok, fail] at h
    · rename_i htid
      obtain ⟨b, h1, h⟩ := (bind_ok _ _ _).1 h
      obtain ⟨r, h2, h⟩ := (bind_ok _ _ _).1 h
      cases h
      simp only [newB] at h1
      have hc' : covered fdt = true ∧ coveredU rest = true := by simpa [coveredU, coveredF] using hc
      have hb := newDT_shape fdt _ fn fmd b hc'.1 h1
      have hr := newUnionFields_shape rest path (idx + 1) r hc'.2 h2
      simp only [ShapeU]
      exact ⟨by simpa using htid, hb, hr⟩
end

theorem coveredFs_ofList : ∀ (fields : List Field), coveredFs (Fields.ofList fields) = fields.all coveredF
  | [] => rfl
  | f :: r => by simp [Fields.ofList, coveredFs, coveredFs_ofList r]

theorem newRoot_shape {fields : List Field} {root : B} (hc : fields.all coveredF = true)
    (h : newRoot fields = .ok root) : Shape root (.struct (Fields.ofList fields)) false [] := by
  simp only [newRoot] at h
  obtain ⟨bl, h1, h⟩ := (bind_ok _ _ _).1 h
  have hsl := newFields_shape _ _ bl (by rw [coveredFs_ofList]; exact hc) h1
  unfold mkStruct at h
  split at h
  · simp [fail] at h
  · cases h
    simp only [Shape]
    exact ⟨rfl, _, rfl, hsl⟩

end SaModel.Build
