import SaModel.Lemmas.C01R2
/-
`build_builder` establishes `Shape` for the data types R2 covers.

Two decidable predicates on the schema (both TRUE of every type `build_builder` refuses — RunEndEncoded, Interval, a
dictionary whose key type is not an integer type —, so neither excludes anything by refusing it: `newDT_refusedHead`, `covered_refusedHead`):

* `coveredW` (establishes `Shape`, the hypothesis of R2: `newDT_shapeW`, `newRoot_shapeW`; the schema hypothesis of R3'
  `Props.C01.runRows_interp'` and of `Props.C05.C05_toMarrow_undefined_rejected`): everything `build_builder` accepts except
  `Dictionary(integer key, V)` with `V` a type whose builder ACCEPTS strings without being a Utf8 / LargeUtf8 builder
  (`dictValOpen`: Utf8View, the parsed kinds Date32 / Date64 / Time32 / Time64 / Timestamp / Duration / Decimal128, a
  nested Dictionary).  For every OTHER `V` (Null, Boolean, integers, floats, binary types, lists, maps, structs, unions)
  the value builder refuses `serialize_str`, every non-null push into the dictionary fails and the theorems hold there.
* `covered` ⊆ `coveredW` (the hypothesis of `Props.C01.C01_build_decode'`, of the completeness theorems and of the
  physical layer, where `into_array` must be able to append the placeholder string): dictionaries with integer keys have
  Utf8 / LargeUtf8 values.
-/
namespace SaModel.Build
open SaModel SaModel.Spec

/-- the value types `DictionaryUtf8Builder` is meant for -/
def isStrDT : DataType → Bool
  | .utf8 | .largeUtf8 => true
  | _ => false

/-- value types of a dictionary whose builder accepts `serialize_str` but which R2 does not cover: the row a
string denotes is the parsed value (or the view string), and the link "values decoded = index entries interpreted at
V" is not part of the state invariant -/
def dictValOpen : DataType → Bool
  | .utf8View | .date32 | .date64 | .time32 _ | .time64 _ | .timestamp _ _ | .duration _ | .decimal128 _ _
  | .dictionary _ _ => true
  | _ => false

mutual
/-- data types covered by the completeness theorems and the physical layer -/
def covered : DataType → Bool
  | .dictionary k v => !isIntDT k || isStrDT v
  | .list f | .largeList f => coveredF f
  | .fixedSizeList f _ => coveredF f
  | .map f _ => coveredF f
  | .struct fs => coveredFs fs
  | .union ufs _ => coveredU ufs
  | _ => true
def coveredF : Field → Bool
  | .mk _ dt _ _ => covered dt
def coveredFs : Fields → Bool
  | .nil => true
  | .cons f r => coveredF f && coveredFs r
def coveredU : UFields → Bool
  | .nil => true
  | .cons _ f r => coveredF f && coveredU r
end

mutual
/-- data types covered by R2 -/
def coveredW : DataType → Bool
  | .dictionary k v => !isIntDT k || (!dictValOpen v && coveredW v)
  | .list f | .largeList f => coveredWF f
  | .fixedSizeList f _ => coveredWF f
  | .map f _ => coveredWF f
  | .struct fs => coveredWFs fs
  | .union ufs _ => coveredWU ufs
  | _ => true
def coveredWF : Field → Bool
  | .mk _ dt _ _ => coveredW dt
def coveredWFs : Fields → Bool
  | .nil => true
  | .cons f r => coveredWF f && coveredWFs r
def coveredWU : UFields → Bool
  | .nil => true
  | .cons _ f r => coveredWF f && coveredWU r
end

mutual
theorem coveredW_of_covered : ∀ (dt : DataType), covered dt = true → coveredW dt = true
  | .dictionary k v, h => by
    simp only [covered, Bool.or_eq_true, Bool.not_eq_true'] at h
    simp only [coveredW, Bool.or_eq_true, Bool.not_eq_true', Bool.and_eq_true]
    rcases h with h | h
    · exact Or.inl h
    · right; cases v <;> simp [isStrDT] at h <;> exact ⟨rfl, rfl⟩
  | .list f, h => by simp only [covered] at h; simp only [coveredW]; exact coveredWF_of_coveredF f h
  | .largeList f, h => by simp only [covered] at h; simp only [coveredW]; exact coveredWF_of_coveredF f h
  | .fixedSizeList f _, h => by simp only [covered] at h; simp only [coveredW]; exact coveredWF_of_coveredF f h
  | .map f _, h => by simp only [covered] at h; simp only [coveredW]; exact coveredWF_of_coveredF f h
  | .struct fs, h => by simp only [covered] at h; simp only [coveredW]; exact coveredWFs_of_coveredFs fs h
  | .union ufs _, h => by simp only [covered] at h; simp only [coveredW]; exact coveredWU_of_coveredU ufs h
  | .null, _ | .boolean, _ | .int8, _ | .int16, _ | .int32, _ | .int64, _ | .uint8, _ | .uint16, _ | .uint32, _
  | .uint64, _ | .float16, _ | .float32, _ | .float64, _ | .utf8, _ | .largeUtf8, _ | .utf8View, _ | .binary, _
  | .largeBinary, _ | .binaryView, _ | .fixedSizeBinary _, _ | .date32, _ | .date64, _ | .timestamp _ _, _
  | .time32 _, _ | .time64 _, _ | .duration _, _ | .interval _, _ | .decimal128 _ _, _ | .runEndEncoded _ _, _ => rfl
theorem coveredWF_of_coveredF : ∀ (f : Field), coveredF f = true → coveredWF f = true
  | .mk _ dt _ _, h => by simp only [coveredF] at h; simp only [coveredWF]; exact coveredW_of_covered dt h
theorem coveredWFs_of_coveredFs : ∀ (fs : Fields), coveredFs fs = true → coveredWFs fs = true
  | .nil, _ => rfl
  | .cons f r, h => by
    simp only [coveredFs, Bool.and_eq_true] at h
    simp only [coveredWFs, Bool.and_eq_true]
    exact ⟨coveredWF_of_coveredF f h.1, coveredWFs_of_coveredFs r h.2⟩
theorem coveredWU_of_coveredU : ∀ (ufs : UFields), coveredU ufs = true → coveredWU ufs = true
  | .nil, _ => rfl
  | .cons _ f r, h => by
    simp only [coveredU, Bool.and_eq_true] at h
    simp only [coveredWU, Bool.and_eq_true]
    exact ⟨coveredWF_of_coveredF f h.1, coveredWU_of_coveredU r h.2⟩
end

theorem all_coveredWF_of_coveredF {fields : List Field} (h : fields.all coveredF = true) : fields.all coveredWF = true := by
  simp only [List.all_eq_true] at h ⊢
  exact fun f hf => coveredWF_of_coveredF f (h f hf)

/-- the builder of a value type outside `dictValOpen` is a Utf8 / LargeUtf8 builder or refuses strings -/
theorem dictVal_of_shape {b : B} {v : DataType} {n : Bool} {md : Metadata} (hs : Shape b v n md)
    (ho : dictValOpen v = false) : b.isUtf8B = true ∨ b.refusesStr = true := by
  cases b with
  | null _ _ => exact Or.inr rfl
  | unknownVariant _ => exact Or.inr rfl
  | leaf p k vl xs =>
    simp only [Shape] at hs
    obtain ⟨hk, _⟩ := hs
    right
    cases v <;> simp [kindOf] at hk <;> subst hk <;> simp [dictValOpen] at ho <;> rfl
  | bytes p ty vl offs data =>
    simp only [Shape] at hs
    obtain ⟨rfl, _⟩ := hs
    cases ty
    · exact Or.inl rfl
    · exact Or.inl rfl
    · exact Or.inr rfl
    · exact Or.inr rfl
  | bytesView p ty vl views buf =>
    simp only [Shape] at hs
    obtain ⟨rfl, _⟩ := hs
    cases ty
    · simp [viewDT, dictValOpen] at ho
    · exact Or.inr rfl
  | fixedSizeBinary _ _ _ _ _ _ => exact Or.inr rfl
  | list _ _ _ _ _ _ => exact Or.inr rfl
  | fixedSizeList _ _ _ _ _ _ _ => exact Or.inr rfl
  | map _ _ _ _ _ _ => exact Or.inr rfl
  | struct _ _ _ _ _ _ _ => exact Or.inr rfl
  | dictionary _ _ _ _ =>
    simp only [Shape] at hs
    obtain ⟨⟨_, _, rfl, _⟩, _⟩ := hs
    simp [dictValOpen] at ho
  | union _ _ _ _ _ => exact Or.inr rfl

theorem isSome_newValidity (n : Bool) : (newValidity n).isSome = n := by cases n <;> rfl

theorem shape_leaf {p : String} {k : LeafKind} {dt : DataType} {n : Bool} {md : Metadata} (hk : kindOf dt = some k) :
    Shape (.leaf p k (newValidity n) []) dt n md := by
  simp only [Shape]; exact ⟨hk, isSome_newValidity n⟩

mutual
theorem newDT_shapeW : ∀ (dt : DataType) (path : String) (n : Bool) (md : Metadata) (b : B), coveredW dt = true →
    newDT path dt n md = .ok b → Shape b dt n md
  | .null, path, n, md, b, _, h => by
    simp only [newDT] at h
    split at h <;> cases h
    · rename_i hs; simp only [Shape, isUnknownVariant]; exact ⟨trivial, hs⟩
    · rename_i hs; simp only [Shape, isUnknownVariant]; exact ⟨trivial, by simpa using hs⟩
  | .boolean, path, n, md, b, _, h => by simp only [newDT] at h; cases h; exact shape_leaf rfl
  | .int8, path, n, md, b, _, h => by simp only [newDT] at h; cases h; exact shape_leaf rfl
  | .int16, path, n, md, b, _, h => by simp only [newDT] at h; cases h; exact shape_leaf rfl
  | .int32, path, n, md, b, _, h => by simp only [newDT] at h; cases h; exact shape_leaf rfl
  | .int64, path, n, md, b, _, h => by simp only [newDT] at h; cases h; exact shape_leaf rfl
  | .uint8, path, n, md, b, _, h => by simp only [newDT] at h; cases h; exact shape_leaf rfl
  | .uint16, path, n, md, b, _, h => by simp only [newDT] at h; cases h; exact shape_leaf rfl
  | .uint32, path, n, md, b, _, h => by simp only [newDT] at h; cases h; exact shape_leaf rfl
  | .uint64, path, n, md, b, _, h => by simp only [newDT] at h; cases h; exact shape_leaf rfl
  | .float16, path, n, md, b, _, h => by simp only [newDT] at h; cases h; exact shape_leaf rfl
  | .float32, path, n, md, b, _, h => by simp only [newDT] at h; cases h; exact shape_leaf rfl
  | .float64, path, n, md, b, _, h => by simp only [newDT] at h; cases h; exact shape_leaf rfl
  | .date32, path, n, md, b, _, h => by simp only [newDT] at h; cases h; exact shape_leaf rfl
  | .date64, path, n, md, b, _, h => by simp only [newDT] at h; cases h; exact shape_leaf rfl
  | .timestamp u tz, path, n, md, b, _, h => by
    simp only [newDT] at h
    obtain ⟨utc, hu, h⟩ := (bind_ok _ _ _).1 h
    cases h
    apply shape_leaf
    cases tz with
    | none => simp [isUtcTz] at hu; subst hu; rfl
    | some t =>
      simp only [isUtcTz] at hu
      split at hu
      · rename_i ht; cases hu; simp [kindOf, ht]
      · simp [fail] at hu
  | .time32 u, path, n, md, b, _, h => by
    simp only [newDT] at h
    split at h
    · cases h; exact shape_leaf rfl
    · simp [ctx_ok, fail] at h
  | .time64 u, path, n, md, b, _, h => by
    simp only [newDT] at h
    split at h
    · cases h; exact shape_leaf rfl
    · simp [ctx_ok, fail] at h
  | .duration u, path, n, md, b, _, h => by simp only [newDT] at h; cases h; exact shape_leaf rfl
  | .decimal128 p s, path, n, md, b, _, h => by
    simp only [newDT] at h
    split at h
    · cases h; exact shape_leaf rfl
    · simp [ctx_ok, fail] at h
  | .utf8, path, n, md, b, _, h => by
    simp only [newDT] at h; cases h; simp only [Shape]; exact ⟨rfl, isSome_newValidity n⟩
  | .largeUtf8, path, n, md, b, _, h => by
    simp only [newDT] at h; cases h; simp only [Shape]; exact ⟨rfl, isSome_newValidity n⟩
  | .binary, path, n, md, b, _, h => by
    simp only [newDT] at h; cases h; simp only [Shape]; exact ⟨rfl, isSome_newValidity n⟩
  | .largeBinary, path, n, md, b, _, h => by
    simp only [newDT] at h; cases h; simp only [Shape]; exact ⟨rfl, isSome_newValidity n⟩
  | .utf8View, path, n, md, b, _, h => by
    simp only [newDT] at h; cases h; simp only [Shape]; exact ⟨rfl, isSome_newValidity n⟩
  | .binaryView, path, n, md, b, _, h => by
    simp only [newDT] at h; cases h; simp only [Shape]; exact ⟨rfl, isSome_newValidity n⟩
  | .fixedSizeBinary k, path, n, md, b, _, h => by
    simp only [newDT] at h
    split at h
    · simp [ctx_ok, fail] at h
    · rename_i hk
      cases h
      simp only [Shape]
      exact ⟨by rw [Int.toNat_of_nonneg (by omega)], isSome_newValidity n⟩
  | .list (.mk cname cdt cn cmd), path, n, md, b, hc, h => by
    simp only [newDT] at h
    obtain ⟨el, h1, h⟩ := (bind_ok _ _ _).1 h
    cases h
    simp only [newB] at h1
    have := newDT_shapeW cdt _ cn cmd el (by simpa [coveredW, coveredWF] using hc) h1
    simp only [Shape]
    exact ⟨isSome_newValidity n, cname, cdt, cn, cmd, by simp, this⟩
  | .largeList (.mk cname cdt cn cmd), path, n, md, b, hc, h => by
    simp only [newDT] at h
    obtain ⟨el, h1, h⟩ := (bind_ok _ _ _).1 h
    cases h
    simp only [newB] at h1
    have := newDT_shapeW cdt _ cn cmd el (by simpa [coveredW, coveredWF] using hc) h1
    simp only [Shape]
    exact ⟨isSome_newValidity n, cname, cdt, cn, cmd, by simp, this⟩
  | .fixedSizeList (.mk cname cdt cn cmd) k, path, n, md, b, hc, h => by
    simp only [newDT] at h
    split at h
    · simp [ctx_ok, fail] at h
    · rename_i hk
      obtain ⟨el, h1, h⟩ := (bind_ok _ _ _).1 h
      cases h
      simp only [newB] at h1
      have := newDT_shapeW cdt _ cn cmd el (by simpa [coveredW, coveredWF] using hc) h1
      simp only [Shape]
      exact ⟨isSome_newValidity n, cname, cdt, cn, cmd, by rw [Int.toNat_of_nonneg (by omega)], this⟩
  | .map (.mk _ (.struct (.cons _ (.cons _ (.cons _ _)))) _ _) _, _, _, _, _, _, h => by simp [newDT, fail] at h
  | .map (.mk _ (.struct (.cons _ (.cons _ .nil))) true _) _, _, _, _, _, _, h => by simp [newDT, ctx_ok, fail] at h
  | .map (.mk ename (.struct (.cons (.mk kn kdt knl kmd) (.cons (.mk vn vdt vnl vmd) .nil))) false emd) sorted, path, n, md, b, hc, h => by
    simp only [newDT] at h
    obtain ⟨kb, h1, h⟩ := (bind_ok _ _ _).1 h
    obtain ⟨vb, h2, h⟩ := (bind_ok _ _ _).1 h
    cases h
    simp only [newB] at h1 h2
    have hc' : coveredW kdt = true ∧ coveredW vdt = true ∧ coveredWFs .nil = true := by
      simpa [coveredW, coveredWF, coveredWFs, Bool.and_assoc] using hc
    have hk := newDT_shapeW kdt _ knl kmd kb hc'.1 h1
    have hv := newDT_shapeW vdt _ vnl vmd vb hc'.2.1 h2
    simp only [Shape]
    exact ⟨isSome_newValidity n, ename, kn, kdt, knl, kmd, vn, vdt, vnl, vmd, .nil, false, emd, sorted, rfl, hk, hv⟩
  | .map (.mk _ (.struct .nil) _ _) _, _, _, _, _, _, h => by simp [newDT, fail] at h
  | .map (.mk _ (.struct (.cons _ .nil)) _ _) _, _, _, _, _, _, h => by simp [newDT, fail] at h
  | .map (.mk _ .null _ _) _, _, _, _, _, _, h => by simp [newDT, fail] at h
  | .map (.mk _ .boolean _ _) _, _, _, _, _, _, h => by simp [newDT, fail] at h
  | .map (.mk _ .int8 _ _) _, _, _, _, _, _, h => by simp [newDT, fail] at h
  | .map (.mk _ .int16 _ _) _, _, _, _, _, _, h => by simp [newDT, fail] at h
  | .map (.mk _ .int32 _ _) _, _, _, _, _, _, h => by simp [newDT, fail] at h
  | .map (.mk _ .int64 _ _) _, _, _, _, _, _, h => by simp [newDT, fail] at h
  | .map (.mk _ .uint8 _ _) _, _, _, _, _, _, h => by simp [newDT, fail] at h
  | .map (.mk _ .uint16 _ _) _, _, _, _, _, _, h => by simp [newDT, fail] at h
  | .map (.mk _ .uint32 _ _) _, _, _, _, _, _, h => by simp [newDT, fail] at h
  | .map (.mk _ .uint64 _ _) _, _, _, _, _, _, h => by simp [newDT, fail] at h
  | .map (.mk _ .float16 _ _) _, _, _, _, _, _, h => by simp [newDT, fail] at h
  | .map (.mk _ .float32 _ _) _, _, _, _, _, _, h => by simp [newDT, fail] at h
  | .map (.mk _ .float64 _ _) _, _, _, _, _, _, h => by simp [newDT, fail] at h
  | .map (.mk _ .utf8 _ _) _, _, _, _, _, _, h => by simp [newDT, fail] at h
  | .map (.mk _ .largeUtf8 _ _) _, _, _, _, _, _, h => by simp [newDT, fail] at h
  | .map (.mk _ .utf8View _ _) _, _, _, _, _, _, h => by simp [newDT, fail] at h
  | .map (.mk _ .binary _ _) _, _, _, _, _, _, h => by simp [newDT, fail] at h
  | .map (.mk _ .largeBinary _ _) _, _, _, _, _, _, h => by simp [newDT, fail] at h
  | .map (.mk _ .binaryView _ _) _, _, _, _, _, _, h => by simp [newDT, fail] at h
  | .map (.mk _ (.fixedSizeBinary _) _ _) _, _, _, _, _, _, h => by simp [newDT, fail] at h
  | .map (.mk _ .date32 _ _) _, _, _, _, _, _, h => by simp [newDT, fail] at h
  | .map (.mk _ .date64 _ _) _, _, _, _, _, _, h => by simp [newDT, fail] at h
  | .map (.mk _ (.timestamp _ _) _ _) _, _, _, _, _, _, h => by simp [newDT, fail] at h
  | .map (.mk _ (.time32 _) _ _) _, _, _, _, _, _, h => by simp [newDT, fail] at h
  | .map (.mk _ (.time64 _) _ _) _, _, _, _, _, _, h => by simp [newDT, fail] at h
  | .map (.mk _ (.duration _) _ _) _, _, _, _, _, _, h => by simp [newDT, fail] at h
  | .map (.mk _ (.interval _) _ _) _, _, _, _, _, _, h => by simp [newDT, fail] at h
  | .map (.mk _ (.decimal128 _ _) _ _) _, _, _, _, _, _, h => by simp [newDT, fail] at h
  | .map (.mk _ (.list _) _ _) _, _, _, _, _, _, h => by simp [newDT, fail] at h
  | .map (.mk _ (.largeList _) _ _) _, _, _, _, _, _, h => by simp [newDT, fail] at h
  | .map (.mk _ (.fixedSizeList _ _) _ _) _, _, _, _, _, _, h => by simp [newDT, fail] at h
  | .map (.mk _ (.map _ _) _ _) _, _, _, _, _, _, h => by simp [newDT, fail] at h
  | .map (.mk _ (.dictionary _ _) _ _) _, _, _, _, _, _, h => by simp [newDT, fail] at h
  | .map (.mk _ (.runEndEncoded _ _) _ _) _, _, _, _, _, _, h => by simp [newDT, fail] at h
  | .map (.mk _ (.union _ _) _ _) _, _, _, _, _, _, h => by simp [newDT, fail] at h
  | .struct fs, path, n, md, b, hc, h => by
    simp only [newDT] at h
    obtain ⟨bl, h1, h⟩ := (bind_ok _ _ _).1 h
    have hsl := newFields_shapeW fs path bl (by simpa [coveredW] using hc) h1
    unfold mkStruct at h
    split at h
    · simp [fail] at h
    · cases h
      simp only [Shape]
      exact ⟨isSome_newValidity n, fs, rfl, hsl⟩
  | .dictionary k v, path, n, md, b, hc, h => by
    simp only [newDT] at h
    split at h
    case isFalse => simp [ctx_ok, fail] at h
    rename_i hik
    obtain ⟨kb, h1, h⟩ := (bind_ok _ _ _).1 h
    obtain ⟨vb, h2, h⟩ := (bind_ok _ _ _).1 h
    cases h
    simp only [coveredW, hik, Bool.not_true, Bool.false_or, Bool.and_eq_true, Bool.not_eq_true'] at hc
    have hsv := newDT_shapeW v _ false [] vb hc.2 h2
    simp only [Shape]
    refine ⟨⟨k, v, rfl, hsv⟩, ?_, ?_, dictVal_of_shape hsv hc.1⟩
    · cases k <;> simp [isIntDT] at hik <;> (simp only [newDT] at h1; cases h1; rfl)
    · cases k <;> simp [isIntDT] at hik <;> (simp only [newDT] at h1; cases h1; exact isSome_newValidity n)
  | .union _ .sparse, _, _, _, _, _, h => by simp [newDT, ctx_ok, fail] at h
  | .union ufs .dense, path, n, md, b, hc, h => by
    simp only [newDT] at h
    obtain ⟨bl, h1, h⟩ := (bind_ok _ _ _).1 h
    cases h
    have := newUnionFields_shapeW ufs path 0 bl (by simpa [coveredW] using hc) h1
    simp only [Shape]
    exact ⟨ufs, .dense, rfl, this⟩
  | .interval _, _, _, _, _, _, h => by simp [newDT, fail] at h
  | .runEndEncoded _ _, _, _, _, _, _, h => by simp [newDT, fail] at h
theorem newFields_shapeW : ∀ (fs : Fields) (path : String) (bl : BL), coveredWFs fs = true →
    newFields path fs = .ok bl → ShapeL bl fs
  | .nil, path, bl, _, h => by simp only [newFields] at h; cases h; simp [ShapeL]
  | .cons (.mk fname fdt fn fmd) rest, path, bl, hc, h => by
    simp only [newFields] at h
    obtain ⟨b, h1, h⟩ := (bind_ok _ _ _).1 h
    obtain ⟨r, h2, h⟩ := (bind_ok _ _ _).1 h
    cases h
    simp only [newB] at h1
    have hc' : coveredW fdt = true ∧ coveredWFs rest = true := by simpa [coveredWFs, coveredWF] using hc
    have hb := newDT_shapeW fdt _ fn fmd b hc'.1 h1
    have hr := newFields_shapeW rest path r hc'.2 h2
    simp only [ShapeL, metaOfField]
    exact ⟨trivial, trivial, hb, hr⟩
theorem newUnionFields_shapeW : ∀ (ufs : UFields) (path : String) (idx : Nat) (bl : BL), coveredWU ufs = true →
    newUnionFields path ufs idx = .ok bl → ShapeU bl ufs idx
  | .nil, path, idx, bl, _, h => by simp only [newUnionFields] at h; cases h; simp [ShapeU]
  | .cons tid (.mk fname fdt fn fmd) rest, path, idx, bl, hc, h => by
    simp only [newUnionFields] at h
    split at h
    · simp [ctx_ok, fail] at h
    · rename_i htid
      obtain ⟨b, h1, h⟩ := (bind_ok _ _ _).1 h
      obtain ⟨r, h2, h⟩ := (bind_ok _ _ _).1 h
      cases h
      simp only [newB] at h1
      have hc' : coveredW fdt = true ∧ coveredWU rest = true := by simpa [coveredWU, coveredWF] using hc
      have hb := newDT_shapeW fdt _ fn fmd b hc'.1 h1
      have hr := newUnionFields_shapeW rest path (idx + 1) r hc'.2 h2
      simp only [ShapeU]
      exact ⟨by simpa using htid, hb, hr⟩
end

theorem coveredFs_ofList : ∀ (fields : List Field), coveredFs (Fields.ofList fields) = fields.all coveredF
  | [] => rfl
  | f :: r => by simp [Fields.ofList, coveredFs, coveredFs_ofList r]

theorem coveredWFs_ofList : ∀ (fields : List Field), coveredWFs (Fields.ofList fields) = fields.all coveredWF
  | [] => rfl
  | f :: r => by simp [Fields.ofList, coveredWFs, coveredWFs_ofList r]

theorem newRoot_shapeW {fields : List Field} {root : B} (hc : fields.all coveredWF = true)
    (h : newRoot fields = .ok root) : Shape root (.struct (Fields.ofList fields)) false [] := by
  simp only [newRoot] at h
  obtain ⟨bl, h1, h⟩ := (bind_ok _ _ _).1 h
  have hsl := newFields_shapeW _ _ bl (by rw [coveredWFs_ofList]; exact hc) h1
  unfold mkStruct at h
  split at h
  · simp [fail] at h
  · cases h
    simp only [Shape]
    exact ⟨rfl, _, rfl, hsl⟩

/-! ### neither predicate excludes a type by refusing it -/

/-- the data types `build_builder` refuses at their head: RunEndEncoded, Interval, a dictionary whose key type is not an
integer type (repo fix 7359431) -/
def refusedHead : DataType → Bool
  | .runEndEncoded _ _ | .interval _ => true
  | .dictionary k _ => !isIntDT k
  | _ => false

theorem newDT_refusedHead {dt : DataType} (hr : refusedHead dt = true) (path : String) (n : Bool) (md : Metadata) (b : B) :
    newDT path dt n md ≠ .ok b := by
  intro h
  cases dt <;> simp [refusedHead] at hr
  · simp [newDT, fail] at h
  · rename_i k v
    simp only [newDT, hr] at h
    simp [ctx_ok, fail] at h
  · simp [newDT, fail] at h

/-- `covered` / `coveredW` are TRUE of every type `build_builder` refuses at its head: the theorems that carry them hold
there because `to_marrow` fails at construction, not because the predicate excludes the type -/
theorem covered_refusedHead {dt : DataType} (hr : refusedHead dt = true) : covered dt = true ∧ coveredW dt = true := by
  cases dt <;> simp [refusedHead] at hr <;> simp [covered, coveredW, hr]

/-! the statements with the stronger predicate `covered` (what the completeness theorems and the physical layer carry) -/

theorem newDT_shape (dt : DataType) (path : String) (n : Bool) (md : Metadata) (b : B) (hc : covered dt = true)
    (h : newDT path dt n md = .ok b) : Shape b dt n md :=
  newDT_shapeW dt path n md b (coveredW_of_covered dt hc) h

theorem newRoot_shape {fields : List Field} {root : B} (hc : fields.all coveredF = true)
    (h : newRoot fields = .ok root) : Shape root (.struct (Fields.ofList fields)) false [] :=
  newRoot_shapeW (all_coveredWF_of_coveredF hc) h

end SaModel.Build
